import LenaModel.Model.NArr
import LenaModel.Model.C06
import LenaModel.Model.C14
/-! # C11 model — `SplitIntoBins`, `IterateBins`, `MapBins` (`lena/structures/split_into_bins.py`)

Transcription of
* `_MdSeqMap` (split_into_bins.py:16-37) — `mdMapE`, `nextAt`, `zipRounds`, `mdSeqMapRun`,
* `SplitIntoBins.__init__` (276-333) — `SIB.new`; `fill` (335-363) — `fillWalk`, `SIB.fill`, `SIB.fillAll`;
  `compute` (365-405) — `SIB.compute`,
* `IterateBins.run` (79-131) — `binContext`, `iterateBinsOne`, `iterateBinsRun`,
* `MapBins.run` (201-270) — `mapBinsOne`, `mapBinsRun`; with the constructor argument `get_example_bin` —
  `mapBinsOneG`, `mapBinsRunG`, `lastOfArray`,
* `lena.flow.Selector.__init__/__call__`, `And`, `Or` (flow/selectors.py:13-110, 205-266) and
  `lena.context.contains` (context/functions.py:14-63) for the forms of `select_bins` — `SelAtom`, `SelForm`,
  `containsV`,
* `lena.structures.histogram.__init__` with given bins (histogram.py:117-165, after fix 8d715e5) — `mkHistogram`,
* `get_example_bin`, `iter_bins_with_edges`, `cell_to_string` (hist_functions.py:282-296, 474-507, 28-68),
* `lena.context.update_nested` (context/functions.py:538-598) — `nestInto`, `updateNested`.

Re-used transcriptions: `get_bin_on_value`, `check_edges_increasing`, `init_bins` from `Model/C06.lean`;
`md_map`, `get_bin_on_index`, `itertools.product` from `Model/NArr.lean`; `Variable._update_context`,
`get_data_context` and the value type `V` (contexts as slot vectors over the key alphabet `names` of the
case) from `Model/C14.lean`.

## Modelling decisions

* **The analysis is a parameter.**  `SplitIntoBins` deep-copies an arbitrary `FillComputeSeq` into every
  cell.  An `Analysis σ D ρ ε` is such a sequence seen from outside: a state `σ`, `fill : σ → value → σ` or
  an exception `ε`, and `compute : σ → Trace ρ ε`.  A **trace** is what a Python generator does when it is
  exhausted: the values it yields, then `StopIteration` (`fin = none`) or an exception (`fin = some e`).
  All theorems quantify over all analyses; the driver instantiates `σ` with the concrete little language of
  `Model/C11Conc.lean` (pre-elements, accumulator, post-elements), which the harness mirrors with real
  Python elements.
* **Generators in lockstep.**  `_MdSeqMap.next` applies `next` to the cells' generators in cell order;
  before round `j` every generator has been advanced exactly `j` times, so round `j` is
  `md_map(t ↦ t[j])` (`nextAt j`) and the first cell (in `md_map` order) that cannot deliver decides whether the
  round ends the iteration (`StopIteration`) or raises.
* **Copies.**  `copy.deepcopy` is the identity on values; that the cells share nothing is expressed by
  `fillWalk` changing one cell only.  In-place mutation of a value's context by the inner analysis is
  invisible in a value model (DESIGN.md section 8); the harness tests it with mutating pre-elements.
* **Exceptions** are explicit: `Exc ε` = the classes raised by the transcribed code plus `inner e` for an
  exception `e : ε` of the analysis / the user's getter.  `unmodelled` marks inputs outside the modelled
  domain (irregular bins, a zero-cell array for which Python would loop for ever, …).
* The floating-point interpolation guess of `get_bin_on_value_1d` is the parameter `guess` (see `Model/C06`).

No imports except `LenaModel.Model.*`: executed by `drivers/C11.lean`. -/

namespace Lena.C11

open Lena
open Lena.C06 (Edges Coord)
open Lena.C14 (V Slots Value getSlot setSlot emptyD key)

/-! ## exceptions, traces -/

/-- exception classes that the transcribed code raises, and `inner e` for an exception of user code -/
inductive Exc (ε : Type) where
  | lenaTypeError
  | lenaValueError
  | lenaIndexError
  | lenaAttributeError
  | indexError        -- builtin IndexError
  | typeError         -- builtin TypeError
  | keyError          -- builtin KeyError
  | assertionError    -- a failed `assert`
  | unmodelled        -- input outside the modelled domain
  | inner (e : ε)     -- raised by the analysis (or by the getter of the argument variable)
  deriving Repr, DecidableEq

variable {α β γ δ σ ρ ε D ο : Type}

def Exc.ofErr : Lena.Err → Exc ε
  | .lenaValueError => .lenaValueError
  | .lenaTypeError => .lenaTypeError
  | .lenaIndexError => .lenaIndexError
  | .indexError => .indexError
  | .typeError => .typeError
  | .unmodelled => .unmodelled

def Exc.ofVarErr : C14.Err → Exc ε
  | .lenaTypeError => .lenaTypeError
  | .lenaAttributeError => .lenaAttributeError
  | .typeError => .typeError
  | .assertionError => .assertionError
  | .unmodelled => .unmodelled
  | .attributeError => .unmodelled     -- not raised by `_update_context`
  | .indexError => .indexError

def liftErr : Except Lena.Err β → Except (Exc ε) β
  | .ok b => .ok b
  | .error e => .error (Exc.ofErr e)

def liftVarErr : Except C14.Err β → Except (Exc ε) β
  | .ok b => .ok b
  | .error e => .error (Exc.ofVarErr e)

/-- What a (finite) Python generator does when it is iterated to its end: it yields `out`, then raises
`StopIteration` (`fin = none`) or the exception `fin = some e`. -/
structure Trace (ρ ε : Type) where
  out : List ρ
  fin : Option ε
  deriving Repr

/-- the generator that yields `o` and then behaves like `t` -/
def Trace.cons (o : ρ) (t : Trace ρ ε) : Trace ρ ε := ⟨o :: t.out, t.fin⟩

/-- a generator followed by another one (`for … : yield` twice); an exception of the first ends both -/
def Trace.append (t u : Trace ρ ε) : Trace ρ ε :=
  match t.fin with
  | some e => ⟨t.out, some e⟩
  | none => ⟨t.out ++ u.out, u.fin⟩

/-- `for x in xs: o = f(x); yield o` where `f` may raise -/
def traceMapM (f : β → Except ε ρ) : List β → Trace ρ ε
  | [] => ⟨[], none⟩
  | x :: xs =>
    match f x with
    | .error e => ⟨[], some e⟩
    | .ok o => (traceMapM f xs).cons o

/-- `for x in xs: yield from f(x)` (a `run` method over a finite flow) -/
def traceFlatMap (f : β → Trace ρ ε) : List β → Trace ρ ε
  | [] => ⟨[], none⟩
  | x :: xs => (f x).append (traceFlatMap f xs)

/-- the exceptions of an inner generator seen from the transcribed code -/
def Trace.liftInner (t : Trace ρ ε) : Trace ρ (Exc ε) := ⟨t.out, t.fin.map Exc.inner⟩

/-! ## the analysis that is split into bins -/

/-- A `FillComputeSeq` seen from outside (see the file header). -/
structure Analysis (σ D ρ ε : Type) where
  /-- `seq.fill(value)` -/
  fill : σ → Value D → Except ε σ
  /-- iterating `seq.compute()` to its end -/
  compute : σ → Trace ρ ε

/-- `for value in flow: seq.fill(value)` from the state `s`; the first exception ends the loop -/
def Analysis.fillAll (an : Analysis σ D ρ ε) : σ → List (Value D) → Except ε σ
  | s, [] => .ok s
  | s, v :: vs =>
    match an.fill s v with
    | .error e => .error e
    | .ok s' => an.fillAll s' vs

/-- the argument variable: its getter (user code: may raise) and its `var_context` -/
structure ArgVar (α D ε : Type) where
  getter : D → Except ε (Coord α)
  varCtx : Slots

/-! ## `_MdSeqMap`: `md_map` with a function that may raise, generators advanced in lockstep -/

section mdmap
variable {E : Type}

/-- last branch of `md_map` (meshes.py:103) `[f(val) for val in arrays[0]]` with an `f` that may raise;
`f` of a nested list is outside the model (`unm`). -/
def mdMapELeaves (f : β → Except E γ) (unm : E) : List (NArr β) → Except E (List (NArr γ))
  | [] => .ok []
  | .leaf v :: xs =>
    match f v with
    | .error e => .error e
    | .ok w =>
      match mdMapELeaves f unm xs with
      | .error e => .error e
      | .ok ys => .ok (.leaf w :: ys)
  | .node _ :: _ => .error unm

mutual
/-- `md_map(f, array)` (meshes.py:34-108) for one array and an `f` that may raise; the calls of `f`
happen in the order of the cells, the first exception ends the map.  `lte` is `LenaTypeError`. -/
def mdMapE (f : β → Except E γ) (lte unm : E) : NArr β → Except E (NArr γ)
  | .leaf _ => .error lte
  | .node l =>
    match l with
    | [] => .ok (.node [])
    | .leaf _ :: _ =>
      match mdMapELeaves f unm l with
      | .error e => .error e
      | .ok r => .ok (.node r)
    | .node _ :: _ =>
      match mdMapENodes f lte unm l with
      | .error e => .error e
      | .ok r => .ok (.node r)
def mdMapENodes (f : β → Except E γ) (lte unm : E) : List (NArr β) → Except E (List (NArr γ))
  | [] => .ok []
  | x :: xs =>
    match mdMapE f lte unm x with
    | .error e => .error e
    | .ok y =>
      match mdMapENodes f lte unm xs with
      | .error e => .error e
      | .ok ys => .ok (y :: ys)
end

end mdmap

/-- `next(generator)` of a generator that has been advanced `j` times before: its next value, or the way
it ends — `error none` is `StopIteration`, `error (some e)` the exception `e`. -/
def nextAt (j : Nat) (t : Trace ρ (Exc ε)) : Except (Option (Exc ε)) ρ :=
  match t.out[j]? with
  | some r => .ok r
  | none => .error t.fin

/-- `_MdSeqMap.next()` in round `j`: `md_map(next, self._generators)` -/
def roundAt (traces : NArr (Trace ρ (Exc ε))) (j : Nat) : Except (Option (Exc ε)) (NArr ρ) :=
  mdMapE (nextAt j) (some .lenaTypeError) (some .unmodelled) traces

/-- The loop `for new_bins in generators: … yield mk(new_bins)` (`while True: try: result =
next(generators) except StopIteration: break …` in `compute`), from round `j` on.  `fuel` bounds the
number of rounds; it runs out only when no generator ever stops, i.e. for an array without cells, where
Python loops for ever (`unmodelled`). -/
def zipRounds (mk : NArr ρ → Except (Exc ε) ο) (traces : NArr (Trace ρ (Exc ε))) :
    Nat → Nat → Trace ο (Exc ε)
  | 0, _ => ⟨[], some .unmodelled⟩
  | fuel + 1, j =>
    match roundAt traces j with
    | .error none => ⟨[], none⟩                 -- `StopIteration`: the loop ends
    | .error (some e) => ⟨[], some e⟩
    | .ok result =>
      match mk result with
      | .error e => ⟨[], some e⟩
      | .ok o => (zipRounds mk traces fuel (j + 1)).cons o

/-- number of values the first cell's generator yields (bounds the number of rounds) -/
def firstCellLen (traces : NArr (Trace ρ (Exc ε))) : Nat :=
  match NArr.values traces with
  | [] => 0
  | t :: _ => t.out.length

/-- iterating an `_MdSeqMap` over the cells' generators `traces`, building `mk(new_bins)` in every round -/
def mdSeqMapRun (mk : NArr ρ → Except (Exc ε) ο) (traces : NArr (Trace ρ (Exc ε))) : Trace ο (Exc ε) :=
  zipRounds mk traces (firstCellLen traces + 1) 0

/-! ## `lena.structures.histogram(edges, bins)` -/

/-- the attributes of a `lena.structures.histogram` that this property observes (`n_out_of_range = 0`) -/
structure Hist (α β : Type) where
  edges : Edges α
  bins : NArr β
  deriving Repr

section order
variable [LT α] [LE α] [DecidableLT α] [DecidableLE α] [DecidableEq α]

/-- `histogram.__init__(edges, bins)` (histogram.py:117-165) with bins given: `check_edges_increasing`,
then the shape test: `len(bins) != len(edges[0]) - 1` when `edges[0]` is iterable (the edges of all axes
are given, also for one dimension: `[[0, 1, 2]]`), `len(bins) != len(edges) - 1` otherwise. -/
def mkHistogram (edges : Edges α) (bins : NArr β) : Except (Exc ε) (Hist α β) :=
  match C06.checkEdgesIncreasing edges with
  | .error e => .error (Exc.ofErr e)
  | .ok () =>
    match C06.lenBins bins with
    | .error e => .error (Exc.ofErr e)
    | .ok n =>
      match edges with
      | .flat arr => if n ≠ arr.length - 1 then .error .lenaValueError else .ok ⟨edges, bins⟩
      | .nested axes =>
        match axes with
        | [] => .error .indexError
        | a0 :: _ => if n ≠ a0.length - 1 then .error .lenaValueError else .ok ⟨edges, bins⟩

/-! ## `SplitIntoBins` -/

/-- state of a `SplitIntoBins`: `edges`, `bins` (one analysis state per cell), `_cur_context` -/
structure SIB (α σ : Type) where
  edges : Edges α
  bins : NArr σ
  curContext : Slots

section sib
variable (names : List String)

/-- `SplitIntoBins.__init__(seq, arg_var, edges)` (lines 310-333).  `seq = none`: not convertible to a
`FillComputeSeq` (`LenaTypeError`); `argVarOk = false`: `arg_var` is not a `Variable` (`LenaTypeError`);
then `check_edges_increasing`, `init_bins(edges, seq, deepcopy=True)`, `_cur_context = {}`. -/
def SIB.new (seq : Option σ) (argVarOk : Bool) (edges : Edges α) : Except (Exc ε) (SIB α σ) :=
  match seq with
  | none => .error .lenaTypeError
  | some s0 =>
    if !argVarOk then .error .lenaTypeError
    else
      match C06.checkEdgesIncreasing edges with
      | .error e => .error (Exc.ofErr e)
      | .ok () =>
        match C06.initBins s0 edges with
        | .error e => .error (Exc.ofErr e)
        | .ok bins => .ok { edges := edges, bins := bins, curContext := emptyD names.length }

/-- The walk of `fill` (lines 351-362) through the nested bins along `bin_index`, and `subarr.fill(val)`:
`.ok none` = the value is ignored (a negative index, or `IndexError` from `subarr[ind]`),
`.ok (some bins')` = the found cell was filled.  Indexing a cell and filling a list are outside the model
(cannot happen for bins built by `init_bins` from the same edges). -/
def fillWalk (fillCell : σ → Except ε σ) : NArr σ → List Int → Except (Exc ε) (Option (NArr σ))
  | .leaf c, [] =>
    match fillCell c with
    | .error e => .error (.inner e)
    | .ok c' => .ok (some (.leaf c'))
  | .node _, [] => .error .unmodelled
  | .leaf _, _ :: _ => .error .unmodelled
  | .node xs, i :: is =>
    if i < 0 then .ok none                         -- underflow: `return`
    else
      match xs[i.toNat]? with
      | none => .ok none                            -- overflow: `except IndexError: return`
      | some x =>
        match fillWalk fillCell x is with
        | .error e => .error e
        | .ok none => .ok none
        | .ok (some x') => .ok (some (.node (xs.set i.toNat x')))

/-- `SplitIntoBins.fill(val)` (lines 340-363): the context of the value is copied *before* the cell sees
the value; `_cur_context` is assigned only when a cell was filled. -/
def SIB.fill (an : Analysis σ D ρ ε) (av : ArgVar α D ε) (guess : Nat → Nat → Nat → Int)
    (s : SIB α σ) (val : Value D) : Except (Exc ε) (SIB α σ) :=
  let dc := C14.getDataContext names val
  match av.getter dc.1 with
  | .error e => .error (.inner e)
  | .ok x =>
    match C06.getBinOnValue guess x s.edges with
    | .error e => .error (Exc.ofErr e)
    | .ok binIndex =>
      match fillWalk (fun c => an.fill c val) s.bins binIndex with
      | .error e => .error e
      | .ok none => .ok s
      | .ok (some b) => .ok { s with bins := b, curContext := dc.2 }

/-- `for val in flow: sib.fill(val)`; an exception is reported with the position of the value -/
def SIB.fillAllFrom (an : Analysis σ D ρ ε) (av : ArgVar α D ε) (guess : Nat → Nat → Nat → Int) :
    Nat → SIB α σ → List (Value D) → Except (Nat × Exc ε) (SIB α σ)
  | _, s, [] => .ok s
  | k, s, v :: vs =>
    match SIB.fill names an av guess s v with
    | .error e => .error (k, e)
    | .ok s' => SIB.fillAllFrom an av guess (k + 1) s' vs

def SIB.fillAll (an : Analysis σ D ρ ε) (av : ArgVar α D ε) (guess : Nat → Nat → Nat → Int)
    (s : SIB α σ) (flow : List (Value D)) : Except (Nat × Exc ε) (SIB α σ) :=
  SIB.fillAllFrom names an av guess 0 s flow

/-- `SplitIntoBins.compute()` (lines 387-405) iterated to its end: `_update_context` on `_cur_context`
with a copy of the variable's context, one generator per cell, and for every round of `_MdSeqMap` a
histogram over `self.edges` with a copy of the context. -/
def SIB.compute (an : Analysis σ D ρ ε) (av : ArgVar α D ε) (s : SIB α σ) :
    Trace (Hist α ρ × Slots) (Exc ε) :=
  match C14.updateContext names true s.curContext av.varCtx with
  | .error e => ⟨[], some (Exc.ofVarErr e)⟩
  | .ok ctx =>
    match NArr.mdMap (fun c => (an.compute c).liftInner) s.bins with
    | .error e => ⟨[], some (Exc.ofErr e)⟩
    | .ok traces =>
      mdSeqMapRun (fun result =>
        match mkHistogram s.edges result with
        | .error e => .error e
        | .ok h => .ok (h, ctx)) traces

/-- The state after `compute()` has been iterated: `_update_context` works on `self._cur_context` itself
(line 388: "no copy"), so the context stays updated; the cells are left as they are (assumption: iterating
an analysis' `compute()` does not change its state).  When `_update_context` raises, the state is kept. -/
def SIB.afterCompute (av : ArgVar α D ε) (s : SIB α σ) : SIB α σ :=
  match C14.updateContext names true s.curContext av.varCtx with
  | .error _ => s
  | .ok ctx => { s with curContext := ctx }

/-- a second `compute()` on the same object -/
def SIB.computeAgain (an : Analysis σ D ρ ε) (av : ArgVar α D ε) (s : SIB α σ) :
    Trace (Hist α ρ × Slots) (Exc ε) :=
  SIB.compute names an av (SIB.afterCompute names av s)

/-- **A `SplitIntoBins` is itself a fill/compute machine**, so it can be the accumulator of the analysis of
another `SplitIntoBins` (a two-level split): `FillComputeSeq(SplitIntoBins(…), *after)` seen from outside.
`after` is what `Sequence(*after).run` makes of the generator `compute()`. -/
def SIB.analysis (an : Analysis σ D ρ ε) (av : ArgVar α D ε) (guess : Nat → Nat → Nat → Int)
    {ρ' : Type} (after : Trace (Hist α ρ × Slots) (Exc ε) → Trace ρ' (Exc ε)) :
    Analysis (SIB α σ) D ρ' (Exc ε) where
  fill := fun s v => SIB.fill names an av guess s v
  compute := fun s => after (SIB.compute names an av s)

/-! ### analyses whose `compute()` does work when it is called

`FillComputeSeq.compute()` (core/fill_compute_seq.py:157-159) is not a generator function: it calls
`self._after.run(flow)` at once, and `Sequence.run` "is evaluated immediately".  A post-element whose `run` is
not a generator (an accumulator converted to a Run element) therefore runs — and may raise — when `compute()`
is *called*, i.e. for all cells inside `_MdSeqMap.__init__`, before the first round.  `AnalysisE` has this
distinction; an `Analysis` is the special case that never raises at the call (`Analysis.toE`). -/

/-- a `FillComputeSeq` seen from outside, with the call of `compute()` separated from the iteration -/
structure AnalysisE (σ D ρ ε : Type) where
  fill : σ → Value D → Except ε σ
  /-- `seq.compute()`: raises, or returns a generator (described by its trace) -/
  start : σ → Except ε (Trace ρ ε)

def Analysis.toE (an : Analysis σ D ρ ε) : AnalysisE σ D ρ ε := ⟨an.fill, fun s => .ok (an.compute s)⟩

/-- the same machine with a creation-time exception seen as an exception of the first `next` (what a
consumer of the single generator observes; used for the `fill` side, which does not depend on `compute`) -/
def AnalysisE.toLazy (an : AnalysisE σ D ρ ε) : Analysis σ D ρ ε :=
  ⟨an.fill, fun s => match an.start s with | .ok t => t | .error e => ⟨[], some e⟩⟩

/-- `lambda cell: cell.compute()` of `_MdSeqMap.__init__` for one cell -/
def startCellE (an : AnalysisE σ D ρ ε) (c : σ) : Except (Exc ε) (Trace ρ (Exc ε)) :=
  match an.start c with
  | .error e => .error (.inner e)
  | .ok t => .ok t.liftInner

/-- `SplitIntoBins.compute()` for an analysis that may raise when its `compute()` is called: the generators
of all cells are created first, in cell order (`_MdSeqMap.__init__`: `md_map(generator, array)`); an
exception there is raised by the first `next` of `SplitIntoBins.compute()` before anything is yielded. -/
def SIB.computeE (an : AnalysisE σ D ρ ε) (av : ArgVar α D ε) (s : SIB α σ) :
    Trace (Hist α ρ × Slots) (Exc ε) :=
  match C14.updateContext names true s.curContext av.varCtx with
  | .error e => ⟨[], some (Exc.ofVarErr e)⟩
  | .ok ctx =>
    match mdMapE (startCellE an) .lenaTypeError .unmodelled s.bins with
    | .error e => ⟨[], some e⟩
    | .ok traces =>
      mdSeqMapRun (fun result =>
        match mkHistogram s.edges result with
        | .error e => .error e
        | .ok h => .ok (h, ctx)) traces

end sib

/-! ## `update_nested`, `get_example_bin`, `iter_bins_with_edges` -/

mutual
/-- `get_most_nested_subdict_with(key, other)[key] = x` (context/functions.py:580-596): follow
`other[key][key]…` while the key is present and put `x` where it is absent.  A non-dictionary on the way
raises `TypeError` (`key in 5`, or item assignment to a string/list). -/
def nestInto (k : Nat) (x : V) : V → Except Lena.Err V
  | .dict l =>
    match nestSlots k x k l with
    | .error e => .error e
    | .ok l' => .ok (.dict l')
  | .int _ => .error .typeError
  | .str _ => .error .typeError
  | .seq _ _ => .error .typeError
/-- the slots of one dictionary on the way, `i` positions before the slot of the key -/
def nestSlots (k : Nat) (x : V) : Nat → Slots → Except Lena.Err Slots
  | 0, [] => .ok [some x]
  | i + 1, [] =>
    match nestSlots k x i [] with
    | .error e => .error e
    | .ok r => .ok (none :: r)
  | 0, none :: r => .ok (some x :: r)
  | 0, some w :: r =>
    match nestInto k x w with
    | .error e => .error e
    | .ok w' => .ok (some w' :: r)
  | i + 1, s :: r =>
    match nestSlots k x i r with
    | .error e => .error e
    | .ok r' => .ok (s :: r')
end

/-- `update_nested(key, d, other)` (context/functions.py:538-598) as a function of `d`: the new `d`.
`if key in d: get_most_nested_subdict_with(key, other)[key] = d[key]`; `d[key] = other`. -/
def updateNested (k : Nat) (d other : Slots) : Except Lena.Err Slots :=
  match getSlot d k with
  | none => .ok (setSlot d k (some (.dict other)))
  | some x =>
    match nestInto k x (.dict other) with
    | .error e => .error e
    | .ok o => .ok (setSlot d k (some o))

/-- `dim` of a histogram: `len(edges)` when `edges[0]` is iterable, else 1 -/
def Edges.dim : Edges α → Nat
  | .flat _ => 1
  | .nested axes => axes.length

/-- `get_example_bin(hist)` for a histogram (hist_functions.py:290-291):
`get_bin_on_index([0] * dim, bins)`; a sub-array instead of a cell is outside the model. -/
def exampleBin (h : Hist α β) : Except (Exc ε) β :=
  match NArr.getBin h.bins (List.replicate (Edges.dim h.edges) 0) with
  | .error e => .error (Exc.ofErr e)
  | .ok (.leaf v) => .ok v
  | .ok (.node _) => .error .unmodelled

/-- `get_example_bin(bins)` for an array of bins (hist_functions.py:293-296):
`while isinstance(bins, list): bins = bins[0]` -/
def exampleOfArray : NArr β → Except (Exc ε) β
  | .leaf v => .ok v
  | .node [] => .error .indexError
  | .node (x :: _) => exampleOfArray x

/-- the edges of the cell `index`: `(edges[var][i], edges[var][i+1])` for every coordinate
(hist_functions.py:502-506) -/
def cellEdges : List (List α) → List Nat → Except (Exc ε) (List (α × α))
  | _, [] => .ok []
  | [], _ :: _ => .error .indexError
  | e :: es, i :: is =>
    match e[i]?, e[i + 1]? with
    | some lo, some hi =>
      match cellEdges es is with
      | .error err => .error err
      | .ok rest => .ok ((lo, hi) :: rest)
    | _, _ => .error .indexError

/-- the index tuples of `iter_bins_with_edges` (hist_functions.py:494-499):
`itertools.product(*[range(len(edge) - 1) for edge in edges])` -/
def binIndices (edges : Edges α) : List (List Nat) :=
  NArr.indexProd (edges.axes.map (fun e => List.range (e.length - 1)))

/-- one step of `iter_bins_with_edges`: `(get_bin_on_index(index, bins), bin edges)`; the content must
be a cell -/
def binWithEdges (h : Hist α β) (index : List Nat) : Except (Exc ε) (β × List (α × α)) :=
  match NArr.getBin h.bins index with
  | .error e => .error (Exc.ofErr e)
  | .ok (.node _) => .error .unmodelled
  | .ok (.leaf v) =>
    match cellEdges h.edges.axes index with
    | .error e => .error e
    | .ok ce => .ok (v, ce)

/-! ## `IterateBins`, `MapBins` -/

/-- a value of the flow that `IterateBins` / `MapBins` see: anything that is not a histogram, or a
histogram (bare, or with a context) whose cells hold flow values -/
inductive FVal (α D : Type) where
  | plain (v : Value D)
  | hist (h : Hist α (Value D)) (ctx : Option Slots)

section bins
variable (names : List String)

def kBins := key names "bins"
def kBin := key names "bin"
def kEdges := key names "edges"
def kEdgesStr := key names "edges_str"
def kValue := key names "value"

/-- The body of the loop of `IterateBins.run` (lines 109-131) for one cell `histc` with edges
`binEdges`; `hctx` is the context of the histogram.  `createEdgesStr` is the constructor argument
`create_edges_str`, `encEdges` turns the tuple of `(low, high)` pairs into a context value. -/
def binContext (createEdgesStr : List (α × α) → Option V → Except (Exc ε) V) (encEdges : List (α × α) → V)
    (hctx : Slots) (histc : Value D) (binEdges : List (α × α)) : Except (Exc ε) (Value D) :=
  let dc := C14.getDataContext names histc
  -- `get_recursively(hist_context, "variable", None)`
  let splitVarContext := getSlot hctx (C14.kVariable names)
  match createEdgesStr binEdges splitVarContext with
  | .error e => .error e
  | .ok edgesStr =>
    let contextBin := setSlot (setSlot (emptyD names.length) (kEdges names) (some (encEdges binEdges)))
      (kEdgesStr names) (some edgesStr)
    -- `update_nested("bins", bin_context, copy.deepcopy(hist_context))`
    match updateNested (kBins names) dc.2 hctx with
    | .error e => .error (Exc.ofErr e)
    | .ok c1 =>
      -- `update_nested("bin", bin_context, context_bin)`
      match updateNested (kBin names) c1 contextBin with
      | .error e => .error (Exc.ofErr e)
      | .ok c2 => .ok (.pair dc.1 c2)

/-- `IterateBins.run` for one value of the flow (lines 96-131).  `sel` is `select_bins` applied to the
data part of the example bin. -/
def iterateBinsOne (sel : D → Bool) (createEdgesStr : List (α × α) → Option V → Except (Exc ε) V)
    (encEdges : List (α × α) → V) : FVal α D → Trace (FVal α D) (Exc ε)
  | .plain v => ⟨[.plain v], none⟩
  | .hist h ctx =>
    match exampleBin (ε := ε) h with
    | .error e => ⟨[], some e⟩
    | .ok b00 =>
      if !sel (C14.getDataContext names b00).1 then ⟨[.hist h ctx], none⟩
      else
        let hctx := ctx.getD (emptyD names.length)
        traceMapM (fun index =>
          match binWithEdges h index with
          | .error e => .error e
          | .ok (histc, binEdges) =>
            match binContext names createEdgesStr encEdges hctx histc binEdges with
            | .error e => .error e
            | .ok v => .ok (.plain v)) (binIndices h.edges)

/-- `IterateBins.run(flow)` -/
def iterateBinsRun (sel : D → Bool) (createEdgesStr : List (α × α) → Option V → Except (Exc ε) V)
    (encEdges : List (α × α) → V) (flow : List (FVal α D)) : Trace (FVal α D) (Exc ε) :=
  traceFlatMap (iterateBinsOne names sel createEdgesStr encEdges) flow

/-- `lena.flow.get_data(value)` as a flow value without context -/
def dataOnly (v : Value D) : Value D := .bare (C14.getDataContext names v).1

/-- The body of `for new_bins in generators:` of `MapBins.run` (lines 237-270): the new histogram over a
copy of the edges, and a copy of the context with `value` updated by the context of the example bin when
that is not empty. -/
def mapBinsResult (drop : Bool) (edges : Edges α) (context : Slots) (newBins : NArr (Value D)) :
    Except (Exc ε) (FVal α D) :=
  let newData : Except (Exc ε) (NArr (Value D)) :=
    if drop then liftErr (NArr.mdMap (dataOnly names) newBins) else .ok newBins
  match newData with
  | .error e => .error e
  | .ok nd =>
    match mkHistogram edges nd with
    | .error e => .error e
    | .ok newHist =>
      match exampleOfArray (ε := ε) newBins with
      | .error e => .error e
      | .ok ex =>
        -- `get_context(value)`: `{}` for a value without context
        let binContext := (C14.getDataContext names ex).2
        if binContext.any Option.isSome then
          match updateNested (kValue names) context binContext with
          | .error e => .error (Exc.ofErr e)
          | .ok c => .ok (.hist newHist (some c))
        else .ok (.hist newHist (some context))

/-- `copy.deepcopy(self._seq).run([cell])` for one cell: `Sequence.run` "is evaluated immediately, and
raises in case of errors" (sequence.py:74-77) — an accumulator inside the sequence is filled when the
generator is *created* — so the call either raises or returns a generator.  The copy is fresh for every
cell: what it does is a function of the cell alone (`seqStart`). -/
def startCell (seqStart : Value D → Except ε (Trace (Value D) ε)) (cell : Value D) :
    Except (Exc ε) (Trace (Value D) (Exc ε)) :=
  match seqStart cell with
  | .error e => .error (.inner e)
  | .ok t => .ok t.liftInner

/-- `MapBins.run` for one value of the flow (lines 215-270).  `seqStart cell` is
`copy.deepcopy(self._seq).run([cell])` (see `startCell`); `sel` is `select_bins` applied to the example
bin; `drop` is `drop_bins_context`.  `_MdSeqMap.__init__` creates the generators of all cells, in cell
order, before the first round. -/
def mapBinsOne (seqStart : Value D → Except ε (Trace (Value D) ε)) (sel : Value D → Bool) (drop : Bool) :
    FVal α D → Trace (FVal α D) (Exc ε)
  | .plain v => ⟨[.plain v], none⟩
  | .hist h ctx =>
    match exampleBin (ε := ε) h with
    | .error e => ⟨[], some e⟩
    | .ok b00 =>
      if !sel b00 then ⟨[.hist h ctx], none⟩
      else
        match mdMapE (startCell seqStart) .lenaTypeError .unmodelled h.bins with
        | .error e => ⟨[], some e⟩
        | .ok traces =>
          mdSeqMapRun (mapBinsResult names drop h.edges (ctx.getD (emptyD names.length))) traces

/-- `MapBins.run(flow)` -/
def mapBinsRun (seqStart : Value D → Except ε (Trace (Value D) ε)) (sel : Value D → Bool) (drop : Bool)
    (flow : List (FVal α D)) : Trace (FVal α D) (Exc ε) :=
  traceFlatMap (mapBinsOne names seqStart sel drop) flow

/-- `IterateBins().run(sib.compute())` as the post-element of a `FillComputeSeq`: the histograms are pulled
one by one; an exception of `compute()` arrives after the cells of the histograms yielded before it -/
def iterateAfter (sel : D → Bool) (createEdgesStr : List (α × α) → Option V → Except (Exc ε) V)
    (encEdges : List (α × α) → V) (t : Trace (Hist α (Value D) × Slots) (Exc ε)) : Trace (FVal α D) (Exc ε) :=
  (iterateBinsRun names sel createEdgesStr encEdges (t.out.map (fun hc => FVal.hist hc.1 (some hc.2)))).append
    ⟨[], t.fin⟩

/-- `IterateBins.__init__(create_edges_str, select_bins)` (lines 61-77): `create_edges_str` must be callable
(or `None`), `select_bins` convertible to a `Selector` (or `None`); otherwise `LenaTypeError`. -/
def iterateBinsInit (cesCallable selOk : Bool) : Except (Exc ε) Unit :=
  if !cesCallable then .error .lenaTypeError
  else if !selOk then .error .lenaTypeError
  else .ok ()

/-- `MapBins.__init__(seq, select_bins)` (lines 175-199): `seq` a run element or convertible to a
`Sequence`, `select_bins` convertible to a `Selector`; otherwise `LenaTypeError`. -/
def mapBinsInit (seqOk selOk : Bool) : Except (Exc ε) Unit :=
  if !seqOk then .error .lenaTypeError
  else if !selOk then .error .lenaTypeError
  else .ok ()

/-! ### `MapBins(get_example_bin=…)`: the caller chooses the "arbitrary bin"

`MapBins.__init__` takes a callable `get_example_bin` (split_into_bins.py:144-145, 196-197); `run` calls it
on the histogram (line 224: the bin that `select_bins` tests) and on the transformed bins (line 252: the bin
whose context goes to `context.value`).  `mapBinsOne` above is the case of the default
`hist_functions.get_example_bin` (`mapBinsOneG_default`). -/

mutual
/-- a caller's `get_example_bin` that takes the last cell: `while isinstance(bins, list): bins = bins[-1]`
(`IndexError` for an empty list) -/
def lastOfArray : NArr β → Except (Exc ε) β
  | .leaf v => .ok v
  | .node xs => lastOfList xs
/-- `bins[-1]` of a list of sub-arrays, then on into it -/
def lastOfList : List (NArr β) → Except (Exc ε) β
  | [] => .error .indexError
  | [x] => lastOfArray x
  | _ :: y :: r => lastOfList (y :: r)
end

/-- `mapBinsResult` with the caller's example bin of the new bins (`exArr`) -/
def mapBinsResultG (exArr : NArr (Value D) → Except (Exc ε) (Value D)) (drop : Bool) (edges : Edges α)
    (context : Slots) (newBins : NArr (Value D)) : Except (Exc ε) (FVal α D) :=
  let newData : Except (Exc ε) (NArr (Value D)) :=
    if drop then liftErr (NArr.mdMap (dataOnly names) newBins) else .ok newBins
  match newData with
  | .error e => .error e
  | .ok nd =>
    match mkHistogram edges nd with
    | .error e => .error e
    | .ok newHist =>
      match exArr newBins with
      | .error e => .error e
      | .ok ex =>
        let binContext := (C14.getDataContext names ex).2
        if binContext.any Option.isSome then
          match updateNested (kValue names) context binContext with
          | .error e => .error (Exc.ofErr e)
          | .ok c => .ok (.hist newHist (some c))
        else .ok (.hist newHist (some context))

/-- `MapBins.run` for one value of the flow with the caller's `get_example_bin`: `exHist` is what it returns
for the histogram, `exArr` what it returns for an array of bins -/
def mapBinsOneG (exHist : Hist α (Value D) → Except (Exc ε) (Value D))
    (exArr : NArr (Value D) → Except (Exc ε) (Value D))
    (seqStart : Value D → Except ε (Trace (Value D) ε)) (sel : Value D → Bool) (drop : Bool) :
    FVal α D → Trace (FVal α D) (Exc ε)
  | .plain v => ⟨[.plain v], none⟩
  | .hist h ctx =>
    match exHist h with
    | .error e => ⟨[], some e⟩
    | .ok b00 =>
      if !sel b00 then ⟨[.hist h ctx], none⟩
      else
        match mdMapE (startCell seqStart) .lenaTypeError .unmodelled h.bins with
        | .error e => ⟨[], some e⟩
        | .ok traces =>
          mdSeqMapRun (mapBinsResultG names exArr drop h.edges (ctx.getD (emptyD names.length))) traces

def mapBinsRunG (exHist : Hist α (Value D) → Except (Exc ε) (Value D))
    (exArr : NArr (Value D) → Except (Exc ε) (Value D))
    (seqStart : Value D → Except ε (Trace (Value D) ε)) (sel : Value D → Bool) (drop : Bool)
    (flow : List (FVal α D)) : Trace (FVal α D) (Exc ε) :=
  traceFlatMap (mapBinsOneG names exHist exArr seqStart sel drop) flow

end bins
end order

/-! ## `lena.flow.Selector`: the forms of `select_bins`

`IterateBins.__init__` wraps `select_bins` in a `Selector` (split_into_bins.py:73-77), `MapBins.__init__`
does so unless it is one already (187-195).  `Selector.__init__` (flow/selectors.py:13-92) decides by the type
of its argument: a class tests the data part of the value with `isinstance`; another callable is used as it
is; a string tests the context of the value with `lena.context.contains`; a list is the *or*, a tuple the
*and* of the selectors made from its items (`Or.__call__` = `any`, `And.__call__` = `all`).  Containers
inside containers are not modelled. -/

section selector
variable (names : List String)

/-- `lena.context.contains(d, s)` (context/functions.py:14-63) for `levels = s.split(".")` (`[]` for the
empty string, which means the context itself): walk the dictionaries along all levels but the last; the last
level is a key of the dictionary reached, or equals `str(value)` of the value reached.  `str` of a number or a
string is modelled; a tuple or list never equals a level (levels here contain no brackets). -/
def containsV : List String → V → Bool
  | [], _ => true
  | [last], .dict d => (getSlot d (key names last)).isSome
  | [last], .int i => toString i == last
  | [last], .str s => s == last
  | [_], .seq _ _ => false
  | k :: l :: rest, .dict d =>
    match getSlot d (key names k) with
    | none => false
    | some v => containsV (l :: rest) v
  | _ :: _ :: _, _ => false

/-- an item a `Selector` is made from -/
inductive SelAtom (D : Type) where
  /-- a callable that is not a class: used as it is, on the whole value -/
  | fn (f : Value D → Bool)
  /-- a class: `isinstance(get_data(value), cls)` -/
  | cls (isInst : D → Bool)
  /-- a string `s`: `contains(get_context(value), s)`; `levels = s.split(".")` -/
  | ctx (levels : List String)

/-- the argument of `Selector(...)` -/
inductive SelForm (D : Type) where
  | atom (a : SelAtom D)
  /-- a list: `Or` -/
  | any (l : List (SelAtom D))
  /-- a tuple: `And` -/
  | all (l : List (SelAtom D))

def SelAtom.eval : SelAtom D → Value D → Bool
  | .fn f, v => f v
  | .cls p, v => p (C14.getDataContext names v).1
  | .ctx levels, v => containsV names levels (.dict (C14.getDataContext names v).2)

/-- `Selector(form)(value)` -/
def SelForm.eval : SelForm D → Value D → Bool
  | .atom a, v => a.eval names v
  | .any l, v => l.any (fun a => a.eval names v)
  | .all l, v => l.all (fun a => a.eval names v)

/-- `IterateBins` applies the selector to the data part of the example bin (line 103-104): a value without
context -/
def SelForm.evalData (f : SelForm D) (d : D) : Bool := f.eval names (.bare d)

end selector

/-! ## `cell_to_string` (the default `create_edges_str`) -/

section cts
variable (names : List String)

/-- `"{}".format(name)` for a name that is a string or a number -/
def fmtName : V → Except (Exc ε) String
  | .str s => .ok s
  | .int i => .ok (toString i)
  | .seq _ _ => .error .unmodelled
  | .dict _ => .error .unmodelled

/-- `[var["name"] for var in var_context["combine"]]` -/
def combineNames : List V → Except (Exc ε) (List String)
  | [] => .ok []
  | .dict d :: r =>
    match getSlot d (C14.kName names) with
    | none => .error .keyError
    | some nm =>
      match fmtName nm with
      | .error e => .error e
      | .ok s =>
        match combineNames r with
        | .error e => .error e
        | .ok ss => .ok (s :: ss)
  | _ :: _ => .error .typeError

/-- `coord_names` of `cell_to_string` (hist_functions.py:47-58) -/
def coordNames (n : Nat) : Option V → Except (Exc ε) (List String)
  | none => .ok ((List.range n).map (fun i => "coord" ++ toString i))
  | some (.dict vc) =>
    match getSlot vc (C14.kCombine names) with
    | some (.seq _ l) => combineNames names l
    | some _ => .error .unmodelled
    | none =>
      match getSlot vc (C14.kName names) with
      | none => .error .keyError
      | some nm =>
        match fmtName nm with
        | .error e => .error e
        | .ok s => .ok [s]
  | some _ => .error .unmodelled

/-- `"_".join(strs)` -/
def joinUnderscore : List String → String
  | [] => ""
  | [s] => s
  | s :: r => s ++ "_" ++ joinUnderscore r

/-- `cell_to_string(cell_edges, var_context)` with the default format (hist_functions.py:28-68);
`fmt` is `"{}".format` of an edge value -/
def cellToString (fmt : α → String) (cellEdges : List (α × α)) (varContext : Option V) : Except (Exc ε) V :=
  match coordNames names cellEdges.length varContext with
  | .error e => .error e
  | .ok cn =>
    if cellEdges.length ≠ cn.length then .error .lenaValueError
    else
      .ok (.str (joinUnderscore
        (List.zipWith (fun (e : α × α) nm => fmt e.1 ++ "_lte_" ++ nm ++ "_lt_" ++ fmt e.2) cellEdges cn)))

/-- the keyword arguments of `cell_to_string`: `coord_names`, `coord_fmt` (a format with three `{}` in the
order low, name, high: the four literal pieces around them), `coord_join`, `reverse` -/
structure CtsOpts where
  coordNames : Option (List String) := none
  fmtPre : String := ""
  fmtMid1 : String := "_lte_"
  fmtMid2 : String := "_lt_"
  fmtPost : String := ""
  join : String := "_"
  reverse : Bool := false

/-- `sep.join(strs)` -/
def joinWith (sep : String) : List String → String
  | [] => ""
  | [s] => s
  | s :: r => s ++ sep ++ joinWith sep r

/-- `cell_to_string(cell_edges, var_context, coord_names, coord_fmt, coord_join, reverse)`
(hist_functions.py:28-68) -/
def cellToStringOpts (fmt : α → String) (o : CtsOpts) (cellEdges : List (α × α)) (varContext : Option V) :
    Except (Exc ε) V :=
  let names? : Except (Exc ε) (List String) :=
    match o.coordNames with
    | some l => .ok l
    | none => coordNames names cellEdges.length varContext
  match names? with
  | .error e => .error e
  | .ok cn =>
    if cellEdges.length ≠ cn.length then .error .lenaValueError
    else
      let strs := List.zipWith (fun (e : α × α) nm =>
        o.fmtPre ++ fmt e.1 ++ o.fmtMid1 ++ nm ++ o.fmtMid2 ++ fmt e.2 ++ o.fmtPost) cellEdges cn
      .ok (.str (joinWith o.join (if o.reverse then strs.reverse else strs)))

/-- the tuple of `(low, high)` tuples as a context value -/
def encEdges (enc : α → V) (cellEdges : List (α × α)) : V :=
  .seq true (cellEdges.map (fun e => .seq true [enc e.1, enc e.2]))

end cts

end Lena.C11
