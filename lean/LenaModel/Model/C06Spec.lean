import LenaModel.Model.C06
/-! # C06 — specification vocabulary, executable

The definitions the C06 theorems are stated with (`Props/C06.lean`, `Props/C06Ext.lean`).  They live
in a `Model/` file — no imports except `LenaModel.Model.*` — because the model driver
(`drivers/C06.lean`) **executes every one of them** on the generated cases and the harness compares
the results with the real code or with an independent Python reference ("spec" requests):

* `StrictInc`, `ValidAxis`, `ValidEdges` (decidable), `countLE`, `indices`, `dimsOf`, `edgesDim`;
* `InRange`, `InCell` (decidable), `cellOf?`, `Proper` with its executable twin `properList?`;
* `total`, `sumW`, `WF` with its executable twin `wfB`, `toOps`, `lastCtx`;
* the specification-side interpreter `specFill`/`specFillAll` (what the property says a fill does,
  written with `InRange`, `indices`, `NArr.modifyAt` only — no search, no walk);
* guesses: `GuessOK`, `GuessOKAt` with its executable twin `guessOKAtB`, `visitedInRange`,
  `interpGuess` (exact integer interpolation), `roundedGuess` (interpolation under an arbitrary
  rounding function over `Rat`), `floatGuess` (the expression of hist_functions.py:206-210 evaluated
  with Lean's IEEE-754 `Float`).

Nothing here transcribes lena code except `floatGuess` (one expression). -/

namespace Lena.C06

open Lena

variable {α β κ : Type}

/-! ## order vocabulary -/
section Order
variable [LT α] [LE α] [DecidableLT α] [DecidableLE α] [DecidableEq α]

/-- strictly increasing: every earlier element is `<` every later one -/
def StrictInc (arr : List α) : Prop := arr.Pairwise (· < ·)

/-- the number of edges not greater than `v` -/
def countLE (arr : List α) (v : α) : Nat := arr.countP (fun e => decide (e ≤ v))

instance (arr : List α) : Decidable (StrictInc arr) := by unfold StrictInc; exact inferInstance

/-- the guess function stays within `[ind_min, ind_max]` at every state -/
def GuessOK (guess : Nat → Nat → Int) : Prop :=
  ∀ lo hi : Nat, lo ≤ hi → (lo : Int) ≤ guess lo hi ∧ guess lo hi ≤ (hi : Int)

/-- the weakest form: the guess is within `[ind_min, ind_max]` at the states where the search for
`val` in `arr` consults it, i.e. `ind_max − ind_min > 1` and `arr[ind_min] < val < arr[ind_max]` -/
def GuessOKAt (arr : List α) (val : α) (guess : Nat → Nat → Int) : Prop :=
  ∀ (lo hi : Nat) (h : hi < arr.length) (hl : lo + 1 < hi), arr[lo]'(by omega) < val → val < arr[hi] →
    (lo : Int) ≤ guess lo hi ∧ guess lo hi ≤ (hi : Int)

/-- executable `GuessOKAt` (`guessOKAtB_iff`): all pairs `lo + 1 < hi < len(arr)` with
`arr[lo] < val < arr[hi]` are inspected -/
def guessOKAtB (arr : List α) (val : α) (guess : Nat → Nat → Int) : Bool :=
  (List.range arr.length).all fun hi =>
    (List.range hi).all fun lo =>
      match arr[lo]?, arr[hi]? with
      | some a, some b =>
        !(decide (lo + 1 < hi) && decide (a < val) && decide (val < b)) ||
          (decide ((lo : Int) ≤ guess lo hi) && decide (guess lo hi ≤ (hi : Int)))
      | _, _ => true

/-- the guess was within `[ind_min, ind_max]` at every state the search for `val` in `arr`
actually visited: the model did not answer `unmodelled` -/
def visitedInRange (guess : Nat → Nat → Int) (val : α) (arr : List α) : Bool :=
  match bin1d guess val arr with
  | .error .unmodelled => false
  | _ => true

/-- per axis: (number of edges not greater than the coordinate) − 1 -/
def indices (axes : List (List α)) (xs : List α) : List Int :=
  List.zipWith (fun arr x => (countLE arr x : Int) - 1) axes xs

/-- number of bins per axis -/
def dimsOf (axes : List (List α)) : List Nat := axes.map (fun a => a.length - 1)

/-- the cell `idx` contains the point `xs`: in every dimension `k` the half-open interval
`[axes[k][idx[k]], axes[k][idx[k]+1])` contains `xs[k]` -/
def InCell : List (List α) → List α → List Nat → Prop
  | [], [], [] => True
  | arr :: axes, x :: xs, i :: idx =>
    (∃ h : i + 1 < arr.length, arr[i] ≤ x ∧ x < arr[i + 1]) ∧ InCell axes xs idx
  | _, _, _ => False


instance decInCell : ∀ (axes : List (List α)) (xs : List α) (idx : List Nat), Decidable (InCell axes xs idx)
  | [], [], [] => isTrue trivial
  | arr :: axes, x :: xs, i :: idx =>
    have := decInCell axes xs idx
    by unfold InCell; exact inferInstance
  | [], [], _ :: _ => isFalse (by simp [InCell])
  | [], _ :: _, _ => isFalse (by simp [InCell])
  | _ :: _, [], _ => isFalse (by simp [InCell])
  | _ :: _, _ :: _, [] => isFalse (by simp [InCell])

/-- an axis of a histogram: at least two strictly increasing edges -/
def ValidAxis (arr : List α) : Prop := 2 ≤ arr.length ∧ StrictInc arr

/-- "strictly increasing finite edges in any dimension": at least one axis, every axis valid -/
def ValidEdges (e : Edges α) : Prop := e.axes ≠ [] ∧ ∀ arr ∈ e.axes, ValidAxis arr


instance (arr : List α) : Decidable (ValidAxis arr) := by unfold ValidAxis; exact inferInstance
instance (e : Edges α) : Decidable (ValidEdges e) := by unfold ValidEdges; exact inferInstance

end Order

/-- `dim` of a histogram: 1 for flat edges, the number of axes otherwise -/
def edgesDim : Edges α → Nat
  | .flat _ => 1
  | .nested axes => axes.length

/-- `c` is a coordinate of the right form for the edges `e`, with components `xs`: a number for
flat (one-dimensional) edges, a list/tuple with one component per axis for nested edges -/
inductive Proper : Edges α → Coord α → List α → Prop
  | flat (arr : List α) (x : α) : Proper (.flat arr) (.scalar x) [x]
  | nested (axes : List (List α)) (xs : List α) : xs.length = axes.length →
      Proper (.nested axes) (.tuple xs) xs

/-- executable `Proper` (`properList?_iff`): the components of a coordinate of the right form -/
def properList? : Edges α → Coord α → Option (List α)
  | .flat _, .scalar x => some [x]
  | .nested axes, .tuple xs => if xs.length = axes.length then some xs else none
  | _, _ => none

/-- every per-axis guess function stays within `[ind_min, ind_max]` -/
def GuessesOK (g : Nat → Nat → Nat → Int) : Prop := ∀ k, GuessOK (g k)

/-- every operation of the sequence has in-range guesses and a coordinate of the right form -/
def OpsOK (e : Edges α) (ops : List ((Nat → Nat → Nat → Int) × Coord α × β)) : Prop :=
  ∀ op ∈ ops, GuessesOK op.1 ∧ ∃ xs, Proper e op.2.1 xs

/-! ## sums, shapes, cells -/
section Total
variable [Add β] [Zero β]
variable [Add β] [Zero β]
mutual
def total : NArr β → β
  | .leaf v => v
  | .node xs => totalList xs
def totalList : List (NArr β) → β
  | [] => 0
  | x :: xs => total x + totalList xs
end
end Total

/-- every index within its axis -/
def InRange : List Int → List Nat → Prop
  | [], [] => True
  | i :: is, d :: ds => (0 ≤ i ∧ i < (d : Int)) ∧ InRange is ds
  | _, _ => False

instance : ∀ (is : List Int) (ds : List Nat), Decidable (InRange is ds)
  | [], [] => isTrue trivial
  | i :: is, d :: ds =>
    have := instDecidableInRange is ds
    by unfold InRange; exact inferInstance
  | [], _ :: _ => isFalse (by simp [InRange])
  | _ :: _, [] => isFalse (by simp [InRange])

section Cells
variable [LT α] [LE α] [DecidableLT α] [DecidableLE α] [DecidableEq α]

/-- the index of the cell that contains the point, if any (`cellOf?_eq_some_iff`) -/
def cellOf? (axes : List (List α)) (xs : List α) : Option (List Nat) :=
  if InRange (indices axes xs) (dimsOf axes) then some ((indices axes xs).map Int.toNat) else none

/-- well-formed histogram state: valid edges, bins of the matching regular shape
(`len(axis) − 1` cells along every axis) -/
structure WF (h : Hist α β) : Prop where
  edges : ValidEdges h.edges
  shape : NArr.HasShape (dimsOf h.edges.axes) h.bins

/-- executable `WF` (`wfB_iff`) -/
def wfB (h : Hist α β) : Bool := decide (ValidEdges h.edges) && NArr.hasShape (dimsOf h.edges.axes) h.bins

/-- **What the property says one fill does**, as a function on (bins, n_out_of_range): the weight
is added to the cell containing the point, or to `n_out_of_range` when there is none. -/
def specFill [Add β] (axes : List (List α)) (s : NArr β × β) (xs : List α) (w : β) : NArr β × β :=
  match cellOf? axes xs with
  | some idx => (NArr.modifyAt (· + w) s.1 idx, s.2)
  | none => (s.1, s.2 + w)

def specFillAll [Add β] (axes : List (List α)) : NArr β × β → List (List α × β) → NArr β × β
  | s, [] => s
  | s, (xs, w) :: rest => specFillAll axes (specFill axes s xs w) rest

end Cells

/-- sum of a list of weights -/
def sumW [Lean.Grind.AddCommMonoid β] : List β → β
  | [] => 0
  | w :: ws => w + sumW ws

/-- the operations on the wrapped histogram that a flow of values amounts to -/
def toOps (one : β) (vals : List ((Nat → Nat → Nat → Int) × Coord α × Option κ)) :
    List ((Nat → Nat → Nat → Int) × Coord α × β) :=
  vals.map (fun v => (v.1, v.2.1, one))

/-- `_cur_context` after a flow: the context of the last value (`{}` if it was bare) -/
def lastCtx (empty : κ) : κ → List ((Nat → Nat → Nat → Int) × Coord α × Option κ) → κ
  | c, [] => c
  | _, v :: vs => lastCtx empty (v.2.2.getD empty) vs


/-! ## guesses -/

/-- the interpolation of hist_functions.py:206-210 in exact integer arithmetic: `ind_min +
floor((ind_max − ind_min)·(val − arr[ind_min]) / (arr[ind_max] − arr[ind_min]))` -/
def interpGuess (arr : List Int) (val : Int) (lo hi : Nat) : Int :=
  (lo : Int) + (((hi : Int) - (lo : Int)) * (val - arr[lo]?.getD 0)) / (arr[hi]?.getD 0 - arr[lo]?.getD 0)

/-- the interpolation under an arbitrary rounding function `fl : Rat → Rat` applied after every
arithmetic operation, as IEEE-754 does (`float(val − a)`, `/`, `*`, then `int()` = floor for
non-negative numbers): `ind_min + ⌊fl((ind_max − ind_min) · fl(fl(val − a) / fl(b − a)))⌋` -/
def roundedGuess (fl : Rat → Rat) (a b v : Rat) (lo hi : Nat) : Int :=
  (lo : Int) + (fl ((((hi - lo : Nat) : Int) : Rat) * fl (fl (v - a) / fl (b - a)))).floor

/-- `roundedGuess` along an edge array -/
def roundedGuessArr (fl : Rat → Rat) (arr : List Rat) (val : Rat) (lo hi : Nat) : Int :=
  roundedGuess fl (arr[lo]?.getD 0) (arr[hi]?.getD 0) val lo hi

/-- `int((ind_max - ind_min) * (float(val - a) / (b - a)))` (hist_functions.py:206-209) in IEEE-754
double arithmetic; `-1` when the product is NaN or negative (Python's `int()` would raise or give a
negative number; either way the guess is out of range) -/
def floatShift (d : Nat) (a b v : Float) : Int :=
  let x := Float.ofNat d * ((v - a) / (b - a))
  if x.isNaN || x < 0 then -1 else (x.toUInt64.toNat : Int)

/-- `ind_guess` of the real code for float edges `arr` and a float value: a guess function for
`bin1d` -/
def floatGuess (arr : Array Float) (val : Float) (lo hi : Nat) : Int :=
  (lo : Int) + floatShift (hi - lo) (arr.getD lo 0) (arr.getD hi 0) val

/-! ## the element along a history of fills and resets -/

/-- what the property says about (sum of all bins) + `n_out_of_range` of a `Histogram` element
along a history: every fill adds the unit weight, `reset()` returns to the initial content `s0` -/
def specSum [Add β] (s0 one : β) : β → List (ElOp α κ) → β
  | s, [] => s
  | s, .fill _ _ _ :: r => specSum s0 one (s + one) r
  | _, .reset :: r => specSum s0 one s0 r

/-- every fill of the history has in-range guesses and a coordinate of the right form -/
def ElOpsOK (e : Edges α) : List (ElOp α κ) → Prop
  | [] => True
  | .fill g c _ :: r => (GuessesOK g ∧ ∃ xs, Proper e c xs) ∧ ElOpsOK e r
  | .reset :: r => ElOpsOK e r

/-! ## guesses per axis, in the weakest form (review finding 2)

`GuessesOK` asks every per-axis guess function to be in range at *every* pair `lo ≤ hi`; the
interpolation the code computes is in range only at the states a search consults (`GuessOKAt`).
The `…At` predicates below ask exactly that, per axis, for the coordinate being searched. -/

section GuessAt
variable [LT α]

/-- along every axis `k` the guess function `g k` is in range wherever the search for `xs[k]` in
`axes[k]` consults it -/
def GuessesOKAt (axes : List (List α)) (xs : List α) (g : Nat → Nat → Nat → Int) : Prop :=
  ∀ (k : Nat) (h₁ : k < axes.length) (h₂ : k < xs.length), GuessOKAt axes[k] xs[k] (g k)

/-- executable `GuessesOKAt` (`guessesOKAtB_iff`) -/
def guessesOKAtB [DecidableLT α] (axes : List (List α)) (xs : List α) (g : Nat → Nat → Nat → Int) : Bool :=
  (List.range (min axes.length xs.length)).all fun k =>
    match axes[k]?, xs[k]? with
    | some arr, some x => guessOKAtB arr x (g k)
    | _, _ => true

/-- every operation has a coordinate of the right form and guesses that are in range where its
searches consult them -/
def OpsOKAt (e : Edges α) (ops : List ((Nat → Nat → Nat → Int) × Coord α × β)) : Prop :=
  ∀ op ∈ ops, ∃ xs, Proper e op.2.1 xs ∧ GuessesOKAt e.axes xs op.1

/-- the same for a history of an element -/
def ElOpsOKAt (e : Edges α) : List (ElOp α κ) → Prop
  | [] => True
  | .fill g c _ :: r => (∃ xs, Proper e c xs ∧ GuessesOKAt e.axes xs g) ∧ ElOpsOKAt e r
  | .reset :: r => ElOpsOKAt e r

/-- every fill of the history has a coordinate of the right form (nothing is asked of the guesses) -/
def ElOpsProper (e : Edges α) : List (ElOp α κ) → Prop
  | [] => True
  | .fill _ c _ :: r => (∃ xs, Proper e c xs) ∧ ElOpsProper e r
  | .reset :: r => ElOpsProper e r

end GuessAt

/-- the exact integer interpolation along axis `k` of a mesh, for the point `xs` -/
def interpGuessN (axes : List (List Int)) (xs : List Int) (k lo hi : Nat) : Int :=
  interpGuess (axes[k]?.getD []) (xs[k]?.getD 0) lo hi

/-- the rounded interpolation along axis `k` of a mesh, for the point `xs` -/
def roundedGuessN (fl : Rat → Rat) (axes : List (List Rat)) (xs : List Rat) (k lo hi : Nat) : Int :=
  roundedGuessArr fl (axes[k]?.getD []) (xs[k]?.getD 0) lo hi

end Lena.C06
