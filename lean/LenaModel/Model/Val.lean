/-! # Shared value type: nested dictionaries as slot vectors (DESIGN.md section 2)

`Val α := leaf a | dict (List (Option (Val α)))` over a generic leaf type `α` with decidable
equality.  A dictionary is a *slot vector over the key alphabet of the case*: the harness
collects the key strings of a case, sorts them, and slot `i` of every dictionary (at every
depth) holds the binding of key `i`; `none` = key absent.  `Val.WF n` says that every
dictionary has exactly `n` slots.  Consequences: structural equality is Python's
order-insensitive `dict.__eq__`; a `for key in d:` loop whose body touches only `result[key]`
is a pointwise function of the slots.

Everything a Python function can observe of a leaf is abstracted into `α`: the context algebra
(C07) observes leaves only through `==` and `isinstance(·, dict)`, so it is generic in `α`.

No imports.  Used by `Model/C07.lean`, `Model/C14.lean`. -/

namespace Lena

inductive Val (α : Type) where
  | leaf : α → Val α
  | dict : List (Option (Val α)) → Val α
  deriving Repr

/-- the slots of one dictionary -/
abbrev Slots (α : Type) := List (Option (Val α))

namespace Val
variable {α : Type}

/-! ## decidable structural equality (`deriving DecidableEq` does not handle the nested type) -/
section eq
variable [DecidableEq α]

mutual
def beq : Val α → Val α → Bool
  | leaf a, leaf b => decide (a = b)
  | dict a, dict b => beqL a b
  | _, _ => false
def beqL : Slots α → Slots α → Bool
  | [], [] => true
  | x :: r, y :: r' => beqO x y && beqL r r'
  | _, _ => false
def beqO : Option (Val α) → Option (Val α) → Bool
  | none, none => true
  | some v, some w => beq v w
  | _, _ => false
end

mutual
theorem beq_iff : ∀ a b : Val α, beq a b = true ↔ a = b
  | leaf a, leaf b => by simp [beq]
  | dict a, dict b => by simp [beq, beqL_iff a b]
  | leaf _, dict _ => by simp [beq]
  | dict _, leaf _ => by simp [beq]
theorem beqL_iff : ∀ a b : Slots α, beqL a b = true ↔ a = b
  | [], [] => by simp [beqL]
  | x :: r, y :: r' => by simp [beqL, beqO_iff x y, beqL_iff r r']
  | [], _ :: _ => by simp [beqL]
  | _ :: _, [] => by simp [beqL]
theorem beqO_iff : ∀ a b : Option (Val α), beqO a b = true ↔ a = b
  | none, none => by simp [beqO]
  | some v, some w => by simp [beqO, beq_iff v w]
  | none, some _ => by simp [beqO]
  | some _, none => by simp [beqO]
end

instance instDecidableEq : DecidableEq (Val α) := fun a b =>
  if h : beq a b = true then isTrue ((beq_iff a b).1 h)
  else isFalse (fun e => h ((beq_iff a b).2 e))

end eq

/-! ## basic observations -/

/-- `isinstance(v, dict)` -/
def isDict : Val α → Bool
  | dict _ => true
  | leaf _ => false

/-- Python `bool(d)` for a dictionary: some key is present -/
def nonEmpty (l : Slots α) : Bool := l.any Option.isSome

/-- `{}` over the same key alphabet as `l` -/
def emptyLike (l : Slots α) : Slots α := List.replicate l.length none

/-- `{}` over an alphabet of `n` keys -/
def empty (n : Nat) : Slots α := List.replicate n none

/-- `d.get(key)` for key number `i` (`none` = absent; also beyond the end of the vector) -/
def getSlot (l : Slots α) (i : Nat) : Option (Val α) :=
  match l[i]? with
  | some x => x
  | none => none

/-- `d[key] = v` for key number `i`; a vector that is too short is padded with absent keys -/
def setSlot : Slots α → Nat → Option (Val α) → Slots α
  | [], 0, v => [v]
  | [], i + 1, v => none :: setSlot [] i v
  | _ :: r, 0, v => v :: r
  | x :: r, i + 1, v => x :: setSlot r i v

/-- the value at a path of keys (`d[k1][k2]…`); `none` when a key is absent or a non-dictionary
is met before the path ends -/
def getPath : Val α → List Nat → Option (Val α)
  | v, [] => some v
  | leaf _, _ :: _ => none
  | dict l, i :: p =>
    match getSlot l i with
    | some w => getPath w p
    | none => none

/-- number of keys present -/
def size (l : Slots α) : Nat := (l.filter Option.isSome).length

/-! ## well-formedness: every dictionary, at every depth, has exactly `n` slots -/
mutual
def WF (n : Nat) : Val α → Prop
  | leaf _ => True
  | dict l => l.length = n ∧ WFL n l
def WFL (n : Nat) : Slots α → Prop
  | [] => True
  | none :: r => WFL n r
  | some v :: r => WF n v ∧ WFL n r
end

def WFO (n : Nat) : Option (Val α) → Prop
  | none => True
  | some v => WF n v

/-- a dictionary over an alphabet of `n` keys -/
def WFD (n : Nat) (l : Slots α) : Prop := l.length = n ∧ WFL n l

-- executable version of `WF` (used by the drivers to reject malformed requests)
mutual
def wfB (n : Nat) : Val α → Bool
  | leaf _ => true
  | dict l => l.length == n && wfLB n l
def wfLB (n : Nat) : Slots α → Bool
  | [] => true
  | none :: r => wfLB n r
  | some v :: r => wfB n v && wfLB n r
end

end Val
end Lena
