import LenaModel.Model.C08
/-! # C08 — specification-side definitions, executable

The notions the property theorems are *stated* with (`Props/C08.lean`): the item a key path names is
`getPath` (in `Model/C08.lean`); here are the one-key-per-level dictionaries of a path, the Boolean forms of
the hypotheses (`WFPath`, `EntriesWF`, `Piece.WF`, `LeafFields`, `NotTemplate`, `IllFormed` — the theorem files
prove each equivalent to its `Prop`), the reference rendering of a template, the template string of a list
of pieces.  They live under `Model/` so that the model driver can execute them: the harness compares every one
of them with an independent Python reference on the generated cases (`op: "spec"`). -/
namespace Lena.C08

/-- the one-key-per-level dictionary `{k1: {k2: … {kn: v}}}` of a non-empty path (what `str_to_dict`
builds); for the empty path the value itself -/
def nestPath : List String → Val → Val
  | [], v => v
  | k :: r, v => .dict [(k, nestPath r v)]

/-- the dictionary notation of a key path: `{k1: {k2: … {kn: v}}}` (`{}` for the empty path) -/
def pathEntries : List String → Val → Entries
  | [], _ => []
  | k :: r, v => [(k, nestPath r v)]

/-- the sub-dictionary `UpdateContext.__call__` descends into: `d[k]` if it is a dictionary, a new `{}`
otherwise -/
def subDict (d : Entries) (k : String) : Entries :=
  match lookup d k with
  | some (.dict e) => e
  | _ => []

/-- a key path as the property means it: every key is non-empty and has no dot (Boolean form of `WFPath`) -/
def wfPathB (p : List String) : Bool := p.all (fun k => k != "" && !k.toList.contains '.')

/-! no key twice in a dictionary, at every depth (Boolean form of `Val.WF` / `EntriesWF`) -/
mutual
def valWFB : Val → Bool
  | .leaf _ => true
  | .dict es => entriesWFB es
  | .list xs => listWFB xs
def entriesWFB : Entries → Bool
  | [] => true
  | (k, v) :: r => (lookup r k).isNone && valWFB v && entriesWFB r
def listWFB : List Val → Bool
  | [] => true
  | v :: r => valWFB v && listWFB r
end

/-! ## templates -/

/-- do all fields of a template name an item of the context -/
def fieldsPresent (ctx : Entries) : List Piece → Bool
  | [] => true
  | .lit _ :: r => fieldsPresent ctx r
  | .field p :: r => (getPath (.dict ctx) p).isSome && fieldsPresent ctx r

/-- reference `str()` of an item: `pyStrVal`, the empty string where that is not defined -/
def strSpec (v : Val) : String := (pyStrVal v).getD ""

/-- the literals interleaved with `str(item)` of the fields; an absent field gives the empty string -/
def renderSpec (ctx : Entries) : List Piece → String
  | [] => ""
  | .lit s :: r => s ++ renderSpec ctx r
  | .field p :: r =>
    (match getPath (.dict ctx) p with
     | some v => strSpec v
     | none => "") ++ renderSpec ctx r

/-- every field that is present names an item whose `str()` is modelled (Boolean form of `StrFields`) -/
def strFieldsB (ctx : Entries) : List Piece → Bool
  | [] => true
  | .lit _ :: r => strFieldsB ctx r
  | .field p :: r =>
    (match getPath (.dict ctx) p with
     | some v => (pyStrVal v).isSome
     | none => true) && strFieldsB ctx r

/-- a literal text or a field name, as characters -/
inductive TP where
  | lit (l : List Char)
  | fld (name : List Char)

/-- the template as the user writes it: a field is `{{name}}` -/
def render0 : List TP → List Char
  | [] => []
  | .lit l :: r => l ++ render0 r
  | .fld n :: r => '{' :: '{' :: (n ++ '}' :: '}' :: render0 r)

/-- a piece of a template as characters: a field is written `{{dotted.name}}` -/
def Piece.toTP : Piece → TP
  | .lit s => .lit s.toList
  | .field p => .fld (joinDots p).toList

/-- the template string of a list of pieces -/
def templateString (ps : List Piece) : String := String.ofList (render0 (ps.map Piece.toTP))

/-- "template strings built from literals and fields": a literal has no brace, a field is a key path whose
keys have none of the characters `{ } ! :` (Boolean form of `Piece.WF`) -/
def pieceWFB : Piece → Bool
  | .lit s => s.toList.all (fun c => c != '{' && c != '}')
  | .field p => wfPathB p && p.all (fun k => k.toList.all (fun c => c != '{' && !isTerm c))

/-- a value that `format_update_with` does not format: anything but a string with a brace (Boolean form
of `NotTemplate`) -/
def notTemplateB : Val → Bool
  | .leaf (.str s) => !s.toList.contains '{'
  | _ => true

/-! ## the option matrix of `UpdateContext` -/

/-- number of active missing-key options -/
def nActive (a : UCArgs) : Nat := a.default.isSome.toNat + a.raiseOnMissing.toNat + a.skipOnMissing.toNat

/-- the documented ill-formed argument combinations of `UpdateContext` (Boolean form of `IllFormed`) -/
def illFormedB (a : UCArgs) : Bool :=
  match a.subcontext with
  | none => true
  | some sc =>
    sc == "" || decide (nActive a > 1) ||
    (match a.update with
     | .simple _ => nActive a != 0
     | .str u =>
       if a.value then !matchValueTemplate u.toList
       else a.default.isSome ||
         ((a.raiseOnMissing || a.skipOnMissing || u.toList.contains '{') &&
           (match jinjaParse u with
            | .syntaxError => true
            | _ => false)))

end Lena.C08
