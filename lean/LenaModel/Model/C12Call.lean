import LenaModel.Model.C12
/-! # C12 model, calls of the user's `make_value` — `hist_to_graph` with a `make_value` that keeps state

`Model/C12.lean` models `make_value` as a function `Q → List Q`: what a *pure* `make_value` is.  The number and the order
of the calls of the user's callable are observable behaviour of the conversion as soon as the callable keeps state
(a running sum that turns a histogram into a cumulative graph, a counter that numbers the cells, a callable that
consumes an iterator of per-bin errors or labels).  Here `make_value` is a state transformer `σ → Q → σ × List Q`, and
the loop of `hist_to_graph` (hist_functions.py:369-385: `for value, edges in iter_bins_with_edges(hist.bins,
hist.edges): … if make_value is None: graph_value = value else: graph_value = make_value(value)`) threads the state
through the cells and records the arguments of the calls.  There is no call of `make_value` outside that loop
(hist_functions.py:299-391; `HistToGraph.run` passes `self._make_value.getter`, elements.py:65-116).

No imports except `LenaModel.Model.*`: this file is executed by `drivers/C12.lean`. -/

namespace Lena.C12

open Lena Lena.NArr

/-- a `make_value` with state: from the state before the call and the bin content, the state after the call and the
returned value as a tuple (`if not hasattr(graph_value, "__iter__"): graph_value = (graph_value,)`) -/
abbrev StMakeValue (σ : Type) := σ → Q → σ × List Q

/-- the loop of `hist_to_graph` over `iter_bins_with_edges` (hist_functions.py:369-385) with a `make_value` that keeps
state: the state, the columns so far and the arguments of the calls of `make_value` so far (`trace`) -/
def graphLoopSt {σ : Type} (mode : CoordMode) (mk : StMakeValue σ) :
    List (NArr Q × List (Q × Q)) → σ → List (List Q) → List Q → Except Err (σ × List (List Q) × List Q)
  | [], s, coords, trace => .ok (s, coords, trace)
  | (.leaf value, edges) :: rest, s, coords, trace =>
    graphLoopSt mode mk rest (mk s value).1 (appendRow coords (getCoord mode edges ++ (mk s value).2)) (trace ++ [value])
  | (.node _, _) :: _, _, _, _ => .error .unmodelled

/-- `hist_to_graph(hist, make_value, get_coordinate, field_names, scale)` (hist_functions.py:299-391) for a
`make_value` with state `s0` before the conversion: the histogram (`scale=True` stores the computed scale in it), the
graph, the state of `make_value` after the conversion and the arguments `make_value` was called with, in call order -/
def histToGraphSt {σ : Type} (h : Hist) (mk : StMakeValue σ) (s0 : σ) (mode : CoordMode)
    (fieldNames : FieldNamesArg) (scale : ScaleArg) : Except Err (Hist × Graph × σ × List Q) :=
  if mode = .bad then .error .lenaValueError
  else do
    let names ← fieldNamesTuple fieldNames
    let (h1, sc) ← resolveScale h scale
    let cells ← iterBinsWithEdges h1.bins h1.edges
    let (s1, coords, trace) ← graphLoopSt mode mk cells s0 (names.map (fun _ => [])) []
    let g ← mkGraph coords (.tuple names) sc
    pure (h1, g, s1, trace)

/-! ## specification vocabulary -/

/-- the values returned by the successive calls `make_value(v₀), make_value(v₁), …` starting in state `s` -/
def callResults {σ : Type} (mk : StMakeValue σ) : σ → List Q → List (List Q)
  | _, [] => []
  | s, v :: vs => (mk s v).2 :: callResults mk (mk s v).1 vs

/-- the state of `make_value` after the calls `make_value(v₀), make_value(v₁), …` starting in state `s` -/
def callState {σ : Type} (mk : StMakeValue σ) : σ → List Q → σ
  | s, [] => s
  | s, v :: vs => callState mk (mk s v).1 vs

/-- appending the points `coordinate(edgesᵢ) ++ resultᵢ` one after the other to the columns -/
def appendPoints (mode : CoordMode) : List (List (Q × Q) × List Q) → List (List Q) → List (List Q)
  | [], coords => coords
  | (edges, r) :: rest, coords => appendPoints mode rest (appendRow coords (getCoord mode edges ++ r))

/-! ## the stateful `make_value`s of the harness

State: the sum of the arguments so far and the number of calls so far. -/

/-- a running sum: the cumulative graph of a histogram -/
def mvRunSum : StMakeValue (Q × Nat) := fun s v => ((s.1 + v, s.2 + 1), [s.1 + v])
/-- `(value, number of this call)`: a counter that numbers the cells -/
def mvCount : StMakeValue (Q × Nat) := fun s v => ((s.1 + v, s.2 + 1), [v, ((s.2 + 1 : Nat) : Q)])
/-- `(value, next(it))` for `it = iter([10, 20, 30, …])`: a callable that consumes an iterator -/
def mvFeed : StMakeValue (Q × Nat) := fun s v => ((s.1 + v, s.2 + 1), [v, 10 * ((s.2 + 1 : Nat) : Q)])

end Lena.C12
