/-! # C15 model — selectors, `Filter`, `RunIf`, include/exclude trees, `GroupBy` and `_GroupBy`

Transcription of
* `lena/flow/selectors.py`: `Selector.__init__` (dispatch on the type of the specification),
  `Selector.__call__` (error absorption), `And/Or/Not.__call__`, `SelectContext.__call__`;
* `lena/flow/filter.py`: `Filter.__init__`, `Filter.run`, `Filter.fill_into` (also with the filled element made
  explicit: `fillIntoEl`, `fillIntoAll`); two `Filter`s in a `Sequence` (`filterSeqRun`: the lazy value-by-value
  order of nested generators); a `StopIteration` raised inside a generator expression / generator function reaches
  the caller as `RuntimeError` (PEP 479: `pep479`, in `callAll`, `callAny`, `filterRun`, `filterSeqRun`, `runIfRun`);
* `lena/flow/elements.py`: `RunIf.__init__`, `RunIf.run`;
* `lena/context/functions.py`: `contains`, `get_recursively` without default — string, list and
  dictionary keys, with its `LenaValueError` / `LenaTypeError` for malformed keys;
* `lena/flow/functions.py`: `get_context`, `get_data`;
* `lena/context/include_exclude_tree.py`: `_split_key`, `_startswith`, `_group_by_starting_prefixes`,
  `_make_include_exclude_tree`, `make_include_exclude_tree`, `IncludeExcludeTree.get`,
  `IncludeExcludeTree._get_from_subtree` (as repaired by commit 0d389ed);
  (`contains` as of commit e5c725f, `SelectContext` as of 6df7ab0 and 0b5fd4d);
* `lena/flow/group_by.py`: `GroupBy.__init__` (also for arguments that are no strings or containers),
  `fill` (with the `LenaValueError` of `to_string` for an unserialisable object in the selected part),
  `compute`, `reset`, `clear`, `update`; the deprecated `_GroupBy` for callables and tuples of callables
  (`__init__`, `fill`, `reset`, `clear`, `update`).

Not modelled (see DESIGN.md): `__eq__`/`__repr__` of the selector classes, `Filter`, `GroupBy`,
`IncludeExcludeTree`; `_GroupBy` with a formatting string (`format_context` belongs to C08); `get_recursively`
with a default or a first argument that is no dictionary (not reachable from `SelectContext`); `str()` of a
context value raising inside `contains`; items of a `group_by` tuple that are no strings.

A dictionary is a slot vector over the key alphabet `names` of the case (DESIGN.md section 2):
slot `i` holds the binding of the key `names[i]`, `none` = key absent.  The value type of this
property lives in this file (no dependency on other properties' files).  No imports. -/

namespace Lena.C15

/-! ## Values -/

/-- a scalar of a context -/
inductive Leaf where
  | none
  | bool (b : Bool)
  | int (i : Int)
  | str (s : String)
  | obj (s : String)        -- any other object (`json.dumps` cannot encode it); `s` = its `str()`
  deriving DecidableEq, Repr

/-- a context value: a scalar or a dictionary (slot vector) -/
inductive Val where
  | leaf (a : Leaf)
  | dict (l : List (Option Val))
  deriving Repr

abbrev Slots := List (Option Val)
abbrev Path := List Nat

/-! structural equality, by mutual structural recursion (`deriving DecidableEq` does not handle
the nested type).  This is Python's order-insensitive `dict.__eq__` on slot vectors, type-strict
on scalars (as `to_string`, i.e. `json.dumps`, is: `1` and `true` are different keys). -/
mutual
def beqV : Val → Val → Bool
  | .leaf a, .leaf b => decide (a = b)
  | .dict a, .dict b => beqL a b
  | _, _ => false
def beqL : Slots → Slots → Bool
  | [], [] => true
  | x :: r, y :: r' => beqO x y && beqL r r'
  | _, _ => false
def beqO : Option Val → Option Val → Bool
  | none, none => true
  | some v, some w => beqV v w
  | _, _ => false
end

/-- Python `bool(d)` for a dictionary: some key is present -/
def nonEmpty (l : Slots) : Bool := l.any Option.isSome

/-- `d.get(key)` on a slot vector -/
def slotGet (l : Slots) (k : Nat) : Option Val := (l[k]?).join

/-- Python `str(x)` of a scalar -/
def pyStr : Leaf → String
  | .none => "None"
  | .bool true => "True"
  | .bool false => "False"
  | .int i => toString i
  | .str s => s
  | .obj s => s

/-- Python `s.split('.')` on the characters of `s` -/
def splitDotsC : List Char → List (List Char)
  | [] => [[]]
  | c :: cs =>
    match splitDotsC cs with
    | [] => [[]]                       -- unreachable: the result is never empty
    | w :: ws => if c = '.' then [] :: w :: ws else (c :: w) :: ws

def splitDots (s : String) : List String := (splitDotsC s.toList).map String.ofList

section Names
/-! the key alphabet of the case: slot `i` belongs to the key `names[i]` -/
variable (names : List String)

/-- `key in d` / `d[key]` for a string key -/
def lookupKey (l : Slots) (key : String) : Option Val := slotGet l (names.idxOf key)

/-! ## `lena.context.contains` (functions.py:14-60) -/

/-- the loop over `levels[:-1]` followed by the test of the last level; the first argument is
`subdict`.  `levels` is never empty. -/
def containsGo : Val → List String → Bool
  | _, [] => false
  | .dict l, [last] => (lookupKey names l last).isSome          -- `last_val in subdict`
  | .leaf a, [last] => pyStr a == last                          -- `str(subdict) == last_val`
  | .dict l, key :: rest =>
    match lookupKey names l key with
    | none => false                                             -- `key not in subdict`
    | some w => containsGo w rest
  | .leaf _, _ :: _ :: _ => false                               -- `not isinstance(subdict, dict)`

/-- `contains(d, s)`: the empty string names the context itself (`if s == "": return True`, commit
e5c725f); `len(levels) < 2` gives `s in d`, which is the same test as the general one -/
def contains (d : Slots) (s : String) : Bool :=
  if s = "" then true else containsGo names (.dict d) (splitDots s)

/-! ## `lena.context.get_recursively` without default (functions.py:239-332) -/

/-- what ends a key given as a dictionary `{"a": {"b": X}}`: `X` is empty or falsy (`stop`), a truthy
non-dictionary (`key`: a string, or `none` for a value that is no string and hence no key of a context),
or a dictionary with more than one key (`multi`) -/
inductive DictTail where
  | stop
  | key (s : Option String)
  | multi
  deriving Repr

/-- the key argument: a dot-separated string (empty components skipped), a list of strings, a list with
an item that is not a string (`badList`), or a dictionary with one key at each level -/
inductive KeyArg where
  | str (s : String)
  | list (ks : List String)
  | badList
  | dict (ks : List String) (tail : DictTail)
  deriving Repr

/-- the list of simple keys `get_recursively` computes from its `keys` argument (lines 288-321) -/
inductive KeysRes where
  | keys (ks : List String)
  | never                 -- the last key is no string: it is in no context (`LenaKeyError` later)
  | valueError            -- "keys must have exactly one key at each level"
  | typeError             -- "all simple keys must be strings"
  deriving DecidableEq, Repr

def KeyArg.resolve : KeyArg → KeysRes
  | .str s => .keys ((splitDots s).filter (· ≠ ""))
  | .list ks => .keys ks
  | .badList => .typeError
  | .dict ks .stop => .keys ks
  | .dict ks (.key (some s)) => .keys (ks ++ [s])
  | .dict _ (.key none) => .never
  | .dict _ .multi => .valueError

/-- `none` = `LenaKeyError`.  `d` is a dictionary (the caller passes `get_context(value)`). -/
def getRecGo : Slots → List String → Option Val
  | d, [] => some (.dict d)
  | d, [k] => lookupKey names d k
  | d, k :: rest =>
    match lookupKey names d k with
    | some (.dict l) => getRecGo l rest
    | _ => none

/-- outcome of `get_recursively(d, keys)` without default -/
inductive GetRes where
  | found (v : Val)
  | keyError
  | valueError
  | typeError
  deriving Repr

def getRecursively (d : Slots) (key : KeyArg) : GetRes :=
  match key.resolve with
  | .keys ks =>
    match getRecGo names d ks with
    | some v => .found v
    | none => .keyError
  | .never => .keyError
  | .valueError => .valueError
  | .typeError => .typeError

end Names

/-! ## Flow values (`lena/flow/functions.py`) -/

/-- classes of data values beyond `NoneType`, `bool`, `int`, `str` and the plain tuple: built-in ones (`float`,
`dict`, `list`), user-defined ones (`intSub`: a subclass of `int`; `strSub`: a subclass of `str`; `user` and its
subclass `userSub`), `fractions.Fraction` (a `numbers.Number` by its abstract base class `Rational`) and a named
tuple (a subclass of `tuple`) -/
inductive PyType where
  | float | dict | list | intSub | strSub | user | userSub | fraction | namedTuple
  deriving DecidableEq, Repr

/-- the data part of a value, as far as `isinstance` can see it -/
inductive Data where
  | none
  | bool (b : Bool)
  | int (i : Int)
  | str (s : String)
  | tuple                      -- a tuple that is not a (data, context) pair
  | other (t : PyType)         -- an instance of one of the further classes
  deriving DecidableEq, Repr

/-- the classes a class-selector is built from: concrete classes, user-defined classes, and the abstract base
classes `numbers.Number`, `numbers.Integral`, `collections.abc.Mapping`, `Sequence`, `Hashable` (a class is an
instance of those by *registration* or by a `__subclasshook__`, not by inheritance) -/
inductive PyClass where
  | object | int | bool | str | tuple | float | dict
  | list | noneType | intSub | strSub | user | userSub
  | number | integral | mapping | sequence | hashable
  deriving DecidableEq, Repr

/-- `isinstance(data, cls)` for the further classes of data: what Python's `isinstance` answers for an instance
of `t` (inheritance: `intSub < int`, `strSub < str`, `userSub < user`, named tuple `< tuple`; abstract base
classes: `float`, `int` and `Fraction` are registered as `Number`s, `dict` is a `Mapping`, `str`, `tuple` and
`list` are `Sequence`s, everything with a `__hash__` is `Hashable` — not `dict` and `list`) -/
def isinstanceT : PyType → PyClass → Bool
  | _, .object => true
  | .float, .float => true
  | .dict, .dict => true
  | .list, .list => true
  | .intSub, .intSub => true
  | .intSub, .int => true
  | .strSub, .strSub => true
  | .strSub, .str => true
  | .user, .user => true
  | .userSub, .userSub => true
  | .userSub, .user => true
  | .namedTuple, .tuple => true
  | .float, .number => true
  | .intSub, .number => true
  | .fraction, .number => true
  | .intSub, .integral => true
  | .dict, .mapping => true
  | .list, .sequence => true
  | .strSub, .sequence => true
  | .namedTuple, .sequence => true
  | .dict, .hashable => false
  | .list, .hashable => false
  | _, .hashable => true
  | _, _ => false

/-- `isinstance(data, cls)` (`bool` is a subclass of `int`) -/
def isinstance : Data → PyClass → Bool
  | _, .object => true
  | .int _, .int => true
  | .bool _, .int => true
  | .bool _, .bool => true
  | .str _, .str => true
  | .tuple, .tuple => true
  | .other t, c => isinstanceT t c
  | .none, .noneType => true
  | .int _, .number => true
  | .bool _, .number => true
  | .int _, .integral => true
  | .bool _, .integral => true
  | .str _, .sequence => true
  | .tuple, .sequence => true
  | .none, .hashable => true
  | .bool _, .hashable => true
  | .int _, .hashable => true
  | .str _, .hashable => true
  | .tuple, .hashable => true
  | _, _ => false

/-- a flow value: bare data (`ctx = none`) or a `(data, context)` pair -/
structure Item where
  data : Data
  ctx : Option Slots
  deriving Repr

/-- `get_context(value)`: the context, `{}` for a bare value (`width` = size of the alphabet) -/
def Item.context (width : Nat) (v : Item) : Slots := v.ctx.getD (List.replicate width none)

/-! ## Outcomes -/

/-- outcome of a call: a boolean or an exception (by class name) -/
inductive Res where
  | ok (b : Bool)
  | raise (e : String)
  deriving DecidableEq, Repr

/-- `try: ... except Exception: if raise_on_error: raise; return False` -/
def absorb (roe : Bool) : Res → Res
  | .raise e => if roe then .raise e else .ok false
  | r => r

/-- PEP 479 on exception names: a `StopIteration` that escapes the body of a generator — the generator
expressions of `And.__call__`, `Or.__call__` and `Filter.run`, the generator function `RunIf.run` — reaches
the caller as `RuntimeError("generator raised StopIteration")` -/
def pep479e (e : String) : String := if e = "Other:StopIteration" then "Other:RuntimeError" else e

def pep479 : Res → Res
  | .raise e => .raise (pep479e e)
  | r => r

/-- `not x` (an exception propagates) -/
def neg : Res → Res
  | .ok b => .ok (!b)
  | r => r

/-! ## Selector specifications and the objects `Selector.__init__` builds -/

/-- what the user writes.  The first five are raw Python values, `notI … selCtx` are selector
*instances* (they may occur inside lists and tuples, where `And/Or.__init__` keep them as they
are), `bad` is a value of any other type (an `int`, say). -/
inductive Spec where
  | str (s : String)
  | cls (c : PyClass)
  | fn (f : Item → Res)
  | list (l : List Spec)
  | tuple (l : List Spec)
  | notI (s : Spec) (roe : Bool)         -- `Not(s, raise_on_error=roe)`
  | selI (s : Spec) (roe : Bool)         -- `Selector(s, raise_on_error=roe)`
  | andI (l : List Spec) (roe : Bool)    -- `And(tuple, raise_on_error=roe)`
  | orI (l : List Spec) (roe : Bool)     -- `Or(list, raise_on_error=roe)`
  | selCtx (key : KeyArg) (pred : Val → Res) (roe : Bool)   -- `SelectContext(key, pred, roe)`
  | bad

/-- `isinstance(sel, Selector)` for the value a specification denotes -/
def Spec.isInst : Spec → Bool
  | .notI .. | .selI .. | .andI .. | .orI .. | .selCtx .. => true
  | _ => false

/-- a callable object reachable from a selector -/
inductive Obj where
  | isinst (c : PyClass)                 -- `lambda val: isinstance(get_data(val), selector)`
  | contains (s : String)                -- `lambda val: contains(get_context(val), selector)`
  | fn (f : Item → Res)                  -- the user's callable, used as it is
  | selector (inner : Obj) (roe : Bool)  -- a `Selector`: `_selector`, `_raise_on_error`
  | andO (sels : List Obj) (roe : Bool)  -- an `And`: `_selectors` (its `_selector` is itself)
  | orO (sels : List Obj) (roe : Bool)
  | notO (inner : Obj) (roe : Bool)      -- a `Not`: `_selector`, `_raise_on_error`
  | selCtx (key : KeyArg) (pred : Val → Res) (roe : Bool)

/-! construction; `none` = `LenaTypeError`.

`inner roe s` is the attribute `_selector` computed by `Selector.__init__(s, roe)`
(selectors.py:46-83): class → the isinstance lambda, callable → itself (a selector instance is a
callable), str → the contains lambda, list → `Or(s, roe)`, tuple → `And(s, roe)`, anything
else → `LenaTypeError`.  For an instance specification the instance is constructed (with its own
`raise_on_error`) and returned.
`items roe l` is the loop of `And/Or.__init__` (selectors.py:209-217, 247-255): an instance is
appended as it is, anything else is wrapped into `Selector(sel, raise_on_error=roe)`. -/
mutual
def inner (roe : Bool) : Spec → Option Obj
  | .cls c => some (.isinst c)
  | .fn f => some (.fn f)
  | .str s => some (.contains s)
  | .list l => (items roe l).map (.orO · roe)
  | .tuple l => (items roe l).map (.andO · roe)
  | .bad => none
  | .notI s r => (inner r s).map (.notO · r)
  | .selI s r => (inner r s).map (.selector · r)
  | .andI l r => (items r l).map (.andO · r)
  | .orI l r => (items r l).map (.orO · r)
  | .selCtx k p r => some (.selCtx k p r)
def items (roe : Bool) : List Spec → Option (List Obj)
  | [] => some []
  | s :: rest =>
    match (if s.isInst then inner roe s else (inner roe s).map (.selector · roe)) with
    | none => none
    | some o =>
      match items roe rest with
      | none => none
      | some os => some (o :: os)
end

/-- `sel if isinstance(sel, Selector) else Selector(sel, raise_on_error=roe)` -/
def mkSelector (roe : Bool) (s : Spec) : Option Obj :=
  if s.isInst then inner roe s else (inner roe s).map (.selector · roe)

section Call
variable (names : List String)

/-! `__call__` of every object (selectors.py:92-112, 173-193, 223-224, 261-262, 296-308) -/
mutual
def call : Obj → Item → Res
  | .isinst c, v => .ok (isinstance v.data c)
  | .contains s, v => .ok (contains names (v.context names.length) s)
  | .fn f, v => f v
  | .selector i roe, v => absorb roe (call i v)
  | .andO os _, v => callAll os v
  | .orO os _, v => callAny os v
  | .notO i roe, v => neg (absorb roe (call i v))
  | .selCtx k p roe, v =>
    match getRecursively names (v.context names.length) k with
    | .keyError => .ok false                             -- `except LenaKeyError: return False`
    | .valueError => .raise "LenaValueError"             -- raised outside the `try` of the predicate:
    | .typeError => .raise "LenaTypeError"               --   propagates whatever `raise_on_error` is
    | .found sub => absorb roe (p sub)
/-- `all(f(val) for f in self._selectors)` -/
def callAll : List Obj → Item → Res
  | [], _ => .ok true
  | o :: os, v =>
    match pep479 (call o v) with                         -- `f(val)` is evaluated inside a generator expression
    | .ok true => callAll os v
    | r => r
/-- `any(f(val) for f in self._selectors)` -/
def callAny : List Obj → Item → Res
  | [], _ => .ok false
  | o :: os, v =>
    match pep479 (call o v) with
    | .ok false => callAny os v
    | r => r
end

/-! ## `Filter` (filter.py) -/

/-- `Filter(selector)`: an instance is kept, anything else becomes `Selector(selector)` -/
def filterInit (s : Spec) : Option Obj := mkSelector true s

/-- `Filter.run(flow)` drained by the caller: the values yielded, and the exception that ended
the generator if one did -/
def filterRun (o : Obj) : List Item → List Item × Option String
  | [] => ([], none)
  | v :: rest =>
    match call names o v with
    | .raise e => ([], some (pep479e e))                 -- `(val for val in flow if self._selector(val))`
    | .ok true => let (ys, e) := filterRun o rest; (v :: ys, e)
    | .ok false => filterRun o rest

/-- `Filter.fill_into(element, value)`: was `element.fill(value)` called, or what was raised -/
def filterFillInto (o : Obj) (v : Item) : Res := call names o v

/-- `Filter.fill_into(element, value)` with the element made explicit: `el` = the values the element has been
filled with so far (`element.fill(value)` appends); an exception of the selector leaves the element as it is -/
def fillIntoEl (o : Obj) (el : List Item) (v : Item) : Except String (List Item) :=
  match call names o v with
  | .raise e => .error e                                 -- no generator here: the exception is not converted
  | .ok true => .ok (el ++ [v])
  | .ok false => .ok el

/-- a flow filled value by value into an element through `Filter.fill_into` (what `Split` does with a
`Filter` used as `FillInto` element), stopping at the first exception: the element, and that exception -/
def fillIntoAll (o : Obj) : List Item → List Item → List Item × Option String
  | el, [] => (el, none)
  | el, v :: rest =>
    match fillIntoEl names o el v with
    | .error e => (el, some e)
    | .ok el' => fillIntoAll o el' rest

/-- `Sequence(Filter(a), Filter(b)).run(flow)` drained by the caller.  Generators are lazy: a value that
passes the first filter is tested by the second before the first sees the next value. -/
def filterSeqRun (a b : Obj) : List Item → List Item × Option String
  | [] => ([], none)
  | v :: rest =>
    match call names a v with
    | .raise e => ([], some (pep479e e))
    | .ok false => filterSeqRun a b rest
    | .ok true =>
      match call names b v with
      | .raise e => ([], some (pep479e e))
      | .ok false => filterSeqRun a b rest
      | .ok true => let (ys, e) := filterSeqRun a b rest; (v :: ys, e)

/-! ## `RunIf` (elements.py:118-222) -/

/-- `RunIf(select, *args)`: an instance is kept, anything else becomes `Selector(select)` -/
def runIfInit (s : Spec) : Option Obj := mkSelector true s

/-- `RunIf.run(flow)` drained by the caller; `seq v` = the values `self._seq.run([v])` yields (the sequence
itself is assumed not to raise) -/
def runIfRun (o : Obj) (seq : Item → List Item) : List Item → List Item × Option String
  | [] => ([], none)
  | v :: rest =>
    match call names o v with
    | .raise e => ([], some (pep479e e))
    | .ok true => let (ys, e) := runIfRun o seq rest; (seq v ++ ys, e)
    | .ok false => let (ys, e) := runIfRun o seq rest; (v :: ys, e)

end Call

/-! ## Include/exclude trees -/

/-- `IncludeExcludeTree(keys, subtrees, include)`; keys are slot indices -/
inductive Tree where
  | node (incl : Bool) (keys : List Nat) (subs : List (Nat × Tree)) : Tree
  deriving Repr

def Tree.incl : Tree → Bool
  | .node i _ _ => i

/-- `self.subtrees[key]` / `key in self.subtrees` -/
def lookupSub (k : Nat) : List (Nat × Tree) → Option Tree
  | [] => none
  | (k', t) :: r => if k = k' then some t else lookupSub k r

/-! `IncludeExcludeTree.get` (`getL`, slot by slot: the loop `for key, value in context.items()`,
include_exclude_tree.py:97-127; the second argument is the index of the first slot) and
`_get_from_subtree` (`getV`, lines 129-142; `none` = `result[key]` is not set). -/
mutual
def getV : Tree → Val → Option Val
  | t, .dict l =>
    let r := getL t 0 l
    if nonEmpty r || t.incl then some (.dict r) else none     -- `if subresult or subtree.include`
  | t, .leaf a => if t.incl then some (.leaf a) else none      -- `elif subtree.include`
def getL : Tree → Nat → Slots → Slots
  | _, _, [] => []
  | t, k, none :: r => none :: getL t (k + 1) r
  | .node incl keys subs, k, some v :: r =>
    (if incl then
      (if keys.contains k then none                            -- `if key in exclude: continue`
       else match lookupSub k subs with
         | some st => getV st v
         | none => some v)
    else
      (if keys.contains k then some v                          -- `if key in include`
       else match lookupSub k subs with
         | some st => getV st v
         | none => none)) :: getL (.node incl keys subs) (k + 1) r
end

/-- keys of `_group_by_starting_prefixes(keys)` -/
def heads (ps : List Path) : List Nat := ps.filterMap List.head?

/-- `_group_by_starting_prefixes(keys)[k]`: the tails of the keys that start with `k` -/
def tailsOf (k : Nat) (ps : List Path) : List Path :=
  ps.filterMap (fun p => match p with | h :: t => if h = k then some t else none | [] => none)

/-- `[sk for sk in pref.get(key, []) if sk]` -/
def tailsNE (k : Nat) (ps : List Path) : List Path := (tailsOf k ps).filter (· ≠ [])

/-- `tails == [[]] and key not in subsubs` -/
def isProper (k : Nat) (opp same : List Path) : Bool :=
  tailsOf k opp = [[]] && !(heads same).contains k

/-- `min(len(subkey) for subkey in tails) == 0` ? `not is_default_include` : `is_default_include` -/
def newIncl (k : Nat) (opp : List Path) (d : Bool) : Bool :=
  if (tailsOf k opp).any (· = []) then !d else d

/-- result of `_make_include_exclude_tree` -/
inductive Made where
  | ok (t : Tree)
  | valueError            -- `LenaValueError` ("Remove extra subkeys")
  | fuel                  -- the model ran out of recursion fuel (never with `makeFuel`)
  deriving Repr

def Made.isFuel : Made → Bool
  | .fuel => true
  | _ => false
def Made.isValueError : Made → Bool
  | .valueError => true
  | _ => false
def Made.tree? : Made → Option Tree
  | .ok t => some t
  | _ => none

/-- `_make_include_exclude_tree(includes, excludes, is_default_include)` (lines 155-218).  The
recursion goes down one key level at a time; the fuel bounds its depth. -/
def make : Nat → List Path → List Path → Bool → Made
  | 0, _, _, _ => .fuel
  | f + 1, I, E, d =>
    let opp := if d then E else I        -- `subkeys`
    let same := if d then I else E       -- `subsubs`
    if (heads same).any (fun k => !(heads opp).contains k) then .valueError     -- `extra_keys`
    else
      let ks := (heads opp).eraseDups
      let keys := ks.filter (fun k => isProper k opp same)
      let subs := (ks.filter (fun k => !isProper k opp same)).map
        (fun k => (k, make f (tailsNE k I) (tailsNE k E) (newIncl k opp d)))
      if subs.any (fun kt => kt.2.isFuel) then .fuel
      else if subs.any (fun kt => kt.2.isValueError) then .valueError
      else .ok (.node d keys (subs.filterMap (fun kt => kt.2.tree?.map (fun t => (kt.1, t)))))

/-- length of the longest path -/
def depthOf (ps : List Path) : Nat := ps.foldr (fun p m => max p.length m) 0

/-- fuel that always suffices (`Props.C15.make_fuel_suffices`) -/
def makeFuel (I E : List Path) : Nat := max (depthOf I) (depthOf E) + 1

/-- `_startswith(s1, s2)`: does the container `s2` start with `s1` (lines 47-59; the index loop as a
recursion over both lists) -/
def startsWith : List String → List String → Bool
  | [], _ => true
  | _ :: _, [] => false                                   -- `len(s2) < len(s1)`
  | a :: r1, b :: r2 => if b ≠ a then false else startsWith r1 r2

/-- `_split_key(key)`; `none` = `LenaValueError` (an empty subkey) -/
def splitKey (key : String) : Option (List String) :=
  if key = "" then some [key]
  else
    let skey := splitDots key
    if skey.contains "" then none else some skey

/-- `[_split_key(key) for key in keys if key != ""]`, subkeys as slot indices -/
def splitKeys (names : List String) (keys : List String) : Option (List Path) :=
  (keys.filter (· ≠ "")).mapM (fun key => (splitKey key).map (fun sk => sk.map names.idxOf))

/-- `make_include_exclude_tree(includes, excludes)` for tuples of strings -/
def makeIncludeExcludeTree (names : List String) (includes excludes : List String) : Made :=
  let d := includes.contains ""
  if d == excludes.contains "" then .valueError          -- not exactly one root
  else
    match splitKeys names includes, splitKeys names excludes with
    | some I, some E => make (makeFuel I E) I E d
    | _, _ => .valueError

/-! ## `GroupBy` -/

/-- `group_by` / `merge`: a string or a tuple of strings -/
inductive StrOrTuple where
  | str (s : String)
  | tuple (l : List String)
  deriving Repr, DecidableEq

/-- `if isinstance(includes, str): includes = (includes,)` -/
def StrOrTuple.toList : StrOrTuple → List String
  | .str s => [s]
  | .tuple l => l

/-- `GroupBy.__init__` (group_by.py:20-63) -/
def groupByInit (names : List String) (groupBy merge : StrOrTuple) : Made :=
  if groupBy = .str "" ∧ merge = .str "" then
    makeIncludeExcludeTree names [] [""]
  else makeIncludeExcludeTree names groupBy.toList merge.toList

/-- `self.groups`: an insertion-ordered dictionary from keys to lists of values.  The key is the
selected sub-context itself, where the code uses its `to_string` (`json.dumps(sort_keys=True)`):
`Props/C15Key.lean` (`group_key_to_string`) shows with C08's token model of `to_string` that the two keyings
coincide; the driver renders the keys with that model and the harness compares them with the real strings. -/
abbrev Groups := List (Slots × List Item)

/-- `if key in self.groups: self.groups[key].append(val) else: self.groups[key] = [val]` -/
def groupsAdd (key : Slots) (v : Item) : Groups → Groups
  | [] => [(key, [v])]
  | (k, vs) :: rest => if beqL key k then (k, vs ++ [v]) :: rest else (k, vs) :: groupsAdd key v rest

/-- the group key of a value: `self._iet.get(get_context(val))` -/
def groupKey (width : Nat) (t : Tree) (v : Item) : Slots := getL t 0 (v.context width)

/-- `GroupBy.fill(val)` -/
def gbFill (width : Nat) (t : Tree) (gs : Groups) (v : Item) : Groups :=
  groupsAdd (groupKey width t v) v gs

/-- `GroupBy.compute()`: `for grp in self.groups.values(): yield grp` -/
def gbCompute (gs : Groups) : List (List Item) := gs.map (·.2)

/-- `GroupBy.reset()`: `self.groups.clear()` -/
def gbReset (_ : Groups) : Groups := []

/-- `GroupBy.clear()` (deprecated alias: warns, then `self.groups.clear()`) -/
def gbClear (gs : Groups) : Groups := gbReset gs

/-- `GroupBy.update(val)` (deprecated alias: warns, then `self.fill(val)`) -/
def gbUpdate (width : Nat) (t : Tree) (gs : Groups) (v : Item) : Groups := gbFill width t gs v

/-! does a (sub-)context hold an object `json.dumps` cannot encode -/
mutual
def hasObjV : Val → Bool
  | .leaf (.obj _) => true
  | .leaf _ => false
  | .dict l => hasObjL l
def hasObjL : Slots → Bool
  | [] => false
  | none :: r => hasObjL r
  | some v :: r => hasObjV v || hasObjL r
end

/-- `GroupBy.fill(val)` with its error branch (group_by.py:81-91): `to_string(key_dict)` raises
`LenaValueError` when the *selected* sub-context holds an unserialisable object; the groups are then
unchanged -/
def gbFillR (width : Nat) (t : Tree) (gs : Groups) (v : Item) : Except String Groups :=
  if hasObjL (groupKey width t v) then .error "LenaValueError" else .ok (gbFill width t gs v)

/-- a flow filled into a `GroupBy` value by value, the caller going on after a `LenaValueError` of `fill`
(the groups are unchanged by a failed `fill`) -/
def gbFillSkip (width : Nat) (t : Tree) : Groups → List Item → Groups
  | gs, [] => gs
  | gs, v :: rest =>
    match gbFillR width t gs v with
    | .ok gs' => gbFillSkip width t gs' rest
    | .error _ => gbFillSkip width t gs rest

/-- an argument of `GroupBy.__init__`: a string / tuple of strings, or something `"" in x` cannot be
asked of (a callable, a number, `None`) -/
inductive GbArg where
  | arg (a : StrOrTuple)
  | notIterable
  deriving Repr

inductive InitRes where
  | made (m : Made)
  | typeError             -- `except TypeError: raise LenaTypeError` (group_by.py:58-61)
  deriving Repr

/-- `GroupBy.__init__` for arguments of any kind -/
def groupByInitAny (names : List String) : GbArg → GbArg → InitRes
  | .arg g, .arg m => .made (groupByInit names g m)
  | _, _ => .typeError

/-! ## the deprecated `_GroupBy` (group_by.py:135-244): grouping by callables -/

/-- outcome of a `group_by` callable on a value -/
inductive KeyOut where
  | ok (k : Leaf)
  | keyError                -- `LenaKeyError` (a formatting string without its context key)
  | raise (e : String)      -- any other exception
  deriving Repr

/-- Python truthiness of a scalar -/
def Leaf.truthy : Leaf → Bool
  | .none => false
  | .bool b => b
  | .int i => i != 0
  | .str s => s != ""
  | .obj _ => true

/-- Python truthiness of a context value: a dictionary is true iff it has a key -/
def Val.truthy : Val → Bool
  | .leaf a => a.truthy
  | .dict l => nonEmpty l

/-- `_GroupBy(group_by)`: one callable, or a tuple of callables -/
inductive OldGb where
  | single (f : Item → KeyOut)
  | tuple (fs : List (Item → KeyOut))

/-- the loop of `tupgb` (lines 177-186): a `LenaKeyError` of a component gives the key `""` -/
def tupKeys : List (Item → KeyOut) → Item → Except String (List Leaf)
  | [], _ => .ok []
  | f :: fs, v =>
    match f v with
    | .raise e => .error e
    | .ok k =>
      match tupKeys fs v with
      | .ok ks => .ok (k :: ks)
      | .error e => .error e
    | .keyError =>
      match tupKeys fs v with
      | .ok ks => .ok (.str "" :: ks)
      | .error e => .error e

/-- `self._group_by(val)` as `fill` sees it: the key (a 1-list for a single callable, the tuple otherwise)
or the exception that leaves `fill` -/
def oldKey : OldGb → Item → Except String (List Leaf)
  | .single f, v =>
    match f v with
    | .ok k => .ok [k]
    | .keyError => .error "LenaValueError"          -- `except LenaKeyError: raise LenaValueError`
    | .raise e => .error e
  | .tuple fs, v =>
    match tupKeys fs v with
    | .error e => .error e
    | .ok ks => if ks.any Leaf.truthy then .ok ks else .error "LenaValueError"   -- `if not any(group)`

abbrev OldGroups := List (List Leaf × List Item)

/-- `if key in self.groups: … append … else: … = [val]` for any key type -/
def groupsAddG {K : Type} [DecidableEq K] (key : K) (v : Item) : List (K × List Item) → List (K × List Item)
  | [] => [(key, [v])]
  | (k, vs) :: rest => if key = k then (k, vs ++ [v]) :: rest else (k, vs) :: groupsAddG key v rest

/-- `_GroupBy.fill(val)`; on an exception the groups are unchanged -/
def oldFill (g : OldGb) (gs : OldGroups) (v : Item) : Except String OldGroups :=
  match oldKey g v with
  | .error e => .error e
  | .ok k => .ok (groupsAddG k v gs)

/-- `_GroupBy.reset()`: `self.groups.clear()`; `clear()` and `update(val)` are the deprecated aliases of
`reset()` and `fill(val)` (they warn first) -/
def oldReset (_ : OldGroups) : OldGroups := []
def oldClear (gs : OldGroups) : OldGroups := oldReset gs
def oldUpdate (g : OldGb) (gs : OldGroups) (v : Item) : Except String OldGroups := oldFill g gs v

/-- `_GroupBy.fill` over a flow, stopping at the first exception -/
def oldFillAll (g : OldGb) : OldGroups → List Item → Except String OldGroups
  | gs, [] => .ok gs
  | gs, v :: rest =>
    match oldFill g gs v with
    | .error e => .error e
    | .ok gs' => oldFillAll g gs' rest

end Lena.C15
