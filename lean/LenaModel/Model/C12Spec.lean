import LenaModel.Model.C12
/-! # C12 — specification vocabulary (executable)

The definitions the property theorems of `Props/C12.lean` are *stated with* (besides the model functions): reference
functions (`cellEdgesRef`, `pointOf`, `rowsFor`, `cellRow`, `bins1d`, `bins2d`, `selAll`, `rangePred`) and predicates
(`Hist.WF`, `Hist.Valid`, `InRange`, `ValidRanges`, `ErrorFieldOf`, `isErrField`), each predicate with a Boolean
decision procedure (`wfB`, `validB`, `inRangeB`, `validRangesB`, `errorFieldOfB`; equivalences in `Lemmas/C12Spec.lean`).
They live in a `Model` file so that `drivers/C12.lean` can execute them: the harness compares every one of them with
an independent Python reference computation on the generated cases (ops `spec_*`), so that the theorems are not
about unvalidated vocabulary.

No imports except `LenaModel.Model.*`. -/

namespace Lena.C12

open Lena Lena.NArr

/-- a histogram whose bins have the shape of its edges (what `histogram.__init__` builds from `initial_value`,
and what `fill` keeps) -/
def Hist.WF (h : Hist) : Prop := h.edges.axes ≠ [] ∧ HasShape h.nbins h.bins

/-- no axis of the edges is empty (true of every constructed histogram) -/
def Edges.NonEmptyAxes (e : Edges) : Prop := ∀ ax ∈ e.axes, ax ≠ []

/-- a histogram given bins of the shape of its (checked) edges -/
structure Hist.Valid (h : Hist) : Prop where
  wf : h.WF
  edges_ok : checkEdgesIncreasing h.edges = .ok ()
  not_single_nested : ∀ ax, h.edges ≠ .nested [ax]

/-- `idx[k] ∈ rs[k]` for every position, and the same length -/
def AllIn : List Nat → List (List Nat) → Prop
  | [], [] => True
  | i :: is, r :: rs => i ∈ r ∧ AllIn is rs
  | _, _ => False

/-- an index tuple with one index below the number of bins of every axis -/
def InRange : List (List Q) → List Nat → Prop
  | [], [] => True
  | e :: es, i :: is => i < e.length - 1 ∧ InRange es is
  | _, _ => False

/-- the edges `((lo, hi), …)` of the cell with index `idx` (reference: positions outside the arrays read as 0;
for an index in range they are the real edges, `cellEdges_ok`) -/
def cellEdgesRef : List (List Q) → List Nat → List (Q × Q)
  | e :: es, i :: is => (e.getD i 0, e.getD (i + 1) 0) :: cellEdgesRef es is
  | _, _ => []

/-- all positions of an index tuple satisfy their predicate (and the lengths agree) -/
def selAll : List (Nat → Bool) → List Nat → Bool
  | [], [] => true
  | p :: ps, i :: is => p i && selAll ps is
  | _, _ => false

/-- a range `(low, up)` that `iter_cells` accepts for an axis -/
def ValidRange (e : List Q) (r : Option Int × Option Int) : Prop :=
  (∀ l, r.1 = some l → 0 ≤ l) ∧ (∀ u, r.2 = some u → u ≤ (e.length : Int) - 1)

/-- the bin indices `low ≤ i < up` that a range selects on an axis (`None`: no limit) -/
def rangePred (e : List Q) (r : Option Int × Option Int) : Nat → Bool :=
  fun i => decide (r.1.getD 0 ≤ (i : Int) ∧ (i : Int) < r.2.getD ((e.length : Int) - 1))

/-- one valid range per axis -/
def ValidRanges : List (List Q) → List (Option Int × Option Int) → Prop
  | [], [] => True
  | e :: es, r :: rs => ValidRange e r ∧ ValidRanges es rs
  | _, _ => False

/-- the field name starts with `"error_"` -/
def isErrField (f : Name) : Bool := errorPrefix.isPrefixOf f

/-- `field` is an error field of the coordinate `coord`: it is named `error_<coord>` or `error_<coord>_<suffix>` -/
def ErrorFieldOf (coord field : Name) : Prop :=
  ∃ rest, field = "error_".toList ++ rest ∧ (rest = coord ∨ ∃ tail, rest = coord ++ '_' :: tail)

/-- the point that `hist_to_graph` makes of a cell -/
def pointOf (mode : CoordMode) (makeValue : Option (Q → List Q)) (edges : List (Q × Q)) (v : Q) : List Q :=
  getCoord mode edges ++ graphValue makeValue v

/-- bins of a one-dimensional histogram -/
def bins1d (vals : List Q) : NArr Q := .node (vals.map .leaf)
/-- bins of a two-dimensional histogram -/
def bins2d (vals : List (List Q)) : NArr Q := .node (vals.map bins1d)

/-- the rows written for one `x`: one per `y` bin, plus the duplicate of the last one at the last `y` edge -/
def rowsFor (ys : List Q) (yLast : Q) (dup : Bool) (x : Q) (r : List Q) : List (List Q) :=
  List.zipWith (fun y v => [x, y, v]) ys r ++
    (if dup then (match r.getLast? with | some v => [[x, yLast, v]] | none => []) else [])

/-- the lower edges of the cell `idx`, then its content: the CSV row of a cell -/
def cellRow (axes : List (List Q)) (p : List Nat × Q) : List Q := (cellEdgesRef axes p.1).map (·.1) ++ [p.2]

/-- the volume of a cell with edges `((lo, hi), …)`: the product of its side lengths -/
def cellVolume : List (Q × Q) → Q
  | [] => 1
  | (lo, hi) :: rest => (hi - lo) * cellVolume rest

/-- the integral of a histogram, independently of `integral`: the sum over the cells of `iter_bins` of
volume × content -/
def integralRef (axes : List (List Q)) (bins : NArr Q) : Q :=
  ((cells bins).map (fun p => cellVolume (cellEdgesRef axes p.1) * p.2)).sum

/-- the number of edges not greater than `v` (`bisect_right`) -/
def edgesNotAbove (e : List Q) (v : Q) : Nat := e.countP (fun x => decide (x ≤ v))

/-! ## Boolean decision procedures of the predicates -/

/-- decides `Hist.WF` -/
def wfB (h : Hist) : Bool := !h.edges.axes.isEmpty && hasShape h.nbins h.bins

/-- decides `Edges.NonEmptyAxes` -/
def nonEmptyAxesB (e : Edges) : Bool := e.axes.all (fun ax => !ax.isEmpty)

/-- decides `Hist.Valid` -/
def validB (h : Hist) : Bool :=
  wfB h && (match checkEdgesIncreasing h.edges with | .ok _ => true | .error _ => false) &&
    (match h.edges with | .nested [_] => false | _ => true)

/-- decides `InRange` -/
def inRangeB : List (List Q) → List Nat → Bool
  | [], [] => true
  | e :: es, i :: is => decide (i < e.length - 1) && inRangeB es is
  | _, _ => false

/-- decides `ValidRange` -/
def validRangeB (e : List Q) (r : Option Int × Option Int) : Bool :=
  (match r.1 with | some l => decide (0 ≤ l) | none => true) &&
    (match r.2 with | some u => decide (u ≤ (e.length : Int) - 1) | none => true)

/-- decides `ValidRanges` -/
def validRangesB : List (List Q) → List (Option Int × Option Int) → Bool
  | [], [] => true
  | e :: es, r :: rs => validRangeB e r && validRangesB es rs
  | _, _ => false

/-- decides `ErrorFieldOf coord field` -/
def errorFieldOfB (coord field : Name) : Bool := isErrField field && errMatches (field.drop 6) coord

end Lena.C12
