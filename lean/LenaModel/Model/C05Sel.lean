import LenaModel.Model.C05

/-!
# C05, addition: the selectors behind a `Filter` (`lena/flow/selectors.py`)

`Filter(selector)` (`lena/flow/filter.py`) keeps `selector` if it is a `Selector` and makes `Selector(selector)`
otherwise; `Filter.run` and `Filter.fill_into` both test `self._selector(value)`.  `Model/C05.lean` models the test as an
arbitrary total function `Value → Except Exc Bool`; this file transcribes how lena builds that function from what the
caller gives:

* `Selector.__init__` (lines 14-90): a class → `isinstance(get_data(val), cls)`; a callable → itself (a ready selector
  object is a callable); a string → `context.contains(get_context(val), s)` (a key without dots: `s in context`);
  a list → `Or(selector, raise_on_error)`; a tuple → `And(selector, raise_on_error)`;
* `Selector.__call__` (lines 92-111): `try: self._selector(value)`; an exception is re-raised if `raise_on_error`,
  otherwise the result is `False`;
* `And.__init__` / `Or.__init__`: items that are selector objects are taken as they are, the others become
  `Selector(item, raise_on_error=raise_on_error)`; `__call__` = `all(...)` / `any(...)` (short-circuit, no `try`);
* `Not.__call__`: `not Selector.__call__(self, value)`.

Nothing existing is changed.  The harness sends such a Filter with the key `sel` (`harness/props/c05.py: build_sel`).
-/

namespace Lena.C05

open Lena.Flow

/-- the classes of the harness vocabulary -/
inductive SelCls where
  | int | str | list
  deriving Repr, DecidableEq

/-- `isinstance(data, cls)` on the value alphabet (`None` = `quot 0 0` and floats are instances of none of them) -/
def SelCls.isInstance : SelCls → Value → Bool
  | .int, .int _ => true
  | .str, .str _ => true
  | .list, .list _ => true
  | _, _ => false

/-- what the caller hands to `Filter` / `Selector` / a container -/
inductive SelArg where
  /-- a plain function of the harness vocabulary (`TypeError` on data that is not an `int`) -/
  | pred (p : Pred)
  /-- a class -/
  | cls (c : SelCls)
  /-- a string without dots -/
  | key (k : String)
  /-- a list (becomes `Or`) -/
  | list (xs : List SelArg)
  /-- a tuple (becomes `And`) -/
  | tuple (xs : List SelArg)
  /-- the object `Selector(x, raise_on_error=roe)` -/
  | selector (x : SelArg) (roe : Bool)
  /-- the object `Not(x, raise_on_error=roe)` -/
  | not (x : SelArg) (roe : Bool)
  /-- the object `Or(xs, raise_on_error=roe)` -/
  | or (xs : List SelArg) (roe : Bool)
  /-- the object `And(xs, raise_on_error=roe)` -/
  | and (xs : List SelArg) (roe : Bool)
  deriving Repr

/-- `isinstance(x, Selector)` -/
def SelArg.isObj : SelArg → Bool
  | .selector _ _ | .not _ _ | .or _ _ | .and _ _ => true
  | _ => false

/-- the `try … except Exception` of `Selector.__call__` -/
def catchRoe (roe : Bool) : Except Exc Bool → Except Exc Bool
  | .ok b => .ok b
  | .error e => if roe then .error e else .ok false

def notR : Except Exc Bool → Except Exc Bool
  | .ok b => .ok (!b)
  | .error e => .error e

mutual
/-- for a raw argument `x`: the `self._selector(value)` of `Selector(x, raise_on_error=roe)` (no `try`); for a selector
object: `x(value)` (`roe` is not used) -/
def SelArg.inner : SelArg → Bool → Value → Except Exc Bool
  | .pred p, _, v => p.eval v
  | .cls c, _, v => .ok (c.isInstance (getData v))
  | .key k, _, v => .ok ((getContext v).any fun kv => kv.1 == k)
  | .list xs, roe, v => SelArg.anyItems xs roe v
  | .tuple xs, roe, v => SelArg.allItems xs roe v
  | .selector x r, _, v => catchRoe r (SelArg.inner x r v)
  | .not x r, _, v => notR (catchRoe r (SelArg.inner x r v))
  | .or xs r, _, v => SelArg.anyItems xs r v
  | .and xs r, _, v => SelArg.allItems xs r v

/-- `any(f(val) for f in self._selectors)` where a raw item `x` has become `Selector(x, raise_on_error=roe)` -/
def SelArg.anyItems : List SelArg → Bool → Value → Except Exc Bool
  | [], _, _ => .ok false
  | x :: xs, roe, v =>
    match (if x.isObj then SelArg.inner x roe v else catchRoe roe (SelArg.inner x roe v)) with
    | .ok true => .ok true
    | .ok false => SelArg.anyItems xs roe v
    | .error e => .error e

/-- `all(f(val) for f in self._selectors)` -/
def SelArg.allItems : List SelArg → Bool → Value → Except Exc Bool
  | [], _, _ => .ok true
  | x :: xs, roe, v =>
    match (if x.isObj then SelArg.inner x roe v else catchRoe roe (SelArg.inner x roe v)) with
    | .ok false => .ok false
    | .ok true => SelArg.allItems xs roe v
    | .error e => .error e
end

/-- the test of `Filter(x)`: a selector object as it is, anything else `Selector(x)` (raise_on_error=True) -/
def SelArg.evalFilter (x : SelArg) (v : Value) : Except Exc Bool :=
  if x.isObj then x.inner true v else catchRoe true (x.inner true v)

/-- the object `Filter(x)`: the same two faces as `Spec.filter`, over the selector's test -/
def selFilterObj (x : SelArg) : Obj :=
  { caps := capsOf [("run", .method), ("fill_into", .method)] false
    runDen := fun s => .ok (filterS x.evalFilter s)
    fillIntoDen := .filter x.evalFilter }

/-- `driveStage` for an object given directly (the part of `driveStage` after `Spec.toObj`) -/
def driveStageObj (o : Obj) (flow : List Value) (term : Option Exc) :
    Except Exc (FillRes (List Value) × Strm Value) :=
  if o.hasNoData then .ok (feedS storeSinkV [] ⟨flow, term⟩, ⟨flow, term⟩)
  else
    match o.toPre, o.toStage with
    | .ok p, .ok st =>
      .ok ((feedS (stageSink p storeSinkV) (p.initState, []) ⟨flow, term⟩).map Prod.snd, observe (st ⟨flow, term⟩))
    | _, _ => .error .lenaTypeError

end Lena.C05
