import LenaModel.Model.C06
/-! # C09 model — framework accumulators (fill / compute / reset)

Transcription of the accumulators of
`lena/math/elements.py` (`Sum`, `DSum`, `Mean`, `VarianceMeanCount`, `Vectorize`),
`lena/flow/elements.py` (`Count`, `StoreFilled`), `lena/flow/group_by.py` (`GroupBy`),
`lena/structures/histogram.py` (`histogram.__init__/fill` for one dimension, `Histogram`) and
`lena/structures/graph.py` (`Graph.fill/compute/reset/_update`), as they are in /repo now.

"A newly constructed element" in the property's second sentence is read as: the same configuration with the start
the `reset` docstrings name (Count/Sum/DSum: zero, not the initial count/total; Graph: no points, an empty
context and the `scale` argument, not the `points=`/`context=` arguments) — `Props/C09.lean`
`graph_from_reset_not_same_args` is the proved counterexample to the other reading.

Every element is a `Machine`: a state type with `init` (the newly constructed element), `fill`,
`compute` and `reset`.  `compute` returns the new state as well, because some `compute` methods
mutate the element (`Count.compute` updates its context, `Graph.compute` sorts its points and adopts a
scale).  Python exceptions are explicit outcomes (`Err`).

Numbers.  `Sum`, `Mean`, `VarianceMeanCount`, `Vectorize`, `Histogram`, `Graph` work on `Int`: the
harness scales every case (ints and floats that are exactly representable, with exact partial sums) to
integers; quotients are exact rationals (`Rat`, Lean core) — floating-point rounding is outside the
model.  `DSum` works on decimals `Dec = coefficient × 10^exponent` and floats given exactly as
dyadics `Dy = m × 2^e`.

Contexts are flat dictionaries `key ↦ leaf` (`Ctx`); the accumulators look at a context only through
emptiness, `dict.update` and `get("scale")`, and hand it on otherwise.

Imports only `LenaModel.Model.C06` (and through it `NArr`): the n-dimensional `Histogram` re-uses C06's
transcription of `histogram.__init__/fill`.  This file is executed by `drivers/C09.lean`. -/

namespace Lena.C09

/-! ## Exceptions, contexts, flow values -/

/-- exception classes that the modelled code can raise -/
inductive Err where
  /-- `LenaZeroDivisionError` -/
  | zeroDivision
  /-- Python's `IndexError` (`data[ind]` in `Vectorize.fill`) -/
  | indexError
  /-- `LenaRuntimeError` (`Graph._update`: initialisation and context scale differ) -/
  | runtimeError
  /-- `LenaValueError` -/
  | valueError
  /-- `LenaTypeError` -/
  | typeError
  /-- `LenaIndexError` -/
  | lenaIndexError
  /-- Python's `TypeError` -/
  | pyTypeError
  /-- Python's `AssertionError` (`assert sums` in `Mean.compute`) -/
  | assertionError
  /-- input outside the modelled domain (`Lena.Err.unmodelled` of the shared histogram model) -/
  | unmodelled
  deriving DecidableEq, Repr

/-- a context leaf: `None` or an integer -/
abbrev Leaf := Option Int

/-- a context: a flat Python dict, as the list of its items -/
abbrev Ctx := List (String × Leaf)

/-- `d.update({k: v})` -/
def Ctx.set : Ctx → String → Leaf → Ctx
  | [], k, v => [(k, v)]
  | (k', v') :: rest, k, v => if k' = k then (k, v) :: rest else (k', v') :: Ctx.set rest k v

/-- `d.get(k)` (`None` for a missing key and for a key bound to `None`) -/
def Ctx.get : Ctx → String → Leaf
  | [], _ => none
  | (k', v') :: rest, k => if k' = k then v' else Ctx.get rest k

/-- `d.update(other)` (= `update_recursively(d, other)` for flat dictionaries) -/
def Ctx.update (d other : Ctx) : Ctx := other.foldl (fun acc kv => acc.set kv.1 kv.2) d

/-- a flow value: bare `data` (`ctx = none`) or a `(data, context)` pair -/
structure Item (δ : Type) where
  data : δ
  ctx : Option Ctx
  deriving DecidableEq, Repr

/-- `lena.flow.get_context(value)`: `{}` when the value is not a pair -/
def Item.context {δ : Type} (v : Item δ) : Ctx := v.ctx.getD []

/-- `_maybe_with_context(data, context)` and the equivalent
`if not self._cur_context: yield total / else: yield (total, deepcopy(ctx))` -/
def withCtx {δ : Type} (d : δ) (c : Ctx) : Item δ :=
  if c.isEmpty then ⟨d, none⟩ else ⟨d, some c⟩

/-! ## Machines and histories -/

/-- a FillCompute element with `reset`: `init` is the newly constructed element -/
structure Machine (σ ι ο : Type) where
  init : σ
  /-- `fill(value)`: new state (a failing `fill` may already have changed it) and the exception -/
  fill : σ → ι → σ × Option Err
  /-- `list(compute())`: new state and the yielded values, or the exception -/
  compute : σ → σ × Except Err (List ο)
  reset : σ → σ

/-- one method call of a history -/
inductive Op (ι : Type) where
  | fill (v : ι)
  | compute
  | reset

/-- what one method call shows -/
inductive Obs (ο : Type) where
  | filled (e : Option Err)
  | computed (r : Except Err (List ο))
  | wasReset

variable {σ ι ο : Type}

def Machine.step (m : Machine σ ι ο) (s : σ) : Op ι → σ × Obs ο
  | .fill v => let r := m.fill s v; (r.1, .filled r.2)
  | .compute => let r := m.compute s; (r.1, .computed r.2)
  | .reset => (m.reset s, .wasReset)

/-- run a history from state `s`: final state and the observations, in order -/
def Machine.run (m : Machine σ ι ο) : σ → List (Op ι) → σ × List (Obs ο)
  | s, [] => (s, [])
  | s, op :: ops =>
    let r := m.step s op
    let r' := m.run r.1 ops
    (r'.1, r.2 :: r'.2)

/-- the observations of a history on a newly constructed element -/
def Machine.observe (m : Machine σ ι ο) (ops : List (Op ι)) : List (Obs ο) := (m.run m.init ops).2

/-- fill a sequence of values that raise nothing (the state after `for v in vs: el.fill(v)`) -/
def Machine.fillAll (m : Machine σ ι ο) (s : σ) (vs : List ι) : σ := vs.foldl (fun s v => (m.fill s v).1) s

/-! ## Count (`lena/flow/elements.py:10-72`) -/

structure CountCfg where
  name : String
  /-- the initial counter (`count=` argument) -/
  count0 : Int

structure CountSt where
  count : Int
  ctx : Ctx
  deriving DecidableEq, Repr

/-- `Count.fill`: `self.count += 1; self._cur_context = get_context(value)` -/
def Count.fill {δ : Type} (s : CountSt) (v : Item δ) : CountSt := ⟨s.count + 1, v.context⟩

/-- `Count.compute`: `self._cur_context.update({self.name: self.count});
yield (self.count, deepcopy(self._cur_context))` -/
def Count.compute (cfg : CountCfg) (s : CountSt) : CountSt × Item Int :=
  let c := s.ctx.set cfg.name (some s.count)
  (⟨s.count, c⟩, ⟨s.count, some c⟩)

/-- `Count.reset`: `self.count = 0; self._cur_context = {}` -/
def Count.reset (_ : CountSt) : CountSt := ⟨0, []⟩

def countM (δ : Type) (cfg : CountCfg) : Machine CountSt (Item δ) (Item Int) where
  init := ⟨cfg.count0, []⟩
  fill s v := (Count.fill s v, none)
  compute s := let r := Count.compute cfg s; (r.1, .ok [r.2])
  reset := Count.reset

/-! ## Sum (`lena/math/elements.py:202-260`) -/

structure SumSt where
  total : Int
  ctx : Ctx
  deriving DecidableEq, Repr

/-- `Sum.fill`: `self._total += data; self._cur_context = context` -/
def Sum.fill (s : SumSt) (v : Item Int) : SumSt := ⟨s.total + v.data, v.context⟩

/-- `Sum.compute` -/
def Sum.compute (s : SumSt) : Item Int := withCtx s.total s.ctx

/-- `Sum.reset`: `self._total = 0; self._cur_context = {}` -/
def Sum.reset (_ : SumSt) : SumSt := ⟨0, []⟩

/-- `Sum(total=total0)` -/
def sumM (total0 : Int) : Machine SumSt (Item Int) (Item Int) where
  init := ⟨total0, []⟩
  fill s v := (Sum.fill s v, none)
  compute s := (s, .ok [Sum.compute s])
  reset := Sum.reset

/-! ## DSum (`lena/math/elements.py:137-199`)

`decimal.Decimal` values are `coef × 10^exp`; `decimal.Context(traps=[Inexact])` has a precision
`prec` (28 at construction) that `fill` raises until the addition is exact.  Modelled of
`Context.add`: it returns the exact sum when that sum has at most `prec` significant digits
(trailing zeros do not count: dropping them signals `Rounded`, which is not trapped) and raises
`Inexact` otherwise.  Not modelled: which of the equal-valued representations the result has
(its exponent), `Emax`/`Emin` (never reached by sums of floats). -/

/-- a finite `Decimal`: `coef × 10^exp` -/
structure Dec where
  coef : Int
  exp : Int
  deriving DecidableEq, Repr

/-- a float or an int, exactly: `m × 2^e` -/
structure Dy where
  m : Int
  e : Int
  deriving DecidableEq, Repr

/-- `Decimal(x)` for a float or int `x = m × 2^e`: exact (`m·2^e` if `e ≥ 0`, else `m·5^(-e) × 10^e`) -/
def Dec.ofDy (x : Dy) : Dec :=
  if 0 ≤ x.e then ⟨x.m * 2 ^ x.e.toNat, 0⟩ else ⟨x.m * 5 ^ (-x.e).toNat, x.e⟩

/-- the exact sum, at the smaller exponent -/
def Dec.add (a b : Dec) : Dec :=
  let e := min a.exp b.exp
  ⟨a.coef * 10 ^ (a.exp - e).toNat + b.coef * 10 ^ (b.exp - e).toNat, e⟩

/-- drop trailing decimal zeros (`fuel` ≥ number of digits suffices) -/
def stripZeros : Nat → Nat → Nat
  | 0, n => n
  | fuel + 1, n => if n ≠ 0 ∧ n % 10 = 0 then stripZeros fuel (n / 10) else n

/-- the coefficient without its trailing zeros -/
def Dec.sig (d : Dec) : Nat := stripZeros d.coef.natAbs d.coef.natAbs

/-- the value has at most `prec` significant digits -/
def Dec.fits (prec : Nat) (d : Dec) : Bool := d.sig < 10 ^ prec

/-- `self._dcontext.add(a, b)` under `traps=[Inexact]`: `none` = `Inexact` raised -/
def ctxAdd (prec : Nat) (a b : Dec) : Option Dec :=
  let s := a.add b
  if s.fits prec then some s else none

structure DSumSt where
  total : Dec
  /-- `self._dcontext.prec` -/
  prec : Nat
  ctx : Ctx
  deriving DecidableEq, Repr

/-- `while True: try: total = ctx.add(total, d); break / except Inexact: ctx.prec += 1` -/
def DSum.addLoop (total d : Dec) (prec : Nat) : Dec × Nat :=
  match h : ctxAdd prec total d with
  | some r => (r, prec)
  | none => DSum.addLoop total d (prec + 1)
termination_by (total.add d).sig - prec
decreasing_by
  have h' : ¬ ((total.add d).sig < 10 ^ prec) := by
    intro hlt
    simp [ctxAdd, Dec.fits, hlt] at h
  have := @Nat.lt_pow_self prec 10 (by decide)
  omega

/-- `DSum.fill`: the context is set first, then the precision loop runs on `Decimal(data)` -/
def DSum.fill (s : DSumSt) (v : Item Dy) : DSumSt :=
  let r := DSum.addLoop s.total (Dec.ofDy v.data) s.prec
  ⟨r.1, r.2, v.context⟩

/-- `DSum.compute` -/
def DSum.compute (s : DSumSt) : Item Dec := withCtx s.total s.ctx

/-- `DSum.reset`: `self._total = Decimal(0); self._cur_context = {}` (the precision is kept) -/
def DSum.reset (s : DSumSt) : DSumSt := ⟨⟨0, 0⟩, s.prec, []⟩

/-- `DSum(total=total0)`; `decimal.Context()` starts with `prec = 28` -/
def dsumM (total0 : Dec) : Machine DSumSt (Item Dy) (Item Dec) where
  init := ⟨total0, 28, []⟩
  fill s v := (DSum.fill s v, none)
  compute s := (s, .ok [DSum.compute s])
  reset := DSum.reset

/-! ## Mean (`lena/math/elements.py:31-134`), `sum_seq` = `None` or `Sum()` -/

structure MeanCfg where
  /-- `sum_seq` is a `Sum()` element (otherwise `None`) -/
  useSeq : Bool
  passOnEmpty : Bool

structure MeanSt where
  /-- `self._sum` (used only when `sum_seq` is `None`) -/
  sum : Int
  /-- the state of `sum_seq` -/
  seq : SumSt
  count : Nat
  ctx : Ctx
  deriving DecidableEq, Repr

/-- `Mean.fill`: `sum_seq.fill(data)` (bare data) or `self._sum += data`; count; context -/
def Mean.fill (cfg : MeanCfg) (s : MeanSt) (v : Item Int) : MeanSt :=
  if cfg.useSeq then ⟨s.sum, Sum.fill s.seq ⟨v.data, none⟩, s.count + 1, v.context⟩
  else ⟨s.sum + v.data, s.seq, s.count + 1, v.context⟩

/-- `Mean.compute`: `float(sum_) / float(self._count)` is the exact quotient here.  With a sum
sequence its first value's context updates a copy of the current context; its further values (there
are none for `Sum`) would be passed on with their contexts. -/
def Mean.compute (cfg : MeanCfg) (s : MeanSt) : Except Err (List (Item Rat)) :=
  if s.count = 0 then
    if cfg.passOnEmpty then .ok [] else .error .zeroDivision
  else if cfg.useSeq then
    match [Sum.compute s.seq] with
    | [] => .error .assertionError      -- `assert sums` (unreachable: `Sum.compute` yields one value)
    | s0 :: rest =>
      let mean : Rat := (s0.data : Rat) / (s.count : Rat)
      .ok (withCtx mean (s.ctx.update s0.context)
        :: rest.map (fun sv => withCtx (sv.data : Rat) (s.ctx.update sv.context)))
  else
    .ok [withCtx ((s.sum : Rat) / (s.count : Rat)) s.ctx]

/-- `Mean.reset`: `sum_seq.reset()` if `sum_seq is not None` else `self._sum = 0`; count; context -/
def Mean.reset (cfg : MeanCfg) (s : MeanSt) : MeanSt :=
  if cfg.useSeq then ⟨s.sum, Sum.reset s.seq, 0, []⟩ else ⟨0, s.seq, 0, []⟩

def meanM (cfg : MeanCfg) : Machine MeanSt (Item Int) (Item Rat) where
  init := ⟨0, ⟨0, []⟩, 0, []⟩
  fill s v := (Mean.fill cfg s v, none)
  compute s := (s, Mean.compute cfg s)
  reset := Mean.reset cfg

/-! ## Mean with `sum_seq = DSum()` (the documented accurate mean)

The same code as above (`Mean.fill/compute/reset` with a sum sequence); `float(sum_)` of the `Decimal` total is
its exact value here. -/

/-- `b^e` for an integer exponent -/
def powZ (b : Rat) (e : Int) : Rat := if 0 ≤ e then b ^ e.toNat else 1 / b ^ (-e).toNat

/-- the value of a decimal -/
def Dec.toRat (d : Dec) : Rat := (d.coef : Rat) * powZ 10 d.exp

/-- the value of a float / int given as `m × 2^e` -/
def Dy.toRat (x : Dy) : Rat := (x.m : Rat) * powZ 2 x.e

structure MeanDSt where
  /-- the state of `sum_seq` -/
  seq : DSumSt
  count : Nat
  ctx : Ctx
  deriving DecidableEq, Repr

/-- `Mean.fill`: `sum_seq.fill(data)` (bare data); count; context -/
def MeanD.fill (s : MeanDSt) (v : Item Dy) : MeanDSt := ⟨DSum.fill s.seq ⟨v.data, none⟩, s.count + 1, v.context⟩

/-- `Mean.compute` with a sum sequence -/
def MeanD.compute (passOnEmpty : Bool) (s : MeanDSt) : Except Err (List (Item Rat)) :=
  if s.count = 0 then
    if passOnEmpty then .ok [] else .error .zeroDivision
  else
    match [DSum.compute s.seq] with
    | [] => .ok []
    | s0 :: rest =>
      let mean : Rat := s0.data.toRat / (s.count : Rat)
      .ok (withCtx mean (s.ctx.update s0.context)
        :: rest.map (fun sv => withCtx sv.data.toRat (s.ctx.update sv.context)))

/-- `Mean.reset`: `sum_seq.reset()`; count; context -/
def MeanD.reset (s : MeanDSt) : MeanDSt := ⟨DSum.reset s.seq, 0, []⟩

/-- `Mean(DSum(), pass_on_empty)` -/
def meanDM (passOnEmpty : Bool) : Machine MeanDSt (Item Dy) (Item Rat) where
  init := ⟨⟨⟨0, 0⟩, 28, []⟩, 0, []⟩
  fill s v := (MeanD.fill s v, none)
  compute s := (s, MeanD.compute passOnEmpty s)
  reset := MeanD.reset

/-! ## VarianceMeanCount (`lena/math/elements.py:263-396`), `sum_sq` and `sum_` the default `Sum()` -/

structure VmcCfg where
  corrected : Bool
  passOnEmpty : Bool

structure VmcSt where
  sumSq : SumSt
  sum : SumSt
  count : Nat
  ctx : Ctx
  deriving DecidableEq, Repr

/-- the named tuple `variance_mean_count` -/
structure Vmc where
  variance : Rat
  mean : Rat
  count : Nat
  deriving DecidableEq, Repr

/-- `VarianceMeanCount.fill`: `sum_sq.fill(data**2); sum.fill(data); count += 1; context` -/
def Vmc.fill (s : VmcSt) (v : Item Int) : VmcSt :=
  ⟨Sum.fill s.sumSq ⟨v.data ^ 2, none⟩, Sum.fill s.sum ⟨v.data, none⟩, s.count + 1, v.context⟩

/-- `VarianceMeanCount.compute` (the two `isinstance(·, int)` branches differ only in rounding) -/
def Vmc.compute (cfg : VmcCfg) (s : VmcSt) : Except Err (List (Item Vmc)) :=
  if s.count = 0 then
    if cfg.passOnEmpty then .ok [] else .error .zeroDivision
  else
    let count : Rat := (s.count : Rat)
    let meanSq : Rat := ((Sum.compute s.sumSq).data : Rat) / count
    let mean : Rat := ((Sum.compute s.sum).data : Rat) / count
    let var : Rat := meanSq - mean ^ 2
    if cfg.corrected then
      if s.count = 1 then .error .zeroDivision
      else .ok [withCtx ⟨var * (count / (count - 1)), mean, s.count⟩ s.ctx]
    else .ok [withCtx ⟨var, mean, s.count⟩ s.ctx]

/-- `VarianceMeanCount._reset` -/
def Vmc.reset (s : VmcSt) : VmcSt := ⟨Sum.reset s.sumSq, Sum.reset s.sum, 0, []⟩

def vmcM (cfg : VmcCfg) : Machine VmcSt (Item Int) (Item Vmc) where
  init := ⟨⟨0, []⟩, ⟨0, []⟩, 0, []⟩
  fill s v := (Vmc.fill s v, none)
  compute s := (s, Vmc.compute cfg s)
  reset := Vmc.reset

/-! ## StoreFilled (`lena/flow/elements.py:281-322`) -/

/-- what `StoreFilled.compute` / `GroupBy.compute` yield: a group (list) or a single stored value -/
inductive Stored (ι : Type) where
  | group (vs : List ι)
  | one (v : ι)

/-- `StoreFilled(yield_as_a_group)`: the state is `self.group` -/
def storeFilledM (ι : Type) (asGroup : Bool) : Machine (List ι) ι (Stored ι) where
  init := []
  fill s v := (s ++ [v], none)
  compute s := (s, .ok (if asGroup then [.group s] else s.map .one))
  reset _ := []

/-! ## GroupBy (`lena/flow/group_by.py:65-122`)

The key of a value (`to_string(self._iet.get(context))`) is C15's subject; here a value comes with
its key.  `self.groups` is an insertion-ordered dict `key ↦ list`. -/

/-- `if key in groups: groups[key].append(val) else: groups[key] = [val]` -/
def groupInsert {κ ι : Type} [DecidableEq κ] : List (κ × List ι) → κ → ι → List (κ × List ι)
  | [], k, v => [(k, [v])]
  | (k', g) :: rest, k, v => if k' = k then (k', g ++ [v]) :: rest else (k', g) :: groupInsert rest k v

def groupByM (κ ι : Type) [DecidableEq κ] : Machine (List (κ × List ι)) (κ × ι) (Stored ι) where
  init := []
  fill s kv := (groupInsert s kv.1 kv.2, none)
  compute s := (s, .ok (s.map (fun g => .group g.2)))
  reset _ := []

/-! ## Vectorize (`lena/math/elements.py:399-510`) around `dim` copies of one inner accumulator -/

structure VecSt (σ : Type) where
  /-- the states of `self._seqs` -/
  inner : List σ
  ctx : Ctx

/-- `for ind, seq in enumerate(self._seqs): seq.fill(data[ind])` — `IndexError` when the data vector
is too short (the components before are already filled), further components of a longer vector are
ignored -/
def Vec.fillGo {σ δ ο : Type} (m : Machine σ (Item δ) ο) : List σ → List δ → List σ × Option Err
  | [], _ => ([], none)
  | s :: ss, [] => (s :: ss, some .indexError)
  | s :: ss, d :: ds =>
    let r := m.fill s ⟨d, none⟩
    match r.2 with
    | some e => (r.1 :: ss, some e)
    | none => let r' := Vec.fillGo m ss ds; (r.1 :: r'.1, r'.2)

/-- `Vectorize.fill`: the context is stored only after every component was filled -/
def Vec.fill {σ δ ο : Type} (m : Machine σ (Item δ) ο) (s : VecSt σ) (v : Item (List δ)) : VecSt σ × Option Err :=
  let r := Vec.fillGo m s.inner v.data
  match r.2 with
  | some e => (⟨r.1, s.ctx⟩, some e)
  | none => (⟨r.1, v.context⟩, none)

/-- start the `compute()` generators in order; the first exception propagates (only `StopIteration`
is caught in `Vectorize.compute`), the later generators are then never started -/
def Vec.computeGo {σ δ ο : Type} (m : Machine σ (Item δ) ο) : List σ → List σ × Except Err (List (List ο))
  | [] => ([], .ok [])
  | s :: ss =>
    let r := m.compute s
    match r.2 with
    | .error e => (r.1 :: ss, .error e)
    | .ok ys =>
      let r' := Vec.computeGo m ss
      (r.1 :: r'.1, match r'.2 with | .error e => .error e | .ok yss => .ok (ys :: yss))

/-- `itertools.zip_longest(*iterables)` with fill value `None` -/
def zipLongest {α : Type} (ls : List (List α)) : List (List (Option α)) :=
  (List.range (ls.foldl (fun n l => max n l.length) 0)).map (fun i => ls.map (fun l => l[i]?))

/-- `Vectorize.compute`: `construct` is `None`, so every result is the tuple of the components -/
def Vec.compute {σ δ ο : Type} (m : Machine σ (Item δ) ο) (s : VecSt σ) :
    VecSt σ × Except Err (List (Item (List (Option ο)))) :=
  let r := Vec.computeGo m s.inner
  (⟨r.1, s.ctx⟩, match r.2 with
    | .error e => .error e
    | .ok yss => .ok ((zipLongest yss).map (fun row => withCtx row s.ctx)))

/-- `Vectorize.reset`: `for fcel in self._fc_els: fcel.reset(); self._cur_context = {}` -/
def Vec.reset {σ δ ο : Type} (m : Machine σ (Item δ) ο) (s : VecSt σ) : VecSt σ := ⟨s.inner.map m.reset, []⟩

/-- `Vectorize(seq, dim)`: `[seq] + [deepcopy(seq) for _ in range(dim-1)]` -/
def vectorizeM {σ δ ο : Type} (m : Machine σ (Item δ) ο) (dim : Nat) :
    Machine (VecSt σ) (Item (List δ)) (Item (List (Option ο))) where
  init := ⟨List.replicate (max dim 1) m.init, []⟩
  fill := Vec.fill m
  compute := Vec.compute m
  reset := Vec.reset m

/-- `FillComputeSeq(lambda x: f(x), el)` as a component of `Vectorize` (it is filled with bare values): `fill`
preprocesses the value and fills `el`; `compute` is `el.compute()` (no elements after `el`); `Vectorize`
finds `el` through `_fill_compute` and resets it.  `FillComputeSeq(el)` is the case `f = id`. -/
def mapDataM {σ ο : Type} (f : Int → Int) (m : Machine σ (Item Int) ο) : Machine σ (Item Int) ο where
  init := m.init
  fill s v := m.fill s ⟨f v.data, v.ctx⟩
  compute := m.compute
  reset := m.reset

/-- `Vectorize.__init__` argument check: a list of sequences must come without `dim`, a single
sequence needs one -/
def mkVectorizeDim (isList : Bool) (nseqs : Nat) (dim : Option Nat) : Except Err Nat :=
  if isList then (if dim.isSome then .error .typeError else .ok nseqs)
  else match dim with
    | none => .error .typeError
    | some d => .ok (max d 1)

/-! ## Histogram (`lena/structures/histogram.py`), one dimension -/

/-- the `histogram` structure: `bins`, `n_out_of_range` (the edges are configuration) -/
structure Hist where
  bins : List Int
  nOut : Int
  deriving DecidableEq, Repr

/-- `all(a < b for a, b in zip(arr, arr[1:]))` -/
def increasing : List Int → Bool
  | a :: b :: rest => decide (a < b) && increasing (b :: rest)
  | _ => true

/-- `histogram(edges, bins, initial_value)` for one-dimensional edges:
`check_edges_increasing` (`LenaValueError` for fewer than two or not strictly increasing edges),
`init_bins` or the shape check of the given bins -/
def mkHist (edges : List Int) (bins : Option (List Int)) (initialValue : Int) : Except Err Hist :=
  if edges.length ≤ 1 then .error .valueError
  else if !increasing edges then .error .valueError
  else match bins with
    | none => .ok ⟨List.replicate (edges.length - 1) initialValue, 0⟩
    | some b => if b.length ≠ edges.length - 1 then .error .valueError else .ok ⟨b, 0⟩

/-- the value of `get_bin_on_value_1d(x, edges)` for increasing edges (its search loop is C06's
subject): `-1` below the first edge, `len(edges)-1` from the last edge on -/
def binIndex (edges : List Int) (x : Int) : Int := ((edges.filter (fun e => e ≤ x)).length : Int) - 1

/-- `histogram.fill(x)` in one dimension, weight 1: a negative index and an `IndexError` both count
as out of range -/
def Hist.fill (edges : List Int) (h : Hist) (x : Int) : Hist :=
  let ind := binIndex edges x
  if ind < 0 then ⟨h.bins, h.nOut + 1⟩
  else if ind.toNat < h.bins.length then ⟨h.bins.modify ind.toNat (· + 1), h.nOut⟩
  else ⟨h.bins, h.nOut + 1⟩

structure HistCfg where
  edges : List Int
  /-- the `bins` argument -/
  bins : Option (List Int)
  /-- the value returned by `make_bins()` -/
  makeBins : Option (List Int)
  initialValue : Int

structure HistSt where
  hist : Hist
  ctx : Ctx
  deriving DecidableEq, Repr

/-- `Histogram.__init__` -/
def Histogram.new (cfg : HistCfg) : Except Err HistSt :=
  if cfg.makeBins.isSome && cfg.bins.isSome then .error .typeError
  else
    let bins := match cfg.makeBins with | some b => some b | none => cfg.bins
    match mkHist cfg.edges bins cfg.initialValue with
    | .error e => .error e
    | .ok h => .ok ⟨h, []⟩

/-- `Histogram.fill` -/
def Histogram.fill (cfg : HistCfg) (s : HistSt) (v : Item Int) : HistSt :=
  ⟨Hist.fill cfg.edges s.hist v.data, v.context⟩

/-- `Histogram.compute`: `yield (self._hist, deepcopy(self._cur_context))` — always a pair; the
histogram is shown as it is at that moment -/
def Histogram.compute (s : HistSt) : Item Hist := ⟨s.hist, some s.ctx⟩

/-- `Histogram.reset`: bins from `make_bins()`, else a copy of the initial bins, else `None`; a new
`histogram(self._edges, bins, self._initial_value)` (cannot fail: the same call succeeded in
`__init__`; a failure is shown as an unchanged state) -/
def Histogram.reset (cfg : HistCfg) (s : HistSt) : HistSt :=
  let bins := match cfg.makeBins with
    | some b => some b
    | none => match cfg.bins with | some b => some b | none => none
  match mkHist cfg.edges bins cfg.initialValue with
  | .ok h => ⟨h, []⟩
  | .error _ => s

/-- the element built by a successful `Histogram(...)` call whose result is `s0` -/
def histogramM (cfg : HistCfg) (s0 : HistSt) : Machine HistSt (Item Int) (Item Hist) where
  init := s0
  fill s v := (Histogram.fill cfg s v, none)
  compute s := (s, .ok [Histogram.compute s])
  reset := Histogram.reset cfg

/-! ## Graph (`lena/structures/graph.py:427-560, 655-700`), scalar coordinates

A point is `(coordinate, value)`; `sorted` orders the tuples lexicographically. -/

abbrev Pt := Int × Int

def Pt.le (a b : Pt) : Bool := a.1 < b.1 || (a.1 = b.1 && a.2 ≤ b.2)

structure GraphCfg where
  /-- the `scale` argument -/
  scale0 : Leaf
  sort : Bool
  /-- `reset` restores `self._scale` to the initial scale: `true` transcribes `Graph.reset` as it is in
  /repo now (commit 7591aa2, `self._scale = self._init_context["scale"]`); `false` is `Graph.reset` before
  that repair (only points and context were reset), kept so that the defect stays exhibited
  (`graph_pinned_reset_not_fresh`) and the check reports it with a failing input if it comes back -/
  resetScale : Bool

structure GraphSt where
  points : List Pt
  /-- `self._scale` -/
  scale : Leaf
  ctx : Ctx
  deriving DecidableEq, Repr

/-- what `Graph.compute` yields: the graph (its points and scale at that moment) and `self._context` -/
structure GraphOut where
  points : List Pt
  scale : Leaf
  ctx : Ctx
  deriving DecidableEq, Repr

/-- `Graph.fill`: `point, self._cur_context = get_data_context(value); self._points.append(point)` -/
def Graph.fill (s : GraphSt) (v : Item Pt) : GraphSt := ⟨s.points ++ [v.data], s.scale, v.context⟩

/-- `Graph.compute` = `self._update(); yield (self, self._context)`.
`_update`: a scale in the current context is adopted (`LenaRuntimeError` if another scale is
already set); the points are sorted if `sort`; `_context` = copy of the current context updated with
`{"scale": scale0}`, then `{"scale": self._scale}`, and `"dim"` (1 for scalar coordinates) when
there are points. -/
def Graph.compute (cfg : GraphCfg) (s : GraphSt) : GraphSt × Except Err (List GraphOut) :=
  let ctxScale := s.ctx.get "scale"
  let conflict := match ctxScale, s.scale with
    | some c, some sc => sc != c
    | _, _ => false
  if conflict then (s, .error .runtimeError)
  else
    let scale := match ctxScale with | some c => some c | none => s.scale
    let pts := if cfg.sort then s.points.mergeSort Pt.le else s.points
    let c1 := (s.ctx.set "scale" cfg.scale0).set "scale" scale
    let c2 := if pts.isEmpty then c1 else c1.set "dim" (some 1)
    (⟨pts, scale, s.ctx⟩, .ok [⟨pts, scale, c2⟩])

/-- `Graph.reset`: `self._points = []; self._cur_context = {}` (and, repaired, the initial scale) -/
def Graph.reset (cfg : GraphCfg) (s : GraphSt) : GraphSt :=
  ⟨[], if cfg.resetScale then cfg.scale0 else s.scale, []⟩

/-- `Graph(scale=scale0, sort=sort)` -/
def graphM (cfg : GraphCfg) : Machine GraphSt (Item Pt) GraphOut where
  init := ⟨[], cfg.scale0, []⟩
  fill s v := (Graph.fill s v, none)
  compute := Graph.compute cfg
  reset := Graph.reset cfg

/-! ## `Vectorize` with a `construct` argument

`res = self._construct(*data)`; a `TypeError` (wrong number of arguments, or `construct=None`) falls back
to the plain tuple. -/

/-- the `construct` argument, as far as its call can differ: `None`, a callable accepting any number of
positional arguments, or one accepting exactly `k` of them (e.g. a namedtuple with `k` fields) -/
inductive Construct where
  | none
  | variadic
  | arity (k : Nat)
  deriving DecidableEq, Repr

/-- what `Vectorize.compute` yields as data: the constructed object (shown by its arguments) or the tuple -/
inductive Built (ο : Type) where
  | made (args : List (Option ο))
  | tuple (row : List (Option ο))

/-- `try: res = self._construct(*data) / except TypeError: res = data` -/
def Vec.build {ο : Type} (c : Construct) (row : List (Option ο)) : Built ο :=
  match c with
  | .none => .tuple row
  | .variadic => .made row
  | .arity k => if row.length = k then .made row else .tuple row

/-- the same element with every yielded value passed through `g` -/
def Machine.mapOut {σ ι ο ο' : Type} (g : ο → ο') (m : Machine σ ι ο) : Machine σ ι ο' where
  init := m.init
  fill := m.fill
  compute s := let r := m.compute s; (r.1, match r.2 with | .error e => .error e | .ok ys => .ok (ys.map g))
  reset := m.reset

/-- `Vectorize(seq, dim, construct)` -/
def vectorizeCM {σ δ ο : Type} (m : Machine σ (Item δ) ο) (dim : Nat) (c : Construct) :
    Machine (VecSt σ) (Item (List δ)) (Item (Built ο)) :=
  (vectorizeM m dim).mapOut (fun it => ⟨Vec.build c it.data, it.ctx⟩)

/-! ## Mean around an arbitrary sum sequence (`lena/math/elements.py:31-134`)

`sum_seq` is any FillCompute element `m` with numeric results: `Sum(total)` with a non-zero start,
`Count()` (its first value carries a context, which updates the yielded one), `StoreFilled(False)` (several
values: only the first is divided by the count, the others are passed on). -/

structure MeanOverSt (σ : Type) where
  /-- the state of `sum_seq` -/
  seq : σ
  count : Nat
  ctx : Ctx

/-- `Mean.fill`: `self._sum_seq.fill(data)` (an exception leaves count and context as they are);
`self._count += 1; self._cur_context = context` -/
def MeanOver.fill {σ : Type} (m : Machine σ (Item Int) (Item Int)) (s : MeanOverSt σ) (v : Item Int) :
    MeanOverSt σ × Option Err :=
  let r := m.fill s.seq ⟨v.data, none⟩
  match r.2 with
  | some e => (⟨r.1, s.count, s.ctx⟩, some e)
  | none => (⟨r.1, s.count + 1, v.context⟩, none)

/-- `Mean.compute` with a sum sequence: `sums = list(sum_seq.compute()); assert sums`; the first value is
divided by the count and gets the current context updated with its own; every further value is passed on
with the current context updated with its own -/
def MeanOver.compute {σ : Type} (m : Machine σ (Item Int) (Item Int)) (passOnEmpty : Bool) (s : MeanOverSt σ) :
    MeanOverSt σ × Except Err (List (Item Rat)) :=
  if s.count = 0 then
    (s, if passOnEmpty then .ok [] else .error .zeroDivision)
  else
    let r := m.compute s.seq
    let s' : MeanOverSt σ := ⟨r.1, s.count, s.ctx⟩
    match r.2 with
    | .error e => (s', .error e)
    | .ok [] => (s', .error .assertionError)
    | .ok (s0 :: rest) =>
      (s', .ok (withCtx ((s0.data : Rat) / (s.count : Rat)) (s.ctx.update s0.context)
        :: rest.map (fun sv => withCtx (sv.data : Rat) (s.ctx.update sv.context))))

/-- `Mean.reset`: `self._sum_seq.reset(); self._count = 0; self._cur_context = {}` -/
def MeanOver.reset {σ : Type} (m : Machine σ (Item Int) (Item Int)) (s : MeanOverSt σ) : MeanOverSt σ :=
  ⟨m.reset s.seq, 0, []⟩

/-- `Mean(sum_seq, pass_on_empty)` -/
def meanOverM {σ : Type} (m : Machine σ (Item Int) (Item Int)) (passOnEmpty : Bool) :
    Machine (MeanOverSt σ) (Item Int) (Item Rat) where
  init := ⟨m.init, 0, []⟩
  fill := MeanOver.fill m
  compute := MeanOver.compute m passOnEmpty
  reset := MeanOver.reset m

/-- `StoreFilled(yield_as_a_group=False)` as a sum sequence: it yields the stored values one by one -/
def storeItemsM : Machine (List (Item Int)) (Item Int) (Item Int) where
  init := []
  fill s v := (s ++ [v], none)
  compute s := (s, .ok s)
  reset _ := []

/-! ## GroupBy with values whose key cannot be rendered

`to_string(key_dict)` raises `LenaValueError` for a context that is not JSON-serialisable; `GroupBy.fill`
re-raises it before touching `self.groups`.  A value comes with `none` as its key then. -/

def groupByOptM (κ ι : Type) [DecidableEq κ] : Machine (List (κ × List ι)) (Option κ × ι) (Stored ι) where
  init := []
  fill s kv := match kv.1 with
    | none => (s, some .valueError)
    | some k => (groupInsert s k kv.2, none)
  compute s := (s, .ok (s.map (fun g => .group g.2)))
  reset _ := []

/-! ## Count.run (`lena/flow/elements.py:74-106`): the counter is shared between `run` and `fill` -/

/-- `Count.run(flow)` on a finite flow: every value but the last is passed on unchanged, `self.count` grows by the
number of values, the last value is yielded as `(data, context ∪ {name: self.count})`; an empty flow yields
nothing and leaves the counter alone.  (`_cur_context` is not touched by `run`.) -/
def Count.run {δ : Type} (cfg : CountCfg) (s : CountSt) (flow : List (Item δ)) : CountSt × List (Item δ) :=
  match flow.getLast? with
  | none => (s, [])
  | some last =>
    let c := s.count + flow.length
    (⟨c, s.ctx⟩, flow.dropLast ++ [⟨last.data, some (last.context.set cfg.name (some c))⟩])

/-! ## Histogram in any dimension, on C06's transcription of `histogram.__init__` and `histogram.fill`

`Lena.C06.mkHist`, `Lena.C06.fill` (`LenaModel/Model/C06.lean`) are the `histogram` structure for flat
(one-dimensional) and nested edges; bins are `NArr Int`.  The interpolation guess of the bin search is a
parameter of that model whose value does not influence the result (`Lena.C06.bin1d_guess_independent`);
here it is bisection. -/

/-- exception classes of the shared histogram model -/
def ofLenaErr : Lena.Err → Err
  | .lenaValueError => .valueError
  | .lenaTypeError => .typeError
  | .lenaIndexError => .lenaIndexError
  | .indexError => .indexError
  | .typeError => .pyTypeError
  | .unmodelled => .unmodelled

/-- bisection as the guess of the search along every axis -/
def bisect (_axis lo hi : Nat) : Int := (((lo + hi) / 2 : Nat) : Int)

structure HistNdCfg where
  edges : Lena.C06.Edges Int
  /-- the `bins` argument -/
  bins : Option (Lena.NArr Int)
  /-- the value returned by `make_bins()` -/
  makeBins : Option (Lena.NArr Int)
  initialValue : Int

structure HistNdSt where
  hist : Lena.C06.Hist Int Int
  ctx : Ctx

/-- the bins `__init__` and `reset` hand to `histogram(...)` -/
def HistNdCfg.startBins (cfg : HistNdCfg) : Option (Lena.NArr Int) :=
  match cfg.makeBins with
  | some b => some b
  | none => cfg.bins

/-- `Histogram.__init__` -/
def HistogramNd.new (cfg : HistNdCfg) : Except Err HistNdSt :=
  if cfg.makeBins.isSome && cfg.bins.isSome then .error .typeError
  else match Lena.C06.mkHist cfg.edges cfg.startBins cfg.initialValue with
    | .error e => .error (ofLenaErr e)
    | .ok h => .ok ⟨h, []⟩

/-- `Histogram.fill`: `data, self._cur_context = get_data_context(value)` comes first, so the context is
set even when `self._hist.fill(data)` raises (a coordinate of the wrong dimension: `LenaValueError`) -/
def HistogramNd.fill (s : HistNdSt) (v : Item (Lena.C06.Coord Int)) : HistNdSt × Option Err :=
  match Lena.C06.fill bisect s.hist v.data 1 with
  | .error e => (⟨s.hist, v.context⟩, some (ofLenaErr e))
  | .ok h => (⟨h, v.context⟩, none)

/-- `Histogram.compute`: the histogram as it is at that moment, and a copy of the current context -/
def HistogramNd.compute (s : HistNdSt) : Item (Lena.C06.Hist Int Int) := ⟨s.hist, some s.ctx⟩

/-- `Histogram.reset`: a new `histogram(self._edges, bins, self._initial_value)` (the same call succeeded in
`__init__`; a failure is shown as an unchanged state) -/
def HistogramNd.reset (cfg : HistNdCfg) (s : HistNdSt) : HistNdSt :=
  match Lena.C06.mkHist cfg.edges cfg.startBins cfg.initialValue with
  | .ok h => ⟨h, []⟩
  | .error _ => s

/-- the element built by a successful `Histogram(...)` call whose result is `s0` -/
def histogramNdM (cfg : HistNdCfg) (s0 : HistNdSt) :
    Machine HistNdSt (Item (Lena.C06.Coord Int)) (Item (Lena.C06.Hist Int Int)) where
  init := s0
  fill := HistogramNd.fill
  compute s := (s, .ok [HistogramNd.compute s])
  reset := HistogramNd.reset cfg

/-! ## Review follow-up: Count.fill_into, Graph constructed from points and context, sum sequences whose values carry
contexts, Vectorize over a list of different components -/

/-- `Count.fill_into(element, value)`: `self.count += 1`; the value's context gets `{name: count}`; the value is
handed on (`element.fill((data, context))`).  `_cur_context` is not touched. -/
def Count.fillInto {δ : Type} (cfg : CountCfg) (s : CountSt) (v : Item δ) : CountSt × Item δ :=
  let c := s.count + 1
  (⟨c, s.ctx⟩, ⟨v.data, some (v.context.set cfg.name (some c))⟩)

/-- `Graph(points, context, scale, sort)`: `__init__` stores its arguments and calls `_update()` (a scale in the
given context is adopted or contradicts `scale`; the points are sorted) -/
def Graph.new (cfg : GraphCfg) (pts : List Pt) (ctx : Ctx) : Except Err GraphSt :=
  let r := Graph.compute cfg ⟨pts, cfg.scale0, ctx⟩
  match r.2 with
  | .error e => .error e
  | .ok _ => .ok r.1

/-- the element built by a successful `Graph(points, context, …)` call whose result is `s0` -/
def graphFromM (cfg : GraphCfg) (s0 : GraphSt) : Machine GraphSt (Item Pt) GraphOut :=
  { graphM cfg with init := s0 }

/-- `FillComputeSeq(StoreFilled(False), lambda x: (x, {"v<x>": 1}))` as a sum sequence: it yields every stored
(bare) value as a pair whose context has a key made from the value -/
def storeTagM : Machine (List (Item Int)) (Item Int) (Item Int) where
  init := []
  fill s v := (s ++ [v], none)
  compute s := (s, .ok (s.map (fun v => ⟨v.data, some [("v" ++ toString v.data, some 1)]⟩)))
  reset _ := []

/-- two kinds of components side by side: a state is a state of one of them -/
def orM {σ₁ σ₂ ι ο₁ ο₂ : Type} (m₁ : Machine σ₁ ι ο₁) (m₂ : Machine σ₂ ι ο₂) : Machine (σ₁ ⊕ σ₂) ι (ο₁ ⊕ ο₂) where
  init := .inl m₁.init
  fill s v := match s with
    | .inl s => let r := m₁.fill s v; (.inl r.1, r.2)
    | .inr s => let r := m₂.fill s v; (.inr r.1, r.2)
  compute s := match s with
    | .inl s => let r := m₁.compute s
                (.inl r.1, match r.2 with | .error e => .error e | .ok ys => .ok (ys.map Sum.inl))
    | .inr s => let r := m₂.compute s
                (.inr r.1, match r.2 with | .error e => .error e | .ok ys => .ok (ys.map Sum.inr))
  reset s := match s with
    | .inl s => .inl (m₁.reset s)
    | .inr s => .inr (m₂.reset s)

/-- `Vectorize([seq₀, seq₁, …])`: a list of (possibly different) components, given by their initial states -/
def vectorizeLM {σ δ ο : Type} (m : Machine σ (Item δ) ο) (inits : List σ) :
    Machine (VecSt σ) (Item (List δ)) (Item (List (Option ο))) :=
  { vectorizeM m 0 with init := ⟨inits, []⟩ }

/-! ## Sum with Python's number types (`lena/math/elements.py:202-260`)

`sumM` adds exact integers: it cannot tell the int `0` from the float `0.0`.  Python's `+` can: the sum of an int and
a float is a float, and float addition is exact only up to 2^53 while int addition is always exact.  `tsumM` is the
same transcription of `Sum` over numbers that carry their Python type (`int` or `float`); the values stay exact (the
harness sends the typed model only histories in which no float addition rounds).  What it adds to `sumM`:
`reset()` assigns the *int* `0` - a total that had become a float is an int again, as in `Sum()`. -/

/-- a Python number of a case: its exact (scaled) value and whether its type is `float` (otherwise `int`) -/
structure Num where
  val : Int
  isFloat : Bool
  deriving DecidableEq, Repr

/-- Python's `a + b` on ints and floats: a float iff one operand is a float -/
def Num.add (a b : Num) : Num := ⟨a.val + b.val, a.isFloat || b.isFloat⟩

structure TSumSt where
  total : Num
  ctx : Ctx
  deriving DecidableEq, Repr

/-- `Sum.fill`: `self._total += data; self._cur_context = context` -/
def TSum.fill (s : TSumSt) (v : Item Num) : TSumSt := ⟨s.total.add v.data, v.context⟩

/-- `Sum.compute` -/
def TSum.compute (s : TSumSt) : Item Num := withCtx s.total s.ctx

/-- `Sum.reset`: `self._total = 0` (the int zero, whatever the total was); `self._cur_context = {}` -/
def TSum.reset (_ : TSumSt) : TSumSt := ⟨⟨0, false⟩, []⟩

/-- `Sum(total=total0)`, numbers with their types -/
def tsumM (total0 : Num) : Machine TSumSt (Item Num) (Item Num) where
  init := ⟨total0, []⟩
  fill s v := (TSum.fill s v, none)
  compute s := (s, .ok [TSum.compute s])
  reset := TSum.reset

/-! ## VarianceMeanCount around explicit sum elements (`lena/math/elements.py:263-396`)

`VarianceMeanCount(sum_sq, sum_)`: the two sums are FillCompute elements of their own (`Sum(total)` with a start,
an adapter around one, ...).  "If they both can be reset, this object has also a reset() method": `_reset` resets
`sum_sq`, then `sum_`, then its own count and context.  `vmcM` is the instance with two `Sum()`. -/

structure VmcOverSt (σ₁ σ₂ : Type) where
  sumSq : σ₁
  sum : σ₂
  count : Nat
  ctx : Ctx

/-- `fill`: `self._sum_sq.fill(data**2); self._sum.fill(data); self._count += 1; self._cur_context = context` (an
exception of a sum's `fill` leaves the rest as it is) -/
def VmcOver.fill {σ₁ σ₂ : Type} (sq : Machine σ₁ (Item Int) (Item Int)) (sm : Machine σ₂ (Item Int) (Item Int))
    (s : VmcOverSt σ₁ σ₂) (v : Item Int) : VmcOverSt σ₁ σ₂ × Option Err :=
  let r1 := sq.fill s.sumSq ⟨v.data ^ 2, none⟩
  match r1.2 with
  | some e => (⟨r1.1, s.sum, s.count, s.ctx⟩, some e)
  | none =>
    let r2 := sm.fill s.sum ⟨v.data, none⟩
    match r2.2 with
    | some e => (⟨r1.1, r2.1, s.count, s.ctx⟩, some e)
    | none => (⟨r1.1, r2.1, s.count + 1, v.context⟩, none)

/-- `suml = list(el.compute()); assert len(suml) == 1; sum_ = suml[0]`, used as a number (a `(data, context)` pair
cannot be divided: Python's `TypeError`) -/
def VmcOver.one (r : Except Err (List (Item Int))) : Except Err Int :=
  match r with
  | .error e => .error e
  | .ok [x] => match x.ctx with
    | none => .ok x.data
    | some _ => .error .pyTypeError
  | .ok _ => .error .assertionError

/-- `compute`: the count check, `sum_sq.compute()`, `sum_.compute()`, then the formula of `Vmc.compute` -/
def VmcOver.compute {σ₁ σ₂ : Type} (sq : Machine σ₁ (Item Int) (Item Int)) (sm : Machine σ₂ (Item Int) (Item Int))
    (cfg : VmcCfg) (s : VmcOverSt σ₁ σ₂) : VmcOverSt σ₁ σ₂ × Except Err (List (Item Vmc)) :=
  if s.count = 0 then
    (s, if cfg.passOnEmpty then .ok [] else .error .zeroDivision)
  else
    let r1 := sq.compute s.sumSq
    match VmcOver.one r1.2 with
    | .error e => (⟨r1.1, s.sum, s.count, s.ctx⟩, .error e)
    | .ok ssq =>
      let r2 := sm.compute s.sum
      let s' : VmcOverSt σ₁ σ₂ := ⟨r1.1, r2.1, s.count, s.ctx⟩
      match VmcOver.one r2.2 with
      | .error e => (s', .error e)
      | .ok sm_ =>
        let count : Rat := (s.count : Rat)
        let meanSq : Rat := (ssq : Rat) / count
        let mean : Rat := (sm_ : Rat) / count
        let var : Rat := meanSq - mean ^ 2
        if cfg.corrected then
          if s.count = 1 then (s', .error .zeroDivision)
          else (s', .ok [withCtx ⟨var * (count / (count - 1)), mean, s.count⟩ s.ctx])
        else (s', .ok [withCtx ⟨var, mean, s.count⟩ s.ctx])

/-- `_reset`: `self._sum_sq.reset(); self._sum.reset(); self._count = 0; self._cur_context = {}` -/
def VmcOver.reset {σ₁ σ₂ : Type} (sq : Machine σ₁ (Item Int) (Item Int)) (sm : Machine σ₂ (Item Int) (Item Int))
    (s : VmcOverSt σ₁ σ₂) : VmcOverSt σ₁ σ₂ := ⟨sq.reset s.sumSq, sm.reset s.sum, 0, []⟩

/-- `VarianceMeanCount(sum_sq, sum_, corrected, pass_on_empty)` -/
def vmcOverM {σ₁ σ₂ : Type} (sq : Machine σ₁ (Item Int) (Item Int)) (sm : Machine σ₂ (Item Int) (Item Int))
    (cfg : VmcCfg) : Machine (VmcOverSt σ₁ σ₂) (Item Int) (Item Vmc) where
  init := ⟨sq.init, sm.init, 0, []⟩
  fill := VmcOver.fill sq sm
  compute := VmcOver.compute sq sm cfg
  reset := VmcOver.reset sq sm

/-! ## Contexts with nested dictionaries: `d.update({name: v})` and `update_recursively(d, "a.b", v)`

`Count` adds its counter with `context.update({self.name: self.count})`: the name is ONE key, whatever the string
contains.  `lena.context.update_recursively(d, s, v)` with a string `s` reads `s` as a dot-separated path
(`str_to_dict`, `lena/context/functions.py:611-663`).  Both are transcribed here on contexts whose values may be
nested dictionaries, so that the difference between them (seed C09-I) can be stated; the driver executes both
(`"nset"` requests) against Python's `dict.update` and lena's `update_recursively`. -/

/-- a context value: a leaf or a nested dictionary -/
inductive NVal where
  | leaf (v : Leaf)
  | dict (items : List (String × NVal))

/-- a context with nested dictionaries, as the list of its items -/
abbrev NCtx := List (String × NVal)

/-- `d.update({k: v})` -/
def NCtx.set : NCtx → String → NVal → NCtx
  | [], k, v => [(k, v)]
  | (k', v') :: rest, k, v => if k' = k then (k, v) :: rest else (k', v') :: NCtx.set rest k v

/-- the binding of a key (`none`: the key is absent) -/
def NCtx.lookup : NCtx → String → Option NVal
  | [], _ => none
  | (k', v') :: rest, k => if k' = k then some v' else NCtx.lookup rest k

/-- `update_recursively(d, other)` for `other = str_to_dict("k1.k2...kn", v)`, given the path `[k1, …, kn]`:
`n = 1`: `d[k1] = v`; `n > 1`: if `k1 in d` — `d[k1] = {}` unless it is a dictionary, then recursively into `d[k1]` —
else `d[k1] = {k2: {… v}}`.  (The empty path does not occur: `"".split(".")` is `[""]`.) -/
def NCtx.setPath : NCtx → List String → Leaf → NCtx
  | d, [], _ => d
  | d, [k], v => d.set k (.leaf v)
  | d, k :: k2 :: ks, v =>
    match d.lookup k with
    | some (.dict sub) => d.set k (.dict (NCtx.setPath sub (k2 :: ks) v))
    | _ => d.set k (.dict (NCtx.setPath [] (k2 :: ks) v))

/-- `update_recursively(d, s, v)` for a string `s`: `str_to_dict` raises `LenaValueError` for the empty string,
otherwise the path is `s.split(".")` -/
def NCtx.updateRecursivelyStr (d : NCtx) (s : String) (v : Leaf) : Except Err NCtx :=
  if s = "" then .error .valueError else .ok (d.setPath (s.splitOn ".") v)

/-- a flat context (nested dictionaries, if any, being opaque leaves) as a nested one -/
def Ctx.toN (c : Ctx) : NCtx := c.map (fun kv => (kv.1, NVal.leaf kv.2))

end Lena.C09
