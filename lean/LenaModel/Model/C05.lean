import LenaModel.Model.Flow
/-! # C05 model — one analysis chain, three drivers (`run`, `fill`+`compute`, `Split`), and the adapters

Transcribes
* `lena/core/fill_seq.py`          `_Fill.fill`, `FillSeq.__init__` (conversion to `FillInto`, `_Fill` chaining 52-85),
* `lena/core/fill_compute_seq.py`  `FillComputeSeq.__init__` (split at the first fill/compute element 83-116), `compute`,
* `lena/core/adapters.py`          `_init_callable`/`Call`, `FillCompute`, `FillInto` (`fill_into`, `_run_fill_into`),
                                   `Run` (`_call_run`, `_fc_run`), `SourceEl`,
* `lena/core/sequence.py`          `Sequence.__init__`, `Sequence.run`,
* `lena/core/split.py`             `Split.run` for branches of type "fill_compute" (the `LenaStopFill` handling 343-366
                                   and the final `compute` 400-408), `Split.__init__` (`bufsize` test),
* `lena/flow/filter.py`            `Filter.fill_into` / `Filter.run`,
* `lena/flow/iterators.py`         `Slice.fill_into` / `Slice.run` (through `Lena.C17`),
* `lena/flow/elements.py`          `RunIf.run`, `Count.run`, `End.run`.

**Flows.**  What a draining consumer observes of an iterator: the values yielded and how the iteration ended
(`Strm`: `vals`, `term`).  A chain of Python generators is evaluated lazily, value by value; the stage functions
below (`mapS`, `filterS`, `isliceS`, `bindS`) say, for an input that ends after `vals` with `term`, which values
come out and whether the end of the input is reached — `islice` stops pulling after `max(start, stop)` values and
so can hide an exception that a later value would have caused upstream.

**Fill side.**  An element that is filled is a `Sink`: `fill : state → value → FillRes state`, where the result
says whether `fill` returned, raised `LenaStopFill` (state kept: Python objects are mutated in place and `Split`
computes the branch afterwards) or raised another exception.  `stageFill e K` is `e.fill_into(K, value)`;
`chainSink` is the `_Fill` chain of `FillSeq`.

**Limits of this model** (recorded judgements, see also ASSUMPTIONS in `harness/props/c05.py`): a `Stage` is a pure
function, so an element that keeps state between two calls of its `run` cannot be expressed — `RunIf` is covered with a
stateless inner sequence only (`Spec.stateless`, `Spec.inScopeB`); accumulators are state machines `Acc` whose `compute`
returns its values or raises; values are immutable (no aliasing, no `copy.deepcopy`/`copy_buf` of `Split`); flows end
normally in the three drivers; Python `None` is represented by `quot 0 0` (`truthy`, `drivers/C05.lean`);
`Count.fill_into` (counting) has no meaning here (`Spec.count` is never a pre-processing element).

Imports only `LenaModel.Model.Flow` (and through it `LenaModel.Model.C17` for `Slice`). -/

namespace Lena.C05
open Lena.Flow

/-! ## streams (lazy flows) -/

/-- a finite flow as seen by a consumer that drains it: the values yielded and how the iteration ended
(`none` = `StopIteration`, `some e` = the `next` after the last value raised `e`) -/
structure Strm (α : Type) where
  vals : List α
  term : Option Exc
  deriving Repr, DecidableEq

/-- `el.run(flow)`: the call may raise (`Except.error`), or return an iterator -/
abbrev Stage (α : Type) := Strm α → Except Exc (Strm α)

section generic
variable {α β κ σ : Type}

def Strm.nil : Strm α := ⟨[], none⟩
/-- `iter(xs)` -/
def Strm.ofList (xs : List α) : Strm α := ⟨xs, none⟩
/-- an iterator whose first `next` raises `e` -/
def Strm.fail (e : Exc) : Strm α := ⟨[], some e⟩
/-- `yield x`, then behave as `s` -/
def Strm.cons (x : α) (s : Strm α) : Strm α := ⟨x :: s.vals, s.term⟩
/-- `yield from s; yield from t` inside one generator: an exception of `s` ends everything -/
def Strm.andThen (s t : Strm α) : Strm α :=
  match s.term with
  | some e => ⟨s.vals, some e⟩
  | none => ⟨s.vals ++ t.vals, t.term⟩
/-- `(f(v) for v in s)` for a total `f` -/
def Strm.map (f : α → β) (s : Strm α) : Strm β := ⟨s.vals.map f, s.term⟩

/-- what `try: it = thunk(); for v in it: out.append(v)` observes: an exception raised by the call
itself is an exception before the first value -/
def observe : Except Exc (Strm α) → Strm α
  | .ok s => s
  | .error e => .fail e

/-- `for val in flow: yield f(val)` over an input that ends with `t` -/
def mapGo (f : α → Except Exc β) (t : Option Exc) : List α → Strm β
  | [] => ⟨[], t⟩
  | x :: xs =>
    match f x with
    | .error e => .fail e
    | .ok y => (mapGo f t xs).cons y

/-- `Run._call_run`: `for val in flow: yield self._el(val)` -/
def mapS (f : α → Except Exc β) (s : Strm α) : Strm β := mapGo f s.term s.vals

/-- `(val for val in flow if p(val))` over an input that ends with `t` -/
def filterGo (p : α → Except Exc Bool) (t : Option Exc) : List α → Strm α
  | [] => ⟨[], t⟩
  | x :: xs =>
    match p x with
    | .error e => .fail e
    | .ok true => (filterGo p t xs).cons x
    | .ok false => filterGo p t xs

/-- `Filter.run` -/
def filterS (p : α → Except Exc Bool) (s : Strm α) : Strm α := filterGo p s.term s.vals

/-- `for val in flow: yield from g(val)` over an input that ends with `t` -/
def bindGo (g : α → Strm β) (t : Option Exc) : List α → Strm β
  | [] => ⟨[], t⟩
  | x :: xs => (g x).andThen (bindGo g t xs)

def bindS (g : α → Strm β) (s : Strm α) : Strm β := bindGo g s.term s.vals

/-- `itertools.islice(flow, start, stop, step)` for non-negative arguments (what `Slice.run` returns):
the values are those of `Lena.C17.islice`; with a finite `stop` the input is not pulled any more after
`max(start, stop)` values, so its end (and an exception there) is seen only if it has fewer values -/
def isliceS (start : Nat) (stop : Option Nat) (step : Nat) (s : Strm α) : Strm α :=
  ⟨Lena.C17.islice s.vals start stop step,
   match stop with
   | some b => if max start b ≤ s.vals.length then none else s.term
   | none => s.term⟩

/-- left-to-right composition of stages: `for el in self._data_seq: flow = el.run(flow)`; an exception
raised by a call `el.run(flow)` leaves the loop -/
def composeS : List (Stage α) → Stage α
  | [], s => .ok s
  | t :: ts, s =>
    match t s with
    | .error e => .error e
    | .ok s' => composeS ts s'

/-- `RunIf.run`: `for val in flow: if select(val): yield from seq.run([val]) else: yield val`.
The call `seq.run([val])` happens inside the generator, so whatever it raises is raised lazily. -/
def runIfS (select : α → Except Exc Bool) (inner : Stage α) : Strm α → Strm α :=
  bindS (fun v =>
    match select v with
    | .error e => .fail e
    | .ok true => observe (inner (.ofList [v]))
    | .ok false => .ofList [v])

/-- `Reverse.run`: `all = list(flow)` (an exception of the input is raised before anything is yielded) -/
def reverseS (s : Strm α) : Strm α :=
  match s.term with
  | some e => .fail e
  | none => .ofList (Lena.C17.reverseRun s.vals)

/-- `End.run`: `for val in flow: pass` -/
def endS (s : Strm α) : Strm α :=
  match s.term with
  | some e => .fail e
  | none => .nil

/-- how `Slice._run_negative_islice` meets the end of its input (post-processing elements only) -/
inductive NegMode where
  | lazyTail | drainFirst | early
  deriving Repr, DecidableEq

def negMode (start stop : Option Int) (n : Nat) : NegMode :=
  match start with
  | none => .lazyTail
  | some a =>
    if a ≥ 0 then .lazyTail
    else
      match stop with
      | none => .drainFirst
      | some b =>
        if b ≤ a then .early
        else if b < 0 then .drainFirst
        else if n > (b - a).toNat then .early
        else .drainFirst

/-- `Slice(*args).run(flow)` for any constructed `Slice` (negative arguments through
`_run_negative_islice`) -/
def sliceS (k : Lena.C17.SliceKind) (s : Strm α) : Strm α :=
  match k with
  | .valueError => .fail .lenaValueError
  | .islice a b st => isliceS a b st s
  | .negative a b st =>
    match Lena.C17.runNegative a b s.vals with
    | .indexError => .fail .indexError
    | .ok ys =>
      let out := if st = 1 then ys else Lena.C17.everyNth st ys
      match negMode a b s.vals.length with
      | .early => ⟨out, none⟩
      | .lazyTail => ⟨out, s.term⟩
      | .drainFirst =>
        match s.term with
        | some e => .fail e
        | none => ⟨out, none⟩

/-! ## the fill side: sinks -/

/-- result of a call `el.fill(value)` -/
inductive FillRes (κ : Type) where
  /-- returned normally; new state -/
  | ok (s : κ)
  /-- raised `LenaStopFill`; the state reached (objects are mutated in place) -/
  | stop (s : κ)
  /-- raised another exception -/
  | err (e : Exc)
  deriving Repr

/-- `raise e` in state `s`: `LenaStopFill` is the stop signal, anything else an error -/
def FillRes.raise (e : Exc) (s : κ) : FillRes κ :=
  if e = .lenaStopFill then .stop s else .err e

def FillRes.map (f : κ → β) : FillRes κ → FillRes β
  | .ok s => .ok (f s)
  | .stop s => .stop (f s)
  | .err e => .err e

/-- something with a `fill(value)` method and state `κ` -/
structure Sink (κ α : Type) where
  fill : κ → α → FillRes κ

/-- `for v in vals: K.fill(v)`, left by the first exception -/
def feedList (K : Sink κ α) : κ → List α → FillRes κ
  | s, [] => .ok s
  | s, x :: xs =>
    match K.fill s x with
    | .ok s' => feedList K s' xs
    | .stop s' => .stop s'
    | .err e => .err e

/-- `for v in flow: K.fill(v)` for a lazily evaluated `flow`: its values, then its end -/
def feedS (K : Sink κ α) (s : κ) (flow : Strm α) : FillRes κ :=
  match feedList K s flow.vals with
  | .ok s' =>
    match flow.term with
    | some e => FillRes.raise e s'
    | none => .ok s'
  | r => r

/-- a fill/compute accumulator as a sink (`fill` only raises; a raised `LenaStopFill` would be a stop
signal like any other) -/
def accSink (a : Acc σ α) : Sink σ α :=
  ⟨fun s v =>
    match a.fill s v with
    | .ok s' => .ok s'
    | .error e => FillRes.raise e s⟩

/-! ## pre-processing elements: their `run` face and their `fill_into` face -/

/-- a pre-processing element of a chain, as the constructors of `Sequence` and `FillSeq` use it -/
inductive Pre (α : Type) where
  /-- a callable (plain function, `Variable`): `Run._call_run` in a `Sequence`, `FillInto.fill_into`
  (`element.fill(self._el(value))`) in a `FillSeq` -/
  | call (f : α → Except Exc α)
  /-- `Filter(selector)`: `Filter.run` / `Filter.fill_into` -/
  | filter (p : α → Except Exc Bool)
  /-- `Slice(start, stop, step)` with non-negative arguments: `Slice.run` (`islice`) / `Slice.fill_into` -/
  | slice (start : Nat) (stop : Option Nat) (step : Nat)
  /-- a Run element with `_can_break_flow` (`RunIf`): its `run` / `FillInto._run_fill_into` -/
  | runEl (run : Stage α)

/-- what `el.run(flow)` returns inside a `Sequence` -/
def Pre.run : Pre α → Stage α
  | .call f => fun s => .ok (mapS f s)
  | .filter p => fun s => .ok (filterS p s)
  | .slice a b st => fun s => .ok (isliceS a b st s)
  | .runEl r => r

/-- initial `fill_into` state (only `Slice` has one) -/
def Pre.initState : Pre α → Lena.C17.FillState
  | .slice a _ _ => Lena.C17.fillInit a
  | _ => Lena.C17.fillInit 0

/-- `e.fill_into(K, value)` where `K` is the element to fill (state `κ`) and `fs` the state of `e`:
* callable: `FillInto.fill_into`: `element.fill(self._el(value))`;
* `Filter.fill_into`: `if self._selector(value): element.fill(value)`;
* `Slice.fill_into`: the index bookkeeping of `Lena.C17.fillInto`, `LenaStopFill` when the indices are
  exhausted; `self._index += 1` only after `element.fill` returned;
* `FillInto._run_fill_into`: `for result in self._el.run([value]): element.fill(result)`. -/
def stageFill (e : Pre α) (K : Sink κ α) : Lena.C17.FillState × κ → α → FillRes (Lena.C17.FillState × κ)
  | (fs, s), v =>
    match e with
    | .call f =>
      match f v with
      | .error err => FillRes.raise err (fs, s)
      | .ok w => (K.fill s w).map (fun s' => (fs, s'))
    | .filter p =>
      match p v with
      | .error err => FillRes.raise err (fs, s)
      | .ok true => (K.fill s v).map (fun s' => (fs, s'))
      | .ok false => .ok (fs, s)
    | .slice _ stop step =>
      match Lena.C17.fillInto stop step fs with
      | (_, .stopFill) => .stop (fs, s)
      | (fs', .skipped) => .ok (fs', s)
      | (fs', .filled) =>
        match K.fill s v with
        | .ok s' => .ok (fs', s')
        | .stop s' => .stop ({ fs' with index := fs.index }, s')
        | .err err => .err err
    | .runEl r =>
      (feedS K s (observe (r (.ofList [v])))).map (fun s' => (fs, s'))

def stageSink (e : Pre α) (K : Sink κ α) : Sink (Lena.C17.FillState × κ) α := ⟨stageFill e K⟩

/-- state of a `_Fill` chain: one `fill_into` state per pre-processing element, then the accumulator -/
def ChainState (σ : Type) : List (Pre α) → Type
  | [] => σ
  | _ :: rest => Lena.C17.FillState × ChainState σ rest

def chainInit (s0 : σ) : (pre : List (Pre α)) → ChainState σ pre
  | [] => s0
  | e :: rest => (e.initState, chainInit s0 rest)

/-- the accumulator's state inside the chain state -/
def chainAcc : (pre : List (Pre α)) → ChainState σ pre → σ
  | [], s => s
  | _ :: rest, (_, s) => chainAcc rest s

/-- `FillSeq.__init__` lines 77-84: `fill_el = last; for el in reversed(seq[:-1]): fill_el = _Fill(el, fill_el)`;
`_Fill.fill(value)` is `self._fill_into_el.fill_into(self._fill_el, value)` -/
def chainSink (a : Acc σ α) : (pre : List (Pre α)) → Sink (ChainState σ pre) α
  | [] => accSink a
  | e :: rest => stageSink e (chainSink a rest)

/-! ## a chain `pre* acc post*` and its three drivers -/

structure Chain (σ α : Type) where
  pre : List (Pre α)
  acc : Acc σ α
  /-- the `run` methods of the post-processing elements (after conversion by `Sequence.__init__`) -/
  post : List (Stage α)

/-- `compute()` of the accumulator, a generator: its exception is raised by the first `next` -/
def computeS (a : Acc σ α) (s : σ) : Strm α :=
  match a.compute s with
  | .error e => .fail e
  | .ok ys => .ofList ys

/-- `Run._fc_run(flow)`, a plain function: `for arg in flow: self._el.fill(arg)` (an exception of `fill`, or
of the flow when its values are used up, is raised by the call — `LenaStopFill` included), then
`return self._el.compute()` -/
def fcRun (a : Acc σ α) : Stage α := fun s =>
  match a.fillAll a.init s.vals with
  | .error e => .error e
  | .ok st =>
    match s.term with
    | some e => .error e
    | none => .ok (computeS a st)

/-- `Sequence(*pre, acc, *post)._data_seq` as stages -/
def seqStages (c : Chain σ α) : List (Stage α) :=
  c.pre.map Pre.run ++ fcRun c.acc :: c.post

/-- **driver 1**: `list(Sequence(*pre, acc, *post).run(iter(xs)))` -/
def seqRun (c : Chain σ α) (xs : List α) : Strm α :=
  observe (composeS (seqStages c) (.ofList xs))

/-- `FillComputeSeq.compute`: `flow = self._fill_compute.compute(); return self._after.run(flow)`, drained -/
def computeAfter (c : Chain σ α) (s : σ) : Strm α :=
  observe (composeS c.post (computeS c.acc s))

/-- the explicit fill loop `for v in xs: try: seq.fill(v) except LenaStopFill: break` on a fresh
`FillComputeSeq(*pre, acc, *post)` (or `FillSeq(*pre, acc)`) -/
def fillAllChain (c : Chain σ α) (xs : List α) : FillRes (ChainState σ c.pre) :=
  feedList (chainSink c.acc c.pre) (chainInit c.acc.init c.pre) xs

/-- **driver 2**: fill value by value until `LenaStopFill`, then `list(seq.compute())` -/
def fillRun (c : Chain σ α) (xs : List α) : Strm α :=
  match fillAllChain c xs with
  | .err e => .fail e
  | .ok st => computeAfter c (chainAcc c.pre st)
  | .stop st => computeAfter c (chainAcc c.pre st)

/-! ### `Split.run`, every branch of type "fill_compute" -/

/-- an active branch: its chain, the state of its `FillComputeSeq`, its position in the initializer list -/
structure Active (σ α : Type) where
  chain : Chain σ α
  st : ChainState σ chain.pre
  idx : Nat

/-- the values of branch number `i` in a tagged output -/
def tag (i : Nat) (s : Strm α) : Strm (Nat × α) := s.map (fun v => (i, v))

/-- the loop `while ind < n_of_active_seqs` for one buffer (lines 333-395), `seq_type == "fill_compute"`:
every active branch is filled with the buffer; a branch that raises `LenaStopFill` is computed at once,
its results are yielded and it is deleted from the active branches; any other exception ends the
generator.  Returns the branches still active and what was yielded (tagged with the branch index). -/
def processBuf (buf : List α) : List (Active σ α) → List (Active σ α) × Strm (Nat × α)
  | [] => ([], .nil)
  | B :: rest =>
    match feedList (chainSink B.chain.acc B.chain.pre) B.st buf with
    | .err e => ([], .fail e)
    | .ok st' =>
      let (act, out) := processBuf buf rest
      ({ B with st := st' } :: act, out)
    | .stop st' =>
      let (act, out) := processBuf buf rest
      (act, (tag B.idx (computeAfter B.chain (chainAcc B.chain.pre st'))).andThen out)

/-- lines 400-408: `for seq in active_seqs: for val in seq.compute(): yield val` -/
def finalCompute : List (Active σ α) → Strm (Nat × α)
  | [] => .nil
  | B :: rest => (tag B.idx (computeAfter B.chain (chainAcc B.chain.pre B.st))).andThen (finalCompute rest)

/-- the loop over the buffers `list(islice(flow, bufsize))` (it goes on reading the flow when no
branch is active any more); an exception inside ends the generator -/
def splitLoop : List (List α) → List (Active σ α) → Strm (Nat × α)
  | [], act => finalCompute act
  | buf :: bufs, act =>
    let (act', out) := processBuf buf act
    out.andThen (splitLoop bufs act')

def initActive : Nat → List (Chain σ α) → List (Active σ α)
  | _, [] => []
  | i, c :: cs => { chain := c, st := chainInit c.acc.init c.pre, idx := i } :: initActive (i + 1) cs

/-- `Split([FillComputeSeq…], bufsize).run(iter(xs))`, drained; every yielded value is tagged with the
index of the branch it comes from (the real output is `vals.map Prod.snd`).  `bufsize` is `none` or `≥ 1`
(`Split.__init__` rejects anything else). -/
def splitRunTagged (cs : List (Chain σ α)) (bufsize : Option Nat) (xs : List α) : Strm (Nat × α) :=
  splitLoop (chunks bufsize xs) (initActive 0 cs)

/-- **driver 3** (untagged) -/
def splitRun (cs : List (Chain σ α)) (bufsize : Option Nat) (xs : List α) : Strm α :=
  (splitRunTagged cs bufsize xs).map Prod.snd

/-- the part of a tagged output that comes from branch `i` -/
def project (i : Nat) (s : Strm (Nat × α)) : List α :=
  (s.vals.filter (fun p => p.1 == i)).map Prod.snd

/-! ### `Split` used as a FillCompute element (`Split._fill`, `Split._compute`)

When every branch has type "fill_compute", `Split.__init__` gives the `Split` the methods `fill` and `compute`
(lines 215-217), so that it can itself be the fill/compute element of a `FillComputeSeq` or of an outer `Split`. -/

/-- `Split._fill(val)` (lines 257-263): every branch is filled in turn (with a deep copy, except the last);
an exception of a branch — `LenaStopFill` included — is not handled: the branches after it are not filled -/
def splitFill : List (Active σ α) → α → FillRes (List (Active σ α))
  | [], _ => .ok []
  | B :: rest, v =>
    match (chainSink B.chain.acc B.chain.pre).fill B.st v with
    | .err e => .err e
    | .stop st' => .stop ({ B with st := st' } :: rest)
    | .ok st' => (splitFill rest v).map (fun act => { B with st := st' } :: act)

/-- the `Split` as an element that is filled -/
def splitSink : Sink (List (Active σ α)) α := ⟨splitFill⟩

/-- the explicit loop `for v in xs: try: split.fill(v) except LenaStopFill: break`, then
`list(split.compute())` (`Split._compute` = lines 265-268 = `finalCompute`); tagged -/
def splitFillRun (cs : List (Chain σ α)) (xs : List α) : Strm (Nat × α) :=
  match feedList splitSink (initActive 0 cs) xs with
  | .err e => .fail e
  | .ok act => finalCompute act
  | .stop act => finalCompute act

/-! ## eager reference: the flow processed stage by stage (what the elements *mean*) -/

/-- no pre-processing element raises when the whole flow is passed through the chain stage by stage
(each stage sees everything the previous one lets through) -/
def preSafeB : List (Pre α) → List α → Bool
  | [], _ => true
  | e :: rest, xs =>
    match e.run (.ofList xs) with
    | .error _ => false
    | .ok s => s.term.isNone && preSafeB rest s.vals

def PreSafe (pre : List (Pre α)) (xs : List α) : Prop := preSafeB pre xs = true

/-- the contract behind `_can_break_flow`: running a flow is running its values one by one -/
def BreaksFlow (r : Stage α) : Prop :=
  ∀ s, r s = .ok (bindS (fun v => observe (r (.ofList [v]))) s)

/-- well-formed pre-processing element: a `runEl` keeps the `_can_break_flow` contract, a `Slice` has
`step ≥ 1` (guaranteed by `Slice.__init__`) -/
def Pre.WF : Pre α → Prop
  | .runEl r => BreaksFlow r
  | .slice _ _ st => 1 ≤ st
  | _ => True

def PreWF (pre : List (Pre α)) : Prop := ∀ e ∈ pre, e.WF

def Pre.isSlice : Pre α → Bool
  | .slice _ _ _ => true
  | _ => false

/-- no `Slice` among the pre-processing elements (nobody raises `LenaStopFill`) -/
def NoSlice (pre : List (Pre α)) : Prop := ∀ e ∈ pre, e.isSlice = false

/-- the accumulator's `fill` never raises `LenaStopFill` itself (true of every lena accumulator) -/
def AccNoStop (a : Acc σ α) : Prop := ∀ s v, a.fill s v ≠ .error .lenaStopFill

end generic

/-! ## `Count.run` (post-processing element) -/

/-- `Count(name, count0).run(flow)` on a lazily evaluated flow -/
def countS (name : String) (count0 : Int) (s : Strm Value) : Strm Value :=
  match s.vals with
  | [] => ⟨[], s.term⟩
  | first :: rest =>
    let (ys, last, count) := countLoop first 1 rest
    match s.term with
    | some e => ⟨ys, some e⟩
    | none =>
      let (d, c) := getDataContext last
      ⟨ys ++ [.tup [d, .dict (dictSet c name (.int (count0 + count)))]], none⟩

/-! ## Python objects as the constructors and adapters see them -/

/-- state of an attribute as seen by `getattr(el, name, None)` / `hasattr` / `callable` -/
inductive Attr where
  | absent
  /-- present but not callable -/
  | value
  | method
  deriving Repr, DecidableEq

def Attr.present : Attr → Bool
  | .absent => false
  | _ => true

def Attr.callable : Attr → Bool
  | .method => true
  | _ => false

/-- what `hasattr`, `callable`, `isinstance(el, Split)` and `el is None` can tell about an object.
`attr name` covers every attribute name, the special methods included (`"run"`, `"fill"`, `"compute"`,
`"fill_into"`, `"request"`, `"_can_break_flow"`, `"__iter__"`, any custom name). -/
structure Caps where
  attr : String → Attr
  /-- `callable(el)` -/
  callable : Bool
  /-- `isinstance(el, lena.core.Split)` -/
  isSplit : Bool := false
  /-- `el is None` -/
  isNone : Bool := false
  /-- `callable(run)` for the object handed over as `run=` in `Run(None, run=…)` (only looked at when `el is None`) -/
  givenCallable : Bool := true

/-- `callable(getattr(el, name, None))` -/
def Caps.hasMethod (c : Caps) (name : String) : Bool := (c.attr name).callable

/-- `check_sequence_type.is_fill_compute_el` -/
def Caps.isFillComputeEl (c : Caps) : Bool :=
  (c.attr "fill").present && (c.attr "compute").present && (c.attr "fill").callable && (c.attr "compute").callable

/-- `check_sequence_type.is_run_el` -/
def Caps.isRunEl (c : Caps) : Bool := (c.attr "run").present && (c.attr "run").callable

/-! ### the adapters: which method they expose -/

/-- what `Call(el, call=…).__call__` / `SourceEl(el, call=…).__call__` is bound to -/
inductive CallMode where
  /-- `self._call = el` -/
  | self
  /-- `self._call = getattr(el, name)` -/
  | method (name : String)
  /-- `SourceEl`: `self._call = lambda: el` (an iterable element) -/
  | iter
  deriving Repr, DecidableEq

/-- `_init_callable(self, el, call)` = `Call.__init__`; `name = none` is the `_SENTINEL` default -/
def mkCall (c : Caps) (name : Option String) : Except Exc CallMode :=
  match name with
  | none => if c.callable then .ok .self else .error .lenaTypeError
  | some n => if c.hasMethod n then .ok (.method n) else .error .lenaTypeError

/-- `SourceEl.__init__` -/
def mkSourceEl (c : Caps) (name : Option String) : Except Exc CallMode :=
  match name with
  | none =>
    if c.callable then .ok .self
    else if (c.attr "__iter__").present then .ok .iter
    else .error .lenaTypeError
  | some n => if c.hasMethod n then .ok (.method n) else .error .lenaTypeError

/-- what `Run(el, run=…).run` is bound to -/
inductive RunMode where
  /-- `getattr(el, name)` (`name = "run"` when no name was given) -/
  | method (name : String)
  /-- `self._call_run` -/
  | callRun
  /-- `self._fc_run` -/
  | fcRun
  /-- `Run(None, run=f)`: the given object `f` itself -/
  | given
  deriving Repr, DecidableEq

/-- `Run.__init__(el, run=…)`; `name = none` is the `_SENTINEL` default -/
def mkRun (c : Caps) (name : Option String) : Except Exc RunMode :=
  match name with
  | none =>
    if c.hasMethod "run" then .ok (.method "run")
    else if c.callable then .ok .callRun
    else if c.isFillComputeEl then .ok .fcRun
    else .error .lenaTypeError
  | some n =>
    if c.isNone then
      -- `if el is None: if not callable(run): raise LenaTypeError` (fix 0ff1b62)
      if c.givenCallable then .ok .given else .error .lenaTypeError
    else if c.hasMethod n then .ok (.method n)
    else .error .lenaTypeError

/-- what `FillInto(el, fill_into=…).fill_into` is bound to -/
inductive FillIntoMode where
  /-- `getattr(el, name)` (`name = "fill_into"` when no name was given) -/
  | method (name : String)
  /-- the class's own `fill_into`: `element.fill(self._el(value))` -/
  | callDefault
  /-- `self._run_fill_into` -/
  | runFillInto
  deriving Repr, DecidableEq

/-- `FillInto.__init__(el, fill_into=…)` -/
def mkFillInto (c : Caps) (name : Option String) : Except Exc FillIntoMode :=
  match name with
  | none =>
    if c.hasMethod "fill_into" then .ok (.method "fill_into")
    else if c.callable && !c.isSplit then .ok .callDefault
    else if c.isRunEl && (c.attr "_can_break_flow").present then .ok .runFillInto
    else .error .lenaTypeError
  | some n => if c.hasMethod n then .ok (.method n) else .error .lenaTypeError

/-- `FillCompute.__init__(el, fill=…, compute=…)`: the names of the methods bound to `fill` and `compute` -/
def mkFillCompute (c : Caps) (fill compute : String) : Except Exc (String × String) :=
  if c.hasMethod fill then
    if c.hasMethod compute then .ok (fill, compute)
    else if c.hasMethod "request" then .ok (fill, "request")
    else .error .lenaTypeError
  else .error .lenaTypeError

/-! ### `Sequence.__init__`, `FillSeq.__init__`, `FillComputeSeq.__init__` on objects -/

/-- a Python object of the element vocabulary: what can be observed of it, and what its methods do.
Using a face the object does not have is not totalised away: the constructors below never do it. -/
structure Obj where
  caps : Caps
  /-- `hasattr(el, "_has_no_data")` -/
  hasNoData : Bool := false
  /-- `el.run(flow)` -/
  runDen : Stage Value := fun s => .ok s
  /-- `el(value)` -/
  callDen : Value → Except Exc Value := fun v => .ok v
  /-- `el.fill_into(element, value)`, as a pre-processing stage -/
  fillIntoDen : Pre Value := .call (fun v => .ok v)
  /-- `el.fill(value)` / `el.compute()` -/
  accDen : Acc AccState Value := accOf (.store false)

/-- `Sequence.__init__` (lines 36-53): the stage an element becomes -/
def Obj.toStage (o : Obj) : Except Exc (Stage Value) :=
  if (o.caps.attr "run").present && (o.caps.attr "run").callable then .ok o.runDen
  else
    match mkRun o.caps none with
    | .error _ => .error .lenaTypeError
    | .ok (.method _) => .ok o.runDen
    | .ok .callRun => .ok (fun s => .ok (mapS o.callDen s))
    | .ok .fcRun => .ok (fcRun o.accDen)
    | .ok .given => .error .lenaTypeError

def toStages : List Obj → Except Exc (List (Stage Value))
  | [] => .ok []
  | o :: os =>
    match o.toStage with
    | .error e => .error e
    | .ok st =>
      match toStages os with
      | .error e => .error e
      | .ok sts => .ok (st :: sts)

/-- `LenaSequence.__init__`: `_data_seq` = arguments without `_has_no_data` -/
def dataSeq (args : List Obj) : List Obj := args.filter (fun o => !o.hasNoData)

/-- `Sequence(*args)` -/
def mkSequence (args : List Obj) : Except Exc (Stage Value) :=
  match toStages (dataSeq args) with
  | .error e => .error e
  | .ok sts => .ok (composeS sts)

/-- `FillSeq.__init__` lines 61-75: a non-last element becomes a `fill_into` stage -/
def Obj.toPre (o : Obj) : Except Exc (Pre Value) :=
  if (o.caps.attr "fill_into").present && (o.caps.attr "fill_into").callable then .ok o.fillIntoDen
  else
    match mkFillInto o.caps none with
    | .error _ => .error .lenaTypeError
    | .ok (.method _) => .ok o.fillIntoDen
    | .ok .callDefault => .ok (.call o.callDen)
    | .ok .runFillInto => .ok (.runEl o.runDen)

def toPres : List Obj → Except Exc (List (Pre Value))
  | [] => .ok []
  | o :: os =>
    match o.toPre with
    | .error e => .error e
    | .ok p =>
      match toPres os with
      | .error e => .error e
      | .ok ps => .ok (p :: ps)

/-- `FillSeq(*before, last)` on data elements: the last one must have a callable `fill` (tested first) -/
def mkFillSeq (before : List Obj) (last : Obj) : Except Exc (List (Pre Value)) :=
  if !last.caps.hasMethod "fill" then .error .lenaTypeError
  else toPres before

/-- the split of `FillComputeSeq.__init__` lines 90-105: elements before the first fill/compute element,
that element, the elements after it -/
def splitAtFc : List Obj → Option (List Obj × Obj × List Obj)
  | [] => none
  | o :: os =>
    if o.caps.isFillComputeEl then some ([], o, os)
    else
      match splitAtFc os with
      | none => none
      | some (b, fc, a) => some (o :: b, fc, a)

/-- `FillComputeSeq(*args)`: `LenaTypeError` if there is no fill/compute element or `FillSeq(*before, fc)`
cannot be built, then `Sequence(*after)` (whose `LenaTypeError` propagates) -/
def mkFillComputeSeq (args : List Obj) : Except Exc (Chain AccState Value) :=
  match splitAtFc (dataSeq args) with
  | none => .error .lenaTypeError
  | some (before, fc, after) =>
    match mkFillSeq before fc with
    | .error e => .error e
    | .ok pre =>
      match toStages (dataSeq after) with
      | .error e => .error e
      | .ok post => .ok { pre := pre, acc := fc.accDen, post := post }

/-! ## the element vocabulary of the correspondence check -/

/-- a capability table given by a finite list of attributes -/
def capsOf (attrs : List (String × Attr)) (callable : Bool) (isSplit : Bool := false) (isNone : Bool := false) :
    Caps :=
  { attr := fun n => (attrs.lookup n).getD .absent, callable := callable, isSplit := isSplit, isNone := isNone }

/-- Python truthiness (`bool(v)`) of a flow value; `quot 0 0` stands for `None` (see `drivers/C05.lean`) -/
def truthy : Value → Bool
  | .int i => i != 0
  | .str s => s != ""
  | .quot n _ => n != 0
  | .list xs => !xs.isEmpty
  | .tup xs => !xs.isEmpty
  | .dict kvs => !kvs.isEmpty

/-- selectors that do not return a `bool`: `Filter.run` and `Filter.fill_into` use the truthiness of the result -/
inductive TPred where
  /-- `lambda v: get_data(v) % 2` (an `int`; `TypeError` for other data) -/
  | oddInt
  /-- `lambda v: get_data(v)` (the data itself: `0`, `""`, `[]`, `()`, `None` are falsy) -/
  | dataSelf
  deriving Repr, DecidableEq

def TPred.eval : TPred → Value → Except Exc Bool
  | .oddInt, v =>
    match getData v with
    | .int i => .ok (i % 2 != 0)
    | _ => .error .typeError
  | .dataSelf, v => .ok (truthy (getData v))

/-- element descriptions sent by the harness (`harness/props/c05.py: build`) -/
inductive Spec where
  /-- a plain function -/
  | call (f : Fn)
  /-- `lena.variables.Variable(name, getter)` -/
  | var (name : String) (g : Fn)
  /-- `lena.flow.Filter(p)` -/
  | filter (p : Pred)
  /-- `lena.flow.Slice(start, stop, step)` (one- and two-argument forms normalised) -/
  | slice (start stop step : Option Int)
  /-- `lena.flow.RunIf(p, *inner)` -/
  | runIf (p : Pred) (inner : List Spec)
  /-- `lena.flow.Count(name)` (post-processing only: its `fill_into` keeps a counter) -/
  | count (name : String)
  | reverse
  | end_
  /-- `Sum()`, `Mean()`, `StoreFilled(...)`, `FillCompute(Count(name))` -/
  | acc (k : AccKind)
  /-- instance of a synthetic class with the given attributes -/
  | syn (attrs : List (String × Attr)) (callable nodata : Bool)
  /-- an object with none of the interfaces -/
  | junk
  /-- `lena.meta.SetContext(...)`: an element with `_has_no_data` -/
  | setContext
  /-- `lena.flow.RunIf(5, *inner)`: a `select` that cannot be converted to a `Selector` -/
  | runIfBad (inner : List Spec)
  /-- a Run element with `_can_break_flow` whose `run` yields two values, `v` and `[v]`, for every value `v`
  (a flow-breaking element other than `RunIf`, like `MapGroup`) -/
  | dup
  /-- `lena.flow.Filter(q)` for a selector that returns a truthy / falsy non-`bool` -/
  | filterT (q : TPred)
  /-- the callable `lambda v: c` for a constant `c` (`None`, `0`, `[]`, `()`, …) -/
  | const (c : Value)

/-- the synthetic classes' `fill` appends to a list, `compute` yields `["fc", [filled values]]` -/
def synAcc : Acc AccState Value :=
  { init := {}
    fill := fun s v => .ok { s with group := s.group ++ [v] }
    compute := fun s => .ok [.list [.str "fc", .list s.group]] }

mutual
/-- the Python object denoted by a `Spec` (constructors may raise) -/
def Spec.toObj : Spec → Except Exc Obj
  | .call f => .ok { caps := capsOf [] true, callDen := f.call }
  | .var name g => .ok { caps := capsOf [] true, callDen := variableCall name g }
  | .filter p =>
    .ok { caps := capsOf [("run", .method), ("fill_into", .method)] false
          runDen := fun s => .ok (filterS p.eval s)
          fillIntoDen := .filter p.eval }
  | .slice a b s =>
    match Lena.C17.mkSlice a b s with
    | .valueError => .error .lenaValueError
    | .islice a' b' st =>
      .ok { caps := capsOf [("run", .method), ("fill_into", .method)] false
            runDen := fun s => .ok (isliceS a' b' st s)
            fillIntoDen := .slice a' b' st }
    | .negative a' b' st =>
      -- `fill_into` of a `Slice` with a negative index: `self._index` does not exist
      .ok { caps := capsOf [("run", .method), ("fill_into", .method)] false
            runDen := fun s => .ok (sliceS (.negative a' b' st) s)
            fillIntoDen := .call (fun _ => .error .attributeError) }
  | .runIf p inner =>
    match Spec.toObjs inner with
    | .error e => .error e
    | .ok os =>
      match mkSequence os with
      | .error e => .error e
      | .ok seq =>
        .ok { caps := capsOf [("run", .method), ("_can_break_flow", .value)] false
              runDen := fun s => .ok (runIfS p.eval seq s) }
  | .count name =>
    .ok { caps := capsOf [("run", .method), ("fill", .method), ("compute", .method), ("fill_into", .method)] false
          runDen := fun s => .ok (countS name 0 s)
          accDen := accOf (.count name) }
  | .reverse => .ok { caps := capsOf [("run", .method)] false, runDen := fun s => .ok (reverseS s) }
  | .end_ => .ok { caps := capsOf [("run", .method)] false, runDen := fun s => .ok (endS s) }
  | .acc k => .ok { caps := capsOf [("fill", .method), ("compute", .method)] false, accDen := accOf k }
  | .syn attrs callable nodata =>
    .ok { caps := capsOf attrs callable
          hasNoData := nodata
          runDen := fun s => .ok (mapS (fun v => .ok (.list [.str "run", v])) s)
          callDen := fun v => .ok (.list [.str "call", v])
          fillIntoDen := .call (fun v => .ok (.list [.str "fi", v]))
          accDen := synAcc }
  | .junk => .ok { caps := capsOf [] false }
  | .setContext => .ok { caps := capsOf [] false, hasNoData := true }
  | .filterT q =>
    .ok { caps := capsOf [("run", .method), ("fill_into", .method)] false
          runDen := fun s => .ok (filterS q.eval s)
          fillIntoDen := .filter q.eval }
  | .const c => .ok { caps := capsOf [] true, callDen := fun _ => .ok c }
  | .dup =>
    .ok { caps := capsOf [("run", .method), ("_can_break_flow", .value)] false
          runDen := fun s => .ok (bindS (fun v => .ofList [v, .list [v]]) s) }
  | .runIfBad inner =>
    -- the arguments are evaluated first, then `RunIf.__init__` fails on `select` (lines 176-183)
    match Spec.toObjs inner with
    | .error e => .error e
    | .ok _ => .error .lenaTypeError
def Spec.toObjs : List Spec → Except Exc (List Obj)
  | [] => .ok []
  | s :: ss =>
    match Spec.toObj s with
    | .error e => .error e
    | .ok o =>
      match Spec.toObjs ss with
      | .error e => .error e
      | .ok os => .ok (o :: os)
end

/-- outcome of building and driving a chain: a constructor raised, or the drained result -/
inductive Outcome where
  | init (e : Exc)
  | ran (s : Strm Value)

/-- `list(Sequence(*args).run(iter(flow)))` -/
def driveSeq (args : List Spec) (flow : List Value) : Outcome :=
  match Spec.toObjs args with
  | .error e => .init e
  | .ok os =>
    match mkSequence os with
    | .error e => .init e
    | .ok st => .ran (observe (st (.ofList flow)))

/-- `FillComputeSeq(*args)`, filled value by value until `LenaStopFill`, then computed -/
def driveFill (args : List Spec) (flow : List Value) : Outcome :=
  match Spec.toObjs args with
  | .error e => .init e
  | .ok os =>
    match mkFillComputeSeq os with
    | .error e => .init e
    | .ok c => .ran (fillRun c flow)

def mkChains : List (List Obj) → Except Exc (List (Chain AccState Value))
  | [] => .ok []
  | os :: oss =>
    match mkFillComputeSeq os with
    | .error e => .error e
    | .ok c =>
      match mkChains oss with
      | .error e => .error e
      | .ok cs => .ok (c :: cs)

def Spec.toObjss : List (List Spec) → Except Exc (List (List Obj))
  | [] => .ok []
  | b :: bs =>
    match Spec.toObjs b with
    | .error e => .error e
    | .ok os =>
      match Spec.toObjss bs with
      | .error e => .error e
      | .ok oss => .ok (os :: oss)

/-- `Split([tuple(b) for b in branches], bufsize).run(iter(flow))`, every branch containing a fill/compute
element (so that `_get_seq_with_type` makes it a `FillComputeSeq`); tagged output -/
def driveSplit (branches : List (List Spec)) (bufsize : Option Nat) (flow : List Value) :
    Except Exc (Strm (Nat × Value)) :=
  match Spec.toObjss branches with
  | .error e => .error e
  | .ok oss =>
    match mkChains oss with
    | .error e => .error e
    | .ok cs =>
      if bufsize = some 0 then .error .lenaValueError
      else .ok (splitRunTagged cs bufsize flow)

/-- `bufsize is None or (bufsize == int(bufsize) and bufsize >= 1)` (`Split.__init__` lines 228-233), for
integer arguments -/
def bufsizeOk : Option Int → Bool
  | none => true
  | some b => decide (1 ≤ b)

/-- `Split(seqs, bufsize)` with `seqs` a list or not (line 188), integer or `None` bufsize: the order of the
checks is: `seqs` is a list; every branch is converted; `bufsize` is valid -/
def driveSplitI (isList : Bool) (branches : List (List Spec)) (bufsize : Option Int) (flow : List Value) :
    Except Exc (Strm (Nat × Value)) :=
  match Spec.toObjss branches with
  | .error e => .error e
  | .ok oss =>
    if !isList then .error .lenaTypeError
    else
      match mkChains oss with
      | .error e => .error e
      | .ok cs =>
        if !bufsizeOk bufsize then .error .lenaValueError
        else .ok (splitRunTagged cs (bufsize.map Int.toNat) flow)

/-- `sp = Split([...])` with only fill_compute branches, used through `sp.fill` / `sp.compute` -/
def driveSplitFill (branches : List (List Spec)) (flow : List Value) : Except Exc (Strm (Nat × Value)) :=
  match Spec.toObjss branches with
  | .error e => .error e
  | .ok oss =>
    match mkChains oss with
    | .error e => .error e
    | .ok cs => .ok (splitFillRun cs flow)

/-- `FillSeq(*args)` (lines 44-59): at least one argument; the last data element must have a callable `fill`
(`self._data_seq[-1]` raises `IndexError` when no argument is a data element); the others are converted -/
def mkFillSeqArgs (args : List Obj) : Except Exc (List (Pre Value)) :=
  if args.isEmpty then .error .lenaTypeError
  else
    match (dataSeq args).reverse with
    | [] => .error .indexError
    | last :: revBefore => mkFillSeq revBefore.reverse last

def driveFillSeqInit (args : List Spec) : Except Exc Unit :=
  match Spec.toObjs args with
  | .error e => .error e
  | .ok os =>
    match mkFillSeqArgs os with
    | .error e => .error e
    | .ok _ => .ok ()

/-- the semantic chain of `FillComputeSeq(*args)`, if it can be built, run as a `Sequence` (`seqRun`) -/
def driveSeqOfChain (args : List Spec) (flow : List Value) : Option (Strm Value) :=
  match Spec.toObjs args with
  | .error _ => none
  | .ok os =>
    match mkFillComputeSeq os with
    | .error _ => none
    | .ok c => some (seqRun c flow)

mutual
/-- the object keeps no state between two calls of its `run`/`__call__`: running it afresh for every value — which is
what the pure `Stage` of a `RunIf`'s inner sequence does in this model — is then what the one Python object does.
`Count.run` adds to `self.count`, an accumulator behind `Run._fc_run` keeps what it was filled with, the synthetic
classes may do either: not stateless. -/
def Spec.stateless : Spec → Bool
  | .count _ => false
  | .acc _ => false
  | .syn _ _ _ => false
  | .runIf _ inner => Spec.statelessL inner
  | .runIfBad inner => Spec.statelessL inner
  | _ => true
def Spec.statelessL : List Spec → Bool
  | [] => true
  | s :: ss => s.stateless && Spec.statelessL ss
end

/-- executable form of "the element description is of the property's pre-processing kinds, as far as this model
covers them": callable, `Variable`, `Filter`, non-negative `Slice`, `RunIf` **with a stateless inner sequence**,
another flow-breaking Run element -/
def Spec.inScopeB : Spec → Bool
  | .call _ => true
  | .var _ _ => true
  | .filter _ => true
  | .slice a b s =>
    match Lena.C17.mkSlice a b s with
    | .islice _ _ _ => true
    | _ => false
  | .runIf _ inner => Spec.statelessL inner
  | .dup => true
  | .filterT _ => true
  | .const _ => true
  | _ => false

/-! ## specification side of the adapters (used by `Props/C05.lean`, evaluated by the driver) -/

/-- the documented capability each adapter needs -/
def callAccepts (c : Caps) : Option String → Bool
  | none => c.callable
  | some n => c.hasMethod n

def sourceElAccepts (c : Caps) : Option String → Bool
  | none => c.callable || (c.attr "__iter__").present
  | some n => c.hasMethod n

def runAccepts (c : Caps) : Option String → Bool
  | none => c.hasMethod "run" || c.callable || c.isFillComputeEl
  | some n => if c.isNone then c.givenCallable else c.hasMethod n

def fillIntoAccepts (c : Caps) : Option String → Bool
  | none => c.hasMethod "fill_into" || (c.callable && !c.isSplit) || (c.isRunEl && (c.attr "_can_break_flow").present)
  | some n => c.hasMethod n

def fillComputeAccepts (c : Caps) (fill compute : String) : Bool :=
  c.hasMethod fill && (c.hasMethod compute || c.hasMethod "request")

/-- what an accepted adapter is bound to -/
def callBinding : Option String → CallMode
  | none => .self
  | some n => .method n

def sourceElBinding (c : Caps) : Option String → CallMode
  | none => if c.callable then .self else .iter
  | some n => .method n

def runBinding (c : Caps) : Option String → RunMode
  | none => if c.hasMethod "run" then .method "run" else if c.callable then .callRun else .fcRun
  | some n => if c.isNone then .given else .method n

def fillIntoBinding (c : Caps) : Option String → FillIntoMode
  | none => if c.hasMethod "fill_into" then .method "fill_into"
            else if c.callable && !c.isSplit then .callDefault else .runFillInto
  | some n => .method n

def fillComputeBinding (c : Caps) (fill compute : String) : String × String :=
  (fill, if c.hasMethod compute then compute else "request")


/-! ## one element, two faces: the two sides of the driver-consistency lemmas, executable -/

/-- `StoreFilled()`-like sink on values -/
def storeSinkV : Sink (List Value) Value := ⟨fun s v => .ok (s ++ [v])⟩

/-- for the element `s` used as a pre-processing element and an input flow that yields `flow` and then ends with
`term`: (what `FillSeq(el, store)` filled value by value leaves in the store, and how the filling ended;
what `el.run(flow)` — after conversion by `Sequence` — yields) -/
def driveStage (s : Spec) (flow : List Value) (term : Option Exc) :
    Except Exc (FillRes (List Value) × Strm Value) :=
  match s.toObj with
  | .error e => .error e
  | .ok o =>
    if o.hasNoData then .ok (feedS storeSinkV [] ⟨flow, term⟩, ⟨flow, term⟩)   -- not a data element: dropped by both
    else
      match o.toPre, o.toStage with
      | .ok p, .ok st =>
        .ok ((feedS (stageSink p storeSinkV) (p.initState, []) ⟨flow, term⟩).map Prod.snd, observe (st ⟨flow, term⟩))
      | _, _ => .error .lenaTypeError

/-! ## specification side of `count_dual` (a bare `Count` at the accumulator position) -/

/-- the context of the last value of a flow (`d` for an empty flow) -/
def lastCtxOr (d : Ctx) (ys : List Value) : Ctx :=
  match ys.getLast? with
  | none => d
  | some v => getContext v

/-- the context of the last value of a flow (`{}` for an empty flow) -/
def lastCtx (ys : List Value) : Ctx := lastCtxOr [] ys

/-- what `Count(name).run` yields for the flow `ys`: the values, the last one with `{name: len(ys)}` added to its
context -/
def countRunSpec (name : String) (ys : List Value) : List Value :=
  match ys.getLast? with
  | none => []
  | some last => ys.dropLast ++ [.tup [getData last, .dict (dictSet (getContext last) name (.int ys.length))]]

/-! ## what the adapters' exposed methods *do* (sentence 2: "preserve the meaning of the wrapped method")

`Meths` gives the behaviour of an object's methods by name, for the role in which an adapter uses them
(`None` where this model gives the use no meaning, e.g. `Run(el, run="fill")`).  `denRun`, `denCall`,
`denFillInto`, `denFillCompute` are the behaviour of the method an adapter exposes, as a function of the binding
chosen by `mkRun` …; the driver evaluates them on samples and the harness compares with the real adapters. -/

structure Meths where
  /-- `getattr(el, name)(value)` -/
  callM : String → Option (Value → Except Exc Value)
  /-- `getattr(el, name)(flow)` -/
  runM : String → Option (Stage Value)
  /-- `getattr(el, name)(element, value)`, as a pre-processing stage -/
  fillIntoM : String → Option (Pre Value)
  /-- `getattr(el, fill)(value)` / `getattr(el, compute)()` -/
  accM : String → String → Option (Acc AccState Value)

/-- the standard names of an object, from its faces -/
def Obj.meths (o : Obj) : Meths where
  callM n := if n == "__call__" && o.caps.callable then some o.callDen else none
  runM n := if n == "run" && o.caps.hasMethod "run" then some o.runDen else none
  fillIntoM n := if n == "fill_into" && o.caps.hasMethod "fill_into" then some o.fillIntoDen else none
  accM f c := if f == "fill" && c == "compute" && o.caps.isFillComputeEl then some o.accDen else none

/-- the synthetic classes of the harness: besides the standard names, any other method `m(self, *args)` leaves the
mark `[name, …]`: called with a value it returns `[name, value]`; called with a flow it drains it and returns the
list `[name, [values]]`; called with `(element, value)` it fills `[name, value]`; `<x>_fill` / `<x>_compute` are
a fill/compute pair that records `[<x>_fill, value]` and yields `[<x>_compute, [recorded]]` -/
def synMeths (attrs : List (String × Attr)) (o : Obj) : Meths where
  callM n :=
    if n == "__call__" then (if o.caps.callable then some o.callDen else none)
    else if (attrs.lookup n).getD .absent == .method && n != "run" && n != "fill" && n != "compute"
        && n != "fill_into" && n != "request" && n != "__iter__" then some (fun v => .ok (.list [.str n, v]))
    else none
  runM n :=
    if n == "run" then (if o.caps.hasMethod "run" then some o.runDen else none)
    else if (attrs.lookup n).getD .absent == .method && n != "fill" && n != "compute" && n != "fill_into"
        && n != "request" && n != "__iter__" then
      some (fun s => match s.term with
        | some e => .error e
        | none => .ok (.ofList [.str n, .list s.vals]))
    else none
  fillIntoM n :=
    if n == "fill_into" then (if o.caps.hasMethod "fill_into" then some o.fillIntoDen else none)
    else if (attrs.lookup n).getD .absent == .method && n != "run" && n != "fill" && n != "compute"
        && n != "request" && n != "__iter__" then some (.call (fun v => .ok (.list [.str n, v])))
    else none
  accM f c :=
    if f == "fill" && c == "compute" then (if o.caps.isFillComputeEl then some o.accDen else none)
    else if f == "my_fill" && c == "my_compute" && (attrs.lookup f).getD .absent == .method
        && (attrs.lookup c).getD .absent == .method then
      some { init := {}
             fill := fun s v => .ok { s with group := s.group ++ [.list [.str "my_fill", v]] }
             compute := fun s => .ok [.list [.str "my_compute", .list s.group]] }
    else none

/-- the behaviour of `Call(el, call=…).__call__` for a binding -/
def denCall (o : Obj) (ms : Meths) : CallMode → Option (Value → Except Exc Value)
  | .self => some o.callDen
  | .method n => ms.callM n
  | .iter => none

/-- the behaviour of `Run(el, run=…).run` for a binding (`given`: the function handed over with `Run(None, run=f)`) -/
def denRun (o : Obj) (ms : Meths) (given : Stage Value) : RunMode → Option (Stage Value)
  | .method n => ms.runM n
  | .callRun => some (fun s => .ok (mapS o.callDen s))
  | .fcRun => some (fcRun o.accDen)
  | .given => some given

/-- the behaviour of `FillInto(el, fill_into=…).fill_into` for a binding, as a pre-processing stage -/
def denFillInto (o : Obj) (ms : Meths) : FillIntoMode → Option (Pre Value)
  | .method n => ms.fillIntoM n
  | .callDefault => some (.call o.callDen)
  | .runFillInto => some (.runEl o.runDen)

/-- the behaviour of `FillCompute(el, fill=…, compute=…)` for the bound pair of names -/
def denFillCompute (ms : Meths) (b : String × String) : Option (Acc AccState Value) := ms.accM b.1 b.2

/-! ## `Split.run` with branches of all four types (`lena/core/split.py` lines 318-408)

`_get_seq_with_type` gives every branch one of the types "fill_compute", "fill_request", "sequence", "source".  The
model above (`processBuf`, `splitLoop`) is the case in which every branch is "fill_compute"; here the siblings of a
chain may be of any type.  Values are immutable in this model: every branch sees the buffer as it was read (what
`copy.deepcopy(orig_buf)` for every branch but the last guarantees in the code when `copy_buf` is true). -/

section mixed
variable {σ α : Type}

/-- a branch of a `Split` after `_get_seq_with_type` -/
inductive Branch (σ α : Type) where
  /-- "fill_compute": a `FillComputeSeq` (filled with every buffer; `compute` after the flow, or at once when it
  raises `LenaStopFill`) -/
  | fillCompute (c : Chain σ α)
  /-- "fill_request": a `FillRequestSeq(*seq, reset=False)`: filled with every buffer, `request()` yielded after every
  buffer.  `c.acc.compute` stands for the `request` of its FillRequest element (which does not change the element:
  no reset), `c.post` for the elements after it (run anew for every request: no state between the runs) -/
  | fillRequest (c : Chain σ α)
  /-- "sequence": `seq.run(buf)` for every buffer (a `Stage`: no state between the runs) -/
  | sequence (run : Stage α)
  /-- "source": `seq()` yields its own flow, once -/
  | source (out : Strm α)

/-- an active branch of `Split.run`, with its position in the initializer list -/
inductive MActive (σ α : Type) where
  | fc (B : Active σ α)
  | fr (B : Active σ α)
  | seq (idx : Nat) (run : Stage α)
  | src (idx : Nat) (out : Strm α)

def MActive.idx : MActive σ α → Nat
  | .fc B => B.idx
  | .fr B => B.idx
  | .seq i _ => i
  | .src i _ => i

/-- the loop `while ind < n_of_active_seqs` for one (non-empty) buffer, lines 358-395:
* "source": its whole flow is yielded, the branch is deleted;
* "fill_compute": filled with the buffer; on `LenaStopFill` computed at once, yielded and deleted;
* "fill_request": filled with the buffer (until `LenaStopFill`), then `request()` is yielded; deleted if it stopped;
* "sequence": `seq.run(buf)` is yielded.
Any other exception ends the generator.  Returns the branches still active and what was yielded (tagged). -/
def processBufM (buf : List α) : List (MActive σ α) → List (MActive σ α) × Strm (Nat × α)
  | [] => ([], .nil)
  | .src i out :: rest =>
    let (act, o) := processBufM buf rest
    (act, (tag i out).andThen o)
  | .fc B :: rest =>
    match feedList (chainSink B.chain.acc B.chain.pre) B.st buf with
    | .err e => ([], .fail e)
    | .ok st' =>
      let (act, o) := processBufM buf rest
      (.fc { B with st := st' } :: act, o)
    | .stop st' =>
      let (act, o) := processBufM buf rest
      (act, (tag B.idx (computeAfter B.chain (chainAcc B.chain.pre st'))).andThen o)
  | .fr B :: rest =>
    match feedList (chainSink B.chain.acc B.chain.pre) B.st buf with
    | .err e => ([], .fail e)
    | .ok st' =>
      let (act, o) := processBufM buf rest
      (.fr { B with st := st' } :: act, (tag B.idx (computeAfter B.chain (chainAcc B.chain.pre st'))).andThen o)
    | .stop st' =>
      let (act, o) := processBufM buf rest
      (act, (tag B.idx (computeAfter B.chain (chainAcc B.chain.pre st'))).andThen o)
  | .seq i run :: rest =>
    let (act, o) := processBufM buf rest
    (.seq i run :: act, (tag i (observe (run (.ofList buf)))).andThen o)

/-- lines 397-408, after the flow is exhausted: a source that is still active is called (the flow was empty:
`processBufM` deletes every source with the first buffer), `compute` of the fill_compute branches, and — only if the
flow was empty — `request()` resp. `run([])` of the others -/
def finalM (flowWasEmpty : Bool) : List (MActive σ α) → Strm (Nat × α)
  | [] => .nil
  | .src i out :: rest => (tag i out).andThen (finalM flowWasEmpty rest)
  | .fc B :: rest =>
    (tag B.idx (computeAfter B.chain (chainAcc B.chain.pre B.st))).andThen (finalM flowWasEmpty rest)
  | .fr B :: rest =>
    if flowWasEmpty then
      (tag B.idx (computeAfter B.chain (chainAcc B.chain.pre B.st))).andThen (finalM flowWasEmpty rest)
    else finalM flowWasEmpty rest
  | .seq i run :: rest =>
    if flowWasEmpty then (tag i (observe (run (.ofList [])))).andThen (finalM flowWasEmpty rest)
    else finalM flowWasEmpty rest

/-- the loop over the buffers; `flowWasEmpty` is true until the first buffer was read -/
def splitLoopM : Bool → List (List α) → List (MActive σ α) → Strm (Nat × α)
  | e, [], act => finalM e act
  | _, buf :: bufs, act =>
    let (act', out) := processBufM buf act
    out.andThen (splitLoopM false bufs act')

def Branch.activate (i : Nat) : Branch σ α → MActive σ α
  | .fillCompute c => .fc { chain := c, st := chainInit c.acc.init c.pre, idx := i }
  | .fillRequest c => .fr { chain := c, st := chainInit c.acc.init c.pre, idx := i }
  | .sequence run => .seq i run
  | .source out => .src i out

def initActiveM : Nat → List (Branch σ α) → List (MActive σ α)
  | _, [] => []
  | i, b :: bs => b.activate i :: initActiveM (i + 1) bs

/-- `Split(branches, bufsize).run(iter(xs))` for branches of any type, drained; every value tagged with the index of
the branch it comes from.  `bufsize` is `none` or `≥ 1`. -/
def splitRunM (bs : List (Branch σ α)) (bufsize : Option Nat) (xs : List α) : Strm (Nat × α) :=
  splitLoopM true (chunks bufsize xs) (initActiveM 0 bs)

end mixed

/-! ### the constructors of the branches (`_get_seq_with_type`, `Source.__init__`, `FillRequestSeq.__init__`) -/

/-- `check_sequence_type.is_fill_request_el` -/
def Caps.isFillRequestEl (c : Caps) : Bool :=
  (c.attr "fill").present && (c.attr "request").present && (c.attr "fill").callable && (c.attr "request").callable

/-- the only fill/request element of the vocabulary is an instance of the synthetic class with `fill` and `request`:
`fill` appends to a list, `request` yields `["request", [filled values]]` and changes nothing -/
def synReqAcc : Acc AccState Value :=
  { init := {}
    fill := fun s v => .ok { s with group := s.group ++ [v] }
    compute := fun s => .ok [.list [.str "request", .list s.group]] }

/-- `_init_sequence_with_el` with `is_fill_request_el` (the split of a `FillRequestSeq`) -/
def splitAtFr : List Obj → Option (List Obj × Obj × List Obj)
  | [] => none
  | o :: os =>
    if o.caps.isFillRequestEl then some ([], o, os)
    else
      match splitAtFr os with
      | none => none
      | some (b, fr, a) => some (o :: b, fr, a)

/-- `FillRequestSeq(*args, bufsize=…, reset=False, buffer_input=True)` as `Split` uses it (`fill`, `request`):
`_FillSeq(*before, el)`, `_Sequence(*after)`.  The arguments are taken as they are (no `_has_no_data` filter in
`_init_sequence_with_el`); `LenaSequence.__init__` at the end filters the elements, which cannot fail. -/
def mkFillRequestSeq (args : List Obj) : Except Exc (Chain AccState Value) :=
  match splitAtFr args with
  | none => .error .lenaTypeError
  | some (before, fr, after) =>
    match mkFillSeqArgs (before ++ [fr]) with
    | .error e => .error e
    | .ok pre =>
      match toStages (dataSeq after) with
      | .error e => .error e
      | .ok post => .ok { pre := pre, acc := synReqAcc, post := post }

/-- a branch as it is handed to `Split`: a tuple of elements, or an explicit `Source(first, *tail)` whose first
element is an iterable (or a function returning an iterator) over `vals` -/
inductive BranchSpec where
  | tuple (els : List Spec)
  | source (vals : List Value) (tail : List Spec)

/-- `_get_seq_with_type(seq, bufsize)` for a tuple of objects (lines 35-70): a `FillComputeSeq` if any element is a
fill/compute element, else a `FillRequestSeq` if any element is a fill/request element (its own `bufsize` must be a
natural number: `LenaValueError`), else a `Sequence`; every `LenaTypeError` is re-raised as `LenaTypeError` -/
def mkBranchTuple (os : List Obj) (bufsizeOk : Bool) : Except Exc (Branch AccState Value) :=
  if os.any (fun o => o.caps.isFillComputeEl) then
    match mkFillComputeSeq os with
    | .error e => .error e
    | .ok c => .ok (.fillCompute c)
  else if os.any (fun o => o.caps.isFillRequestEl) then
    match mkFillRequestSeq os with
    | .error e => .error e
    | .ok c => if bufsizeOk then .ok (.fillRequest c) else .error .lenaValueError
  else
    match mkSequence os with
    | .error e => .error e
    | .ok st => .ok (.sequence st)

/-- `Source(vals, *tail)`: `__call__` returns `self._tail.run(flow)` (or `iter(flow)` without a tail) -/
def mkSource (vals : List Value) (tail : List Obj) : Except Exc (Branch AccState Value) :=
  match mkSequence tail with
  | .error e => .error e
  | .ok st => .ok (.source (observe (st (.ofList vals))))

/-- the elements of all branches are constructed first (argument evaluation), in order -/
def BranchSpec.toObjs : BranchSpec → Except Exc (List Obj)
  | .tuple els => Spec.toObjs els
  | .source _ tail => Spec.toObjs tail

def branchObjs : List BranchSpec → Except Exc (List (BranchSpec × List Obj))
  | [] => .ok []
  | b :: bs =>
    match b.toObjs with
    | .error e => .error e
    | .ok os =>
      match branchObjs bs with
      | .error e => .error e
      | .ok rest => .ok ((b, os) :: rest)

def mkBranches (bufsizeOk : Bool) : List (BranchSpec × List Obj) → Except Exc (List (Branch AccState Value))
  | [] => .ok []
  | (b, os) :: rest =>
    match (match b with
           | .tuple _ => mkBranchTuple os bufsizeOk
           | .source vals _ => mkSource vals os) with
    | .error e => .error e
    | .ok br =>
      match mkBranches bufsizeOk rest with
      | .error e => .error e
      | .ok brs => .ok (br :: brs)

/-- `Split(branches, bufsize).run(iter(flow))` for branches of any type; integer or `None` bufsize -/
def driveSplitM (branches : List BranchSpec) (bufsize : Option Int) (flow : List Value) :
    Except Exc (Strm (Nat × Value)) :=
  match branchObjs branches with
  | .error e => .error e
  | .ok bos =>
    match mkBranches (bufsizeOk bufsize) bos with
    | .error e => .error e
    | .ok brs =>
      if !bufsizeOk bufsize then .error .lenaValueError
      else .ok (splitRunM brs (bufsize.map Int.toNat) flow)

end Lena.C05
