import LenaModel.Model.C11
/-! # C11 — specification vocabulary (executable)

The definitions in which the theorems of `Props/C11.lean` are *stated*: the cell at an index path, the cell a
value is routed to, the sub-flow of a cell, the context after a flow, lexicographic order of index tuples,
the edges of a cell, half-open cell membership.  They are executable (Prop-valued ones have a Boolean twin
proved equivalent in `Lemmas/C11.lean`) so that `drivers/C11.lean` can evaluate them on every generated case
and the harness can compare them with the real code or with an independent Python reference — a theorem
stated over a mis-defined vocabulary would otherwise go unnoticed.

No imports except `LenaModel.Model.*`. -/

namespace Lena.C11

open Lena
open Lena.C06 (Edges Coord)
open Lena.C14 (V Slots Value getSlot setSlot emptyD key)

variable {α β γ σ ρ ε D ο : Type}

/-! ## cells -/

/-- the cell at the index path `p` (`bins[p0][p1]…` when that is a cell) -/
def cellAt : NArr β → List Nat → Option β
  | .leaf v, [] => some v
  | .leaf _, _ :: _ => none
  | .node _, [] => none
  | .node xs, i :: is =>
    match xs[i]? with
    | none => none
    | some x => cellAt x is

/-- `p` is an index path of the regular array with `dims` entries per axis -/
def PathIn : List Nat → List Nat → Prop
  | [], [] => True
  | i :: is, n :: ns => i < n ∧ PathIn is ns
  | _, _ => False


/-- executable `PathIn` -/
def pathInB : List Nat → List Nat → Bool
  | [], [] => true
  | i :: is, n :: ns => decide (i < n) && pathInB is ns
  | _, _ => false

/-- every index within its axis (Boolean twin of `C06.InRange`) -/
def inRangeB : List Int → List Nat → Bool
  | [], [] => true
  | i :: is, d :: ds => decide (0 ≤ i) && decide (i < (d : Int)) && inRangeB is ds
  | _, _ => false

/-- the index path of an in-range bin index -/
def pathOf (dims : List Nat) (idx : List Int) : Option (List Nat) :=
  if inRangeB idx dims then some (idx.map Int.toNat) else none

/-- strict lexicographic order of index tuples of equal length -/
def LexLt : List Nat → List Nat → Prop
  | i :: is, j :: js => i < j ∨ (i = j ∧ LexLt is js)
  | _, _ => False


/-- executable `LexLt` -/
def lexLtB : List Nat → List Nat → Bool
  | i :: is, j :: js => decide (i < j) || (decide (i = j) && lexLtB is js)
  | _, _ => false

/-- `ce` are the edges of the cell with index path `p`: `(axes[k][p[k]], axes[k][p[k] + 1])` for every axis -/
def IsCellEdges : List (List α) → List Nat → List (α × α) → Prop
  | [], [], [] => True
  | arr :: axes, i :: p, lohi :: ce => arr[i]? = some lohi.1 ∧ arr[i + 1]? = some lohi.2 ∧ IsCellEdges axes p ce
  | _, _, _ => False


/-! ## routing, sub-flows -/

section sib
variable [LT α] [LE α] [DecidableLT α] [DecidableLE α] [DecidableEq α]
variable (names : List String) (an : Analysis σ D ρ ε) (av : ArgVar α D ε) (guess : Nat → Nat → Nat → Int)

/-- The cell that `fill` routes a value to: `.ok (some p)` the cell with index path `p`, `.ok none` the
value is outside the edges, `.error e` the getter of the argument variable or `get_bin_on_value` raised. -/
def route (edges : Edges α) (dims : List Nat) (v : Value D) : Except (Exc ε) (Option (List Nat)) :=
  match av.getter (C14.getDataContext names v).1 with
  | .error e => .error (.inner e)
  | .ok x =>
    match C06.getBinOnValue guess x edges with
    | .error e => .error (Exc.ofErr e)
    | .ok idx => .ok (pathOf dims idx)

/-- `route` without the reason of a failure -/
def routedTo (edges : Edges α) (dims : List Nat) (v : Value D) : Option (List Nat) :=
  match route names av guess edges dims v with
  | .ok r => r
  | .error _ => none

/-- the sub-flow of the values that are routed to the cell `p`, in arrival order -/
def subflow (edges : Edges α) (dims : List Nat) (p : List Nat) (flow : List (Value D)) : List (Value D) :=
  flow.filter (fun v => routedTo names av guess edges dims v == some p)

/-- the values inside the edges -/
def insideFlow (edges : Edges α) (dims : List Nat) (flow : List (Value D)) : List (Value D) :=
  flow.filter (fun v => (routedTo names av guess edges dims v).isSome)

/-- `_cur_context` after a flow: the context of the last value inside the edges -/
def ctxAfter (edges : Edges α) (dims : List Nat) (c0 : Slots) (flow : List (Value D)) : Slots :=
  match (insideFlow names av guess edges dims flow).getLast? with
  | none => c0
  | some v => (C14.getDataContext names v).2

/-- the generators of the cells, as `compute` sees them -/
def cellTraces (s : SIB α σ) : NArr (Trace ρ (Exc ε)) := NArr.map (fun c => (an.compute c).liftInner) s.bins


/-- executable `IsCellEdges` -/
def isCellEdgesB : List (List α) → List Nat → List (α × α) → Bool
  | [], [], [] => true
  | arr :: axes, i :: p, lohi :: ce =>
    decide (arr[i]? = some lohi.1) && decide (arr[i + 1]? = some lohi.2) && isCellEdgesB axes p ce
  | _, _, _ => false

/-- executable `C06.InCell`: the half-open cell `idx` contains the point `xs` -/
def inCellB : List (List α) → List α → List Nat → Bool
  | [], [], [] => true
  | arr :: axes, x :: xs, i :: idx =>
    (match arr[i]?, arr[i + 1]? with
     | some lo, some hi => decide (lo ≤ x) && decide (x < hi)
     | _, _ => false) && inCellB axes xs idx
  | _, _, _ => false

/-- what `IterateBins` yields for the cell with index path `p` and content `histc`: the data of the cell with
the context built from the cell's own context, the histogram's context and the cell's own edges -/
def cellOutput (createEdgesStr : List (α × α) → Option V → Except (Exc ε) V) (encEdges : List (α × α) → V)
    (hctx : Slots) (axes : List (List α)) (pc : List Nat × Value D) : Except (Exc ε) (FVal α D) :=
  match cellEdges axes pc.1 with
  | .error e => .error e
  | .ok ce =>
    match binContext names createEdgesStr encEdges hctx pc.2 ce with
    | .error e => .error e
    | .ok v => .ok (.plain v)


end sib

end Lena.C11
