import LenaModel.Model.C17
/-! # C17 — `CountFrom` over numbers that are not integers (seed round I/J)

`CountFrom.__call__` is `for val in itertools.count(self._start, self._step): yield val`.  CPython's
`itertools.count` has two modes (`Modules/itertoolsmodule.c`, `count_next` / `count_nextlong`): the fast one for a
start that fits a `Py_ssize_t` with the integer step 1 (`cnt++`), and the general one
`long_cnt = PyNumber_Add(long_cnt, long_step)`: **repeated addition in the arithmetic of the arguments**,
whatever that arithmetic is (ints, bools, Fractions, Decimals, floats, complex numbers, mixed pairs).

`countFromG` transcribes the general mode over any type with an addition.  Over the integers it is `countFrom`
(`Model/C17.lean`; theorem `countFromG_int`); over exact arithmetic it is `start + i * step`
(`countFromG_exact`); over an arithmetic that rounds (floats) the two differ, and the reference of the property is
the *repeated addition* (`countFromG_step`), not the product.  The correspondence check asks `countFromQ` (rationals)
whenever Python's arithmetic on the arguments is exact (ints, bools, Fractions, Decimals within the context
precision, floats whose partial sums are all representable: dyadic steps); the other float cases are checked on the
real code against the real `itertools.count` only. -/

namespace Lena.C17

/-- first `n` values of `itertools.count(start, step)`, general mode: `cnt = cnt + step` after every value -/
def countFromG {α : Type} [Add α] (start step : α) : Nat → List α
  | 0 => []
  | n + 1 => start :: countFromG (start + step) step n

/-- the multiplicative form `start + i * step` (what a "drift-free" rewrite computes; NOT what `itertools.count`
does): the `i`-th multiple is given as a function so that no structure beyond `+` is assumed -/
def countMulG {α : Type} [Add α] (start : α) (multiple : Nat → α) (n : Nat) : List α :=
  (List.range n).map fun i => start + multiple i

/-- `CountFrom(start, step)` on rationals (Fractions, Decimals, dyadic floats within exact range) -/
def countFromQ (start step : Rat) (n : Nat) : List Rat := countFromG start step n

/-- An arithmetic that rounds, in miniature: naturals where every sum is rounded down to an even number
(a float near `1e17` has a spacing of 16: `1e17 + 0.5 == 1e17`). -/
structure Ev where
  val : Nat
  deriving DecidableEq, Repr

instance : Add Ev := ⟨fun a b => ⟨(a.val + b.val) / 2 * 2⟩⟩

end Lena.C17
