/-! # C16 model — `FillRequest` (`lena/core/adapters.py`), `FillRequestSeq`
(`lena/core/fill_request_seq.py`) and Split's fill/request branch (`lena/core/split.py`)

Transcription of the code as it is in /repo after commit 8562852 (`fix: make FillRequest.fill/
request process consecutive blocks for any request schedule`):
`FillRequest.__init__` (validation, which methods exist), `fill`, `request`,
`_run_fill_compute`, `_run_run` (its three variants), the wiring of `FillRequestSeq`, and the
schedule of `fill`/`request` calls that `Split.run` performs on a fill/request branch.

The wrapped element is abstract: a mutable Python object is a state `σ` threaded through its
methods.  Finite flows are lists; a generator that is consumed to the end is the list of what
it yields together with the state it leaves behind.  No imports: executed by `drivers/C16.lean`. -/

set_option linter.unusedVariables false  -- hypotheses named for `decreasing_by`

namespace Lena.C16

/-- The wrapped element as `FillRequest` sees it.
* `fill`  — `el.fill(value)` (the method named by the keyword `fill`);
* `req`   — the generator stored in `_el_request` (`el.request()` or, derived, `el.compute()`),
            consumed to the end: the values it yields and the state afterwards;
* `reset` — `el.reset()` (the method named by `reset_name`);
* `run`   — `el.run(block)` consumed to the end (the block is read completely). -/
structure El (σ α β : Type) where
  fill : σ → α → σ
  req : σ → List β × σ
  reset : σ → σ
  run : σ → List α → List β × σ

/-- which callables `getattr(el, name, None)` finds -/
structure Caps where
  run : Bool
  fill : Bool
  request : Bool
  compute : Bool
  reset : Bool
  deriving Repr, DecidableEq

/-- exception classes raised by `FillRequest.__init__` -/
inductive InitErr where
  | typeError     -- `LenaTypeError`
  | valueError    -- `LenaValueError`
  deriving Repr, DecidableEq

/-- which function `self.run` is bound to -/
inductive RunKind where
  | runRun            -- `self._run_run` (the element has a callable `run`)
  | runFillCompute    -- `self._run_fill_compute`
  deriving Repr, DecidableEq

/-- the attributes `__init__` leaves on the adapter -/
structure Cfg where
  /-- `self.bufsize` -/
  bufsize : Nat
  /-- `self._reset` -/
  reset : Bool
  /-- `self._buffer_input` -/
  bufferInput : Bool
  /-- `self._yield_on_remainder` -/
  yor : Bool
  runKind : RunKind
  /-- `self.fill is not None` -/
  hasFill : Bool
  /-- `self.request is not None` -/
  hasRequest : Bool
  /-- `self.reset is not None` -/
  hasReset : Bool
  /-- `_el_request` is `el.compute` (no callable `request` was found) -/
  reqIsCompute : Bool
  deriving Repr, DecidableEq

/-- `FillRequest.__init__` (adapters.py:323-402), tests in the order of the code.
`reset` is the keyword argument (`None`, `True`, `False`); `bi`, `bo` are
`bool(buffer_input)`, `bool(buffer_output)`; `bufsize` an integer. -/
def mkFillRequest (caps : Caps) (bufsize : Int) (reset : Option Bool) (bi bo yor : Bool) :
    Except InitErr Cfg :=
  -- el_reset = getattr(el, reset_name, None); if callable ... elif reset: raise ... else: self.reset = None
  if !caps.reset && reset == some true then .error .typeError else
  -- if not yield_on_remainder and int(bi) + int(bo) != 1: raise LenaValueError
  if !yor && (bi.toNat + bo.toNat != 1) then .error .valueError else
  -- run = getattr(el, "run", None)
  let hasRun := caps.run
  -- el_fill = getattr(el, fill, None): callable -> `if reset is None: raise LenaTypeError`;
  -- elif not has_run: raise LenaTypeError; else self.fill = None
  if caps.fill && reset.isNone then .error .typeError else
  if !caps.fill && !hasRun then .error .typeError else
  -- el_request: request, else compute, elif not has_run: raise LenaTypeError, else self.request = None
  if !caps.request && !caps.compute && !hasRun then .error .typeError else
  -- if bufsize != int(bufsize) or bufsize < 1: raise LenaValueError
  if bufsize < 1 then .error .valueError else
  .ok { bufsize := bufsize.toNat
        reset := reset == some true
        bufferInput := bi
        yor := yor
        runKind := if hasRun then .runRun else .runFillCompute
        hasFill := caps.fill
        hasRequest := caps.request || caps.compute
        hasReset := caps.reset
        reqIsCompute := !caps.request && caps.compute }

/-! ## `fill` / `request` -/

/-- the mutable attributes used by `fill`/`request`: the element, `_n_count`, `_buffer_in`,
`_buffer_out` (only one of the two buffers exists in Python; the other stays `[]` here) -/
structure St (σ α β : Type) where
  el : σ
  nCount : Nat
  bufIn : List α
  bufOut : List β

variable {σ α β : Type}

/-- a freshly constructed adapter around an element in state `el` (adapters.py:362-366) -/
def St.init (el : σ) : St σ α β := { el := el, nCount := 0, bufIn := [], bufOut := [] }

/-- the recurring group
`for val in self._el_request(): yield val; if self._reset: self._el_reset(); self._n_count = 0` -/
def emit (e : El σ α β) (rst : Bool) (s : St σ α β) : List β × St σ α β :=
  let r := e.req s.el
  (r.1, { s with el := if rst then e.reset r.2 else r.2, nCount := 0 })

/-- `FillRequest.fill` (adapters.py:404-427) -/
def fillR (e : El σ α β) (N : Nat) (rst bi : Bool) (s : St σ α β) (x : α) : St σ α β :=
  if s.nCount = N then
    if bi then { s with bufIn := s.bufIn ++ [x] }      -- `self._buffer_in.append(value); return`
    else
      -- `self._buffer_out.extend(self._el_request())`, reset, `_n_count = 0`; then fill
      let r := emit e rst s
      { r.2 with el := e.fill r.2.el x, nCount := 1, bufOut := s.bufOut ++ r.1 }
  else { s with el := e.fill s.el x, nCount := s.nCount + 1 }

/-- the loop `for value in buffer_in:` of `request` (adapters.py:462-470) -/
def drain (e : El σ α β) (N : Nat) (rst : Bool) : List α → St σ α β → List β × St σ α β
  | [], s => ([], s)
  | x :: r, s =>
    let s1 : St σ α β := { s with el := e.fill s.el x, nCount := s.nCount + 1 }
    if s1.nCount = N then
      let p := emit e rst s1
      let q := drain e N rst r p.2
      (p.1 ++ q.1, q.2)
    else drain e N rst r s1

/-- `FillRequest.request` consumed to the end (adapters.py:429-477) -/
def requestR (e : El σ α β) (N : Nat) (rst bi yor : Bool) (s : St σ α β) : List β × St σ α β :=
  -- `if not self._buffer_input:` yield and clear `_buffer_out`
  let o1 := if bi then [] else s.bufOut
  let s1 : St σ α β := if bi then s else { s with bufOut := [] }
  -- `if self._n_count == bufsize:`
  let p2 := if s1.nCount = N then emit e rst s1 else ([], s1)
  -- `if self._buffer_input:` re-fill the buffered values
  let p3 := if bi then drain e N rst p2.2.bufIn { p2.2 with bufIn := [] } else ([], p2.2)
  -- `if self._yield_on_remainder and self._n_count:`
  let p4 := if yor && p3.2.nCount != 0 then emit e rst p3.2 else ([], p3.2)
  (o1 ++ p2.1 ++ p3.1 ++ p4.1, p4.2)

/-- one call on the adapter -/
inductive Op (α : Type) where
  | fill (x : α)
  | request
  deriving Repr

/-- a history of `fill` and `request` calls; result: what each `request()` yielded, in order -/
def runOps (e : El σ α β) (N : Nat) (rst bi yor : Bool) :
    List (Op α) → St σ α β → List (List β) × St σ α β
  | [], s => ([], s)
  | .fill x :: r, s => runOps e N rst bi yor r (fillR e N rst bi s x)
  | .request :: r, s =>
    let p := requestR e N rst bi yor s
    let q := runOps e N rst bi yor r p.2
    (p.1 :: q.1, q.2)

/-- the values filled by a history -/
def fills : List (Op α) → List α
  | [] => []
  | .fill x :: r => x :: fills r
  | .request :: r => fills r

/-- per-call observations for the correspondence check: after every call the triple
`(_n_count, len(_buffer_in), len(_buffer_out))`, and for a `request` what it yielded -/
def traceOps (e : El σ α β) (N : Nat) (rst bi yor : Bool) :
    List (Op α) → St σ α β → List (Option (List β) × Nat × Nat × Nat)
  | [], _ => []
  | .fill x :: r, s =>
    let s' := fillR e N rst bi s x
    (none, s'.nCount, s'.bufIn.length, s'.bufOut.length) :: traceOps e N rst bi yor r s'
  | .request :: r, s =>
    let p := requestR e N rst bi yor s
    (some p.1, p.2.nCount, p.2.bufIn.length, p.2.bufOut.length) :: traceOps e N rst bi yor r p.2

/-! ## `run` -/

/-- `FillRequest._run_fill_compute` (adapters.py:500-543).  One iteration of `while True`:
`islice(flow, bufsize)`; empty → `break`; fill every value; a short slice ends the run
(with `request` — and no reset — iff `yield_on_remainder`); a full slice is followed by
`request`, the optional reset, and the next iteration.
For `bufsize = 0` (excluded by `__init__`) `islice(flow, 0)` is empty and Python breaks, too. -/
def runFillCompute (e : El σ α β) (N : Nat) (rst yor : Bool) (s : σ) (xs : List α) : List β × σ :=
  if hN : N = 0 then ([], s)
  else if hx : xs = [] then ([], s)
  else
    let blk := xs.take N
    let s1 := blk.foldl e.fill s
    if blk.length % N ≠ 0 then
      if yor then e.req s1 else ([], s1)
    else
      let r := e.req s1
      let s2 := if rst then e.reset r.2 else r.2
      let q := runFillCompute e N rst yor s2 (xs.drop N)
      (r.1 ++ q.1, q.2)
termination_by xs.length
decreasing_by
  have : 0 < xs.length := List.length_pos_iff.mpr hx
  simp only [List.length_drop]; omega

/-- `_run_run`, branch `if self._yield_on_remainder:` (adapters.py:553-572):
`next(flow)`, then `el_run(chain([val], islice(flow, bufsize-1)))`, then the optional reset. -/
def runRunYor (e : El σ α β) (N : Nat) (rst : Bool) (s : σ) (xs : List α) : List β × σ :=
  match xs with
  | [] => ([], s)
  | x :: rest =>
    let r := e.run s (x :: rest.take (N - 1))
    let s2 := if rst then e.reset r.2 else r.2
    let q := runRunYor e N rst s2 (rest.drop (N - 1))
    (r.1 ++ q.1, q.2)
termination_by xs.length
decreasing_by simp only [List.length_drop, List.length_cons]; omega

/-- `_run_run`, branch `if self._buffer_input:` (adapters.py:592-606):
`buffer = list(islice(flow, bufsize))`; an incomplete buffer ends the run *before* the element
sees it.  (`bufsize = 0`, excluded by `__init__`, would loop for ever in Python; the model stops.) -/
def runRunBI (e : El σ α β) (N : Nat) (rst : Bool) (s : σ) (xs : List α) : List β × σ :=
  if hN : N = 0 then ([], s)
  else
    let buffer := xs.take N
    if hlen : (xs.take N).length < N then ([], s)
    else
      let r := e.run s buffer
      let s2 := if rst then e.reset r.2 else r.2
      let q := runRunBI e N rst s2 (xs.drop N)
      (r.1 ++ q.1, q.2)
termination_by xs.length
decreasing_by
  simp only [List.length_take] at hlen; simp only [List.length_drop]; omega

/-- `_run_run`, buffer-output branch (adapters.py:607-620): `results = list(el_run(slice_))` —
the element runs on the (possibly short) slice first; if fewer than `bufsize` values were
counted the results are discarded and the run ends. -/
def runRunBO (e : El σ α β) (N : Nat) (rst : Bool) (s : σ) (xs : List α) : List β × σ :=
  if hN : N = 0 then ([], s)
  else
    let slice := xs.take N
    let r := e.run s slice
    if hlen : (xs.take N).length < N then ([], r.2)
    else
      let s2 := if rst then e.reset r.2 else r.2
      let q := runRunBO e N rst s2 (xs.drop N)
      (r.1 ++ q.1, q.2)
termination_by xs.length
decreasing_by
  simp only [List.length_take] at hlen; simp only [List.length_drop]; omega

/-- `FillRequest.run` as bound by `__init__`, consumed to the end -/
def runFR (e : El σ α β) (c : Cfg) (s : σ) (xs : List α) : List β × σ :=
  match c.runKind with
  | .runFillCompute => runFillCompute e c.bufsize c.reset c.yor s xs
  | .runRun =>
    if c.yor then runRunYor e c.bufsize c.reset s xs
    else if c.bufferInput then runRunBI e c.bufsize c.reset s xs
    else runRunBO e c.bufsize c.reset s xs

/-- `fill` and `request` of the adapter with the attributes of `c` -/
def fillFR (e : El σ α β) (c : Cfg) : St σ α β → α → St σ α β := fillR e c.bufsize c.reset c.bufferInput
def requestFR (e : El σ α β) (c : Cfg) : St σ α β → List β × St σ α β :=
  requestR e c.bufsize c.reset c.bufferInput c.yor

/-! ## block specification -/

/-- the flow cut into consecutive blocks of `N` values; the last block may be shorter; no block
for an empty flow (`N = 0`: no blocks) -/
def chunks (N : Nat) (xs : List α) : List (List α) :=
  if _hN : N = 0 then []
  else if hx : xs = [] then []
  else xs.take N :: chunks N (xs.drop N)
termination_by xs.length
decreasing_by
  have : 0 < xs.length := List.length_pos_iff.mpr hx
  simp only [List.length_drop]; omega

/-- what a fill/request (fill/compute) element yields for a block: fill every value, request -/
def blockFill (e : El σ α β) (s : σ) (b : List α) : List β × σ := e.req (b.foldl e.fill s)

/-- what a run element yields for a block -/
def blockRun (e : El σ α β) (s : σ) (b : List α) : List β × σ := e.run s b

/-- The documented behaviour of `run`: go through the blocks; a full block yields what the element
yields for it, after which the element is reset iff `rst`; a short (hence last) block yields what
the element yields for it iff `yor`, and nothing otherwise. -/
def specBlocks (block : σ → List α → List β × σ) (reset : σ → σ) (N : Nat) (rst yor : Bool) :
    σ → List (List α) → List β
  | _, [] => []
  | s, b :: bs =>
    if b.length = N then
      let r := block s b
      r.1 ++ specBlocks block reset N rst yor (if rst then reset r.2 else r.2) bs
    else if yor then (block s b).1 else []

/-- the per-block function `run` uses for the configuration `c` -/
def blockOf (e : El σ α β) (c : Cfg) : σ → List α → List β × σ :=
  match c.runKind with
  | .runFillCompute => blockFill e
  | .runRun => blockRun e

/-! ## `FillRequestSeq` (fill_request_seq.py:26-109)

`FillRequestSeq(*before, el, *after, **kwargs)` builds `FillSeq(*before, el)` whose `fill`
transforms a value by every `before` element and fills `el` with each result, a `Sequence(*after)`
applied to what `el.request()` yields, and `fr = FillRequest(self, **kwargs)`; `self.run = fr.run`
(`self` has no `run` at that moment, hence `_run_fill_compute`). -/

/-- the element that `FillRequest(self, **kwargs)` sees inside `FillRequestSeq.__init__`:
`pre` is the per-value effect of the elements before `el`, `post` the `run` of the sequence after -/
def seqEl {α' β' : Type} (pre : α' → List α) (post : List β → List β') (e : El σ α β) : El σ α' β' where
  fill s x := (pre x).foldl e.fill s
  req s := let r := e.req s; (post r.1, r.2)
  reset := e.reset
  run s xs := let r := e.run s (xs.flatMap pre); (post r.1, r.2)

/-! ## Split around a fill/request branch (split.py:361-376, 403-407)

For each block of `bufsize` values (`None`: the whole flow) `Split.run` fills the branch with every
value of the block and then consumes `request()`; on an empty flow it calls `request()` once. -/

/-- the blocks `list(itertools.islice(flow, bufsize))` produces until one is empty -/
def splitBlocks (m : Option Nat) (xs : List α) : List (List α) :=
  match m with
  | none => if xs.isEmpty then [] else [xs]
  | some m => chunks m xs

/-- the calls Split makes on a fill/request branch -/
def splitOps (m : Option Nat) (xs : List α) : List (Op α) :=
  if xs.isEmpty then [.request]
  else (splitBlocks m xs).flatMap (fun b => b.map Op.fill ++ [.request])

/-- what `Split([branch], bufsize=m).run(xs)` yields for a fill/request branch that is a
`FillRequest` adapter -/
def splitFR (e : El σ α β) (N : Nat) (rst bi yor : Bool) (m : Option Nat) (el : σ) (xs : List α) : List β :=
  (runOps e N rst bi yor (splitOps m xs) (St.init el)).1.flatten

/-! ## the recording element -/

/-- an element that lists the values it was filled with; `request` yields that list -/
def lstEl : El (List α) α (List α) where
  fill s x := s ++ [x]
  req s := ([s], s)
  reset _ := []
  run s xs := ([s ++ xs], s ++ xs)

end Lena.C16
