import LenaModel.Model.C19
/-! # C19 model, extension — what one element object does to *several* values, and the inputs that travel with a value

Added after the adversary round (`notes/adversary_C19.md`).  Nothing in `Model/C19.lean` is changed; the definitions
here transcribe neighbouring code of the same elements:

* `MakeFilename.__call__` with a **static context** (`_set_context`, `make_filename.py:96-97, 140-145`) called for
  a sequence of values by one object (`MFObj`, `mfObjCall`, `mfObjRun`), and a pipeline whose `Sequence` carries a
  static context (`Plot.withStatic`, `runSpecStatic`);
* `RenderLaTeX.run` on a **flow** of values that select their templates one by one (`context.output.template`,
  `render_latex.py:70-81, 199-206`) through the jinja2 cache of the element (`EnvState`, `getTemplateN`, `renderRun`);
* `ToCSV.run` for a one-dimensional histogram (`to_csv.py:119-158, 244-283`): `output.to_csv`, the precedence of
  `output.duplicate_last_bin` of the context over the element's option, the rows (`dupEffective`, `hist1dRows`,
  `toCsvHist`);
* the **return code** of a LaTeX command (`latex_to_pdf.py:100-107, 212-213`: `if returncode:` / `if not
  returncode:`): any non-zero code, also a negative one (killed by a signal), is a failure (`rcFailed`, `schedOfRc`).

No imports but the model: executed by `drivers/C19.lean`. -/

namespace Lena.C19

/-! ## `MakeFilename` with a static context, one object for several values -/

/-- `full_context = deepcopy(self._context); full_context.update(context)` (lines 140-143) restricted to the key
`name`: the run-time context takes precedence over the static one -/
def fullName (static name : Option String) : Option String :=
  match name with
  | some n => some n
  | none => static

/-- a `MakeFilename` object: its constants and its static context (`none`: `_set_context` was never called, or the
static context has no key `name`) -/
structure MFObj where
  overwrite : Bool
  ms : List (MFKey × Tpl)
  static : Option String
  deriving Repr, DecidableEq

/-- one call `el(value)`: the result for the value and the object afterwards.  The static context is deep-copied
before it is updated with the value's context (line 141), so the object is left as it was. -/
def mfObjCall (el : MFObj) (name : Option String) (o : OutCtx) : (OutCtx × Bool) × MFObj :=
  (mfCall el.overwrite el.ms (fullName el.static name) o, el)

/-- the object called for the values of a flow, one after the other (`lena.core.Call` / `Run` adapter) -/
def mfObjRun : MFObj → List (Option String × OutCtx) → List (OutCtx × Bool)
  | _, [] => []
  | el, (n, o) :: rest =>
    let r := mfObjCall el n o
    r.1 :: mfObjRun r.2 rest

/-- a plot as `MakeFilename` sees it in a `Sequence` with the static context `{"name": static}` -/
def Plot.withStatic (static : Option String) (pl : Plot) : Plot := { pl with name := fullName static pl.name }

/-- a run of a pipeline whose `Sequence` starts with `SetContext("name", static)`: every `MakeFilename` formats with
the static context updated by the value's own.  (Separate plots and plain values; for a group the name of the group
value is the intersection of the members' *run-time* contexts, which `Plot.withStatic` does not express.) -/
def runSpecStatic {C : Type} [DecidableEq C] (conv : Conv C) (w : World C) (static : Option String) (r : RunSpec) :
    Except Exc (World C × List (Val C)) :=
  match r.layout, static with
  | .group, some _ => .error .outsideModel
  | _, _ => runSpec conv w { r with plots := r.plots.map (Plot.withStatic static) }

/-! ## `RenderLaTeX.run` on a flow: every value selects its template -/

/-- the template directory: file name ↦ template file (content id, modification time) -/
abbrev TplDir := String → Option TplFile

/-- the jinja2 `Environment` of a `RenderLaTeX` object: per template name the compiled template and the
modification time of its file when it was loaded -/
structure EnvState where
  cache : String → Option (Nat × Nat) := fun _ => none

def EnvState.set (st : EnvState) (name : String) (t m : Nat) : EnvState :=
  { cache := fun n => if n = name then some (t, m) else st.cache n }

/-- `_select_template_or_default(val, default)` (lines 70-81) with template *names*: `context.output.template` if it
is present and not empty, else the element's template; none at all: `LenaRuntimeError` -/
def selectTemplateS (ctxTemplate : Option String) (default : String) : Except Exc String :=
  match ctxTemplate with
  | some t => if t ≠ "" then .ok t else if default = "" then .error .lenaRuntimeError else .ok default
  | none => if default = "" then .error .lenaRuntimeError else .ok default

/-- `self._environment.get_template(name)`: the cached template of that name if the file's modification time is the
one recorded at load, otherwise the file is read (and cached); a missing file is `jinja2.TemplateNotFound`
(`outsideModel`: not a lena exception) -/
def getTemplateN (st : EnvState) (dir : TplDir) (name : String) : Except Exc (Nat × EnvState) :=
  match dir name with
  | none => .error .outsideModel
  | some f =>
    match st.cache name with
    | some (t, m) => if m = f.mtime then .ok (t, st) else .ok (f.tpl, st.set name f.tpl f.mtime)
    | none => .ok (f.tpl, st.set name f.tpl f.mtime)

/-- `RenderLaTeX.run` (lines 199-230, default selector): for every value of the flow, in order: a selected (csv)
value looks its template up (`select_template`, then `get_template`) and is rendered; any other value passes.
`ct` is the value's `context.output.template`. -/
def renderRun {C : Type} (conv : Conv C) (default : String) (dir : TplDir) :
    EnvState → List (Val C × Option String) → Except Exc (List (Val C) × EnvState)
  | st, [] => .ok ([], st)
  | st, (v, ct) :: rest =>
    if v.out.filetype = some "csv" then
      match selectTemplateS ct default with
      | .error e => .error e
      | .ok name =>
        match getTemplateN st dir name with
        | .error e => .error e
        | .ok (t, st') =>
          match renderRun conv default dir st' rest with
          | .error e => .error e
          | .ok (vs, st'') => .ok (renderVal conv t v :: vs, st'')
    else
      match renderRun conv default dir st rest with
      | .error e => .error e
      | .ok (vs, st'') => .ok (v :: vs, st'')

/-- the reference without a cache: every selected value is rendered from the template file that its own context
(or the element's default) names, as it is on disk -/
def renderRunRef {C : Type} (conv : Conv C) (default : String) (dir : TplDir) :
    List (Val C × Option String) → Except Exc (List (Val C))
  | [] => .ok []
  | (v, ct) :: rest =>
    if v.out.filetype = some "csv" then
      match selectTemplateS ct default with
      | .error e => .error e
      | .ok name =>
        match dir name with
        | none => .error .outsideModel
        | some f =>
          match renderRunRef conv default dir rest with
          | .error e => .error e
          | .ok vs => .ok (renderVal conv f.tpl v :: vs)
    else
      match renderRunRef conv default dir rest with
      | .error e => .error e
      | .ok vs => .ok (v :: vs)

/-! ## `ToCSV.run` for a one-dimensional histogram -/

/-- lines 258-264: `output.duplicate_last_bin` of the context if the key is present — also when it is `False` —
otherwise the option of the element -/
def dupEffective (ctxDup : Option Bool) (elDup : Bool) : Bool :=
  match ctxDup with
  | some b => b
  | none => elDup

/-- `hist1d_to_csv` (lines 119-158) as rows `(edge, bin content)`: one row per bin at its left edge; with
`duplicate_last_bin` one more row: the last edge with the content of the last bin -/
def hist1dRows (edges bins : List Int) (dup : Bool) : List (Int × Int) :=
  edges.dropLast.zip bins ++
    (if dup then
      match edges.getLast?, bins.getLast? with
      | some x, some b => [(x, b)]
      | _, _ => []
    else [])

/-- options of a `ToCSV` element that matter for a histogram -/
structure ToCsvEl where
  dup : Bool := true
  header : Option String := none
  deriving Repr, DecidableEq

inductive CsvOut where
  /-- `context.output.to_csv` is false: the value is yielded as it came -/
  | passed
  /-- the CSV block: the header line (if the element has a non-empty one) and the rows; `output.filetype = "csv"` -/
  | csv (header : Option String) (rows : List (Int × Int))
  deriving Repr, DecidableEq

/-- `ToCSV.run` for one value whose data is a 1-dim histogram (lines 244-283): `toCsv` is
`context.output.to_csv` (absent: convert), `ctxDup` is `context.output.duplicate_last_bin` -/
def toCsvHist (el : ToCsvEl) (toCsv ctxDup : Option Bool) (edges bins : List Int) : CsvOut :=
  if !(toCsv.getD true) then .passed
  else .csv (if truthy el.header then el.header else none) (hist1dRows edges bins (dupEffective ctxDup el.dup))

/-- one `ToCSV` object on the values of a flow: it keeps nothing between values -/
def toCsvRun (el : ToCsvEl) (flow : List (Option Bool × Option Bool × List Int × List Int)) : List CsvOut :=
  flow.map fun (tc, cd, edges, bins) => toCsvHist el tc cd edges bins

/-! ## return codes of the LaTeX command -/

/-- Python truthiness of a return code (`if returncode:`): any non-zero code is a failure — 1 (pdflatex error), 127
(command not found), and the negative codes of a process killed by a signal (-9, -15) -/
def rcFailed (rc : Int) : Bool := rc != 0

/-- what the outside world decides for one launch, given as a return code: the pdf is written iff the code is 0 -/
def schedOfRc (rc : Int) (fin : Nat) : Sched := { ok := !rcFailed rc, fin := fin }

/-! ## `Sequence(MakeFilename(...), Write(outdir))` on one value (seed round K) -/

/-- the names `MakeFilename.__call__` leaves in `context.output`, then `Write._make_filename` on them: where the
value's file goes.  Existing names may be empty strings (`fileext == ""`: no extension, `write.py` `if fileext:`;
`dirname == ""`: directly in the output directory); "existing" is presence of the key (`make_filename.py:136`,
`key in context["output"]`), not truth of its value. -/
def mfWritePath (overwrite : Bool) (ms : List (MFKey × Tpl)) (name : Option String) (outdir : String) (o : OutCtx) :
    Except Exc (String × String × String × String) :=
  wMakeFilename outdir "output" (mfCall overwrite ms name o).1

end Lena.C19
