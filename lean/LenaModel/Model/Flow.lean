import LenaModel.Model.C17
/-! # Shared flow vocabulary for C01 and C05

* `Exc` — exception classes that can be observed at construction, during `run`, `fill` or
  `compute`; every partial operation returns `Except Exc _` (no totalising defaults).
* `Value` — the values that travel in the generated flows: integers, strings, Python lists,
  tuples and string-keyed dictionaries (contexts), plus `quot n d` for the `float` that
  `Mean.compute` produces (`float(n)/float(d)`, never evaluated here).
* `lena.flow.get_data_context` and friends (`lena/flow/functions.py`).
* the stream transformations (`run` side) of the element vocabulary of C01/C05:
  plain callables, `Variable`, `Filter`, `Slice` (through `Lena.C17`), `Count.run`, `RunIf.run`,
  `Reverse.run`, `End.run`, and the accumulators `Sum`, `Mean`, `StoreFilled`, `Count`
  (`fill`/`compute`) as state machines `Acc`.
* `chunks` — the buffers `list(itertools.islice(flow, bufsize))` that `Split.run` reads.

Finite flows are lists; `run` of an element is a function `List α → Except Exc (List α)` on the
*whole* consumed flow (laziness, i.e. partial consumption, is the subject of C02, not of this
model).  Imports only `LenaModel.Model.C17` (for `Slice`). -/

namespace Lena.Flow

/-- exception classes (the enum of `harness.common.exc_name`) -/
inductive Exc where
  | lenaTypeError
  | lenaValueError
  | lenaStopFill
  | lenaZeroDivisionError
  | lenaAttributeError
  | lenaNotImplementedError
  /-- Python `TypeError` (calling a non-callable, unsupported operand types) -/
  | typeError
  /-- Python `AttributeError` (using a method the object does not have) -/
  | attributeError
  | indexError
  | valueError
  deriving Repr, DecidableEq

def Exc.name : Exc → String
  | .lenaTypeError => "LenaTypeError"
  | .lenaValueError => "LenaValueError"
  | .lenaStopFill => "LenaStopFill"
  | .lenaZeroDivisionError => "LenaZeroDivisionError"
  | .lenaAttributeError => "LenaAttributeError"
  | .lenaNotImplementedError => "LenaNotImplementedError"
  | .typeError => "Other:TypeError"
  | .attributeError => "Other:AttributeError"
  | .indexError => "Other:IndexError"
  | .valueError => "Other:ValueError"

/-- a stream transformation on finite flows -/
abbrev Trans (α : Type) := List α → Except Exc (List α)

/-! ## generic combinators (explicit recursion, so that proofs are plain inductions) -/

section generic
variable {α β : Type}

/-- `for val in flow: yield f(val)` where `f` may raise -/
def mapE (f : α → Except Exc β) : List α → Except Exc (List β)
  | [] => .ok []
  | x :: xs =>
    match f x with
    | .error e => .error e
    | .ok y =>
      match mapE f xs with
      | .error e => .error e
      | .ok ys => .ok (y :: ys)

/-- `(val for val in flow if p(val))` where `p` may raise -/
def filterE (p : α → Except Exc Bool) : List α → Except Exc (List α)
  | [] => .ok []
  | x :: xs =>
    match p x with
    | .error e => .error e
    | .ok b =>
      match filterE p xs with
      | .error e => .error e
      | .ok ys => .ok (if b then x :: ys else ys)

/-- `for val in flow: for r in g(val): yield r` where `g` may raise -/
def flatMapE (g : α → Except Exc (List β)) : List α → Except Exc (List β)
  | [] => .ok []
  | x :: xs =>
    match g x with
    | .error e => .error e
    | .ok ys =>
      match flatMapE g xs with
      | .error e => .error e
      | .ok zs => .ok (ys ++ zs)

/-- left-to-right composition of stream transformations: `for t in ts: flow = t(flow)` -/
def compose : List (Trans α) → Trans α
  | [], xs => .ok xs
  | t :: ts, xs =>
    match t xs with
    | .error e => .error e
    | .ok ys => compose ts ys

/-- `Reverse.run` (C17) -/
def reverseT : Trans α := fun xs => .ok (Lena.C17.reverseRun xs)

/-- `End.run`: exhaust the flow, yield nothing -/
def endT : Trans α := fun _ => .ok []

/-- `RunIf.run`: `for val in flow: if select(val): yield from seq.run([val]) else: yield val` -/
def runIfT (select : α → Except Exc Bool) (inner : Trans α) : Trans α :=
  flatMapE (fun v =>
    match select v with
    | .error e => .error e
    | .ok true => inner [v]
    | .ok false => .ok [v])

/-- `Slice(*args).run`, from the C17 model; `none` (rejected at construction) does not occur for
a constructed element and is mapped to `LenaValueError`. -/
def sliceT (k : Lena.C17.SliceKind) : Trans α := fun xs =>
  match Lena.C17.sliceRun k xs with
  | none => .error .lenaValueError
  | some (.ok ys) => .ok ys
  | some .indexError => .error .indexError

/-! ## fill/compute accumulators as state machines -/

/-- an element with `fill(value)` and `compute()`; `σ` is its state -/
structure Acc (σ α : Type) where
  init : σ
  fill : σ → α → Except Exc σ
  compute : σ → Except Exc (List α)

/-- `for arg in flow: el.fill(arg)` -/
def Acc.fillAll (a : Acc σ α) : σ → List α → Except Exc σ
  | s, [] => .ok s
  | s, x :: xs =>
    match a.fill s x with
    | .error e => .error e
    | .ok s' => a.fillAll s' xs

/-- `Run._fc_run` on a fresh element: fill the whole flow, then compute -/
def Acc.run (a : Acc σ α) : Trans α := fun xs =>
  match a.fillAll a.init xs with
  | .error e => .error e
  | .ok s => a.compute s

/-! ## buffers of `Split.run` -/

/-- the successive `list(itertools.islice(flow, bufsize))` until one is empty; `bufsize = none`
reads the whole flow at once.  `bufsize ≥ 1` is checked by `Split.__init__`; fuel = length. -/
def chunksFuel (b : Nat) : Nat → List α → List (List α)
  | 0, _ => []
  | _ + 1, [] => []
  | n + 1, x :: xs => ((x :: xs).take b) :: chunksFuel b n ((x :: xs).drop b)

def chunks (bufsize : Option Nat) (xs : List α) : List (List α) :=
  match bufsize with
  | none => if xs.isEmpty then [] else [xs]
  | some b => chunksFuel b xs.length xs

end generic

/-! ## values -/

inductive Value where
  | int (i : Int)
  | str (s : String)
  /-- the float `float(n) / float(d)` (result of `Mean.compute`) -/
  | quot (n d : Int)
  | list (xs : List Value)
  | tup (xs : List Value)
  | dict (kvs : List (String × Value))
  deriving Repr

abbrev Ctx := List (String × Value)

/-- `lena.flow.functions._has_context`: a tuple of length 2 whose second element is a dict -/
def hasContext : Value → Bool
  | .tup [_, .dict _] => true
  | _ => false

/-- `get_data_context(value)` -/
def getDataContext : Value → Value × Ctx
  | .tup [d, .dict c] => (d, c)
  | v => (v, [])

/-- `get_data(value)` -/
def getData (v : Value) : Value := (getDataContext v).1

/-- `get_context(value)` -/
def getContext (v : Value) : Ctx := (getDataContext v).2

/-- `d[k] = v` / `d.update({k: v})` (position of an existing key is kept; the JSON encoding makes
order irrelevant) -/
def dictSet : Ctx → String → Value → Ctx
  | [], k, v => [(k, v)]
  | (k', v') :: rest, k, v => if k' = k then (k, v) :: rest else (k', v') :: dictSet rest k v

/-- `math.elements._maybe_with_context` and the `if not self._cur_context` branches of
`Sum.compute` -/
def maybeWithContext (d : Value) (c : Ctx) : Value :=
  if c.isEmpty then d else .tup [d, .dict c]

/-! ## plain callables of the harness vocabulary -/

/-- functions on *data* used as plain callables and as `Variable` getters:
`inc = d + 1`, `neg = -d`, `mod3 = d % 3`, `ident`, `wrap = [v]`, `boom` raises `ValueError`
on 13.  Arithmetic on anything but an `int` raises `TypeError`. -/
inductive Fn where
  | inc | neg | mod3 | ident | wrap | boom
  deriving Repr, DecidableEq

def Fn.onData : Fn → Value → Except Exc Value
  | .inc, .int i => .ok (.int (i + 1))
  | .neg, .int i => .ok (.int (-i))
  | .mod3, .int i => .ok (.int (i % 3))
  | .boom, .int i => if i = 13 then .error .valueError else .ok (.int i)
  | .ident, v => .ok v
  | .wrap, v => .ok (.list [v])
  | _, _ => .error .typeError

/-- the plain callable `harness.props.c01.CALLABLES[f]`: `ident` and `wrap` act on the whole value,
the others on the data part and keep the context. -/
def Fn.call (f : Fn) (v : Value) : Except Exc Value :=
  match f with
  | .ident => .ok v
  | .wrap => .ok (.list [v])
  | f =>
    if hasContext v then
      let (d, c) := getDataContext v
      match f.onData d with
      | .error e => .error e
      | .ok d' => .ok (.tup [d', .dict c])
    else f.onData v

/-- `Variable(name, getter).__call__` for a variable without type, on a context whose
`variable` (if any) has no `type` (then `_update_context` is `context["variable"] = var_context`) -/
def variableCall (name : String) (g : Fn) (v : Value) : Except Exc Value :=
  let (d, c) := getDataContext v
  match g.onData d with
  | .error e => .error e
  | .ok d' => .ok (.tup [d', .dict (dictSet c "variable" (.dict [("name", .str name)]))])

/-- selectors of the harness vocabulary, functions of the data part:
`even = d % 2 == 0`, `pos = d > 0`, `lt5 = d < 5`, `all`, `none` -/
inductive Pred where
  | even | pos | lt5 | all | none
  deriving Repr, DecidableEq

def Pred.eval : Pred → Value → Except Exc Bool
  | .all, _ => .ok true
  | .none, _ => .ok false
  | p, v =>
    match getData v with
    | .int i =>
      match p with
      | .even => .ok (i % 2 == 0)
      | .pos => .ok (decide (i > 0))
      | .lt5 => .ok (decide (i < 5))
      | _ => .ok true
    | _ => .error .typeError

/-! ## `Count.run` -/

/-- the loop `for val in flow: yield prev_val; count += 1; prev_val = val` -/
def countLoop (prev : Value) (count : Nat) : List Value → List Value × Value × Nat
  | [] => ([], prev, count)
  | v :: rest =>
    let (ys, p, c) := countLoop v (count + 1) rest
    (prev :: ys, p, c)

/-- `Count(name, count0).run(flow)` -/
def countRun (name : String) (count0 : Int) : List Value → List Value
  | [] => []
  | first :: rest =>
    let (ys, last, count) := countLoop first 1 rest
    let (d, c) := getDataContext last
    ys ++ [.tup [d, .dict (dictSet c name (.int (count0 + count)))]]

/-! ## accumulators -/

inductive AccKind where
  | sum
  | mean
  /-- `StoreFilled(yield_as_a_group)` -/
  | store (group : Bool)
  /-- `Count(name)` used through `fill`/`compute` -/
  | count (name : String)
  deriving Repr, DecidableEq

/-- state of any of the accumulators above: `_total`/`_sum`, `_count`/`count`, `_cur_context`,
`group` -/
structure AccState where
  total : Int := 0
  count : Nat := 0
  ctx : Ctx := []
  group : List Value := []
  deriving Repr

def accFill (k : AccKind) (s : AccState) (v : Value) : Except Exc AccState :=
  match k with
  | .sum =>
    -- `data, context = get_data_context(value); self._total += data; self._cur_context = context`
    match getDataContext v with
    | (.int i, c) => .ok { s with total := s.total + i, ctx := c }
    | _ => .error .typeError
  | .mean =>
    match getDataContext v with
    | (.int i, c) => .ok { s with total := s.total + i, count := s.count + 1, ctx := c }
    | _ => .error .typeError
  | .store _ => .ok { s with group := s.group ++ [v] }
  | .count _ => .ok { s with count := s.count + 1, ctx := getContext v }

def accCompute (k : AccKind) (s : AccState) : Except Exc (List Value) :=
  match k with
  | .sum => .ok [maybeWithContext (.int s.total) s.ctx]
  | .mean =>
    if s.count = 0 then .error .lenaZeroDivisionError
    else .ok [maybeWithContext (.quot s.total s.count) s.ctx]
  | .store true => .ok [.list s.group]
  | .store false => .ok s.group
  | .count name =>
    .ok [.tup [.int s.count, .dict (dictSet s.ctx name (.int s.count))]]

def accOf (k : AccKind) : Acc AccState Value :=
  { init := {}, fill := accFill k, compute := accCompute k }

end Lena.Flow
