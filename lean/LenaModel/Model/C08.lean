/-! # C08 model — context addressing, formatting and the update elements

Transcription of (working tree of /repo, after the `fix:` commits f0c4638, 2100e4a, e5c725f, 5478e2e, and
with the two patches of /verif/notes/C08_defect_1 (a non-string key is a `LenaTypeError` in `str_to_dict` /
`str_to_list`) and C08_defect_2 (`UpdateContext(value=True)`: nothing after the closing braces, blanks around
the key dropped) and C08_defect_3 (`DeleteContext` rejects a list/tuple key with a member that is not a
string); all three are in /repo since d8e17d6)
* `lena/context/functions.py`: `contains` (14-63), `format_context` (111-212), `format_update_with`
  (215-239), `get_recursively` (245-338), `str_to_dict` (421-471), `str_to_list` (474-495),
  `to_string` (498-535), `update_recursively` (601-653);
* `lena/context/update_context.py`: `UpdateContext.__init__` (16-166), `__call__` (168-234);
* `lena/context/elements.py`: `DeleteContext.__init__` (10-30), `__call__` (32-58);
* `lena/meta/elements.py`: `SetContext.__init__`, `_set_context`, `_get_context` (18-64);
* `lena/flow/functions.py`: `get_data_context`, `_has_context` (31-56);
* `lena/context/context.py`: `Context.__call__`, `__getattr__`, `__repr__` (default formatter).

**Dictionaries are insertion-ordered association lists with string keys** (`Entries`), exactly what a
Python `dict` with `str` keys is: `d[k]` is `lookup`, `d[k] = v` is `setKey` (in place when the key
exists, appended otherwise), `del d[k]` is `eraseKey`.  A dictionary of the real code never holds a
key twice; that is the well-formedness predicate `Val.WF` of the theorem files (all functions here
are total without it).  Python's order-insensitive `dict.__eq__` is the relation `DictEq` of the
theorem files; structural equality here is the finer "equal and in the same insertion order".
This deviates from the slot-vector vocabulary of DESIGN.md section 2 on purpose: the property is
about key *strings* (dotted strings are split, `str(x)` is compared with a key, `to_string` sorts
keys), and with association lists `to_string`'s invariance under key order is a theorem about the
sort that the code asks `json.dumps` for, not a consequence of the representation.

Exceptions are explicit outcomes (`Except Exc`).  No imports. -/

namespace Lena.C08

/-! ## Values -/

/-- a scalar of a context.  A float is represented by its `repr` (`"1.5"`, `"inf"`, `"nan"`): nothing here
computes with it.  `obj` is an object of any other class (a set, a user object): all that the code can
observe of it is `str()` — the string, or `none` when `str()` raises — and that it is not JSON-serialisable. -/
inductive Leaf where
  | none
  | bool (b : Bool)
  | int (i : Int)
  | str (s : String)
  | float (repr : String)
  | obj (str : Option String)
  deriving DecidableEq, Repr

/-- a context value: a scalar, a list, or a dictionary with string keys (in insertion order) -/
inductive Val where
  | leaf (a : Leaf)
  | dict (es : List (String × Val))
  | list (xs : List Val)
  deriving Repr

abbrev Entries := List (String × Val)

/-- exception classes that can leave the modelled code; `unmodelled` is not an exception: the model
declines to predict (a third-party rendering it does not transcribe: `str(dict)`, format
specifications, jinja2 syntax beyond literals and `{{dotted.name}}`) -/
inductive Exc where
  | lenaTypeError
  | lenaValueError
  | lenaKeyError
  | valueError          -- builtin `ValueError` raised by `str.format` (documented by `format_context`)
  | indexError          -- builtin `IndexError` (string index out of range in the scanner)
  | lenaAttributeError  -- `Context.__getattr__` for a missing public attribute
  | attributeError      -- builtin `AttributeError` (`Context.__getattr__` for a private name)
  | unmodelled
  deriving DecidableEq, Repr

/-- Python `str(x)` of a scalar; `none`: `str()` raises -/
def pyStr : Leaf → Option String
  | .none => some "None"
  | .bool true => some "True"
  | .bool false => some "False"
  | .int i => some (toString i)
  | .str s => some s
  | .float r => some r
  | .obj s => s

/-- Python truthiness of a scalar (an object of another class is taken to be true) -/
def Leaf.truthy : Leaf → Bool
  | .none => false
  | .bool b => b
  | .int i => i != 0
  | .str s => s != ""
  | .float r => r != "0.0" && r != "-0.0"
  | .obj _ => true

/-- `isinstance(v, dict)` -/
def Val.isDict : Val → Bool
  | .dict _ => true
  | _ => false

/-! ## Dictionary primitives -/

/-- `d.get(key)` / `key in d` / `d[key]` -/
def lookup : Entries → String → Option Val
  | [], _ => none
  | (k, v) :: r, key => if k = key then some v else lookup r key

/-- `d[key] = v`: in place when the key exists (Python keeps its position), appended otherwise -/
def setKey : Entries → String → Val → Entries
  | [], key, v => [(key, v)]
  | (k, w) :: r, key, v => if k = key then (k, v) :: r else (k, w) :: setKey r key v

/-- `del d[key]` (nothing happens when the key is absent: the callers catch `KeyError`) -/
def eraseKey : Entries → String → Entries
  | [], _ => []
  | (k, w) :: r, key => if k = key then r else (k, w) :: eraseKey r key

/-- the value at a path of keys (`d[k1][k2]…`); `none` when a key is absent or a non-dictionary is
met before the path ends.  Reference notion used by the theorems, not a transcription. -/
def getPath : Val → List String → Option Val
  | v, [] => some v
  | .leaf _, _ :: _ => none
  | .list _, _ :: _ => none
  | .dict es, k :: p =>
    match lookup es k with
    | some w => getPath w p
    | none => none

/-! Python `==` on contexts, type-strict on scalars (`True` and `1` differ, as they do for `to_string`):
two dictionaries are equal when every item of the first is in the second with an equal value and every
key of the second is a key of the first; two lists when they are equal element by element.  Executable counterpart of the relation `DictEq` of the theorem
files; compared with the harness's strict equality of Python values. -/
mutual
def pyEq : Val → Val → Bool
  | .leaf a, .leaf b => a == b
  | .dict ea, .dict eb => subEq ea eb && eb.all (fun e => (lookup ea e.1).isSome)
  | .list xa, .list xb => listEq xa xb
  | _, _ => false
def subEq : Entries → Entries → Bool
  | [], _ => true
  | (k, v) :: r, eb =>
    (match lookup eb k with
     | some w => pyEq v w
     | none => false) && subEq r eb
def listEq : List Val → List Val → Bool
  | [], [] => true
  | x :: r, y :: r' => pyEq x y && listEq r r'
  | _, _ => false
end

/-! ## Splitting dotted strings -/

/-- Python `s.split('.')` on the characters of `s` (never empty) -/
def splitDotsC : List Char → List (List Char)
  | [] => [[]]
  | c :: cs =>
    match splitDotsC cs with
    | [] => [[]]                       -- unreachable: the result is never empty
    | w :: ws => if c = '.' then [] :: w :: ws else (c :: w) :: ws

def splitDots (s : String) : List String := (splitDotsC s.toList).map String.ofList

/-- `".".join(parts)` on characters -/
def joinDotsC : List (List Char) → List Char
  | [] => []
  | [w] => w
  | w :: w' :: ws => w ++ '.' :: joinDotsC (w' :: ws)

def joinDots (p : List String) : String := String.ofList (joinDotsC (p.map String.toList))

/-! ## `str_to_list`, `str_to_dict` (functions.py:421-495) -/

/-- `str_to_list(s)` for a string -/
def strToList (s : String) : List String := if s = "" then [] else splitDots s

/-- `str_to_list(s)`; `none`: `s` is not a string (`LenaTypeError`, /verif/notes/C08_defect_1) -/
def strToListE : Option String → Except Exc (List String)
  | none => .error .lenaTypeError
  | some s => .ok (strToList s)

/-- `nest_list({}, l)` for `l = keys ++ [last]`: `len(l) < 2` is a `LenaValueError`, `len(l) == 2`
gives `{l[0]: l[1]}`, otherwise `{l[0]: nest_list({}, l[1:])}` -/
def nestList : List String → Val → Except Exc Val
  | [], _ => .error .lenaValueError
  | [k], last => .ok (.dict [(k, last)])
  | k :: k' :: r, last =>
    match nestList (k' :: r) last with
    | .ok sub => .ok (.dict [(k, sub)])
    | .error e => .error e

/-- `str_to_dict(s, value)`; `value = none` is the sentinel (no value given): then the last
dot-separated part is the value -/
def strToDict (s : String) (value : Option Val) : Except Exc Val :=
  if s = "" then
    match value with
    | none => .ok (.dict [])
    | some _ => .error .lenaValueError
  else
    let parts := splitDots s
    match value with
    | some v => nestList parts v
    | none => nestList parts.dropLast (.leaf (.str (parts.getLastD "")))

/-- `str_to_dict(s, value)`; `none`: `s` is not a string (`LenaTypeError`, /verif/notes/C08_defect_1) -/
def strToDictE (s : Option String) (value : Option Val) : Except Exc Val :=
  match s with
  | none => .error .lenaTypeError
  | some s => strToDict s value

/-! ## `get_recursively` (functions.py:245-338) -/

/-- the `keys` argument: the three notations, and anything else -/
inductive KeyArg where
  | str (s : String)            -- dot-separated string
  | list (ks : List Val)        -- a list (its elements need not be strings)
  | dict (es : Entries)         -- a dictionary with at most one key at each level
  | other                       -- an object of another type (`None`, a number, a tuple…)
  deriving Repr

/-! the loop `while keys:` over a dictionary `keys` (lines 292-305): a dictionary with more than one
key raises `LenaValueError`, a false value ends the loop, a true non-dictionary is appended as the
last key, the only key of a one-key dictionary is appended and the loop goes on with its value.
The normalised keys are hashable Python scalars, i.e. `Leaf`s; a non-empty list or an object of another
class as the innermost value (it would be appended as a key, and a list is not hashable) is not modelled. -/
mutual
def keysOfVal : Val → Except Exc (List Leaf)
  | .leaf (.obj _) => .error .unmodelled
  | .leaf a => .ok (if a.truthy then [a] else [])
  | .list [] => .ok []
  | .list (_ :: _) => .error .unmodelled
  | .dict es => keysOfEntries es
def keysOfEntries : Entries → Except Exc (List Leaf)
  | [] => .ok []
  | [(k, v)] =>
    match keysOfVal v with
    | .ok ks => .ok (.str k :: ks)
    | .error e => .error e
  | _ :: _ :: _ => .error .lenaValueError
end

def isStrVal : Val → Bool
  | .leaf (.str _) => true
  | _ => false

def leafOfVal : Val → Option Leaf
  | .leaf a => some a
  | _ => none

/-- lines 286-317: normalisation of the three notations to a list of keys -/
def normKeys : KeyArg → Except Exc (List Leaf)
  | .str s => .ok (((splitDots s).filter (· ≠ "")).map Leaf.str)
  | .dict es => keysOfEntries es
  | .list ks => if ks.all isStrVal then .ok (ks.filterMap leafOfVal) else .error .lenaTypeError
  | .other => .error .lenaTypeError

/-- `key in d` / `d[key]` for a normalised key (a context has only string keys) -/
def lookupLeaf (d : Entries) : Leaf → Option Val
  | .str s => lookup d s
  | _ => none

/-- lines 319-338: the walk; `none` = the key is missing (default or `LenaKeyError`) -/
def walk : Entries → List Leaf → Option Val
  | d, [] => some (.dict d)                       -- `if not keys: return d`
  | d, [k] => lookupLeaf d k                      -- `keys[-1] in d`
  | d, k :: k' :: rest =>
    match lookupLeaf d k with                     -- `key in d and isinstance(d.get(key), dict)`
    | some (.dict sub) => walk sub (k' :: rest)
    | _ => none

/-- `get_recursively(d, keys, default)`; `default = none` is the sentinel -/
def getRec (d : Val) (keys : KeyArg) (default : Option Val) : Except Exc Val :=
  match d with
  | .dict es =>
    match normKeys keys with
    | .error e => .error e
    | .ok ks =>
      match walk es ks with
      | some v => .ok v
      | none =>
        match default with
        | some dv => .ok dv
        | none => .error .lenaKeyError
  | _ => .error .lenaTypeError

/-! ## Python `repr` / `str` of values (used by `contains`, `format_context`, jinja2 rendering) -/

/-- characters that `repr` of a string leaves as they are and that do not change its quotes -/
def isSimpleChar (c : Char) : Bool :=
  c.toNat ≥ 32 && c.toNat < 127 && c != '\'' && c != '"' && c != '\\'

/-- `repr(s)` of a string without quotes, backslashes, control and non-ASCII characters; other strings
are not modelled -/
def reprStr (s : String) : Option String :=
  if s.toList.all isSimpleChar then some ("'" ++ s ++ "'") else none

def reprLeaf : Leaf → Option String
  | .none => some "None"
  | .bool true => some "True"
  | .bool false => some "False"
  | .int i => some (toString i)
  | .str s => reprStr s
  | .float r => some r
  | .obj _ => none

/-! `repr` of a dictionary (in insertion order) and of a list; `none` = not modelled -/
mutual
def reprVal : Val → Option String
  | .leaf a => reprLeaf a
  | .dict es => (reprEntries es).map (fun l => "{" ++ ", ".intercalate l ++ "}")
  | .list xs => (reprList xs).map (fun l => "[" ++ ", ".intercalate l ++ "]")
def reprEntries : Entries → Option (List String)
  | [] => some []
  | (k, v) :: r =>
    match reprStr k, reprVal v, reprEntries r with
    | some a, some b, some c => some ((a ++ ": " ++ b) :: c)
    | _, _, _ => none
def reprList : List Val → Option (List String)
  | [] => some []
  | v :: r =>
    match reprVal v, reprList r with
    | some b, some c => some (b :: c)
    | _, _ => none
end

/-- Python `str(v)`: `str` of a scalar, `repr` of a container; `none` = it raises or is not modelled -/
def pyStrVal : Val → Option String
  | .leaf a => pyStr a
  | v => reprVal v

/-! ## `contains` (functions.py:14-63) -/

/-- the loop over `levels[:-1]` followed by the test of the last level; the first argument is
`subdict`; `levels` is never empty -/
def containsGo : Val → List String → Bool
  | _, [] => false
  | .dict l, [last] => (lookup l last).isSome                   -- `last_val in subdict`
  | .leaf a, [last] => pyStr a == some last                     -- `str(subdict) == last_val`; `str` raises: False
  | .list xs, [last] => reprVal (.list xs) == some last         -- (a list whose `repr` is not modelled: False)
  | .dict l, key :: rest =>
    match lookup l key with
    | none => false                                             -- `key not in subdict`
    | some w => containsGo w rest
  | .leaf _, _ :: _ :: _ => false                               -- `not isinstance(subdict, dict)`
  | .list _, _ :: _ :: _ => false

/-- does the model transcribe `str(subdict)` wherever `contains` may need it: no list whose `repr` is not
modelled is reached by the walk (`containsGo` answers False there, the real code compares the `repr`) -/
def containsModelled : Val → List String → Bool
  | _, [] => true
  | .list xs, [_] => (reprVal (.list xs)).isSome
  | .dict l, key :: rest =>
    match rest with
    | [] => true
    | _ :: _ =>
      match lookup l key with
      | none => true
      | some w => containsModelled w rest
  | _, _ => true

/-- `contains(d, s)` for a dictionary `d`: the empty string names the context itself;
`len(levels) < 2` gives `s in d`, which is the same test as the general one -/
def contains (d : Entries) (s : String) : Bool :=
  if s = "" then true else containsGo (.dict d) (splitDots s)

/-! ## `format_context` (functions.py:111-212) -/

/-- Python `s.replace(cc, c)` for a doubled character `cc` (leftmost, non-overlapping) -/
def dedouble (c : Char) : List Char → List Char
  | [] => []
  | [x] => [x]
  | x :: y :: r => if x = c ∧ y = c then c :: dedouble c r else x :: dedouble c (y :: r)

/-- does the text contain the doubled character (`'{{' in format_str`) -/
def hasDouble (c : Char) : List Char → Bool
  | [] => false
  | [_] => false
  | x :: y :: r => (x == c && y == c) || hasDouble c (y :: r)

/-- `s.rfind(c)` (−1 when absent) -/
def rfind (c : Char) : List Char → Int
  | [] => -1
  | x :: r =>
    let j := rfind c r
    if j ≥ 0 then j + 1 else if x = c then 0 else -1

/-- `c in '}!:'` -/
def isTerm (c : Char) : Bool := c == '}' || c == '!' || c == ':'

/-- where the scanner of lines 166-200 is: in literal text, in a run of opening braces (just after
one), or in a replacement field whose name read so far is `arg` (reversed) -/
inductive Mode where
  | text
  | braces
  | field (arg : List Char)

/-- the scanner (lines 171-200) over the de-doubled template: returns the new format string
(`new_str`) and the field names (`new_args`).  The three `while` loops of the code are the three
modes; the terminator that ends a field is appended to `new_str` by the next iteration of the outer
loop, which is done here at once.  `IndexError` is `c = format_str[ind]` past the end. -/
def scan : Mode → List Char → Except Exc (List Char × List String)
  | .text, [] => .ok ([], [])
  | .text, c :: r =>
    if c = '{' then
      match scan .braces r with
      | .ok (o, a) => .ok ('{' :: o, a)
      | .error e => .error e
    else
      match scan .text r with
      | .ok (o, a) => .ok (c :: o, a)
      | .error e => .error e
  | .braces, [] => .error .indexError
  | .braces, c :: r =>
    if c = '{' then
      match scan .braces r with
      | .ok (o, a) => .ok ('{' :: o, a)
      | .error e => .error e
    else if isTerm c then
      match scan .text r with
      | .ok (o, a) => .ok (c :: o, "" :: a)
      | .error e => .error e
    else scan (.field [c]) r
  | .field _, [] => .error .indexError
  | .field arg, c :: r =>
    if isTerm c then
      match scan .text r with
      | .ok (o, a) => .ok (c :: o, String.ofList arg.reverse :: a)
      | .error e => .error e
    else scan (.field (c :: arg)) r

/-- what `format_context(format_str)` returns: the closure over `format_str` and `args` -/
structure Fmt where
  fstr : List Char
  args : List String
  deriving Repr, DecidableEq

/-- `format_context(format_str)`, lines 146-202; `none` = the argument is not a string -/
def formatInit (fs : Option String) : Except Exc Fmt :=
  match fs with
  | none => .error .lenaTypeError
  | some s =>
    let cs := s.toList
    if cs.count '{' ≠ cs.count '}' then .error .lenaValueError
    else if cs.contains '{' && !hasDouble '{' cs then .error .lenaValueError
    else
      let ds := dedouble '}' (dedouble '{' cs)
      if rfind '{' ds > rfind '}' ds then .error .lenaValueError
      else
        match scan .text ds with
        | .ok (o, a) => .ok ⟨o, a⟩
        | .error e => .error e

/-- Python `str(v)` where the model transcribes it (`pyStrVal`); an object whose `str()` raises and a
container with a string whose `repr` is not modelled give `unmodelled` -/
def strOfVal (v : Val) : Except Exc String :=
  match pyStrVal v with
  | some s => .ok s
  | none => .error .unmodelled

/-- `format_str.format(*args)` for the format strings the scanner produces: `{{` and `}}` are
literal braces, `{}` is the next positional argument, a single `}` is a `ValueError`; conversions
and format specifications (`{!r}`, `{:>5}`) are not transcribed -/
def pyFormat : List Char → List String → Except Exc (List Char)
  | [], _ => .ok []
  | [c], _ => if c = '{' ∨ c = '}' then .error .valueError else .ok [c]
  | c :: c' :: r, args =>
    if c = '{' then
      if c' = '{' then
        match pyFormat r args with
        | .ok o => .ok ('{' :: o)
        | .error e => .error e
      else if c' = '}' then
        match args with
        | [] => .error .indexError
        | a :: as =>
          match pyFormat r as with
          | .ok o => .ok (a.toList ++ o)
          | .error e => .error e
      else .error .unmodelled
    else if c = '}' then
      if c' = '}' then
        match pyFormat r args with
        | .ok o => .ok ('}' :: o)
        | .error e => .error e
      else .error .valueError
    else
      match pyFormat (c' :: r) args with
      | .ok o => .ok (c :: o)
      | .error e => .error e

/-- the loop `for arg in args: new_args.append(get_recursively(context, arg))` (lines 204-207) -/
def lookupArgs (ctx : Val) : List String → Except Exc (List Val)
  | [] => .ok []
  | a :: as =>
    match getRec ctx (.str a) none with
    | .error e => .error e
    | .ok v =>
      match lookupArgs ctx as with
      | .ok vs => .ok (v :: vs)
      | .error e => .error e

def strOfVals : List Val → Except Exc (List String)
  | [] => .ok []
  | v :: vs =>
    match strOfVal v with
    | .error e => .error e
    | .ok s =>
      match strOfVals vs with
      | .ok ss => .ok (s :: ss)
      | .error e => .error e

/-- `_format_context(context)` (lines 203-211) -/
def formatCall (f : Fmt) (ctx : Val) : Except Exc String :=
  match lookupArgs ctx f.args with
  | .error e => .error e
  | .ok vs =>
    match strOfVals vs with
    | .error e => .error e
    | .ok ss =>
      match pyFormat f.fstr ss with
      | .ok o => .ok (String.ofList o)
      | .error e => .error e

/-! ## `to_string` (functions.py:498-535): `json.dumps(d, separators=(',', ':'), sort_keys=True)` -/

/-- the lexical units of the JSON text; how `json.dumps` spells a key or a scalar is not modelled
(trusted: it is injective on strings and on the scalars `None`, `bool`, `int`, `str`) -/
inductive Tok where
  | lbrace | rbrace | comma | colon
  | lbrack | rbrack
  | key (s : String)
  | scalar (a : Leaf)
  deriving DecidableEq, Repr

/-- insertion of one rendered item into the items sorted by key (`sorted(dct.items())`) -/
def insertItem (k : String) (t : List Tok) : List (String × List Tok) → List (String × List Tok)
  | [] => [(k, t)]
  | (k', t') :: r => if k ≤ k' then (k, t) :: (k', t') :: r else (k', t') :: insertItem k t r

def sortItems : List (String × List Tok) → List (String × List Tok)
  | [] => []
  | (k, t) :: r => insertItem k t (sortItems r)

/-- `key:value,key:value…` -/
def joinItems : List (String × List Tok) → List Tok
  | [] => []
  | [(k, t)] => .key k :: .colon :: t
  | (k, t) :: e :: r => .key k :: .colon :: t ++ .comma :: joinItems (e :: r)

/-! the encoder: a dictionary is `{` + its items, sorted by key, each `key:value`, separated by
`,` + `}` — at every level; a list is `[` + its elements in order, separated by `,` + `]`. -/
mutual
def toTokens : Val → List Tok
  | .leaf a => [.scalar a]
  | .dict es => .lbrace :: joinItems (sortItems (itemTokens es)) ++ [.rbrace]
  | .list xs => .lbrack :: (elemTokens xs ++ [.rbrack])
def itemTokens : Entries → List (String × List Tok)
  | [] => []
  | (k, v) :: r => (k, toTokens v) :: itemTokens r
def elemTokens : List Val → List Tok
  | [] => []
  | v :: r =>
    match r with
    | [] => toTokens v
    | _ :: _ => toTokens v ++ .comma :: elemTokens r
end

/-! can `json.dumps` encode the value: every scalar is `None`, a `bool`, an `int`, a `float` or a `str` -/
mutual
def serialisable : Val → Bool
  | .leaf (.obj _) => false
  | .leaf _ => true
  | .dict es => serialisableE es
  | .list xs => serialisableL xs
def serialisableE : Entries → Bool
  | [] => true
  | (_, v) :: r => serialisable v && serialisableE r
def serialisableL : List Val → Bool
  | [] => true
  | v :: r => serialisable v && serialisableL r
end

/-- `to_string(d)`: the tokens of the JSON text, or `LenaValueError` for an unserialisable item (lines
525-534: `TypeError` of `json.dumps` is turned into `LenaValueError`) -/
def toStringE (v : Val) : Except Exc (List Tok) :=
  if serialisable v then .ok (toTokens v) else .error .lenaValueError

def hexDigit (n : Nat) : Char :=
  match n with
  | 0 => '0' | 1 => '1' | 2 => '2' | 3 => '3' | 4 => '4' | 5 => '5' | 6 => '6' | 7 => '7'
  | 8 => '8' | 9 => '9' | 10 => 'a' | 11 => 'b' | 12 => 'c' | 13 => 'd' | 14 => 'e' | _ => 'f'

/-- four lower-case hexadecimal digits of a number below 65536 -/
def hex4 (n : Nat) : List Char :=
  [hexDigit (n / 4096 % 16), hexDigit (n / 256 % 16), hexDigit (n / 16 % 16), hexDigit (n % 16)]

/-- how `json.dumps` (`ensure_ascii=True`) writes one character inside a string: `"` and `\` with a backslash,
the short escapes `\n \r \t \b \f`, printable ASCII as it is, everything else as `\uXXXX` (a surrogate pair
beyond the basic plane) -/
def escChar (c : Char) : List Char :=
  if c = '"' then ['\\', '"']
  else if c = '\\' then ['\\', '\\']
  else if c = '\n' then ['\\', 'n']
  else if c = '\r' then ['\\', 'r']
  else if c = '\t' then ['\\', 't']
  else if c = '\x08' then ['\\', 'b']
  else if c = '\x0c' then ['\\', 'f']
  else if 32 ≤ c.toNat ∧ c.toNat < 127 then [c]
  else if c.toNat < 65536 then '\\' :: 'u' :: hex4 c.toNat
  else
    '\\' :: 'u' :: (hex4 (55296 + (c.toNat - 65536) / 1024) ++
      '\\' :: 'u' :: hex4 (56320 + (c.toNat - 65536) % 1024))

def escChars : List Char → List Char
  | [] => []
  | c :: r => escChar c ++ escChars r

/-- JSON spelling of a string: the escaped characters between double quotes -/
def jsonStrC (s : List Char) : List Char := '"' :: (escChars s ++ ['"'])

def jsonStr (s : String) : String := String.ofList (jsonStrC s.toList)

/-- spelling of the tokens (used by the driver to compare with the real string; exact for keys and
strings without characters that JSON escapes) -/
def Tok.spell : Tok → String
  | .lbrace => "{" | .rbrace => "}" | .comma => "," | .colon => ":"
  | .lbrack => "[" | .rbrack => "]"
  | .key s => jsonStr s
  | .scalar .none => "null"
  | .scalar (.bool true) => "true"
  | .scalar (.bool false) => "false"
  | .scalar (.int i) => toString i
  | .scalar (.str s) => jsonStr s
  | .scalar (.float r) =>
    if r = "inf" then "Infinity" else if r = "-inf" then "-Infinity" else if r = "nan" then "NaN" else r
  | .scalar (.obj _) => "?"

def toStringV (v : Val) : String := String.join ((toTokens v).map Tok.spell)

/-! ## `update_recursively` (functions.py:601-653) -/

/-! the loop `for key, val in other.items()` (lines 644-653); `updItem cur val` is the new `d[key]`
when `cur = d.get(key)`: a non-dictionary `val` overwrites; a dictionary `val` is merged into an
existing dictionary, replaces (as a merge into `{}`) an existing scalar, and is inserted as it is
under a new key. -/
mutual
def updRec (d : Entries) : Entries → Entries
  | [] => d
  | (k, v) :: r => updRec (setKey d k (updItem (lookup d k) v)) r
def updItem (cur : Option Val) : Val → Val
  | .leaf a => .leaf a
  | .list xs => .list xs
  | .dict o =>
    match cur with
    | some (.dict dk) => .dict (updRec dk o)
    | some _ => .dict (updRec [] o)
    | none => .dict o
end

/-- the `other` argument of `update_recursively`: a dotted string (with the optional `value`) or any
object -/
inductive UpdOther where
  | str (s : String)
  | val (v : Val)

/-- `update_recursively(d, other, value)`: returns the new state of `d` -/
def updateRecursively (d : Val) (other : UpdOther) (value : Option Val) : Except Exc Val :=
  let other' : Except Exc Val :=
    match other with
    | .str s => strToDict s value
    | .val v => if value.isSome then .error .lenaValueError else .ok v
  match other' with
  | .error e => .error e
  | .ok o =>
    match d, o with
    | .dict de, .dict oe => .ok (.dict (updRec de oe))
    | _, _ => .error .lenaTypeError

/-! ## `format_update_with` (functions.py:215-239) -/

/-- lines 230-236: a string value with a brace is formatted with `d`, any other value is taken as it is -/
def formatValue (value : Val) (d : Val) : Except Exc Val :=
  match value with
  | .leaf (.str s) =>
    if s.toList.contains '{' then
      match formatInit (some s) with
      | .error e => .error e
      | .ok fc =>
        match formatCall fc d with
        | .ok r => .ok (.leaf (.str r))
        | .error e => .error e
    else .ok value
  | _ => .ok value

/-- lines 237-239: `update_recursively(d, str_to_dict(key, value_formatted))` -/
def assignFormatted (key : Option String) (vf : Val) (d : Val) : Except Exc Val :=
  match strToDictE key (some vf) with
  | .error e => .error e
  | .ok fctx => updateRecursively d (.val fctx) none

/-- `format_update_with(key, value, d)`: returns the new state of `d` (on an exception `d` is
unchanged: the update is the last statement); `key = none`: not a string -/
def formatUpdateWith (key : Option String) (value : Val) (d : Val) : Except Exc Val :=
  match formatValue value d with
  | .error e => .error e
  | .ok vf => assignFormatted key vf d

/-! ## Flow values (`lena/flow/functions.py:31-56`) -/

/-- a flow value: bare data, or a `(data, context)` pair; the data are opaque -/
inductive Item (δ : Type) where
  | bare (x : δ)
  | pair (x : δ) (ctx : Entries)
  deriving Repr

/-- `get_data_context(value)[1]` -/
def Item.context {δ} : Item δ → Entries
  | .bare _ => []
  | .pair _ c => c

def Item.data {δ} : Item δ → δ
  | .bare x => x
  | .pair x _ => x

/-! ## `UpdateContext` (update_context.py) -/

/-- the `update` argument of `UpdateContext`: a non-string value or a string -/
inductive UpdArg where
  | simple (v : Val)
  | str (s : String)
  deriving Repr

/-- the constructor arguments (`subcontext = none`: not a string) -/
structure UCArgs where
  subcontext : Option String
  update : UpdArg
  value : Bool := false
  default : Option Val := none
  skipOnMissing : Bool := false
  raiseOnMissing : Bool := false
  recursively : Bool := true
  deriving Repr

/-- a piece of a jinja2 template of the modelled fragment -/
inductive Piece where
  | lit (s : String)
  | field (path : List String)
  deriving Repr, DecidableEq

/-- what `self._update` (with `self._context_value`) is after construction -/
inductive Upd where
  | simple (v : Val)                                   -- a non-string value, deep-copied per call
  | ctxValue (key : String)                            -- `{{key}}` with `value=True`
  | plain (s : String)                                 -- a string without `{`, no jinja2
  | template (ps : List Piece) (strict : Bool)         -- `jinja2.Template(update, undefined=…)`
  | foreign                                            -- a template outside the modelled fragment
  deriving Repr

structure UC where
  subctx : List String
  upd : Upd
  default : Option Val
  skipOnMissing : Bool
  raiseOnMissing : Bool
  recursively : Bool
  deriving Repr

/-- `\s` of `re` on `str` patterns and what `str.strip()` removes: the characters with `str.isspace()` —
ASCII blanks, the separators `\x1c`–`\x1f`, `\x85`, `\xa0` and the Unicode spaces -/
def isSpace (c : Char) : Bool :=
  let n := c.toNat
  (9 ≤ n && n ≤ 13) || (28 ≤ n && n ≤ 32) || n == 133 || n == 160 || n == 5760 ||
  (8192 ≤ n && n ≤ 8202) || n == 8232 || n == 8233 || n == 8239 || n == 8287 || n == 12288

/-- `re.match(r'{{\s*[^{}\s][^{}]*}}\Z', update)` (/verif/notes/C08_defect_2): two opening braces, characters
that are not braces with at least one that is not a blank, two closing braces, the end of the string.
`seen`: a non-blank character was read. -/
def matchBody : List Char → Bool → Bool
  | [], _ => false
  | c :: r, seen =>
    if c = '{' then false
    else if c = '}' then seen && r = ['}']
    else matchBody r (seen || !isSpace c)

def dropWhileSpace : List Char → List Char
  | [] => []
  | c :: r => if isSpace c then dropWhileSpace r else c :: r

/-- `s.strip()` -/
def strip (s : List Char) : List Char := (dropWhileSpace (dropWhileSpace s).reverse).reverse

/-- `update[2:-2].strip()` -/
def valueKey (u : String) : String :=
  String.ofList (strip ((u.toList.drop 2).take (u.toList.length - 4)))

def matchValueTemplate (s : List Char) : Bool :=
  match s with
  | '{' :: '{' :: r => matchBody r false
  | _ => false

/-- characters of a jinja2 name -/
def isNameStart (c : Char) : Bool :=
  let n := c.toNat
  (65 ≤ n && n ≤ 90) || n == 95 || (97 ≤ n && n ≤ 122)
def isNameChar (c : Char) : Bool :=
  let n := c.toNat
  (48 ≤ n && n ≤ 57) || (65 ≤ n && n ≤ 90) || n == 95 || (97 ≤ n && n ≤ 122)

def isName (w : List Char) : Bool :=
  match w with
  | [] => false
  | c :: r => isNameStart c && r.all isNameChar

/-- outcome of the lexer/parser of the modelled jinja2 fragment -/
inductive JParse where
  | ok (ps : List Piece)
  | syntaxError
  | foreign
  deriving Repr, DecidableEq

def dropSpaces : List Char → List Char
  | [] => []
  | c :: r => if isSpace c then dropSpaces r else c :: r

def trimSpaces (w : List Char) : List Char := (dropSpaces (dropSpaces w).reverse).reverse

def pushLit (acc : List Char) (ps : List Piece) : List Piece :=
  if acc = [] then ps else .lit (String.ofList acc.reverse) :: ps

/-- the expression between `{{` and `}}`: a dotted name -/
def fieldOf (w : List Char) : JParse :=
  let t := trimSpaces w
  if t = [] then .syntaxError
  else
    let comps := splitDotsC t
    if comps.all isName then .ok [.field (comps.map String.ofList)]
    else if t.all (fun c => isNameChar c || c == '.') then
      -- `a..b`, `.a`, `a.`: "expected name or number"; `a.1` is a subscript: not modelled
      if comps.any (· = []) then .syntaxError else .foreign
    else .foreign

/-- where jinja2's lexer is: in literal text (`lit` read so far, reversed), just after a `{` in
literal text, in a print expression (`w` read so far, reversed), just after a `}` in it -/
inductive JMode where
  | text (lit : List Char)
  | textBrace (lit : List Char)
  | expr (w : List Char)
  | exprBrace (w : List Char)

/-- jinja2's lexer on the modelled fragment: literal text and `{{ dotted.name }}` prints; `{%`, `{#`,
line breaks, quotes or braces inside an expression, and any expression that is not a dotted name are
`foreign`.  The pieces come out in reverse order. -/
def jinjaGo : JMode → List Char → List Piece → JParse
  | .text lit, [], ps => .ok (pushLit lit ps)
  | .textBrace lit, [], ps => .ok (pushLit ('{' :: lit) ps)
  | .expr _, [], _ => .syntaxError                        -- unexpected end of template
  | .exprBrace _, [], _ => .syntaxError
  | .text lit, c :: r, ps =>
    if c = '\n' ∨ c = '\r' then .foreign
    else if c = '{' then jinjaGo (.textBrace lit) r ps
    else jinjaGo (.text (c :: lit)) r ps
  | .textBrace lit, c :: r, ps =>
    if c = '{' then jinjaGo (.expr []) r (pushLit lit ps)
    else if c = '%' ∨ c = '#' ∨ c = '\n' ∨ c = '\r' then .foreign
    else jinjaGo (.text (c :: '{' :: lit)) r ps
  | .expr w, c :: r, ps =>
    if c = '}' then jinjaGo (.exprBrace w) r ps
    else if c = '\n' ∨ c = '\r' ∨ c = '{' ∨ c = '\'' ∨ c = '"' then .foreign
    else jinjaGo (.expr (c :: w)) r ps
  | .exprBrace w, c :: r, ps =>
    if c = '}' then
      match fieldOf w.reverse with
      | .ok f => jinjaGo (.text []) r (f ++ ps)
      | .syntaxError => .syntaxError
      | .foreign => .foreign
    else .foreign

def jinjaParse (s : String) : JParse :=
  match jinjaGo (.text []) s.toList [] with
  | .ok ps => .ok ps.reverse
  | r => r

/-- `UpdateContext.__init__` (lines 89-166) -/
def ucInit (a : UCArgs) : Except Exc UC :=
  match a.subcontext with
  | none => .error .lenaTypeError
  | some sc =>
    if sc = "" then .error .lenaValueError
    else
      let subctx := strToList sc
      let nActive := a.default.isSome.toNat + a.raiseOnMissing.toNat + a.skipOnMissing.toNat
      if nActive > 1 then .error .lenaValueError
      else
        let mk (u : Upd) (raise : Bool) : UC :=
          ⟨subctx, u, a.default, a.skipOnMissing, raise, a.recursively⟩
        match a.update with
        | .simple v =>
          if nActive ≠ 0 then .error .lenaValueError else .ok (mk (.simple v) a.raiseOnMissing)
        | .str u =>
          if a.value && matchValueTemplate u.toList then
            .ok (mk (.ctxValue (valueKey u))
              (if !a.default.isSome && !a.skipOnMissing then true else a.raiseOnMissing))
          else if a.value then .error .lenaValueError
          else if a.default.isSome then .error .lenaValueError
          else if a.raiseOnMissing || a.skipOnMissing then
            match jinjaParse u with
            | .ok ps => .ok (mk (.template ps true) a.raiseOnMissing)
            | .syntaxError => .error .lenaValueError
            | .foreign => .ok (mk .foreign a.raiseOnMissing)
          else if u.toList.contains '{' then
            match jinjaParse u with
            | .ok ps => .ok (mk (.template ps false) a.raiseOnMissing)
            | .syntaxError => .error .lenaValueError
            | .foreign => .ok (mk .foreign a.raiseOnMissing)
          else .ok (mk (.plain u) a.raiseOnMissing)

/-- rendering of the modelled fragment: `none` = an undefined variable was printed under
`StrictUndefined` (`jinja2.exceptions.UndefinedError`); with `ChainableUndefined` an undefined
variable prints as the empty string.  A variable is undefined when a name of its path is missing or
is looked up in a scalar. -/
def renderPieces (strict : Bool) (ctx : Entries) : List Piece → Except Exc (Option String)
  | [] => .ok (some "")
  | .lit s :: r =>
    match renderPieces strict ctx r with
    | .ok (some t) => .ok (some (s ++ t))
    | x => x
  | .field p :: r =>
    match getPath (.dict ctx) p with
    | none =>
      if strict then .ok none
      else renderPieces strict ctx r
    | some v =>
      match strOfVal v with
      | .error e => .error e
      | .ok s =>
        match renderPieces strict ctx r with
        | .ok (some t) => .ok (some (s ++ t))
        | x => x

/-- the loop over `keys[:-1]` and the final assignment (lines 224-233); `keys` is never empty -/
def ucSet (recursively : Bool) : Entries → List String → Val → Entries
  | d, [], _ => d
  | d, [k], u => if recursively then updRec d [(k, u)] else setKey d k u
  | d, k :: k' :: r, u =>
    let sub : Entries :=
      match lookup d k with
      | some (.dict e) => e
      | _ => []                                   -- `subdict[key] = {}`
    setKey d k (.dict (ucSet recursively sub (k' :: r) u))

/-- outcome of computing the update value in `__call__`: the value, or "return the value as it is" -/
inductive Computed where
  | update (v : Val)
  | skip

/-- lines 184-220 -/
def ucCompute (uc : UC) (ctx : Entries) : Except Exc Computed :=
  match uc.upd with
  | .simple v => .ok (.update v)
  | .ctxValue key =>
    match uc.default with
    | none =>
      match getRec (.dict ctx) (.str key) none with
      | .ok v => .ok (.update v)
      | .error .lenaKeyError => if uc.skipOnMissing then .ok .skip else .error .lenaKeyError
      | .error e => .error e
    | some dv =>
      match getRec (.dict ctx) (.str key) (some dv) with
      | .ok v => .ok (.update v)
      | .error e => .error e
  | .plain s => .ok (.update (.leaf (.str s)))
  | .template ps strict =>
    match renderPieces strict ctx ps with
    | .error e => .error e
    | .ok (some s) => .ok (.update (.leaf (.str s)))
    | .ok none => if uc.raiseOnMissing then .error .lenaKeyError else .ok .skip
  | .foreign => .error .unmodelled

/-- `UpdateContext.__call__(value)` -/
def ucCall {δ} (uc : UC) (value : Item δ) : Except Exc (Item δ) :=
  match ucCompute uc value.context with
  | .error e => .error e
  | .ok .skip => .ok value
  | .ok (.update u) => .ok (.pair value.data (ucSet uc.recursively value.context uc.subctx u))

/-! ## `DeleteContext` (elements.py) -/

/-- the `key` argument: a dotted string, a list/tuple (its members need not be strings), or an object of
another type -/
inductive DelKey where
  | str (s : String)
  | list (ks : List Val)
  | other
  deriving Repr

def strOfStrVal : Val → Option String
  | .leaf (.str s) => some s
  | _ => none

/-- `DeleteContext.__init__`: `self._keyl`; anything but a list, a tuple or a string is rejected by
`str_to_list` (`LenaTypeError`, /verif/notes/C08_defect_1); a list/tuple with a member that is not a string
is rejected with `LenaTypeError` (/verif/notes/C08_defect_3) -/
def dcInit : DelKey → Except Exc (List String)
  | .str s => strToListE (some s)
  | .list ks => if ks.all isStrVal then .ok (ks.filterMap strOfStrVal) else .error .lenaTypeError
  | .other => strToListE none

/-- deletion below the dictionary reached through `keyl[:-1]` (lines 44-57): every key of the prefix
must lead to a dictionary (`get_recursively` raises `LenaKeyError` otherwise, or the result is not a
dictionary), then `del subcont[key]`, ignoring a missing key.  `keyl` is not empty. -/
def delPath : Entries → List String → Entries
  | d, [] => d
  | d, [k] => eraseKey d k
  | d, k :: k' :: r =>
    match lookup d k with
    | some (.dict e) => setKey d k (.dict (delPath e (k' :: r)))
    | _ => d

/-- `DeleteContext.__call__(value)`: the same value, its context changed in place -/
def dcCall {δ} (keyl : List String) : Item δ → Item δ
  | .bare x => .bare x                                   -- the new `{}` is dropped
  | .pair x c => if keyl = [] then .pair x [] else .pair x (delPath c keyl)

/-! ## `SetContext` (lena/meta/elements.py:18-64) -/

/-- `_static_context` (if set) and whether a `LenaKeyError` is stored in `_exc` -/
structure SetCtx where
  key : Option String
  value : Val
  static : Option Val
  deriving Repr

/-- `_set_context(context)`: the new element state and the exception raised, if any; the update is
made on a deep copy, so the caller's `context` is never changed -/
def SetCtx.setContext (s : SetCtx) (context : Val) : SetCtx × Option Exc :=
  match formatUpdateWith s.key s.value context with
  | .ok c => ({ s with static := some c }, none)
  | .error e => (s, some e)

/-- `SetContext.__init__(key, value)`: `_set_context({})`, a `LenaKeyError` is swallowed -/
def setCtxInit (key : Option String) (value : Val) : Except Exc SetCtx :=
  match (SetCtx.mk key value none).setContext (.dict []) with
  | (s, none) => .ok s
  | (s, some .lenaKeyError) => .ok s
  | (_, some e) => .error e

/-- `_get_context()`: the static context, or the stored `LenaKeyError` when it was never set -/
def SetCtx.getContext (s : SetCtx) : Except Exc Val :=
  match s.static with
  | some c => .ok c
  | none => .error .lenaKeyError

/-! ## `Context` (lena/context/context.py) -/

/-- `Context.__call__(value)` for a `(data, context)` pair: the same data, the context as a `Context`
(a `dict` subclass with the same items).  For a value without context the code unpacks `value` and what
happens depends on the data (usually a builtin `TypeError`): not modelled. -/
def contextCall {δ} : Item δ → Except Exc (Item δ)
  | .pair x c => .ok (.pair x c)
  | .bare _ => .error .unmodelled

/-- `Context.__getattr__(name)`: a private name is an `AttributeError`, a missing key a
`LenaAttributeError`, otherwise the item -/
def contextGetAttr (c : Entries) (name : String) : Except Exc Val :=
  if name.toList.head? = some '_' then .error .attributeError
  else
    match lookup c name with
    | some v => .ok v
    | none => .error .lenaAttributeError

def pad (n : Nat) : String := String.ofList (List.replicate n ' ')

/-- insertion of one rendered line group into the groups sorted by key -/
def insertLine (k : String) (t : String) : List (String × String) → List (String × String)
  | [] => [(k, t)]
  | (k', t') :: r => if k ≤ k' then (k, t) :: (k', t') :: r else (k', t') :: insertLine k t r

def sortLines : List (String × String) → List (String × String)
  | [] => []
  | (k, t) :: r => insertLine k t (sortLines r)

/-! `Context.__repr__` with the default formatter: `json.dumps(self, sort_keys=True, indent=4)` (exact for
keys and strings that JSON does not escape); `ind` is the indentation of the enclosing line -/
mutual
def pretty (ind : Nat) : Val → String
  | .leaf a => (Tok.scalar a).spell
  | .dict es =>
    if es.isEmpty then "{}"
    else "{\n" ++ ",\n".intercalate ((sortLines (prettyItems (ind + 4) es)).map (·.2)) ++ "\n" ++ pad ind ++ "}"
  | .list xs =>
    if xs.isEmpty then "[]"
    else "[\n" ++ ",\n".intercalate (prettyElems (ind + 4) xs) ++ "\n" ++ pad ind ++ "]"
def prettyItems (ind : Nat) : Entries → List (String × String)
  | [] => []
  | (k, v) :: r => (k, pad ind ++ jsonStr k ++ ": " ++ pretty ind v) :: prettyItems ind r
def prettyElems (ind : Nat) : List Val → List String
  | [] => []
  | v :: r => (pad ind ++ pretty ind v) :: prettyElems ind r
end

/-- `repr(Context(d))` -/
def contextRepr (c : Entries) : Except Exc String :=
  if serialisableE c then .ok (pretty 0 (.dict c)) else .error .unmodelled

/-! ## `to_string` of dictionaries whose keys are not strings

`json.dumps(d, sort_keys=True)` first sorts the items of every dictionary (`sorted(dct.items())`: a `TypeError`
when two keys cannot be compared — a string with a number, `None` with anything), then writes every key as a
string: a `str` as it is, an `int` in decimal, `True`/`False`/`None` as `true`/`false`/`null`, a float by its
`repr`; a key of any other type is a `TypeError`.  `to_string` turns both into `LenaValueError`.  So `{1: x}`
and `{"1": x}` give the same string (recorded in DESIGN.md as outside the string-keyed domain of C08). -/

/-- a Python value whose dictionaries may have any scalar as a key -/
inductive JVal where
  | leaf (a : Leaf)
  | list (xs : List JVal)
  | dict (es : List (Leaf × JVal))
  deriving Repr

def keyIsStr : Leaf → Bool
  | .str _ => true
  | _ => false

def keyIsNum : Leaf → Bool
  | .int _ => true
  | .bool _ => true
  | _ => false

def keyIsFloat : Leaf → Bool
  | .float _ => true
  | _ => false

/-- the number a numeric key is compared as (`True` is 1, `False` is 0) -/
def keyNum : Leaf → Int
  | .int i => i
  | .bool true => 1
  | _ => 0

/-- can `sorted` compare the keys: at most one key, or all strings, or all numbers; `none`: float keys
(compared numerically: not modelled) -/
def keysSortable (ks : List Leaf) : Option Bool :=
  if ks.any keyIsFloat then none
  else some (decide (ks.length ≤ 1) || ks.all keyIsStr || ks.all keyIsNum)

def keyLe : Leaf → Leaf → Bool
  | .str x, .str y => x ≤ y
  | a, b => keyNum a ≤ keyNum b

/-- the string written for a key; `none`: "keys must be str, int, float, bool or None" -/
def keyText : Leaf → Option String
  | .str s => some s
  | .int i => some (toString i)
  | .bool true => some "true"
  | .bool false => some "false"
  | .none => some "null"
  | .float r => some (Tok.scalar (.float r)).spell
  | .obj _ => none

def insertJ (k : Leaf) (t : List Tok) : List (Leaf × List Tok) → List (Leaf × List Tok)
  | [] => [(k, t)]
  | (k', t') :: r => if keyLe k k' then (k, t) :: (k', t') :: r else (k', t') :: insertJ k t r

def sortJ : List (Leaf × List Tok) → List (Leaf × List Tok)
  | [] => []
  | (k, t) :: r => insertJ k t (sortJ r)

/-- the keys as strings, or `none` when one cannot be written -/
def textItems : List (Leaf × List Tok) → Option (List (String × List Tok))
  | [] => some []
  | (k, t) :: r =>
    match keyText k, textItems r with
    | some s, some l => some ((s, t) :: l)
    | _, _ => none

mutual
def jTokens : JVal → Except Exc (List Tok)
  | .leaf (.obj _) => .error .lenaValueError
  | .leaf a => .ok [.scalar a]
  | .list xs =>
    match jElems xs with
    | .ok t => .ok (.lbrack :: (t ++ [.rbrack]))
    | .error e => .error e
  | .dict es =>
    match keysSortable (es.map (·.1)) with
    | none => .error .unmodelled
    | some false => .error .lenaValueError
    | some true =>
      match jItems es with
      | .error e => .error e
      | .ok items =>
        match textItems (sortJ items) with
        | none => .error .lenaValueError
        | some l => .ok (.lbrace :: joinItems l ++ [.rbrace])
def jItems : List (Leaf × JVal) → Except Exc (List (Leaf × List Tok))
  | [] => .ok []
  | (k, v) :: r =>
    match jTokens v, jItems r with
    | .ok t, .ok l => .ok ((k, t) :: l)
    | .error e, _ => .error e
    | _, .error e => .error e
def jElems : List JVal → Except Exc (List Tok)
  | [] => .ok []
  | v :: r =>
    match r with
    | [] => jTokens v
    | _ :: _ =>
      match jTokens v, jElems r with
      | .ok t, .ok l => .ok (t ++ .comma :: l)
      | .error e, _ => .error e
      | _, .error e => .error e
end

/-! a string-keyed value as a `JVal` -/
mutual
def Val.toJ : Val → JVal
  | .leaf a => .leaf a
  | .dict es => .dict (entriesToJ es)
  | .list xs => .list (listToJ xs)
def entriesToJ : Entries → List (Leaf × JVal)
  | [] => []
  | (k, v) :: r => (.str k, v.toJ) :: entriesToJ r
def listToJ : List Val → List JVal
  | [] => []
  | v :: r => v.toJ :: listToJ r
end

end Lena.C08
