import LenaModel.Model.C01Stream
/-! # C01 model — `Sequence`, `Source`, `LenaSequence`, `adapters.Run`, `meta.flatten`

Transcribes
* `lena/core/lena_sequence.py`  `LenaSequence.__init__` (the `_data_seq` filter on `_has_no_data`),
* `lena/core/sequence.py`       `Sequence.__init__` (lines 36-53), `Sequence.run` (57-77),
* `lena/core/adapters.py`       `Run.__init__` without `run=` keyword, `Run._call_run`, `Run._fc_run`,
* `lena/core/check_sequence_type.py` `is_fill_compute_el`,
* `lena/core/source.py`         `Source.__init__`, `Source.__call__` (`_Tail` is `Sequence` with a no-op `_set_context`),
* `lena/core/meta.py`           `flatten`.

Flows are the streams of `LenaModel/Model/C01Stream.lean` (values yielded + how the iteration
ended); a `run` is a `Stage` (the call may raise, or return an iterator that may raise later).

An element is a record of what Python can observe of the object when a sequence is built
(attributes present / callable) together with the denotation of each of its methods.  Using a
method the object does not have is *not* totalised away: `invoke…` returns the `AttributeError`
/ `TypeError` Python would raise, so "an unconvertible argument is rejected at construction,
never later" is a statement about this model that could be false.

The second half (`Spec`) is the table of capability flags and denotations of the real element
vocabulary used by the correspondence check.  Assumption of that table (kept by the generator
of the check): an element object whose `run` keeps state between calls (`Count`, the
accumulators behind `adapters.Run`) is run once; the elements that are run repeatedly — those
inside `RunIf` and inside `Split` branches — are the stateless ones. -/

namespace Lena.C01
open Lena.Flow

/-- state of an attribute as seen by `hasattr` / `callable(getattr(...))` -/
inductive Attr where
  | absent
  /-- present but not callable (e.g. `run = 5`) -/
  | value
  | method
  deriving Repr, DecidableEq

def Attr.present : Attr → Bool
  | .absent => false
  | _ => true

def Attr.callable : Attr → Bool
  | .method => true
  | _ => false

/-- What a sequence constructor and `run` can observe of an argument.

Accumulator state is represented by the history of filled values (the free state machine):
`fillDen h v` is the effect of `fill(v)` after the values `h` were filled (it can only raise),
`computeDen h` is what `compute()` returns after `h` (the call may raise, or return an iterator). -/
structure Element (α : Type) where
  /-- attribute `run` -/
  run : Attr := .absent
  /-- `callable(el)` -/
  call : Bool := false
  /-- attribute `fill` -/
  fill : Attr := .absent
  /-- attribute `compute` -/
  compute : Attr := .absent
  /-- `hasattr(el, "_has_no_data")` -/
  hasNoData : Bool := false
  /-- `hasattr(el, "__iter__")` (only `Source` looks at it) -/
  hasIter : Bool := false
  /-- the object is a one-pass iterator (a generator object, `iter(list)`, `map(...)`): values taken from
  it are gone -/
  onePass : Bool := false
  /-- attribute `request` (no code of `Sequence`/`Run` reads it; `Split` classifies tuples by it) -/
  request : Attr := .absent
  /-- `hasattr(el, "fill_into")` and callable (`FillSeq` uses the element as it is) -/
  fillInto : Attr := .absent
  /-- `hasattr(el, "_can_break_flow")` (`FillInto` may run it value by value) -/
  canBreakFlow : Bool := false
  /-- `isinstance(el, lena.core.Split)` (`FillInto` does not treat a `Split` as a callable) -/
  isSplit : Bool := false
  /-- `el.run(flow)` -/
  runDen : Stage α := fun s => .ok s
  /-- `el.run(flow)` on an object whose `run` was called (and drained) before on the flows `past`;
  for an element without state this is `runDen` -/
  rerunDen : List (Strm α) → Stage α := fun _ => runDen
  /-- `el.fill_into(element, value)`: the values filled into `element` -/
  fillIntoDen : α → Except Exc (List α) := fun x => .ok [x]
  /-- the object itself as a value of a flow (when a `Sequence` is iterated as the first element of
  a `Source`) -/
  asValue : Option α := none
  /-- `el(value)` -/
  callDen : α → Except Exc α := fun x => .ok x
  /-- `el.fill(value)` after the history `h` -/
  fillDen : List α → α → Except Exc Unit := fun _ _ => .ok ()
  /-- `el.compute()` after the history `h` -/
  computeDen : List α → Except Exc (Strm α) := fun _ => .ok .nil
  /-- `el()` (callable first element of a `Source`): the call may raise, or return an iterator -/
  genDen : Except Exc (Strm α) := .ok .nil
  /-- the flow obtained by iterating `el` (iterable first element of a `Source`) -/
  iterDen : Strm α := .nil

variable {α : Type}

/-! ## Python-level method invocation (may hit a missing attribute) -/

/-- `el.run(flow)` -/
def Element.invokeRun (e : Element α) (s : Strm α) : Except Exc (Strm α) :=
  match e.run with
  | .method => e.runDen s
  | .value => .error .typeError
  | .absent => .error .attributeError

/-- `el.run(flow)` after the earlier runs on `past` -/
def Element.invokeRerun (e : Element α) (past : List (Strm α)) (s : Strm α) : Except Exc (Strm α) :=
  match e.run with
  | .method => e.rerunDen past s
  | .value => .error .typeError
  | .absent => .error .attributeError

/-- `el(value)` -/
def Element.invokeCall (e : Element α) (x : α) : Except Exc α :=
  if e.call then e.callDen x else .error .typeError

/-- `el.fill(value)` -/
def Element.invokeFill (e : Element α) (h : List α) (x : α) : Except Exc Unit :=
  match e.fill with
  | .method => e.fillDen h x
  | .value => .error .typeError
  | .absent => .error .attributeError

/-- `el.compute()` -/
def Element.invokeCompute (e : Element α) (h : List α) : Except Exc (Strm α) :=
  match e.compute with
  | .method => e.computeDen h
  | .value => .error .typeError
  | .absent => .error .attributeError

/-! ## `adapters.Run` -/

/-- which method `Run.__init__` bound to `self.run` -/
inductive RunMode where
  /-- `self.run = run_` (the element's own callable `run`) -/
  | runMethod
  /-- `self.run = self._call_run` -/
  | callRun
  /-- `self.run = self._fc_run` -/
  | fcRun
  deriving Repr, DecidableEq

/-- an entry of `Sequence._data_seq` after `__init__` -/
inductive Stored (α : Type) where
  /-- the argument itself (`seq.append(el)`) -/
  | asIs (e : Element α)
  /-- `adapters.Run(el)` -/
  | adapted (m : RunMode) (e : Element α)

/-- `check_sequence_type.is_fill_compute_el` -/
def isFillComputeEl (e : Element α) : Bool :=
  e.fill.present && e.compute.present && e.fill.callable && e.compute.callable

/-- `Run.__init__(el)` (no `run` keyword): `run` attribute, then callable, then fill/compute -/
def mkRun (e : Element α) : Except Exc (Stored α) :=
  if e.run.callable then .ok (.adapted .runMethod e)        -- `callable(getattr(el, "run", None))`
  else if e.call then .ok (.adapted .callRun e)              -- `callable(el)`
  else if isFillComputeEl e then .ok (.adapted .fcRun e)     -- `ct.is_fill_compute_el(el)`
  else .error .lenaTypeError

/-- `Run._fc_run`, a plain function: `for arg in flow: self._el.fill(arg)` — so an exception of a
`fill`, or of the input flow when its values are used up, is raised by the call itself —, then
`return self._el.compute()` -/
def fcLoop (e : Element α) (t : Option Exc) : List α → List α → Except Exc (Strm α)
  | h, [] =>
    match t with
    | some err => .error err
    | none => e.invokeCompute h
  | h, x :: xs =>
    match e.invokeFill h x with
    | .error err => .error err
    | .ok () => fcLoop e t (h ++ [x]) xs

/-- `stored.run(flow)` -/
def Stored.run : Stored α → Stage α
  | .asIs e => e.invokeRun
  | .adapted .runMethod e => e.invokeRun
  | .adapted .callRun e => fun s => .ok (mapS e.invokeCall s)   -- `for val in flow: yield self._el(val)`
  | .adapted .fcRun e => fun s => fcLoop e s.term [] s.vals

/-! ## `LenaSequence.__init__`, `Sequence.__init__`, `Sequence.run` -/

/-- `_data_seq`: arguments without the attribute `_has_no_data` -/
def dataSeq (args : List (Element α)) : List (Element α) :=
  args.filter (fun e => !e.hasNoData)

/-- body of the `for el in self._data_seq` loop of `Sequence.__init__` -/
def convert (e : Element α) : Except Exc (Stored α) :=
  if e.run.present && e.run.callable then .ok (.asIs e)   -- `hasattr(el, "run") and callable(el.run)`
  else
    match mkRun e with
    | .ok r => .ok r
    | .error _ => .error .lenaTypeError                    -- `except LenaTypeError: raise LenaTypeError`

def convertAll : List (Element α) → Except Exc (List (Stored α))
  | [] => .ok []
  | e :: es =>
    match convert e with
    | .error err => .error err
    | .ok s =>
      match convertAll es with
      | .error err => .error err
      | .ok ss => .ok (s :: ss)

/-- a constructed `Sequence`: `_seq` (only its length is observed) and the converted `_data_seq` -/
structure Seq (α : Type) where
  nargs : Nat
  stored : List (Stored α)
  /-- `_seq` as values (what iterating the sequence yields) -/
  argVals : List α := []

/-- `Sequence(*args)` -/
def mkSequence (args : List (Element α)) : Except Exc (Seq α) :=
  match convertAll (dataSeq args) with
  | .error err => .error err
  | .ok ss => .ok { nargs := args.length, stored := ss, argVals := args.filterMap (·.asValue) }

/-- the loop `for el in self._data_seq: flow = el.run(flow)` -/
def runStored : List (Stored α) → Stage α
  | [], s => .ok s
  | st :: ss, s =>
    match st.run s with
    | .error err => .error err
    | .ok s' => runStored ss s'

/-- `Sequence.run(flow)` (`flow_to_iter` does not change what a flow yields) -/
def Seq.run (s : Seq α) : Stage α := runStored s.stored

/-! ### a sequence object that is run again (inside `RunIf`, inside a `Split` branch) -/

/-- the values of earlier inputs -/
def pastVals (past : List (Strm α)) : List α := past.flatMap (·.vals)

/-- `stored.run(flow)` after the earlier (completed) runs on `past`: the element's own `run` sees its
state; `_call_run` has none; `_fc_run` fills an element that still holds all past values -/
def Stored.rerun (past : List (Strm α)) : Stored α → Stage α
  | .asIs e => e.invokeRerun past
  | .adapted .runMethod e => e.invokeRerun past
  | .adapted .callRun e => fun s => .ok (mapS e.invokeCall s)
  | .adapted .fcRun e => fun s => fcLoop e s.term (pastVals past) s.vals

/-- what `stored.run` yielded in the earlier runs (the earlier inputs of the next element) -/
def pastOuts (st : Stored α) : List (Strm α) → List (Strm α) → List (Strm α)
  | _, [] => []
  | done, s :: rest => observe (st.rerun done s) :: pastOuts st (done ++ [s]) rest

/-- the loop of `Sequence.run` on a sequence object that was run before on `past` -/
def rerunStored : List (Stored α) → List (Strm α) → Stage α
  | [], _, s => .ok s
  | st :: ss, past, s =>
    match st.rerun past s with
    | .error err => .error err
    | .ok s' => rerunStored ss (pastOuts st [] past) s'

def Seq.rerun (s : Seq α) (past : List (Strm α)) : Stage α := rerunStored s.stored past

/-- the earlier inputs of the element that follows the stored entries `ss`, when `past` are the earlier inputs of
the first of them -/
def pastOutsAll : List (Stored α) → List (Strm α) → List (Strm α)
  | [], past => past
  | st :: ss, past => pastOutsAll ss (pastOuts st [] past)


/-- the element a stored entry wraps -/
def Stored.element : Stored α → Element α
  | .asIs e => e
  | .adapted _ e => e


/-- `Stored.Sound` as a Boolean (executed by the driver): what `run` will call on the entry exists and is callable -/
def Stored.soundB : Stored α → Bool
  | .asIs e => e.run.callable
  | .adapted .runMethod e => e.run.callable
  | .adapted .callRun e => e.call
  | .adapted .fcRun e => e.fill.callable && e.compute.callable

/-- which conversion `Sequence.__init__` chose -/
def Stored.modeName : Stored α → String
  | .asIs _ => "run"
  | .adapted .runMethod _ => "run"
  | .adapted .callRun _ => "call"
  | .adapted .fcRun _ => "fc"

/-- the value-by-value composition of a list of callables: `x ↦ en(...e2(e1(x)))`, stopping at the
first one that raises -/
def callAll (es : List (Element α)) (x : α) : Except Exc α := es.foldlM (fun v e => e.callDen v) x

/-- a constructed `Sequence` used as an argument of another sequence: it has a callable `run`, and
it is iterable (`LenaSequence.__iter__` yields its arguments) -/
def Seq.toElement (s : Seq α) : Element α :=
  { run := .method, runDen := s.run, rerunDen := s.rerun, hasIter := true, iterDen := .ofList s.argVals }

/-! ## `FillComputeSeq` as a `Split` branch (`_get_seq_with_type`, `FillSeq.__init__`, `adapters.FillInto`) -/

/-- how `FillSeq` lets an element before the fill/compute element pass a value on -/
inductive FillStage (α : Type) where
  /-- the element's own `fill_into` -/
  | viaFillInto (e : Element α)
  /-- `FillInto.fill_into`: `element.fill(self._el(value))` -/
  | viaCall (e : Element α)
  /-- `FillInto._run_fill_into`: `for result in self._el.run([value]): element.fill(result)` -/
  | viaRun (e : Element α)

/-- the loop body of `FillSeq.__init__` with `adapters.FillInto.__init__` (no `fill_into` keyword) -/
def toFillStage (e : Element α) : Except Exc (FillStage α) :=
  if e.fillInto.present && e.fillInto.callable then .ok (.viaFillInto e)
  else if e.call && !e.isSplit then .ok (.viaCall e)
  else if (e.run.present && e.run.callable) && e.canBreakFlow then .ok (.viaRun e)
  else .error .lenaTypeError

def toFillStages : List (Element α) → Except Exc (List (FillStage α))
  | [] => .ok []
  | e :: es =>
    match toFillStage e with
    | .error err => .error err
    | .ok st =>
      match toFillStages es with
      | .error err => .error err
      | .ok sts => .ok (st :: sts)

/-- the values one stage fills into the next element for the value `v` (and the exception after them) -/
def FillStage.feed : FillStage α → α → Strm α
  | .viaFillInto e, v =>
    match e.fillIntoDen v with
    | .error err => .fail err
    | .ok ys => .ofList ys
  | .viaCall e, v =>
    match e.invokeCall v with
    | .error err => .fail err
    | .ok y => .ofList [y]
  | .viaRun e, v => observe (e.invokeRun (.ofList [v]))

/-- the `_Fill` chain: every value a stage passes on goes through the rest of the chain before the
stage produces its next one -/
def feedChain : List (FillStage α) → α → Strm α
  | [], v => .ofList [v]
  | st :: rest, v => bindS (feedChain rest) (st.feed v)

/-- split `_data_seq` at the first fill/compute element -/
def splitAtFc : List (Element α) → Option (List (Element α) × Element α × List (Element α))
  | [] => none
  | e :: es =>
    if isFillComputeEl e then some ([], e, es)
    else
      match splitAtFc es with
      | none => none
      | some (b, fc, a) => some (e :: b, fc, a)

/-- `_get_seq_with_type(seq)` for a tuple `seq` of elements: a tuple that contains a fill/compute
element becomes `FillComputeSeq(*seq)`, any other `Sequence(*seq)` (no element of the vocabulary
has `request`) -/
def mkBranch (es : List (Element α)) : Except Exc (Branch α) :=
  if es.any isFillComputeEl then
    match splitAtFc (dataSeq es) with
    | none => .error .lenaTypeError                     -- "must contain a FillCompute element"
    | some (before, fc, after) =>
      match toFillStages before with                    -- `FillSeq(*before)`
      | .error err => .error err
      | .ok stages =>
        match mkSequence after with                     -- `Sequence(*after)`
        | .error err => .error err
        | .ok aseq =>
          .ok (.fcB (feedChain stages) fc.invokeFill
                (fun h => observe (match fc.invokeCompute h with
                                   | .error err => .error err
                                   | .ok st => aseq.run st)))
  else
    match mkSequence es with
    | .error err => .error err
    | .ok s => .ok (.seqB s.rerun)

/-- the loop over `seqs` of `Split.__init__` -/
def mkBranches : List (List (Element α)) → Except Exc (List (Branch α))
  | [] => .ok []
  | es :: ess =>
    match mkBranch es with
    | .error e => .error e
    | .ok b =>
      match mkBranches ess with
      | .error e => .error e
      | .ok bs => .ok (b :: bs)

/-- a constructed `Split(seqs, bufsize)`: `run`, `__call__` (a generator that raises
`LenaAttributeError` unless every sequence is a `Source`), and `fill`/`compute` when every sequence
has type "fill_compute" -/
def splitElement (brs : List (Branch α)) (bufsize : Option Nat) : Element α :=
  let allFc := !brs.isEmpty && brs.all Branch.isFc
  { run := .method, call := true, isSplit := true
    fill := if allFc then .method else .absent
    compute := if allFc then .method else .absent
    runDen := fun s => .ok (splitRerun brs bufsize [] s)
    rerunDen := fun past s => .ok (splitRerun brs bufsize past s)
    callDen := fun _ => .error .typeError
    fillDen := splitFill brs
    computeDen := fun h => .ok (splitCompute brs h)
    genDen := .ok (.fail .lenaAttributeError) }

/-! ## nested sequences -/

/-- an argument list with arbitrary bracketing into nested `Sequence(...)` calls -/
inductive Tree (α : Type) where
  | leaf (e : Element α)
  | node (ts : List (Tree α))

mutual
/-- evaluate the Python expression: inner `Sequence(...)` calls first, left to right -/
def build : Tree α → Except Exc (Element α)
  | .leaf e => .ok e
  | .node ts =>
    match buildList ts with
    | .error err => .error err
    | .ok es =>
      match mkSequence es with
      | .error err => .error err
      | .ok s => .ok s.toElement
def buildList : List (Tree α) → Except Exc (List (Element α))
  | [] => .ok []
  | t :: ts =>
    match build t with
    | .error err => .error err
    | .ok e =>
      match buildList ts with
      | .error err => .error err
      | .ok es => .ok (e :: es)
end

mutual
/-- `meta.flatten`: the elements of all nested sequences, in order -/
def flatten : Tree α → List (Element α)
  | .leaf e => [e]
  | .node ts => flattenList ts
def flattenList : List (Tree α) → List (Element α)
  | [] => []
  | t :: ts => flatten t ++ flattenList ts
end

/-! ## `Source` -/

structure Src (α : Type) where
  first : Element α
  /-- `self._tail`: `()` or a `Sequence` -/
  tail : Option (Seq α)
  /-- how many values `Source.__init__` took from `first` by iterating it (the code does not iterate it:
  `mkSource` leaves 0; what a one-pass iterator yields later starts after them) -/
  consumed : Nat := 0

/-- `Source(*args)` -/
def mkSource (args : List (Element α)) : Except Exc (Src α) :=
  if args.isEmpty then .error .lenaTypeError                -- `if not args`
  else
    match dataSeq args with
    | [] => .error .indexError                               -- `self._data_seq[0]`
    | first :: rest =>
      if !(first.call || first.hasIter) then .error .lenaTypeError
      else if args.length > 1 then
        match mkSequence rest with                           -- `_Tail(*(self._data_seq[1:]))`, a `Sequence`
        | .error err => .error err
        | .ok s => .ok { first := first, tail := some s }
      else .ok { first := first, tail := none }

/-- `first()` or `first` itself: the flow that enters the tail -/
def Element.sourceFlow (e : Element α) : Except Exc (Strm α) :=
  if e.call then e.genDen else .ok e.iterDen

/-- the flow of the first element when `Source.__call__` takes it: a one-pass iterator yields what
is left after the values taken at construction -/
def Src.flow (s : Src α) : Except Exc (Strm α) :=
  if s.first.call then s.first.genDen
  else if s.first.onePass then .ok ⟨s.first.iterDen.vals.drop s.consumed, s.first.iterDen.term⟩
  else .ok s.first.iterDen

/-- `Source.__call__()` -/
def Src.call (s : Src α) : Except Exc (Strm α) :=
  match s.tail with
  | some t =>
    if t.nargs > 0 then                                      -- `if self._tail:` (`__len__` of `_seq`)
      match s.flow with
      | .error err => .error err
      | .ok xs => t.run xs
    else s.flow
  | none => s.flow

/-! ### a `Source` object that is called again -/

/-- the flow the first element gives when `Source.__call__` takes it for the `(k+1)`-th time: a generator
function is called again, a container is iterated again, a one-pass iterator is exhausted after the first
(drained) use -/
def Src.flowAt (s : Src α) (k : Nat) : Except Exc (Strm α) :=
  if s.first.call then s.first.genDen
  else if s.first.onePass then
    (if k = 0 then .ok ⟨s.first.iterDen.vals.drop s.consumed, s.first.iterDen.term⟩ else .ok .nil)
  else .ok s.first.iterDen

/-- the flows that entered the tail in the first `k` calls -/
def Src.pastFlows (s : Src α) (k : Nat) : List (Strm α) :=
  (List.range k).filterMap (fun i => match s.flowAt i with | .ok fl => some fl | .error _ => none)

/-- the `(k+1)`-th `Source.__call__()` on one object (the earlier calls were drained and did not raise):
the tail is a sequence object that is run again -/
def Src.callAt (s : Src α) (k : Nat) : Except Exc (Strm α) :=
  match s.tail with
  | some t =>
    if t.nargs > 0 then
      match s.flowAt k with
      | .error err => .error err
      | .ok xs => t.rerun (s.pastFlows k) xs
    else s.flowAt k
  | none => s.flowAt k

/-! ## specification side: the documented stream transformation of one element -/

/-- the element can be converted: it has a callable `run`, is callable, or has callable `fill`
and `compute` -/
def Element.convertible (e : Element α) : Bool :=
  e.run.callable || e.call || (e.fill.callable && e.compute.callable)

/-- fill every value, then compute (no attribute lookup) -/
def fcSpec (e : Element α) (t : Option Exc) : List α → List α → Except Exc (Strm α)
  | h, [] =>
    match t with
    | some err => .error err
    | none => e.computeDen h
  | h, x :: xs =>
    match e.fillDen h x with
    | .error err => .error err
    | .ok () => fcSpec e t (h ++ [x]) xs

/-- the element's own stream transformation: its `run`; else the map of the callable over the
flow; else fill-all-then-compute -/
def Element.den (e : Element α) : Stage α :=
  if e.run.callable then e.runDen
  else if e.call then fun s => .ok (mapS e.callDen s)
  else fun s => fcSpec e s.term [] s.vals

/-! ## the real element vocabulary (flags and denotations), used by `drivers/C01.lean` -/

/-- element descriptions sent by the harness -/
inductive Spec where
  /-- a plain function -/
  | call (f : Fn)
  /-- `lena.variables.Variable(name, getter)` -/
  | var (name : String) (g : Fn)
  /-- `lena.flow.Filter(p)` -/
  | filter (p : Pred)
  /-- `lena.flow.Slice(start, stop, step)` (one- and two-argument forms normalised) -/
  | slice (start stop step : Option Int)
  /-- `lena.flow.Count(name)` -/
  | count (name : String)
  /-- `lena.flow.RunIf(p, *inner)` -/
  | runIf (p : Pred) (inner : List Spec)
  | reverse
  | end_
  /-- `Sum()`, `Mean()`, `StoreFilled(...)`, `FillCompute(Count(name))` -/
  | acc (k : AccKind)
  /-- nested `Sequence(*els)` -/
  | seq (els : List Spec)
  /-- `Split([tuple(b) for b in branches], bufsize)`, every branch of type "sequence" -/
  | split (branches : List (List Spec)) (bufsize : Option Nat)
  /-- `lena.core.Run(el)` built by the caller -/
  | runAdapter (inner : Spec)
  /-- `lena.core.Run(el, run="run")` -/
  | runNamed (inner : Spec)
  /-- `lena.core.Run(None, run=g)` with `g` a generator function that maps `f` over the flow -/
  | runNone (f : Fn)
  /-- `lena.core.Run(None, run=5)` (rejected at construction) -/
  | runNoneBad
  /-- instance of a synthetic class with the given attributes -/
  | syn (run : Attr) (call : Bool) (fill compute : Attr) (nodata : Bool)
  /-- a synthetic class that also has (or has non-callable) `request`, `fill_into`, `reset`,
  `alter_sequence` -/
  | synX (run : Attr) (call : Bool) (fill compute : Attr) (nodata : Bool) (request fillInto reset alter : Attr)
  /-- a one-pass iterator object over `flow` of class `cls` (generator object, `iter(list)`, `map`, `islice`)
  that raises `term` after its values (first element of a `Source`) -/
  | iterObj (cls : String) (flow : List Value) (term : Option Exc)
  /-- a plain function that returns `None` for odd integer data and the value itself otherwise (`toNone`), or
  raises the given exception when the data is 13 -/
  | callX (toNone : Bool) (e : Exc)
  /-- `lena.flow.Filter(pred)` whose predicate raises `e` when the data is 13 and is true otherwise -/
  | filterX (e : Exc)
  /-- a fill/compute class whose `fill` raises `e` when the data is 13 -/
  | synRaise (e : Exc)
  /-- an object that is callable without arguments (a generator over `callFlow`) *and* iterable (over `iterFlow`) -/
  | both (callFlow iterFlow : List Value)
  /-- `lena.core.Run(obj, run="alt")` for an object with (or without) `run` and with `alt` absent / not callable /
  a generator method; the two methods put different marks -/
  | runAlt (hasRun : Bool) (alt : Attr)
  /-- the class `lena.flow.Reverse` itself instead of an instance -/
  | classObj
  /-- an object with none of the interfaces (`5`, `"abc"`, `None`) -/
  | junk
  /-- `lena.meta.SetContext(...)`: an element with `_has_no_data` -/
  | setContext
  /-- a zero-argument generator function `lambda: iter(flow)` (first element of a `Source`) -/
  | gen (flow : List Value)
  /-- the list `flow` itself (iterable first element of a `Source`) -/
  | iter (flow : List Value)

/-- marks put by the methods of the synthetic classes: `run` yields `["run", v]` for every `v`,
`__call__` returns `["call", v]`, `compute` yields `["fc", [filled values]]` (all generators) -/
def attrNum : Attr → Nat
  | .absent => 0 | .value => 1 | .method => 2

def synElement (run : Attr) (call : Bool) (fill compute : Attr) (nodata : Bool) : Element Value :=
  { run := run, call := call, fill := fill, compute := compute, hasNoData := nodata
    asValue := some (objValue s!"Syn_r{attrNum run}_c{if call then 1 else 0}_f{attrNum fill}_p{attrNum compute}_n{if nodata then 1 else 0}")
    runDen := fun s => .ok (mapS (fun v => .ok (.list [.str "run", v])) s)
    callDen := fun v => .ok (.list [.str "call", v])
    fillDen := fun _ _ => .ok ()
    computeDen := fun h => .ok (.ofList [.list [.str "fc", .list h]])
    genDen := .error .typeError }

/-- what iterating the generator `compute()` of an accumulator gives: its exceptions are raised
by the first `next` -/
def accComputeS (k : AccKind) (s : QState) : Strm Value :=
  match accComputeQ k s with
  | .error e => .fail e
  | .ok ys => .ofList ys

/-- an `Acc` as an `Element` with `fill` and `compute` -/
def accElement (k : AccKind) : Element Value :=
  let a := accOfQ k
  { fill := .method, compute := .method
    asValue := some (objValue (match k with
      | .sum => "Sum" | .mean => "Mean" | .store _ => "StoreFilled" | .count _ => "FillCompute"))
    fillDen := fun h v =>
      match a.fillAll a.init h with
      | .error e => .error e
      | .ok s => match a.fill s v with
        | .error e => .error e
        | .ok _ => .ok ()
    computeDen := fun h =>
      match a.fillAll a.init h with
      | .error e => .error e
      | .ok s => .ok (accComputeS k s) }

/-- the sequence of `RunIf.__init__`: `args[0]` if it is the only argument and a `Sequence`,
else `lena.core.Sequence(*args)` -/
def runIfSeq (singleSequence : Bool) (es : List (Element Value)) : Except Exc (Element Value) :=
  match singleSequence, es with
  | true, [e] => .ok e
  | _, es => (mkSequence es).map Seq.toElement

/-- earlier runs of `Count.run` added the lengths of their flows to `count` -/
def pastCount (past : List (Strm Value)) : Int := ((pastVals past).length : Nat)

mutual
/-- the Python object denoted by a `Spec` (constructors may raise) -/
def Spec.toElement : Spec → Except Exc (Element Value)
  | .call f => .ok { call := true, callDen := f.call, genDen := .error .typeError, asValue := some (objValue "function") }
  | .var name g => .ok { call := true, callDen := variableCall name g, genDen := .error .typeError
                         asValue := some (objValue "Variable") }
  | .filter p =>
    .ok { run := .method, runDen := fun s => .ok (filterS p.eval s), asValue := some (objValue "Filter")
          fillInto := .method
          fillIntoDen := fun v => match p.eval v with
            | .error e => .error e
            | .ok true => .ok [v]
            | .ok false => .ok [] }
  | .slice a b s =>
    match Lena.C17.mkSlice a b s with
    | .valueError => .error .lenaValueError
    | k => .ok { run := .method, runDen := fun s => .ok (sliceS k s), asValue := some (objValue "Slice")
                 -- `Slice.fill_into` (C17) is not part of this model: never generated before a fill/compute element
                 fillInto := .method, fillIntoDen := fun _ => .error .lenaNotImplementedError }
  | .count name =>
    .ok { (accElement (.count name)) with
          run := .method, runDen := fun s => .ok (countS name 0 s)
          rerunDen := fun past s => .ok (countS name (pastCount past) s)
          asValue := some (objValue "Count")
          -- `Count.fill_into` shares `count` with `run`: not part of this model, never generated there
          fillInto := .method, fillIntoDen := fun _ => .error .lenaNotImplementedError }
  | .runIf p inner =>
    -- `RunIf.__init__`: `lena.core.Sequence(*args)` (a single `Sequence` argument is used as is)
    match Spec.toElements inner with
    | .error e => .error e
    | .ok es =>
      match runIfSeq (match inner with | [.seq _] => true | _ => false) es with
      | .error e => .error e
      | .ok s => .ok { run := .method, canBreakFlow := true, asValue := some (objValue "RunIf")
                       runDen := fun fl => .ok (runIfH p.eval s.invokeRerun [] fl)
                       rerunDen := fun past fl => .ok (runIfH p.eval s.invokeRerun past fl) }
  | .reverse => .ok { run := .method, runDen := fun s => .ok (reverseS s), asValue := some (objValue "Reverse") }
  | .end_ => .ok { run := .method, runDen := fun s => .ok (endS s), asValue := some (objValue "End") }
  | .acc k => .ok (accElement k)
  | .seq els =>
    match Spec.toElements els with
    | .error e => .error e
    | .ok es => (mkSequence es).map Seq.toElement
  | .split branches bufsize =>
    -- the elements of all tuples are built first; then `Split.__init__`: `_get_seq_with_type` for every
    -- tuple, then the `bufsize` test
    match Spec.toElementss branches with
    | .error e => .error e
    | .ok ess =>
    match mkBranches ess with
    | .error e => .error e
    | .ok brs =>
      if bufsize = some 0 then .error .lenaValueError
      else .ok { (splitElement brs bufsize) with asValue := some (objValue "Split") }
  | .runAdapter inner =>
    -- `adapters.Run.__init__`; the adapter object has the bound `run` and nothing else
    match Spec.toElement inner with
    | .error e => .error e
    | .ok el =>
      match mkRun el with
      | .error e => .error e
      | .ok st => .ok { run := .method, runDen := st.run, rerunDen := fun past => st.rerun past
                        asValue := some (objValue "Run") }
  | .runNamed inner =>
    -- `Run(el, run="run")`: `callable(getattr(el, "run", None))`, else `LenaTypeError` (no conversion);
    -- for `el is None` (the junk object) the string "run" itself must be callable: `LenaTypeError` as well
    -- (/repo 0ff1b62), which is what the general test gives for an object without `run`
    match Spec.toElement inner with
    | .error e => .error e
    | .ok el =>
      if el.run.callable then
        .ok { run := .method, runDen := el.runDen, rerunDen := el.rerunDen, asValue := some (objValue "Run") }
      else .error .lenaTypeError
  | .runNone f =>
    .ok { run := .method, runDen := fun s => .ok (mapS f.call s), asValue := some (objValue "Run") }
  | .runNoneBad => .error .lenaTypeError      -- `Run(None, run=5)`: "run must be callable if el is None" (/repo 0ff1b62)
  | .syn r c f cp nd => .ok (synElement r c f cp nd)
  | .synX r c f cp nd rq fi rs al =>
    -- `fill_into(element, value)` of the synthetic classes fills `["fi", value]`; `reset`/`alter_sequence`
    -- are read by no modelled code (only the class name shows them)
    .ok { (synElement r c f cp nd) with
          request := rq, fillInto := fi
          fillIntoDen := fun v => .ok [.list [.str "fi", v]]
          asValue := some (objValue (s!"Syn_r{attrNum r}_c{if c then 1 else 0}_f{attrNum f}_p{attrNum cp}_n{if nd then 1 else 0}"
                                      ++ s!"_q{attrNum rq}_i{attrNum fi}_s{attrNum rs}_a{attrNum al}")) }
  | .iterObj cls flow term =>
    .ok { hasIter := true, onePass := true, iterDen := ⟨flow, term⟩, asValue := some (objValue cls) }
  | .callX toNone e =>
    .ok { call := true, genDen := .error .typeError, asValue := some (objValue "function")
          callDen := fun v =>
            match getData v with
            | .int i =>
              if toNone then (if i % 2 = 1 then .ok (objValue "NoneType") else .ok v)
              else (if i = 13 then .error e else .ok v)
            | _ => .ok v }
  | .filterX e =>
    let pred : Value → Except Exc Bool := fun v =>
      match getData v with
      | .int i => if i = 13 then .error e else .ok true
      | _ => .ok true
    .ok { run := .method, runDen := fun s => .ok (filterS pred s), asValue := some (objValue "Filter")
          fillInto := .method
          fillIntoDen := fun v => match pred v with
            | .error err => .error err
            | .ok true => .ok [v]
            | .ok false => .ok [] }
  | .synRaise e =>
    .ok { fill := .method, compute := .method, asValue := some (objValue "SynRaise")
          fillDen := fun _ v =>
            match getData v with
            | .int i => if i = 13 then .error e else .ok ()
            | _ => .ok ()
          computeDen := fun h => .ok (.ofList [.list [.str "fcr", .list h]]) }
  | .both callFlow iterFlow =>
    .ok { call := true, hasIter := true, callDen := fun _ => .error .typeError
          genDen := .ok (.ofList callFlow), iterDen := .ofList iterFlow, asValue := some (objValue "Both") }
  | .runAlt _ alt =>
    -- `Run(el, run="alt")`: `callable(getattr(el, "alt", None))` → `self.run = el.alt` (never `el.run`)
    if alt.callable then
      .ok { run := .method, runDen := fun s => .ok (mapS (fun v => .ok (.list [.str "alt", v])) s)
            asValue := some (objValue "Run") }
    else .error .lenaTypeError
  | .classObj =>
    -- `hasattr(cls, "run") and callable(cls.run)`: used as it is; `cls.run(flow)` lacks an argument
    .ok { run := .method, call := true, runDen := fun _ => .error .typeError
          callDen := fun _ => .error .typeError, genDen := .error .typeError, asValue := some (objValue "type") }
  | .junk => .ok { asValue := some (objValue "NoneType") }
  | .setContext => .ok { hasNoData := true, asValue := some (objValue "SetContext") }
  | .gen flow => .ok { call := true, callDen := fun _ => .error .typeError, genDen := .ok (.ofList flow)
                       asValue := some (objValue "function") }
  | .iter flow => .ok { hasIter := true, iterDen := .ofList flow, asValue := some (.list flow) }
def Spec.toElements : List Spec → Except Exc (List (Element Value))
  | [] => .ok []
  | s :: ss =>
    match Spec.toElement s with
    | .error e => .error e
    | .ok el =>
      match Spec.toElements ss with
      | .error e => .error e
      | .ok els => .ok (el :: els)
def Spec.toElementss : List (List Spec) → Except Exc (List (List (Element Value)))
  | [] => .ok []
  | b :: bs =>
    match Spec.toElements b with
    | .error e => .error e
    | .ok es =>
      match Spec.toElementss bs with
      | .error e => .error e
      | .ok ess => .ok (es :: ess)
end

mutual
/-- the bracketing tree of a program: `seq` nodes are `Tree.node`, everything else is a leaf -/
def Spec.toTree : Spec → Except Exc (Tree Value)
  | .seq els =>
    match Spec.toTrees els with
    | .error e => .error e
    | .ok ts => .ok (.node ts)
  | s =>
    match Spec.toElement s with
    | .error e => .error e
    | .ok el => .ok (.leaf el)
def Spec.toTrees : List Spec → Except Exc (List (Tree Value))
  | [] => .ok []
  | s :: ss =>
    match Spec.toTree s with
    | .error e => .error e
    | .ok t =>
      match Spec.toTrees ss with
      | .error e => .error e
      | .ok ts => .ok (t :: ts)
end

mutual
/-- the top-level elements of a program with its nested `Sequence(...)` groups dissolved -/
def Spec.flat : Spec → List Spec
  | .seq els => Spec.flats els
  | .call f => [.call f]
  | .var n g => [.var n g]
  | .filter p => [.filter p]
  | .slice a b s => [.slice a b s]
  | .count n => [.count n]
  | .runIf p i => [.runIf p i]
  | .reverse => [.reverse]
  | .end_ => [.end_]
  | .acc k => [.acc k]
  | .split b s => [.split b s]
  | .runAdapter i => [.runAdapter i]
  | .runNamed i => [.runNamed i]
  | .runNone f => [.runNone f]
  | .runNoneBad => [.runNoneBad]
  | .syn r c f p n => [.syn r c f p n]
  | .synX r c f p n q i s a => [.synX r c f p n q i s a]
  | .iterObj c f t => [.iterObj c f t]
  | .callX a b => [.callX a b]
  | .filterX e => [.filterX e]
  | .synRaise e => [.synRaise e]
  | .both a b => [.both a b]
  | .runAlt a b => [.runAlt a b]
  | .classObj => [.classObj]
  | .junk => [.junk]
  | .setContext => [.setContext]
  | .gen f => [.gen f]
  | .iter f => [.iter f]
def Spec.flats : List Spec → List Spec
  | [] => []
  | s :: ss => s.flat ++ Spec.flats ss
end


end Lena.C01
