import LenaModel.Model.C01
/-! # C01 — how a flow object is handed over (`functions.flow_to_iter`), exception classes as names

`Model/C01.lean` says of `Sequence.run`: "`flow_to_iter` does not change what a flow yields", and runs
the stages on streams.  That hides one thing the code does and a realistic edit can break: the flow
given to `Sequence.run` (or returned by the callable first element of a `Source`) may be *any* finite
iterable — a list, a tuple, a `deque`, a reader object that only has `__iter__`, a hand-written iterator
class, a generator object — while some elements advance their input with `next(flow)`
(`lena.flow.Count.run`), which a flow without `__next__` answers with `TypeError`.

Transcribed here
* `lena/core/functions.py`  `flow_to_iter` (`flowToIter`),
* `lena/core/sequence.py`   `Sequence.run` with its two conversions (`runObj`) and the bare loop (`runObjLoop`),
* `lena/core/source.py`     `Source.__call__` for a first element whose flow is an object of either kind (`Src.callObj`),
* `lena/flow/elements.py`   what `Count.run` does with a flow that has no `__next__` (`RunShape.needsNext`),
* `lena/core/sequence.py`   `Sequence.run` over element objects that bring their own history (`runWithHist`): new
                            `Sequence` objects around elements that were used before.

Second part: renaming of exception classes (`Strm.rename`, `Element.Renames`).  The anchored code never
looks at the class of an exception that an element or the input flow raises; the correspondence check
uses this to ask the model about classes it has no name for (two renamings into model classes).
Imports only `LenaModel.Model.C01`. -/

namespace Lena.C01
open Lena.Flow

variable {α : Type}

/-- what Python can do with a flow object -/
inductive FlowKind where
  /-- it has `__next__` (a generator object, `iter(list)`, an iterator class): `next(flow)` works -/
  | iterator
  /-- it only has `__iter__` (list, tuple, deque, a reader class): `for` works, `next(flow)` is a `TypeError` -/
  | iterable
  deriving Repr, DecidableEq

/-- a flow object: the kind of the object and what a consumer that drains it sees -/
structure FlowObj (α : Type) where
  kind : FlowKind
  strm : Strm α

/-- `functions.flow_to_iter(flow)`: the object itself if it has `__next__`, else `iter(flow)` — an iterator
over the same values -/
def flowToIter (f : FlowObj α) : FlowObj α :=
  match f.kind with
  | .iterator => f
  | .iterable => { kind := .iterator, strm := f.strm }

/-- what `Sequence.run` cannot see of a stored entry but the flow object meets: does the entry's `run` advance its
input with `next(flow)` (`Count.run`; a generator, so the `TypeError` for a flow without `__next__` comes when its
result is first advanced), and what kind of object the `run` returns (every `run`/`compute` of lena is a generator:
`iterator`; a `run` that returns `sorted(flow)` would be `iterable`) -/
structure RunShape where
  needsNext : Bool := false
  outKind : FlowKind := .iterator
  deriving Repr

/-- `stored.run(flow)` on a flow object -/
def Stored.runObj (sh : RunShape) (st : Stored α) (f : FlowObj α) : Except Exc (FlowObj α) :=
  if sh.needsNext && f.kind == .iterable then .ok { kind := sh.outKind, strm := .fail .typeError }
  else
    match st.run f.strm with
    | .error e => .error e
    | .ok s => .ok { kind := sh.outKind, strm := s }

/-- the bare loop `for el in self._data_seq: flow = el.run(flow)` on a flow object -/
def runObjLoop : List (RunShape × Stored α) → FlowObj α → Except Exc (FlowObj α)
  | [], f => .ok f
  | (sh, st) :: rest, f =>
    match st.runObj sh f with
    | .error e => .error e
    | .ok f' => runObjLoop rest f'

/-- `Sequence.run(flow)` as the code has it: `flow = flow_to_iter(flow)`, the loop, `flow = flow_to_iter(flow)` -/
def runObj (ps : List (RunShape × Stored α)) (f : FlowObj α) : Except Exc (FlowObj α) :=
  match runObjLoop ps (flowToIter f) with
  | .error e => .error e
  | .ok r => .ok (flowToIter r)

/-- `Source.__call__()` when the flow of the first element (`first()` or `first` itself) is an object of kind
`k`: with a tail `self._tail.run(flow)`, else `flow_to_iter(flow)` -/
def Src.callObj (s : Src α) (ps : List (RunShape × Stored α)) (k : FlowKind) : Except Exc (FlowObj α) :=
  match s.flow with
  | .error e => .error e
  | .ok xs =>
    match s.tail with
    | some t => if t.nargs > 0 then runObj ps { kind := k, strm := xs } else .ok (flowToIter { kind := k, strm := xs })
    | none => .ok (flowToIter { kind := k, strm := xs })

/-- the shapes of the real vocabulary: only `Count.run` (also behind `adapters.Run`, which binds the method itself)
takes `next(flow)` -/
def Spec.needsNext : Spec → Bool
  | .count _ => true
  | .runAdapter i => Spec.needsNext i
  | .runNamed i => Spec.needsNext i
  | _ => false

/-! ## element objects that were used before the sequence around them was constructed -/

/-- the loop of `Sequence.run` over entries each of which comes with its OWN history of earlier (drained) inputs: the
state of an element object belongs to the element, not to the sequence object that holds it (the element may have been
run in another `Sequence` before) -/
def runWithHist : List (Stored α × List (Strm α)) → Stage α
  | [], s => .ok s
  | (st, h) :: rest, s =>
    match st.rerun h s with
    | .error e => .error e
    | .ok s' => runWithHist rest s'

/-- the histories of the entries of a sequence object after it was run on the flows `past` -/
def histories : List (Stored α) → List (Strm α) → List (Stored α × List (Strm α))
  | [], _ => []
  | st :: ss, past => (st, past) :: histories ss (pastOuts st [] past)

/-! ## exception classes are names -/

/-- rename the exception that ends a stream -/
def Strm.rename (ρ : Exc → Exc) (s : Strm α) : Strm α := { vals := s.vals, term := s.term.map ρ }

/-- rename the exception of an outcome -/
def renameOut {β : Type} (ρ : Exc → Exc) (f : β → β) : Except Exc β → Except Exc β
  | .ok b => .ok (f b)
  | .error e => .error (ρ e)

/-- `e'` is `e` with the exception classes its methods raise renamed by `ρ`: the same attributes, and every
method of `e'`, given the renamed input, gives the renamed result -/
structure Element.Renames (ρ : Exc → Exc) (e e' : Element α) : Prop where
  run : e'.run = e.run
  call : e'.call = e.call
  fill : e'.fill = e.fill
  compute : e'.compute = e.compute
  runDen : ∀ s, e'.runDen (s.rename ρ) = renameOut ρ (Strm.rename ρ) (e.runDen s)
  callDen : ∀ x, e'.callDen x = renameOut ρ id (e.callDen x)
  fillDen : ∀ h x, e'.fillDen h x = renameOut ρ id (e.fillDen h x)
  computeDen : ∀ h, e'.computeDen h = renameOut ρ (Strm.rename ρ) (e.computeDen h)

/-- stored entries of the same conversion whose elements differ by the renaming -/
inductive Stored.Renames (ρ : Exc → Exc) : Stored α → Stored α → Prop where
  | asIs (e e' : Element α) (h : e.Renames ρ e') : Stored.Renames ρ (.asIs e) (.asIs e')
  | adapted (m : RunMode) (e e' : Element α) (h : e.Renames ρ e') : Stored.Renames ρ (.adapted m e) (.adapted m e')

end Lena.C01
