import LenaModel.Model.C14
import LenaModel.Model.C14Tok
/-! # C14 — additions of the adversary round (nothing in `Model/C14.lean` / `Model/C14Tok.lean` is changed)

* `delAttr`: `del var.var_context[attr]` — the public dictionary of the variable's attributes is changed directly
  (`var.var_context[attr] = x` is `setAttr`: it is literally what `__setattr__`, line 164, does).
* `seqRun`: `lena.core.Sequence(v₁, …, vₙ).run(flow)` on a flow of SEVERAL values: every value goes through the
  variables one after the other (`seqCall`); an exception ends the flow.
* `composeInitT`: `Compose.__init__` (lines 345-372) on object identities: `compose = {"variable": deepcopy(v₁.var_context)}`,
  then `_update_context(compose, deepcopy(vᵢ.var_context))` for the others — each step is `Tok.callT` on the
  context object `compose` (`callT` deep-copies the variable's `var_context` first, exactly like lines 354-356).
* `combineInitT`: the `combine` tuple of `Combine.__init__` (lines 300-302) on object identities.
* `chainWFk`, `chainOKk`: the Boolean hypotheses `chainWFb`, `chainOKb` computed with the key numbers of the types
  looked up once (`keysOf`) instead of once per slot; `Props/C14X.lean` proves them equal, the driver runs these. -/

namespace Lena.C14

section withNames
variable (names : List String)

/-- `del var.var_context[attr]` (`var_context.pop(attr, None)`): the variable loses the attribute -/
def delAttr {D : Type} (v : Variable D) (attr : String) : Variable D :=
  ⟨v.getter, setSlot v.varCtx (key names attr) none⟩

/-- `Sequence(v₁, …, vₙ).run(flow)`: the results in order; the first exception ends the flow -/
def seqRun {D : Type} (fx : Bool) (vars : List (Variable D)) : List (Value D) → List (Except Err (D × Slots))
  | [] => []
  | x :: r =>
    match seqCall names fx vars x with
    | .error e => [.error e]
    | .ok y => .ok y :: seqRun fx vars r

/-! ## the Boolean hypotheses with the types' key numbers computed once -/

/-- the key numbers of the strings in `T` -/
def keysOf (T : List V) : List Nat :=
  T.filterMap (fun t => match t with | .str s => some (key names s) | _ => none)

/-- `noClashB` with the key numbers `K` of the types -/
def noClashK (K : List Nat) (x : Slots) : Bool :=
  let H := keysOf names (hist names x)
  (List.range names.length).all (fun j => !(K.contains j) || !(getSlot x j).isSome || H.contains j)

/-- `chainWFb` -/
def chainWFk (cv : Option V) (as : List Slots) : Bool :=
  let K := keysOf names (allTypes names cv as)
  (match cv with
   | some (.dict p) => varWFb names p && noClashK names K p
   | _ => true) &&
  as.all (fun a => varWFb names a && noClashK names K a && (getSlot a (kName names)).isSome) &&
  !(K.contains (kCompose names))

/-- `kwOKb` -/
def kwOKk (K : List Nat) (kw : Slots) : Bool :=
  kw.length == names.length &&
  (getSlot kw (kType names)).isNone && (getSlot kw (kCompose names)).isNone &&
  (getSlot kw (kGetter names)).isNone && (getSlot kw (kDim names)).isNone &&
  (List.range names.length).all (fun j => !(K.contains j) || (getSlot kw j).isNone || j == kName names)

mutual
/-- `exprOKb` -/
def exprOKk {D : Type} (K : List Nat) : Expr D → Bool
  | .var name g ty kw =>
    (match g with | .fn _ => true | _ => false) &&
    (match name with | .str _ => true | _ => false) &&
    typeOKb names ty && kwOKk names K kw && (getSlot kw (kName names)).isNone
  | .compose args kw => !args.isEmpty && argsOKk K args && kwOKk names K kw && nameKwOKb names kw
  | .combine args kw =>
    !args.isEmpty && argsOKk K args && kw.length == names.length &&
    kwOKk names K (setSlot kw (kType names) none) && nameKwOKb names kw &&
    typeOKb names ((getSlot kw (kType names)).getD (.str ""))
  | .other => false
/-- `argsOKb` -/
def argsOKk {D : Type} (K : List Nat) : List (Expr D) → Bool
  | [] => true
  | e :: r => exprOKk K e && argsOKk K r
end

/-- `chainOKb` -/
def chainOKk {D : Type} (cv : Option V) (es : List (Expr D)) : Bool :=
  let T := preHist names cv ++ argsAllTypes names es
  let K := keysOf names T
  namesOK2b names && !es.isEmpty && argsOKk names K es && typesOKb names T &&
  (match cv with
   | some (.dict p) => varWFb names p && noClashK names K p
   | _ => true)

end withNames

namespace Tok

/-- `Compose.__init__` on identities.  `vars`: the `var_context` objects (token, slots) of the arguments, in order;
`next`: the token counter.  Line 352 creates the dictionary `compose` (token `next`) whose `variable` is the deep copy
of the first argument's `var_context`; lines 354-356 are one `callT` per further argument on that context object.
Returns the steps (as `seqT` does, an exception ends them) — the `var_context` of the new `Compose` is
`context["variable"]` of the last step (of the initial context for a single argument). -/
def composeInitT (names : List String) (fx : Bool) (next : Nat) (vars : List (Nat × TSlots)) :
    Option ((Nat × TSlots) × List (Except Err CallRes)) :=
  match vars with
  | [] => none
  | (vt, vc) :: rest =>
    match deepcopyT (next + 1) (.dict vt vc) with
    | (copy, n1) =>
      let cs := setT (List.replicate names.length none) (kVariable names) (some copy)
      some ((next, cs), seqT names fx rest n1 (some (next, cs)))

/-- the `var_context` object the new `Compose` gets (before `var_context.update(kwargs)`, which stores the caller's
keyword values, no object of an argument): `compose["variable"]` after the last step; `none` after an exception -/
def composeInitResult (names : List String) (init : (Nat × TSlots) × List (Except Err CallRes)) : Option TV :=
  match init.2.getLast? with
  | none => getT init.1.2 (kVariable names)
  | some (.ok r) => getT r.ctx (kVariable names)
  | some (.error _) => none

/-- `Combine.__init__` on identities, lines 300-302: `var_context["combine"] = tuple(copy.deepcopy(var.var_context) for var in
self._vars)` -- the deep copies are made one after the other, which is the deep copy of the tuple of the arguments'
`var_context` objects (`deepcopyT` of a tuple copies its elements in order and gives the tuple itself no identity).
`vars`: the `var_context` objects (token, slots) of the arguments; `next`: the token counter.  Returns the tuple and
the counter afterwards.  (Everything else `Combine.__init__` puts into the new `var_context` -- `dim`, the name, the
caller's keyword values -- is no object of an argument.) -/
def combineInitT (next : Nat) (vars : List (Nat × TSlots)) : TV × Nat :=
  deepcopyT next (.tuple (vars.map (fun w => TV.dict w.1 w.2)))

end Tok
end Lena.C14
