import LenaModel.Model.Val
import LenaModel.Model.C07
/-! # C07 token model — which objects `intersection` and `difference` return

The value model (`Model/C07.lean`) cannot say "deep copy" or "d1 or some of its subdictionaries may
be returned directly".  Here every mutable Python object carries an identity (`Nat`): a dictionary
has one, a leaf has the list of the identities of the mutable objects it consists of (none for a
scalar, one for a flat list, more for a list holding lists or dictionaries).  Allocation of a new
object takes the next unused identity from a counter that is threaded through the functions
(`copy.deepcopy`, `result = {}`, `return {}`), exactly where the Python code creates objects.

Arguments are assumed tree-shaped and disjoint: `copyV` allocates one new object per occurrence, whereas
`copy.deepcopy` memoises (an object reachable twice is copied once).

The other arguments of `intersection` (`dicts[1:]`) and the second argument of `difference` are
only compared by value and iterated over — nothing of them is ever stored — so they are plain
values here; storing one of their objects in the result is therefore not expressible, which is the
point of the transcription: the harness compares the identity pattern predicted here (fresh /
object of the first argument at which path) with the `id()` graph of the real results.  `Model/C07Mut.lean` has the
versions in which *every* argument carries identities (`interArgs`, `diffArgs`) together with the write logs. -/

namespace Lena.C07
open Lena Lena.Val

variable {α : Type} [DecidableEq α]

inductive TVal (α : Type) where
  | leaf : List Nat → α → TVal α
  | dict : Nat → List (Option (TVal α)) → TVal α
  deriving Repr

abbrev TSlots (α : Type) := List (Option (TVal α))

mutual
/-- forget the identities -/
def eraseV : TVal α → Val α
  | .leaf _ a => .leaf a
  | .dict _ l => .dict (eraseL l)
def eraseL : TSlots α → Slots α
  | [] => []
  | none :: r => none :: eraseL r
  | some v :: r => some (eraseV v) :: eraseL r
end

mutual
/-- the identities of all mutable objects reachable from a value -/
def toksV : TVal α → List Nat
  | .leaf ts _ => ts
  | .dict t l => t :: toksL l
def toksL : TSlots α → List Nat
  | [] => []
  | none :: r => toksL r
  | some v :: r => toksV v ++ toksL r
end

mutual
/-- `copy.deepcopy(v)`: the same value, every mutable object replaced by a new one; the second
component is the counter afterwards -/
def copyV : TVal α → Nat → TVal α × Nat
  | .leaf ts a, c => (.leaf (List.range' c ts.length) a, c + ts.length)
  | .dict _ l, c => ((.dict c (copyL l (c + 1)).1), (copyL l (c + 1)).2)
def copyL : TSlots α → Nat → TSlots α × Nat
  | [], c => ([], c)
  | none :: r, c => (none :: (copyL r c).1, (copyL r c).2)
  | some v :: r, c =>
    (some (copyV v c).1 :: (copyL r (copyV v c).2).1, (copyL r (copyV v c).2).2)
end

/-- `{}` (a new object with identity `c`) over the key alphabet of `l` -/
def emptyT (c : Nat) (n : Nat) : TVal α := .dict c (List.replicate n none)

/-! ## intersection -/

mutual
/-- body of `for key in res:` for one key (cf. `interO`): `res.get(key)` with identities, `d.get(key)`
by value.  The recursive call `intersection(res[key], d[key], level=level-1)` deep-copies `res[key]`
(a copy of a copy), runs its loop over the single further dictionary and returns the new object. -/
def interTO (lv : Int) : Option (TVal α) → Option (Val α) → Nat → Option (TVal α) × Nat
  | none, _, c => (none, c)
  | some _, none, c => (none, c)
  | some v, some w, c =>
    if w = eraseV v then (some v, c)
    else if lv = 1 then (none, c)
    else match v, w with
      | .dict _ x, .dict y =>
        -- `res = copy.deepcopy(dicts[0])` inside the recursive call: new dictionary `c`
        let x' := (copyL x (c + 1)).1
        let c1 := (copyL x (c + 1)).2
        if lv - 1 = 0 then
          (if y = eraseL x' ∧ nonEmpty y = true then (some (.dict c x'), c1)
           else (some (emptyT c1 x.length), c1 + 1))            -- `return {}`
        else
          (some (.dict c (interTL (lv - 1) x' y c1).1), (interTL (lv - 1) x' y c1).2)
      | _, _ => (none, c)
  termination_by _ y _ => sizeOf y
def interTL (lv : Int) : TSlots α → Slots α → Nat → TSlots α × Nat
  | [], _, c => ([], c)
  | x :: r, [], c => (List.replicate (r.length + 1) none, c)     -- every key is missing in `d`
  | x :: r, y :: r', c =>
    ((interTO lv x y c).1 :: (interTL lv r r' (interTO lv x y c).2).1, (interTL lv r r' (interTO lv x y c).2).2)
  termination_by _ b _ => sizeOf b
end

/-- the loop `for d in dicts[1:]:` (cf. `interFold`); `res` is the dictionary object `t` with slots `l` -/
def interTFold (lv : Int) (t : Nat) : TSlots α → List (Slots α) → Nat → TVal α × Nat
  | l, [], c => (.dict t l, c)
  | l, d :: ds, c =>
    if lv = 0 then
      if d = eraseL l ∧ nonEmpty d = true then interTFold lv t l ds c
      else (emptyT c l.length, c + 1)                             -- `return {}`
    else
      let l' := (interTL lv l d c).1
      let c' := (interTL lv l d c).2
      if nonEmpty (eraseL l') = true then interTFold lv t l' ds c'
      else (.dict t l', c')                                       -- `if not res: return res`

/-- `intersection(d0, *ds, level=lv)`: `d0` with identities, counter `c` = first unused identity -/
def interT (n : Nat) (lv : Int) (c : Nat) : Option (Nat × TSlots α) → List (Slots α) → TVal α × Nat
  | none, _ => (emptyT c n, c + 1)                                -- `if not dicts: return {}`
  | some (_, l0), ds =>
    interTFold lv c (copyL l0 (c + 1)).1 ds (copyL l0 (c + 1)).2   -- `res = copy.deepcopy(dicts[0])`

/-! ## difference -/
section diff
variable (truthy : α → Bool)

def truthyT : TVal α → Bool
  | .dict _ l => nonEmpty (eraseL l)
  | .leaf _ a => truthy a

mutual
/-- `difference(d1, d2, level)` (cf. `diffV`): `d1` with identities, `d2` by value -/
def diffTV (lv : Int) : TVal α → Val α → Nat → TVal α × Nat
  | .dict t x, .dict y, c =>
    if eraseL x = y then (emptyT c x.length, c + 1)               -- `return {}`: a new object
    else if lv = 0 then (.dict t x, c)                            -- `return d1`: the argument itself
    else (.dict c (diffTL lv x y (c + 1)).1, (diffTL lv x y (c + 1)).2)   -- `result = {}`, filled
  | v, _, c => (v, c)                                             -- `return d1`
def diffTO (lv : Int) : Option (TVal α) → Option (Val α) → Nat → Option (TVal α) × Nat
  | none, _, c => (none, c)
  | some v, none, c => (some v, c)                                -- `result[key] = d1[key]`: shared
  | some v, some w, c =>
    if eraseV v = w then (none, c)
    else if lv ≠ 1 ∧ isDict (eraseV v) = true ∧ isDict w = true then
      (if truthyT truthy (diffTV (lv - 1) v w c).1 = true then some (diffTV (lv - 1) v w c).1 else none,
       (diffTV (lv - 1) v w c).2)
    else (some v, c)                                              -- `result[key] = d1[key]`: shared
def diffTL (lv : Int) : TSlots α → Slots α → Nat → TSlots α × Nat
  | [], _, c => ([], c)
  | x :: r, [], c => ((diffTO lv x none c).1 :: (diffTL lv r [] (diffTO lv x none c).2).1,
                      (diffTL lv r [] (diffTO lv x none c).2).2)
  | x :: r, y :: r', c => ((diffTO lv x y c).1 :: (diffTL lv r r' (diffTO lv x y c).2).1,
                           (diffTL lv r r' (diffTO lv x y c).2).2)
end

end diff

end Lena.C07
