import LenaModel.Model.Val
import LenaModel.Model.C07
import LenaModel.Model.C07Tok
/-! # C07 sharing model — arguments in which one object is reachable twice

`Model/C07Tok.lean` assumes tree-shaped arguments: `copyV` allocates one new object per *occurrence*.  Here an argument
may be a DAG: in a `TVal` the same identity may occur at several places (then the subtrees there are the same, and no
dictionary contains itself: `AcyclicV`), which is how `d = {"variable": s, "previous": s}` looks from its root.

* `memoCopyV`: `copy.deepcopy` with its memo — one new object per *object*: the identities are renamed by an injective
  map into `c, c+1, …` in the order in which deepcopy meets them first, so the copy has exactly the sharing of the
  original (`copy.deepcopy(d)["variable"] is copy.deepcopy(d)["previous"]`).
* `interSO / interSL / interSFold / interS`: `intersection` (lines 341-418) as in `interTO …`, with the memoising copy
  at both places where the code copies (`res = copy.deepcopy(dicts[0])` in the call and in the recursive call).  All
  stores of `intersection` are `res[key] = …` / `del res[key]` on the `res` of the running call, the root of a copy
  made by that call.
* `storeV`: what a store into the object `t` does to a value in which `t` may occur several times — every occurrence
  changes.  `Props/C07.lean` proves that the root of a memoising copy of an acyclic dictionary occurs once in the copy,
  so that a store into it is the one-slot update that `interSL` computes (`store_root_once`); a store into an inner
  object of the copy (what an in-place pruning of `res[key]` would be) changes every place that shares it.

The harness sends arguments with repeated identities (`id()` of the real objects) and compares the sharing pattern of
the real result with `interS`; `difference` copies nothing, `diffTV` (`Model/C07Tok.lean`) already is its transcription
for arguments with repeated identities. -/

namespace Lena.C07
open Lena Lena.Val

variable {α : Type}

mutual
/-- the same value with every identity `t` replaced by `f t` -/
def renV (f : Nat → Nat) : TVal α → TVal α
  | .leaf ts a => .leaf (ts.map f) a
  | .dict t l => .dict (f t) (renL f l)
def renL (f : Nat → Nat) : TSlots α → TSlots α
  | [] => []
  | none :: r => none :: renL f r
  | some v :: r => some (renV f v) :: renL f r
end

/-- the distinct identities of a list in the order of their first occurrence: the keys of deepcopy's memo in the order
in which it is filled -/
def firsts : List Nat → List Nat
  | [] => []
  | t :: r => t :: (firsts r).filter (fun u => u != t)

/-- position of `t` in the memo (`m.length` when it is not there) -/
def memoIdx (t : Nat) : List Nat → Nat
  | [] => 0
  | u :: r => if u = t then 0 else memoIdx t r + 1

/-- the new identity that a deepcopy starting at counter `c` with the memo order `m` gives the object `t` -/
def memoNew (m : List Nat) (c : Nat) (t : Nat) : Nat := c + memoIdx t m

/-- `copy.deepcopy(v)`: the same value, one new object for every *object* of `v`; the counter afterwards -/
def memoCopyV (v : TVal α) (c : Nat) : TVal α × Nat :=
  (renV (memoNew (firsts (toksV v)) c) v, c + (firsts (toksV v)).length)

/-- `copy.deepcopy` of the dictionary object `t` with slots `l`: the slots of the copy (its root is `memoNew … t = c`) -/
def memoCopyD (t : Nat) (l : TSlots α) (c : Nat) : TSlots α × Nat :=
  (renL (memoNew (firsts (t :: toksL l)) c) l, c + (firsts (t :: toksL l)).length)

mutual
/-- no dictionary object is reachable from itself (a finite value cannot show a cyclic object any other way) -/
def AcyclicV : TVal α → Prop
  | .leaf _ _ => True
  | .dict t l => t ∉ toksL l ∧ AcyclicL l
def AcyclicL : TSlots α → Prop
  | [] => True
  | none :: r => AcyclicL r
  | some v :: r => AcyclicV v ∧ AcyclicL r
end

/-! ## what a store does when the object occurs several times -/

/-- slot `k` of one vector (a vector that is too short is left alone: the key is outside the alphabet) -/
def storeTop (k : Nat) (x : Option (TVal α)) : TSlots α → TSlots α
  | [] => []
  | y :: r => match k with
    | 0 => x :: r
    | k + 1 => y :: storeTop k x r

mutual
/-- `obj[key] = x` (`del obj[key]` for `x = none`) for the object `t`, seen from a value in which `t` may occur at
several places: slot `k` changes at every occurrence -/
def storeV (t k : Nat) (x : Option (TVal α)) : TVal α → TVal α
  | .leaf ts a => .leaf ts a
  | .dict u l => .dict u (if u = t then storeTop k x (storeL t k x l) else storeL t k x l)
def storeL (t k : Nat) (x : Option (TVal α)) : TSlots α → TSlots α
  | [] => []
  | none :: r => none :: storeL t k x r
  | some v :: r => some (storeV t k x v) :: storeL t k x r
end

/-! ## intersection with the memoising copy -/

variable [DecidableEq α]

mutual
/-- body of `for key in res:` for one key (cf. `interTO`); the recursive call `intersection(res[key], d[key], level-1)`
starts with `res = copy.deepcopy(dicts[0])` — of the object `res[key]`, with a memo of its own -/
def interSO (lv : Int) : Option (TVal α) → Option (Val α) → Nat → Option (TVal α) × Nat
  | none, _, c => (none, c)
  | some _, none, c => (none, c)
  | some v, some w, c =>
    if w = eraseV v then (some v, c)
    else if lv = 1 then (none, c)
    else match v, w with
      | .dict t x, .dict y =>
        let x' := (memoCopyD t x c).1
        let c1 := (memoCopyD t x c).2
        if lv - 1 = 0 then
          (if y = eraseL x' ∧ nonEmpty y = true then (some (.dict c x'), c1)
           else (some (emptyT c1 x.length), c1 + 1))            -- `return {}`
        else
          (some (.dict c (interSL (lv - 1) x' y c1).1), (interSL (lv - 1) x' y c1).2)
      | _, _ => (none, c)
  termination_by _ y _ => sizeOf y
def interSL (lv : Int) : TSlots α → Slots α → Nat → TSlots α × Nat
  | [], _, c => ([], c)
  | _ :: r, [], c => (List.replicate (r.length + 1) none, c)     -- every key is missing in `d`
  | x :: r, y :: r', c =>
    ((interSO lv x y c).1 :: (interSL lv r r' (interSO lv x y c).2).1, (interSL lv r r' (interSO lv x y c).2).2)
  termination_by _ b _ => sizeOf b
end

/-- the loop `for d in dicts[1:]:` (cf. `interTFold`) -/
def interSFold (lv : Int) (t : Nat) : TSlots α → List (Slots α) → Nat → TVal α × Nat
  | l, [], c => (.dict t l, c)
  | l, d :: ds, c =>
    if lv = 0 then
      if d = eraseL l ∧ nonEmpty d = true then interSFold lv t l ds c
      else (emptyT c l.length, c + 1)                             -- `return {}`
    else
      let l' := (interSL lv l d c).1
      let c' := (interSL lv l d c).2
      if nonEmpty (eraseL l') = true then interSFold lv t l' ds c'
      else (.dict t l', c')                                       -- `if not res: return res`

/-- the loop `for key in res:` (with `del res[key]` for the keys in `to_delete`) executed as what it is in Python: a
sequence of stores into the ONE object `t` (`res`), each applied to the whole value `res` with `storeV` — so a store
would change every place at which `t` occurs.  `k` is the number of the next key, the second argument the items of `res`
from key `k` on (as they were when the loop started: the body reads `res[key]` before it writes it, and writes only
`res[key]`), the third the items of `d` from key `k` on.  What becomes of an item is decided by `interSO` (which contains
the recursive call, working on a copy of its own). -/
def interObjLoop (lv : Int) (t : Nat) : Nat → TSlots α → Slots α → TVal α → Nat → TVal α × Nat
  | _, [], _, res, c => (res, c)
  | k, x :: r, [], res, c =>
    interObjLoop lv t (k + 1) r [] (storeV t k (interSO lv x none c).1 res) (interSO lv x none c).2
  | k, x :: r, y :: r', res, c =>
    interObjLoop lv t (k + 1) r r' (storeV t k (interSO lv x y c).1 res) (interSO lv x y c).2

/-- `intersection(d1, d2, level=lv)` for `lv ≠ 0` with the loop executed as stores into the copy `res` -/
def interObj2 (lv : Int) (c : Nat) (t : Nat) (l0 : TSlots α) (d : Slots α) : TVal α × Nat :=
  interObjLoop lv c 0 (memoCopyD t l0 c).1 d (.dict c (memoCopyD t l0 c).1) (memoCopyD t l0 c).2

/-- the slots of a dictionary argument by value (`[]` for a non-dictionary, which raises before anything happens) -/
def argSlotsS : TVal α → Slots α
  | .dict _ l => eraseL l
  | .leaf _ _ => []

/-- `intersection(*args, level=lv)`, every argument with identities (which may repeat, within and between arguments);
`c` = first unused identity -/
def interS (n : Nat) (lv : Int) (c : Nat) : List (TVal α) → TVal α × Nat
  | [] => (emptyT c n, c + 1)                                     -- `if not dicts: return {}`
  | .dict t l0 :: rest =>
    interSFold lv c (memoCopyD t l0 c).1 (rest.map argSlotsS) (memoCopyD t l0 c).2   -- `res = copy.deepcopy(dicts[0])`
  | .leaf _ _ :: _ => (emptyT c n, c)                             -- (`LenaTypeError`; not used)

end Lena.C07
