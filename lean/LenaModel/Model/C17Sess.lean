import LenaModel.Model.C17
/-! # C17 model, part 2 — one element instance used more than once

The framework may use one instance of an element several times: a `Source` is called (run) twice, the
same `Slice`/`Reverse`/`RunningChunkBy` object receives a second flow, two generators obtained from one
instance are alive at the same time and are advanced in an arbitrary interleaving.  The property is a
statement *per call*: every `CountFrom.__call__` is an `itertools.count(start, step)` from its beginning,
every `Slice.run(flow)` is the slice of *that* flow, and so on.

This file transcribes what the instances keep between calls (`lena/flow/iterators.py`,
`RunningChunkBy` in `lena/flow/elements.py`):

* `CountFrom`: `_start`, `_step`; `__call__` builds a fresh `itertools.count(self._start, self._step)` and
  assigns nothing to `self`;
* `Chain`: `_iterables`; `__call__` builds a fresh `itertools.chain(*self._iterables)` (re-iterable
  iterables: lists, tuples, ranges — every call sees all their values);
* `Reverse`: nothing; `RunningChunkBy`: `_cs`, `_container`, `_from_iterable`, read only by `run`;
* `Slice`: the construction arguments (`_islice` closure or `_start`, `_stop`, `_step`) read only by
  `run`, and — for non-negative arguments — the state of `fill_into`: `_index`, `_next_index`,
  `_indices`.  `run` neither reads nor writes the `fill_into` state; `fill_into` never touches what
  `run` reads.  `fill_into` *does* keep state between calls, by design (it is the position in the flow).

A live generator is modelled by its own state; the instance by the state it keeps.  A *session* is an
arbitrary sequence of operations on one instance.  No imports except `Model.C17`: executed by
`drivers/C17.lean`. -/

namespace Lena.C17

/-! ## Generic sessions: one instance, many generators -/

/-- An element whose instances have state `σ`; `run(flow)` / `__call__()` with argument `ι` creates a
generator with state `γ` that yields values of type `β`. -/
structure GenElem (σ ι γ β : Type) where
  /-- `g = el.run(flow)` / `g = el()`: the new generator and the state of the instance afterwards -/
  spawn : σ → ι → γ × σ
  /-- `next(g)`; `none` is `StopIteration` -/
  next : γ → Option (β × γ)

/-- one instance and the generators obtained from it so far (numbered 0, 1, … in order of creation) -/
structure Sess (σ γ : Type) where
  inst : σ
  gens : List γ

/-- what a client does with one instance -/
inductive GenOp (ι : Type) where
  /-- `g = el.run(iter(x))` (`g = el()` for sources) -/
  | start (x : ι)
  /-- `next(g)` on the generator number `g` -/
  | next (g : Nat)
  deriving Repr

/-- what the client observes -/
inductive GenEv (β : Type) where
  | value (g : Nat) (v : β)
  /-- `StopIteration` from generator `g` -/
  | stop (g : Nat)
  deriving Repr, DecidableEq

variable {σ ι γ β : Type}

/-- One operation.  (`next` on a generator that does not exist yet is not a client action: no event.) -/
def sessStep (E : GenElem σ ι γ β) (s : Sess σ γ) : GenOp ι → Sess σ γ × Option (GenEv β)
  | .start x =>
    let r := E.spawn s.inst x
    ({ inst := r.2, gens := s.gens ++ [r.1] }, none)
  | .next i =>
    match s.gens[i]? with
    | none => (s, none)
    | some g =>
      match E.next g with
      | none => (s, some (.stop i))
      | some (v, g') => ({ s with gens := s.gens.set i g' }, some (.value i v))

/-- the events of a sequence of operations -/
def sessEvents (E : GenElem σ ι γ β) : Sess σ γ → List (GenOp ι) → List (GenEv β)
  | _, [] => []
  | s, op :: ops =>
    match (sessStep E s op).2 with
    | none => sessEvents E (sessStep E s op).1 ops
    | some e => e :: sessEvents E (sessStep E s op).1 ops

/-- the state after a sequence of operations -/
def sessAfter (E : GenElem σ ι γ β) : Sess σ γ → List (GenOp ι) → Sess σ γ
  | s, [] => s
  | s, op :: ops => sessAfter E (sessStep E s op).1 ops

/-- the first `k` values of a generator (fewer if it stops) -/
def genTake (next : γ → Option (β × γ)) : Nat → γ → List β
  | 0, _ => []
  | k + 1, g =>
    match next g with
    | none => []
    | some (v, g') => v :: genTake next k g'

/-- the values generator `g` yielded, in order -/
def valuesOf (g : Nat) : List (GenEv β) → List β
  | [] => []
  | .value i v :: es => if i = g then v :: valuesOf g es else valuesOf g es
  | .stop _ :: es => valuesOf g es

/-- the number of `next(g)` calls that were answered (by a value or by `StopIteration`) -/
def nextsOf (g : Nat) : List (GenEv β) → Nat
  | [] => 0
  | .value i _ :: es => if i = g then nextsOf g es + 1 else nextsOf g es
  | .stop i :: es => if i = g then nextsOf g es + 1 else nextsOf g es

/-- the arguments of the `start` operations, in order: the argument of generator number `g` is
`(startsOf ops)[g]` -/
def startsOf : List (GenOp ι) → List ι
  | [] => []
  | .start x :: ops => x :: startsOf ops
  | .next _ :: ops => startsOf ops

/-! ## CountFrom -/

/-- a `CountFrom` instance: `_start`, `_step` — everything `__init__` keeps -/
structure CountFromInst where
  start : Int
  step : Int
  deriving Repr, DecidableEq

/-- the generator returned by `CountFrom.__call__`: the `itertools.count` object it iterates over
(next value, step) -/
structure CountGen where
  cur : Int
  step : Int
  deriving Repr, DecidableEq

/-- `CountFrom.__call__`: `for val in itertools.count(self._start, self._step): yield val` — a fresh
counter; nothing is assigned to `self`, so the instance state is returned unchanged. -/
def CountFromInst.call (c : CountFromInst) : CountGen × CountFromInst :=
  ({ cur := c.start, step := c.step }, c)

/-- `next` of an `itertools.count`: never `StopIteration` -/
def CountGen.next (g : CountGen) : Int × CountGen := (g.cur, { g with cur := g.cur + g.step })

def countElem : GenElem CountFromInst Unit CountGen Int where
  spawn c _ := c.call
  next g := some g.next

/-- a session on `CountFrom(start, step)` -/
def countSess (start step : Int) : Sess CountFromInst CountGen :=
  { inst := { start := start, step := step }, gens := [] }

/-! ## Elements whose generators are finite and which keep nothing for `run`

`Slice.run`, `Reverse.run`, `RunningChunkBy.run`, `Chain.__call__` read only construction-time
attributes.  The generator is the list of values it has still to yield (file header of `Model/C17`). -/

/-- an element given by its `run` on finite flows; the instance state `σ` is carried along unchanged -/
def listElem (run : σ → ι → List β) : GenElem σ ι (List β) β where
  spawn c x := (run c x, c)
  next
    | [] => none
    | v :: r => some (v, r)

/-- the values of `Slice(...).run(xs)` for a `Slice` that could be constructed; an `IndexError` escaping
from a deque would end the generator (`slice_run_eq_pyslice`: it never happens) -/
def sliceOut {α : Type} (k : SliceKind) (xs : List α) : List α :=
  match sliceRun k xs with
  | some (.ok ys) => ys
  | _ => []

def sliceElem {α : Type} : GenElem SliceKind (List α) (List α) α := listElem sliceOut
def reverseElem {α : Type} : GenElem Unit (List α) (List α) α := listElem (fun _ => reverseRun)
/-- instance state: the chunk size -/
def chunkElem {α : Type} : GenElem Nat (List α) (List (List α)) (List α) := listElem runningChunkBy
/-- instance state: the (re-iterable) iterables -/
def chainElem {α : Type} : GenElem (List (List α)) Unit (List α) α := listElem (fun xss _ => chainCall xss)

/-! ## One `Slice` instance: `run` and `fill_into` on the same object -/

/-- a constructed `Slice`: what `run` reads (`kind`) and the `fill_into` state (`_index`,
`_next_index`, `_indices`; present only when no argument is negative) -/
structure SliceInst where
  kind : SliceKind
  fill : FillState
  deriving Repr, DecidableEq

/-- `Slice(start, stop, step)`; `none`: `LenaValueError` at construction -/
def mkSliceInst (start stop step : Option Int) : Option SliceInst :=
  match mkSlice start stop step with
  | .valueError => none
  | .islice a b s => some { kind := .islice a b s, fill := fillInit a }
  | .negative a b s => some { kind := .negative a b s, fill := fillInit 0 }

inductive SliceOp (α : Type) where
  /-- `list(sl.run(iter(xs)))` -/
  | run (xs : List α)
  /-- `sl.fill_into(element, v)` -/
  | fill (v : α)
  deriving Repr

inductive SliceEv (α : Type) where
  | ran (o : Option (Out α))
  | fill (o : FillOut)
  /-- `fill_into` of a `Slice` with a negative argument: `self._index` was never set -/
  | attributeError
  deriving Repr, DecidableEq

/-- one operation on a `Slice` instance -/
def SliceInst.step {α : Type} (c : SliceInst) : SliceOp α → SliceInst × SliceEv α
  | .run xs => (c, .ran (sliceRun c.kind xs))
  | .fill _ =>
    match c.kind with
    | .islice _ b s => ({ c with fill := (fillInto b s c.fill).1 }, .fill (fillInto b s c.fill).2)
    | _ => (c, .attributeError)

def SliceInst.events {α : Type} : SliceInst → List (SliceOp α) → List (SliceEv α)
  | _, [] => []
  | c, op :: ops => (c.step op).2 :: SliceInst.events (c.step op).1 ops

def SliceInst.after {α : Type} : SliceInst → List (SliceOp α) → SliceInst
  | c, [] => c
  | c, op :: ops => SliceInst.after (c.step op).1 ops

/-- `fill_into` value by value **without** stopping at `LenaStopFill` (a caller that goes on filling):
the outcome of every call -/
def fillTrace {α : Type} (stop : Option Nat) (step : Nat) : FillState → List α → List FillOut
  | _, [] => []
  | s, _ :: rest => (fillInto stop step s).2 :: fillTrace stop step (fillInto stop step s).1 rest

/-- the values for which `element.fill` was called -/
def filledOf {α : Type} : List α → List FillOut → List α
  | x :: xs, .filled :: os => x :: filledOf xs os
  | _ :: xs, _ :: os => filledOf xs os
  | _, _ => []

end Lena.C17
