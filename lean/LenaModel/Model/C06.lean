import LenaModel.Model.NArr
/-! # C06 model — histogram fill (`lena/structures/hist_functions.py`, `lena/structures/histogram.py`)

Transcription of
* `_check_edges_increasing_1d`, `check_edges_increasing` (hist_functions.py:71-102),
* `get_bin_on_value_1d` (hist_functions.py:159-227) — the interpolation ("linear binary") search,
* `get_bin_on_value` (hist_functions.py:230-279),
* `init_bins` (hist_functions.py:394-435),
* `histogram.__init__`, `histogram.fill` (histogram.py:47-164, 233-264),
* `Histogram.__init__`, `Histogram.fill` (histogram.py:405-446).

Modelling decisions (DESIGN.md section 3, C06):
* Edge values and coordinates live in an arbitrary type `α` that the code only compares
  (`==`, `<`, `>=`); the theorems assume a linear order.  Bin contents and weights live in a
  type `β` with `+` and `0`.
* The one floating-point computation of the search,
  `ind_min + int((ind_max-ind_min) * (float(val-arr[ind_min]) / (arr[ind_max]-arr[ind_min])))`,
  is a **parameter** `guess ind_min ind_max : Int` of the model.  Since lena 4fbe73b
  (notes/C06_defect_3.md) the code treats a guess at or beyond a bound as a guess on that bound, so
  *every* integer value of the guess is inside the modelled domain and the search never answers
  `Err.unmodelled` (before the fix a guess outside `[ind_min, ind_max]` made the real code hang or
  raise `IndexError`).  Not modelled: a guess that is not an integer at all (`int(nan)` raises
  `ValueError`, `float()` of a huge integer raises `OverflowError`) — NaN coordinates and overflowing
  differences are excluded.
* Python exceptions are explicit: `Except Err ρ` with the exception class.
* `bins` are `NArr β` (nested lists); aliasing between sub-lists of user-supplied bins is not
  modelled (`init_bins` builds distinct lists).

No imports except `LenaModel.Model.NArr`: this file is executed by `drivers/C06.lean`. -/

namespace Lena.C06

open Lena

variable {α β κ : Type}

/-! ## `check_edges_increasing` -/

section Order
variable [LT α] [LE α] [DecidableLT α] [DecidableLE α] [DecidableEq α]

/-- `all(tup[0] < tup[1] for tup in zip(arr, arr[1:]))` (hist_functions.py:75-76) -/
def increasingPairs : List α → Bool
  | a :: b :: rest => decide (a < b) && increasingPairs (b :: rest)
  | _ => true

/-- `_check_edges_increasing_1d(arr)` (hist_functions.py:71-80) -/
def checkEdges1d (arr : List α) : Except Err Unit :=
  if arr.length ≤ 1 then .error .lenaValueError
  else if !increasingPairs arr then .error .lenaValueError
  else .ok ()

/-- the `for arr in edges:` loop of `check_edges_increasing` (hist_functions.py:96-102) -/
def checkEdgesAxes : List (List α) → Except Err Unit
  | [] => .ok ()
  | arr :: rest =>
    if arr.length ≤ 1 then .error .lenaValueError
    else do
      checkEdges1d arr
      checkEdgesAxes rest

end Order

/-- `edges` of a histogram: a flat list of numbers (one-dimensional format) or a list of
lists, one per axis.  (Lists that mix numbers and lists are outside the model.) -/
inductive Edges (α : Type) where
  | flat (arr : List α)
  | nested (axes : List (List α))
  deriving Repr

/-- a coordinate: a number, or a list/tuple of numbers -/
inductive Coord (α : Type) where
  | scalar (x : α)
  | tuple (xs : List α)
  deriving Repr

/-- `len(edges)` -/
def Edges.len : Edges α → Nat
  | .flat arr => arr.length
  | .nested axes => axes.length

/-- the axes in the unified (multidimensional) format -/
def Edges.axes : Edges α → List (List α)
  | .flat arr => [arr]
  | .nested axes => axes

section Order
variable [LT α] [LE α] [DecidableLT α] [DecidableLE α] [DecidableEq α]

/-- `check_edges_increasing(edges)` (hist_functions.py:83-102): empty → `LenaValueError`;
`edges[0]` not iterable → the one-dimensional check; otherwise every axis is checked. -/
def checkEdgesIncreasing : Edges α → Except Err Unit
  | .flat arr => if arr.length = 0 then .error .lenaValueError else checkEdges1d arr
  | .nested axes => if axes.length = 0 then .error .lenaValueError else checkEdgesAxes axes

/-! ## `get_bin_on_value_1d` -/

/-- The `while True:` loop of `get_bin_on_value_1d` (hist_functions.py:189-227) from the state
`ind_min = lo`, `ind_max = hi` (both natural numbers here: the loop is entered with
`0 ≤ ind_min ≤ ind_max`).  Same order of tests as the Python code; `arr[i]` outside the list
is `IndexError`.  `guess lo hi` is the value of `ind_guess` (see the file header).

The recursion is well-founded on `hi - lo`: every `continue` and every assignment of the last
`if/else` strictly decreases `ind_max - ind_min` — a guess `≤ ind_min` or `≥ ind_max` moves one
bound by one, any other guess lies strictly between the bounds.  This is the termination
argument of the search for **every** guess, checked by Lean when this definition is accepted. -/
def bin1dLoop (guess : Nat → Nat → Int) (val : α) (arr : List α) (lo hi : Nat) : Except Err Int :=
  match arr[lo]? with
  | none => .error .indexError
  | some alo =>
    if hi - lo ≤ 1 then
      -- lower bound is close
      if val < alo then .ok ((lo : Int) - 1)
      else
        match arr[hi]? with
        | none => .error .indexError
        | some ahi =>
          -- upper bound is open
          if ahi ≤ val then .ok (hi : Int)      -- `val >= arr[ind_max]`
          else .ok (lo : Int)
    else if val = alo then .ok (lo : Int)
    else if val < alo then .ok ((lo : Int) - 1)
    else
      match arr[hi]? with
      | none => .error .indexError
      | some ahi =>
        if ahi ≤ val then .ok (hi : Int)        -- `val >= arr[ind_max]`
        else
          let g := guess lo hi
          if g ≤ (lo : Int) then bin1dLoop guess val arr (lo + 1) hi            -- `ind_guess <= ind_min`: `ind_min += 1; continue`
          else if (hi : Int) ≤ g then bin1dLoop guess val arr lo (hi - 1)       -- `ind_guess >= ind_max`: `ind_max -= 1; continue`
          else
            match arr[g.toNat]? with
            | none => .error .indexError
            | some ag =>
              if val < ag then bin1dLoop guess val arr lo g.toNat          -- `ind_max = ind_guess`
              else bin1dLoop guess val arr g.toNat hi                      -- `ind_min = ind_guess`
termination_by hi - lo
decreasing_by all_goals omega

/-- `get_bin_on_value_1d(val, arr)`: `ind_min = 0`, `ind_max = len(arr) - 1`.  For an empty
list `ind_max = -1`, the first test `ind_max - ind_min <= 1` holds and `arr[0]` raises
`IndexError`. -/
def bin1d (guess : Nat → Nat → Int) (val : α) (arr : List α) : Except Err Int :=
  if arr.length = 0 then .error .indexError
  else bin1dLoop guess val arr 0 (arr.length - 1)

/-! ## `get_bin_on_value` -/

/-- the loop `for ind, array in enumerate(edges): indices.append(get_bin_on_value_1d(arg[ind], array))`
(hist_functions.py:275-279) from axis number `k` on; `guess k` is the guess function of the
search along axis `k`. -/
def binsLoop (guess : Nat → Nat → Nat → Int) : Nat → List α → List (List α) → Except Err (List Int)
  | _, _, [] => .ok []
  | _, [], _ :: _ => .error .indexError      -- `arg[ind]` (not reachable: the lengths were compared)
  | k, x :: xs, arr :: axes => do
    let i ← bin1d (guess k) x arr
    let r ← binsLoop guess (k + 1) xs axes
    pure (i :: r)

/-- `get_bin_on_value(arg, edges)` (hist_functions.py:230-279).
* `arg` not a tuple/list → `[get_bin_on_value_1d(arg, edges)]`; when `edges` is a list of lists
  the first comparison `val < arr[ind_min]` (or `val == …` followed by it) compares a number
  with a list: `TypeError` (`IndexError` for empty edges);
* `len(arg) != len(edges)` → `LenaValueError`;
* otherwise one search per axis; when `edges` is a flat list of numbers, `len(arr)` of a number
  is a `TypeError`. -/
def getBinOnValue (guess : Nat → Nat → Nat → Int) : Coord α → Edges α → Except Err (List Int)
  | .scalar x, .flat arr => do
    let i ← bin1d (guess 0) x arr
    pure [i]
  | .scalar _, .nested axes => if axes.length = 0 then .error .indexError else .error .typeError
  | .tuple xs, .flat arr =>
    if xs.length ≠ arr.length then .error .lenaValueError
    else if arr.length = 0 then .ok []
    else .error .typeError
  | .tuple xs, .nested axes =>
    if xs.length ≠ axes.length then .error .lenaValueError
    else binsLoop guess 0 xs axes

end Order

/-! ## `init_bins`, `histogram.__init__` -/

/-- `init_bins(edges, value)` for a list of axes (hist_functions.py:426-435): the `for` loop
returns in its first iteration — a flat list of `len(arr)-1` values when this is the last axis,
otherwise `len(arr)-1` separately built sub-arrays for the remaining axes. -/
def initBinsAxes (v : β) : List (List α) → Except Err (NArr β)
  | [] => .error .indexError                 -- `edges[0]`
  | [arr] => .ok (.node (List.replicate (arr.length - 1) (.leaf v)))
  | arr :: rest => do
    let sub ← initBinsAxes v rest
    pure (.node (List.replicate (arr.length - 1) sub))

/-- `init_bins(edges, value)` (hist_functions.py:394-435), `deepcopy=False` -/
def initBins (v : β) : Edges α → Except Err (NArr β)
  | .flat arr =>
    if arr.length = 0 then .error .indexError   -- `edges[0]`
    else .ok (.node (List.replicate (arr.length - 1) (.leaf v)))
  | .nested axes => initBinsAxes v axes

/-- the state of a `lena.structures.histogram` that `fill` reads and writes -/
structure Hist (α β : Type) where
  edges : Edges α
  bins : NArr β
  /-- `n_out_of_range` -/
  nOut : β
  dim : Nat
  deriving Repr

/-- `len(bins)`: a number has no `len()` -/
def lenBins : NArr β → Except Err Nat
  | .leaf _ => .error .typeError
  | .node xs => .ok xs.length

section Order
variable [LT α] [LE α] [DecidableLT α] [DecidableLE α] [DecidableEq α] [Zero β]

/-- `histogram.__init__(edges, bins=None, initial_value=init)` (histogram.py:117-164):
check the edges, `n_out_of_range = 0`, `dim`, then either `init_bins` or the shape test of the
given bins: `len(bins)` against `len(edges[0]) - 1` when the edges of all axes are given (nested
format, also for one dimension), against `len(edges) - 1` for flat edges (the code after the fix
8d715e5; before it nested one-dimensional edges accepted only `bins` of length 0 —
notes/C06_defect_1.md). -/
def mkHist (edges : Edges α) (bins : Option (NArr β)) (init : β) : Except Err (Hist α β) := do
  checkEdgesIncreasing edges
  let dim := match edges with
    | .flat _ => 1
    | .nested axes => axes.length
  match bins with
  | none => do
    let b ← initBins init edges
    pure { edges := edges, bins := b, nOut := 0, dim := dim }
  | some b => do
    let n ← lenBins b
    match edges with
    | .nested axes =>                          -- `hasattr(edges[0], "__iter__")`: edges of all axes are given
      match axes with
      | [] => .error .indexError
      | a0 :: _ =>
        if n ≠ a0.length - 1 then .error .lenaValueError
        else pure { edges := edges, bins := b, nOut := 0, dim := dim }
    | .flat arr =>
      if n ≠ arr.length - 1 then .error .lenaValueError
      else pure { edges := edges, bins := b, nOut := 0, dim := dim }

end Order

/-! ## `histogram.fill` -/

section Fill
variable [Add β]

/-- The walk of `histogram.fill` (histogram.py:239-264) through the nested bins along
`indices`: `.ok none` = the weight goes to `n_out_of_range` (a negative index, or an `IndexError`
from `subarr[ind]`), `.ok (some bins')` = the found cell got `+= weight`.
`subarr[ind]` of a number is a `TypeError`; `+=` of a number to a list is a `TypeError`;
`indices[-1]` of an empty index list is an `IndexError`. -/
def fillWalk (w : β) : NArr β → List Int → Except Err (Option (NArr β))
  | _, [] => .error .indexError
  | sub, [i] =>
    if i < 0 then .ok none                       -- underflow
    else
      match sub with
      | .leaf _ => .error .typeError
      | .node xs =>
        match xs[i.toNat]? with
        | none => .ok none                        -- `except IndexError`
        | some (.leaf c) => .ok (some (.node (xs.set i.toNat (.leaf (c + w)))))
        | some (.node _) => .error .typeError
  | sub, i :: j :: is =>
    if i < 0 then .ok none                       -- underflow
    else
      match sub with
      | .leaf _ => .error .typeError
      | .node xs =>
        match xs[i.toNat]? with
        | none => .ok none                        -- overflow (`except IndexError`)
        | some x =>
          match fillWalk w x (j :: is) with
          | .error e => .error e
          | .ok none => .ok none
          | .ok (some x') => .ok (some (.node (xs.set i.toNat x')))

variable [LT α] [LE α] [DecidableLT α] [DecidableLE α] [DecidableEq α]

/-- `histogram.fill(coord, weight)` (histogram.py:233-264) -/
def fill (guess : Nat → Nat → Nat → Int) (h : Hist α β) (coord : Coord α) (w : β) :
    Except Err (Hist α β) := do
  let indices ← getBinOnValue guess coord h.edges
  match ← fillWalk w h.bins indices with
  | none => pure { h with nOut := h.nOut + w }
  | some b => pure { h with bins := b }

/-- a sequence of fills, each with its own guess function; the first exception ends it -/
def fillAll (h : Hist α β) : List ((Nat → Nat → Nat → Int) × Coord α × β) → Except Err (Hist α β)
  | [] => .ok h
  | (g, c, w) :: rest => do
    let h' ← fill g h c w
    fillAll h' rest

end Fill

/-! ## the element `Histogram` -/

/-- state of a `lena.structures.Histogram` element: the wrapped histogram and `_cur_context`
(contexts are opaque values of type `κ` here) -/
structure HistEl (α β κ : Type) where
  hist : Hist α β
  curContext : κ

section Elem
variable [LT α] [LE α] [DecidableLT α] [DecidableLE α] [DecidableEq α] [Add β] [Zero β]

/-- `Histogram.__init__(edges, bins, initial_value=init)` without `make_bins`
(histogram.py:405-435); `emptyCtx` is `{}` -/
def HistEl.new (emptyCtx : κ) (edges : Edges α) (bins : Option (NArr β)) (init : β) :
    Except Err (HistEl α β κ) := do
  let h ← mkHist edges bins init
  pure { hist := h, curContext := emptyCtx }

/-- `Histogram.fill(value)` (histogram.py:437-446): `data, self._cur_context =
get_data_context(value)` — the context of the value, `{}` for a bare value — then
`self._hist.fill(data)` with the default weight `1` (`one`). -/
def HistEl.fill (emptyCtx : κ) (one : β) (guess : Nat → Nat → Nat → Int) (e : HistEl α β κ)
    (data : Coord α) (ctx : Option κ) : Except Err (HistEl α β κ) := do
  let h ← C06.fill guess e.hist data one
  pure { hist := h, curContext := ctx.getD emptyCtx }

/-- a flow of values filled into the element -/
def HistEl.fillAll (emptyCtx : κ) (one : β) (e : HistEl α β κ) :
    List ((Nat → Nat → Nat → Int) × Coord α × Option κ) → Except Err (HistEl α β κ)
  | [] => .ok e
  | (g, c, ctx) :: rest => do
    let e' ← HistEl.fill emptyCtx one g e c ctx
    HistEl.fillAll emptyCtx one e' rest

end Elem

/-! ## extension: `init_bins(..., deepcopy=True)`, `Histogram` with `bins` / `make_bins` / `initial_value`, `reset` -/

/-- `init_bins(edges, value, deepcopy)` for a list of axes with the `deepcopy` flag
(hist_functions.py:422-435): `[copy.deepcopy(value) for _ in range(n)]` against `[value] * n`, and one
recursive call per row.  As values the two are equal (`initBinsD_eq`); which cells are the same
Python object is outside the value model. -/
def initBinsAxesD (deepcopy : Bool) (v : β) : List (List α) → Except Err (NArr β)
  | [] => .error .indexError                 -- `edges[0]`
  | [arr] =>
    if deepcopy then .ok (.node ((List.range (arr.length - 1)).map (fun _ => .leaf v)))
    else .ok (.node (List.replicate (arr.length - 1) (.leaf v)))
  | arr :: rest => do
    let sub ← initBinsAxesD deepcopy v rest
    pure (.node ((List.range (arr.length - 1)).map (fun _ => sub)))

/-- `init_bins(edges, value, deepcopy)` (hist_functions.py:394-435) -/
def initBinsD (deepcopy : Bool) (v : β) : Edges α → Except Err (NArr β)
  | .flat arr =>
    if arr.length = 0 then .error .indexError   -- `edges[0]`
    else if deepcopy then .ok (.node ((List.range (arr.length - 1)).map (fun _ => .leaf v)))
    else .ok (.node (List.replicate (arr.length - 1) (.leaf v)))
  | .nested axes => initBinsAxesD deepcopy v axes

/-- what `Histogram.__init__` stores for `reset()` (histogram.py:423-431): a deep copy of the given
bins, the bins `make_bins()` returns (a function without arguments that builds new bins: a
constant in the value model), the initial value and the edges -/
structure ElCfg (α β : Type) where
  edges : Edges α
  initialBins : Option (NArr β)
  makeBins : Option (NArr β)
  initialValue : β

/-- the bins `Histogram.reset()` (and `__init__`) hands to `histogram(...)`: `make_bins()` if there
is one, else (a deep copy of) the initial bins, else `None` (histogram.py:461-466, 427-428) -/
def ElCfg.startBins (c : ElCfg α β) : Option (NArr β) :=
  match c.makeBins with
  | some m => some m
  | none => c.initialBins

/-- `lena.structures.Histogram` with its construction arguments -/
structure HistEl2 (α β κ : Type) where
  cfg : ElCfg α β
  hist : Hist α β
  curContext : κ

/-- an operation on the element: `fill(value)` with the guess functions of its searches, or `reset()` -/
inductive ElOp (α κ : Type) where
  | fill (g : Nat → Nat → Nat → Int) (c : Coord α) (ctx : Option κ)
  | reset

section Elem2
variable [LT α] [LE α] [DecidableLT α] [DecidableLE α] [DecidableEq α] [Add β] [Zero β]

/-- `Histogram.__init__(edges, bins, make_bins, initial_value)` (histogram.py:405-435): both `bins`
and `make_bins` → `LenaTypeError`; `make_bins()` replaces `bins`; then `histogram(edges, bins,
initial_value)` -/
def HistEl2.new (emptyCtx : κ) (edges : Edges α) (bins makeBins : Option (NArr β)) (init : β) :
    Except Err (HistEl2 α β κ) :=
  if makeBins.isSome && bins.isSome then .error .lenaTypeError
  else do
    let cfg : ElCfg α β := { edges := edges, initialBins := bins, makeBins := makeBins, initialValue := init }
    let h ← mkHist edges cfg.startBins init
    pure { cfg := cfg, hist := h, curContext := emptyCtx }

/-- `Histogram.fill(value)` (histogram.py:437-446) -/
def HistEl2.fill (emptyCtx : κ) (one : β) (guess : Nat → Nat → Nat → Int) (e : HistEl2 α β κ)
    (data : Coord α) (ctx : Option κ) : Except Err (HistEl2 α β κ) := do
  let h ← C06.fill guess e.hist data one
  pure { e with hist := h, curContext := ctx.getD emptyCtx }

/-- `Histogram.reset()` (histogram.py:454-471): bins from `make_bins()`, else a deep copy of the
initial bins, else `None`; a new `histogram(self._edges, bins, self._initial_value)`; `{}` context -/
def HistEl2.reset (emptyCtx : κ) (e : HistEl2 α β κ) : Except Err (HistEl2 α β κ) := do
  let h ← mkHist e.cfg.edges e.cfg.startBins e.cfg.initialValue
  pure { e with hist := h, curContext := emptyCtx }

/-- a history of fills and resets of one element object; the first exception ends it -/
def HistEl2.run (emptyCtx : κ) (one : β) : HistEl2 α β κ → List (ElOp α κ) → Except Err (HistEl2 α β κ)
  | e, [] => .ok e
  | e, .fill g c ctx :: rest => do
    let e' ← HistEl2.fill emptyCtx one g e c ctx
    HistEl2.run emptyCtx one e' rest
  | e, .reset :: rest => do
    let e' ← HistEl2.reset emptyCtx e
    HistEl2.run emptyCtx one e' rest

end Elem2

end Lena.C06
