import LenaModel.Model.C03
import LenaModel.Model.C07Ext
/-! # C03 model, part 3 — `Zip` on values with context, `fields` (lena/flow/zip.py)

`Model/C03.lean` transcribes `Zip._yield` for values without context.  Here the whole of it:
`get_data_context` splits every result into data and context, `_create_data` builds the tuple (a
`namedtuple` when `fields` were given), `_create_context` — transcribed and proved in
`Model/C07Ext.lean` / `Props/C07.lean` (`zipCreateContext`, `zip_context`) — builds the common
context and `context.zip`, and the value is yielded with its context if that is not empty.
`Zip.__init__` with `fields` (zip.py:65-77).

Contexts are slot vectors over the key alphabet of the case (`Model/Val.lean`); `zipKey` is the
number of the key `"zip"`.  Imports `Model/C03.lean`, `Model/C07Ext.lean`. -/

namespace Lena.C03
open Lena Lena.Val Lena.C07

variable {δ κ : Type} [DecidableEq κ]

/-- the `fields` argument: none (or empty), a list of `k` names, a string of `k` names -/
inductive FieldsArg where
  | none
  | list (k : Nat)
  | str (k : Nat)
  deriving Repr

/-- zip.py:66-77 for valid, distinct field names: the arity of the `namedtuple`, if one is made.
`if fields:` — an empty list or string makes none; a list must have as many names as there are
sequences, a string is not checked. -/
def zipFieldsInit (nseq : Nat) : FieldsArg → Except Exc (Option Nat)
  | .none => .ok none
  | .list k => if k = 0 then .ok none else if k ≠ nseq then .error .lenaTypeError else .ok (some k)
  | .str k => if k = 0 then .ok none else .ok (some k)

/-- `Zip.__init__(sequences, name, fields)`: the checks of `zipInit`, then `fields` -/
def zipInitFields (objs : List Obj) (f : FieldsArg) : Except Exc (ZipType × Option Nat) :=
  match zipInit objs with
  | .error e => .error e
  | .ok t =>
    match zipFieldsInit objs.length f with
    | .error e => .error e
    | .ok a => .ok (t, a)

/-- `get_data_context(val)`: data and context (`{}` for a value without context) -/
structure ZItem (δ κ : Type) where
  data : δ
  ctx : Slots κ

/-- a value yielded by `Zip`: the tuple of data, what `_create_context` returned, and whether
the context was empty (then the bare tuple is yielded) -/
structure ZVal (δ κ : Type) where
  data : List δ
  z : ZipCtx κ
  bare : Bool

/-- the body of the `while True` loop of `_yield` after a complete round (zip.py:139-145):
`none` = `TypeError` — from `self._namedtuple(*values)` when the `namedtuple` has another number
of fields than there are sequences, or from `update_nested` when the common context already has
the key `zip` -/
def zipCombine (truthy : κ → Bool) (n zipKey : Nat) (arity : Option Nat) (vals : List (ZItem δ κ)) :
    Option (ZVal δ κ) :=
  -- data = self._create_data([val[0] for val in dc])
  if arity.isSome && arity != some vals.length then none else
  -- context = self._create_context([val[1] for val in dc])
  match zipCreateContext truthy n zipKey (vals.map (·.ctx)) with
  | .ok z => some { data := vals.map (·.data), z := z, bare := !(nonEmpty z.common || z.zip.isSome) }
  | _ => none

/-- values until the first exception -/
def takeOk {β : Type} : List (Option β) → List β × Bool
  | [] => ([], false)
  | none :: _ => ([], true)
  | some v :: r => ((v :: (takeOk r).1), (takeOk r).2)

/-- `Zip._yield(results)`: round by round (`zipYield`: up to the shortest), each complete round
combined into one value; a `TypeError` ends the generator.  Returns the values and whether it
ended with `TypeError`. -/
def zipYieldCtx (truthy : κ → Bool) (n zipKey : Nat) (arity : Option Nat)
    (results : List (List (ZItem δ κ))) : List (ZVal δ κ) × Bool :=
  takeOk ((zipYield results).map (zipCombine truthy n zipKey arity))

/-- the context of the `j`-th sequence's result, recovered from a yielded value: the common
context updated with the `j`-th entry of `context.zip` -/
def ZVal.recover (v : ZVal δ κ) (j : Nat) : Slots κ :=
  match v.z.zip with
  | none => v.z.common
  | some ds => updL v.z.common (ds.getD j [])

/-- `results.append(seq.compute())` for every sequence (zip.py:105-107), with the objects
afterwards (the harness elements compute their results when the method is called) -/
def zipCollectSt {σ α : Type} (get : Ops σ α → σ → List α × σ) :
    List (Branch σ α) → List (List α) × List (Branch σ α)
  | [] => ([], [])
  | b :: rest =>
    let r := get b.ops b.st
    let t := zipCollectSt get rest
    (r.1 :: t.1, { b with st := r.2 } :: t.2)

/-- `list(zip.compute())` twice on the same `Zip` (values without context): `_compute` keeps
nothing between the calls, the second call asks every sequence again -/
def zipTwice {σ α : Type} (get : Ops σ α → σ → List α × σ) (brs : List (Branch σ α)) :
    List (List α) × List (List α) :=
  let r1 := zipCollectSt get brs
  (zipYield r1.1, zipYield (zipCollectSt get r1.2).1)

end Lena.C03
