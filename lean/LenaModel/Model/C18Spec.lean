import LenaModel.Model.C18
/-! # C18 model, part 4 — the specification-side vocabulary of the theorems, executable

The definitions the property theorems are stated with (`endOf`, `eraseCaches`, `EvAfter`, `StoredBy`; `Distinct`,
`NoFilled`, `ModeOk` are in part 1) and Boolean versions of the propositions, so that `drivers/C18.lean` evaluates
every one of them on the generated cases and the harness compares the answers with its own Python computation
(`Props/C18Spec.lean` proves that the Boolean versions decide the propositions).  No imports besides part 1. -/

namespace Lena.C18

/-- how a consumer that makes at most `k` pulls sees the end of a flow -/
def endOf (f : Flow) (k : Nat) : End :=
  if k ≤ f.vals.length then .stopped
  else match f.exc with
    | none => .exhausted
    | some e => .raised e

/-- the pipeline without its caches -/
def eraseCaches : List ElSpec → List ElSpec
  | [] => []
  | .map a r :: els => .map a r :: eraseCaches els
  | .cache _ _ :: els => eraseCaches els

/-- an event of an element placed after position `p` of the pipeline: in particular not a resumption of the
source, and not a step of an element at or before `p` -/
def EvAfter (p : Nat) : Ev → Prop
  | .step j _ => p < j
  | .stepRaise j _ => p < j
  | _ => False

/-- cache `c` was stored by the run `r` started on the file system `fs`: `c` is an unfilled (or `recompute`)
cache of the pipeline with no replayed cache after it, the run reached its normal end, and `xs` is the
*complete* flow that entered the cache, which ended normally -/
def StoredBy (fs : FS) (r : RunSpec) (c : Nat) (xs : List Val) : Prop :=
  ∃ pre rc post, r.els = pre ++ .cache c rc :: post ∧ cacheExists fs c rc = false ∧ NoFilled fs post ∧
    (runPipe r.mode fs r.src r.els r.demand).end_ = .exhausted ∧ pipeFlow fs r.src pre = ⟨xs, none⟩

/-! ## Boolean versions -/

def distinctB (els : List ElSpec) : Bool := decide (cacheIds els).Nodup

def noFilledB (fs : FS) : List ElSpec → Bool
  | [] => true
  | .map _ _ :: els => noFilledB fs els
  | .cache c rc :: els => !cacheExists fs c rc && noFilledB fs els

def modeOkB (mode : Mode) (els : List ElSpec) : Bool :=
  mode != .bare || (match els with | [.cache _ _] => true | _ => false)

def evAfterB (p : Nat) : Ev → Bool
  | .step j _ => decide (p < j)
  | .stepRaise j _ => decide (p < j)
  | _ => false

/-- all `(c, xs)` with `StoredBy fs r c xs`: the caches a complete run fills, with the flow that entered them -/
def storedByList (fs : FS) (r : RunSpec) : List (Nat × List Val) :=
  if (runPipe r.mode fs r.src r.els r.demand).end_ = .exhausted then
    (List.range r.els.length).filterMap (fun p =>
      match (r.els[p]? : Option ElSpec) with
      | some (ElSpec.cache c rc) =>
        if !cacheExists fs c rc && noFilledB fs (r.els.drop (p + 1)) && (pipeFlow fs r.src (r.els.take p)).exc.isNone
        then some (c, (pipeFlow fs r.src (r.els.take p)).vals) else none
      | _ => none)
  else []

/-! ## `drop_cache` when the file cannot be removed -/

inductive DropErr where
  | lenaEnvironmentError
  | osError
  deriving Repr, DecidableEq

/-- `drop_cache` (cache.py:117-130) when `os.remove` fails although something readable is at the name (a directory,
a file in a read-only directory): `if self.cache_exists(): raise LenaEnvironmentError` — and `cache_exists()` is
`False` with `recompute=True` — `raise err` otherwise -/
def dropBlocked (recompute : Bool) : DropErr :=
  if recompute then .osError else .lenaEnvironmentError

end Lena.C18
