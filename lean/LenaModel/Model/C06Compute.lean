import LenaModel.Model.C06
import LenaModel.Model.C06Spec
/-! # C06 model, adversary round — `Histogram.compute()` inside the history of an element

`Histogram.compute` (histogram.py:450-454)

    yield (self._hist, copy.deepcopy(self._cur_context))

is the only public observation of the element's histogram.  The earlier model of the element
(`HistEl2.run`: fills and `reset()`s) had no `compute` operation, the correspondence read the private
attribute `_hist`, and a `compute()` that silently starts a new histogram (adversary candidate C06/4)
was invisible.  Here a history may contain `compute()` at any place:

* `ElOp3` = `fill` | `reset` | `compute`,
* `HistEl2.compute` — what one call yields: the wrapped histogram and the current context; the state
  of the element is NOT changed (the method only reads `self._hist` and `self._cur_context`),
* `HistEl2.run3` — the history; it returns the final state and the list of everything yielded,
* `specYields` — what the property says about the sum of all bins plus `n_out_of_range` of every
  yielded histogram: the running `specSum` at the place of the `compute()`.

Nothing in `Model/C06.lean` / `Model/C06Spec.lean` is changed.  No imports except `LenaModel.Model.*`:
this file is executed by `drivers/C06.lean`. -/

namespace Lena.C06

open Lena

variable {α β κ : Type}

/-- an operation on the element: `fill(value)`, `reset()` or `list(compute())` -/
inductive ElOp3 (α κ : Type) where
  | fill (g : Nat → Nat → Nat → Int) (c : Coord α) (ctx : Option κ)
  | reset
  | compute

/-- the history without its `compute()` calls, as operations of `HistEl2.run` -/
def stripComputes : List (ElOp3 α κ) → List (ElOp α κ)
  | [] => []
  | .fill g c ctx :: r => .fill g c ctx :: stripComputes r
  | .reset :: r => .reset :: stripComputes r
  | .compute :: r => stripComputes r

/-- every operation of a `fill`/`reset` history as an operation of a history with `compute` -/
def ElOp.to3 : ElOp α κ → ElOp3 α κ
  | .fill g c ctx => .fill g c ctx
  | .reset => .reset

/-- `list(Histogram.compute())` (histogram.py:450-454): one pair, the wrapped histogram and (a deep
copy of) the current context.  The element is only read. -/
def HistEl2.compute (e : HistEl2 α β κ) : List (Hist α β × κ) := [(e.hist, e.curContext)]

section Run3
variable [LT α] [LE α] [DecidableLT α] [DecidableLE α] [DecidableEq α] [Add β] [Zero β]

/-- a history of fills, resets and computes of one element object: the final state and everything
that was yielded, in order; the first exception ends it -/
def HistEl2.run3 (emptyCtx : κ) (one : β) :
    HistEl2 α β κ → List (ElOp3 α κ) → Except Err (HistEl2 α β κ × List (Hist α β × κ))
  | e, [] => .ok (e, [])
  | e, .fill g c ctx :: rest => do
    let e' ← HistEl2.fill emptyCtx one g e c ctx
    HistEl2.run3 emptyCtx one e' rest
  | e, .reset :: rest => do
    let e' ← HistEl2.reset emptyCtx e
    HistEl2.run3 emptyCtx one e' rest
  | e, .compute :: rest => do
    let (e', ys) ← HistEl2.run3 emptyCtx one e rest
    pure (e', HistEl2.compute e ++ ys)

end Run3

/-- what the property says about (sum of all bins) + `n_out_of_range` of the histograms yielded along a
history: at every `compute()` the running sum of `specSum` (initial content `s0`, plus one unit per
fill since the last `reset()`) -/
def specYields [Add β] (s0 one : β) : β → List (ElOp3 α κ) → List β
  | _, [] => []
  | s, .fill _ _ _ :: r => specYields s0 one (s + one) r
  | _, .reset :: r => specYields s0 one s0 r
  | s, .compute :: r => s :: specYields s0 one s r

/-- every fill of the history has a coordinate of the right form -/
def ElOps3Proper [LT α] (e : Edges α) (ops : List (ElOp3 α κ)) : Prop :=
  ElOpsProper e (stripComputes ops)

end Lena.C06
