import LenaModel.Model.Val
/-! # C07 model — nested-dictionary algebra (`lena/context/functions.py`)

Transcription of `intersection` (lines 341-418), `difference` (66-108, the repaired version),
`update_recursively` (611-663) and `update_nested` (548-608) on slot vectors (`Model/Val.lean`).

A `for key in d:` loop whose body reads `d[key]`, `other.get(key)` and writes `result[key]` is
the pointwise function `…L` of the per-key body `…O`; the body receives `d.get(key)` and
`other.get(key)` as `Option (Val α)` (`none` = key absent) and returns the binding of `key`
in the result.  `level` is a Python int, here `Int`, compared with `0` and `1` and decremented
exactly as in the code (`-1`, the default, never reaches `0` or `1`).

The leaf type `α` is generic: these functions observe leaves only through `==` and
`isinstance(·, dict)`; the single truth-value test on a computed value (`if res:` in
`difference`) is transcribed with an arbitrary truthiness `truthy : α → Bool` of leaves.

The last sections hold the *specification vocabulary* — containment `⊑` at a level (`contained`),
the paths an update leaves alone (`untouchedL`), the items of `d1` not contained in `d2`
(`diffSpec`), nesting depth (`depthL`) — executable so that the harness can compare its Python
reference of each with it.  Object identities ("deep copy", "may be returned directly") are in
`Model/C07Tok.lean`. -/

namespace Lena.C07
open Lena Lena.Val

variable {α : Type} [DecidableEq α]

/-- outcome of a call that may raise -/
inductive Out (β : Type) where
  | ok (v : β)
  | lenaTypeError            -- `lena.core.LenaTypeError`
  | typeError                -- builtin `TypeError` (an operation on a non-dictionary)
  deriving Repr, DecidableEq

/-- `isinstance(v, dict)` with the dictionary -/
def asDict : Val α → Option (Slots α)
  | .dict l => some l
  | .leaf _ => none

/-! ## intersection -/

/-- the `if level == 0:` branch inside the loop over `dicts[1:]` (lines 395-399):
`if d == res and d: continue` (keep `res`) `else: return {}` -/
def interLevel0 (res d : Slots α) : Slots α :=
  if d = res ∧ nonEmpty d = true then res else emptyLike res

mutual
/-- body of `for key in res:` (lines 401-412) for one key; first argument `res.get(key)`,
second `d.get(key)`; result: the binding of `key` in `res` after the deletions.
The recursive call `intersection(res[key], d[key], level=level-1)` is inlined: its own
`level == 0` test, its loop over the single further dictionary, and its `if not res: return res`
(which returns the same value as the normal `return res`); `copy.deepcopy` is the identity on
values. -/
def interO (lv : Int) : Option (Val α) → Option (Val α) → Option (Val α)
  | none, _ => none                          -- key not in res
  | some _, none => none                     -- `else: to_delete.append(key)`
  | some v, some w =>
    if w = v then some v                     -- `d[key] != res[key]` is false: untouched
    else if lv = 1 then none                 -- `if level == 1: to_delete.append(key)`
    else match v, w with
      | .dict x, .dict y =>                  -- both dictionaries: `res[key] = intersection(…, level-1)`
        -- (the callee's `if level == 0:` test is transcribed although it is dead here — `lv = 1` was tested just above,
        -- so `lv - 1 = 0` is false — exactly as it is dead in the Python for this call)
        some (.dict (if lv - 1 = 0 then interLevel0 x y else interL (lv - 1) x y))
      | _, _ => none                         -- `else: to_delete.append(key)`
/-- the loop `for key in res:` followed by `for key in to_delete: del res[key]` -/
def interL (lv : Int) : Slots α → Slots α → Slots α
  | [], _ => []
  | x :: r, [] => interO lv x none :: interL lv r []
  | x :: r, y :: r' => interO lv x y :: interL lv r r'
end

/-- one iteration of `for d in dicts[1:]:` without the early return -/
def inter2 (lv : Int) (res d : Slots α) : Slots α :=
  if lv = 0 then interLevel0 res d else interL lv res d

/-- the loop `for d in dicts[1:]:` (lines 394-418) with its two early returns -/
def interFold (lv : Int) : Slots α → List (Slots α) → Slots α
  | res, [] => res
  | res, d :: ds =>
    if lv = 0 then
      if d = res ∧ nonEmpty d = true then interFold lv res ds   -- `continue`
      else emptyLike res                                        -- `return {}`
    else
      let res' := interL lv res d
      if nonEmpty res' = true then interFold lv res' ds
      else res'                                                 -- `if not res: return res`

/-- `intersection(*dicts, level=lv)` on dictionaries over `n` keys -/
def interN (n : Nat) (lv : Int) : List (Slots α) → Slots α
  | [] => Val.empty n                       -- `if not dicts: return {}`
  | d0 :: ds => interFold lv d0 ds          -- `res = copy.deepcopy(dicts[0])`

/-- `intersection(*args, level=lv)` for arbitrary values: `LenaTypeError` unless all are
dictionaries (lines 379-383) -/
def intersection (n : Nat) (lv : Int) (args : List (Val α)) : Out (Slots α) :=
  match args.mapM asDict with
  | none => .lenaTypeError
  | some ds => .ok (interN n lv ds)

/-! ## difference (repaired code) -/
section diff
variable (truthy : α → Bool)

/-- Python `bool(v)`: a dictionary is true iff it has a key; leaves by `truthy` -/
def truthyV : Val α → Bool
  | .dict l => nonEmpty l
  | .leaf a => truthy a

mutual
/-- `difference(d1, d2, level)` (lines 66-108) -/
def diffV (lv : Int) : Val α → Val α → Val α
  | .dict x, .dict y =>
    if x = y then .dict (emptyLike x)        -- `if d1 == d2: return {}`
    else if lv = 0 then .dict x              -- `elif level == 0: return d1`
    else .dict (diffL lv x y)
  | v, _ => v                                -- not both dictionaries: `return d1`
/-- body of `for key in d1:` for one key: the binding of `key` in `result` -/
def diffO (lv : Int) : Option (Val α) → Option (Val α) → Option (Val α)
  | none, _ => none
  | some v, none => some v                   -- `if key not in d2: result[key] = d1[key]`
  | some v, some w =>
    if v = w then none                       -- `elif d1[key] != d2[key]` is false
    else if lv ≠ 1 ∧ isDict v = true ∧ isDict w = true then
      let res := diffV (lv - 1) v w
      if truthyV truthy res = true then some res else none      -- `if res: result[key] = res`
    else some v                              -- `else: result[key] = d1[key]`
def diffL (lv : Int) : Slots α → Slots α → Slots α
  | [], _ => []
  | x :: r, [] => diffO lv x none :: diffL lv r []
  | x :: r, y :: r' => diffO lv x y :: diffL lv r r'
end

/-- `difference(d1, d2, level)` for two dictionaries -/
def difference (lv : Int) (d1 d2 : Slots α) : Slots α :=
  if d1 = d2 then emptyLike d1 else if lv = 0 then d1 else diffL truthy lv d1 d2

end diff

/-! ## update_recursively -/

mutual
/-- body of `for key, val in other.items():` (lines 654-663); first argument `d.get(key)`,
second `other.get(key)`; result: the binding of `key` in `d` afterwards -/
def updO : Option (Val α) → Option (Val α) → Option (Val α)
  | d, none => d                                     -- key not in other: untouched
  | _, some (.leaf a) => some (.leaf a)              -- `if not isinstance(val, dict): d[key] = val`
  | some (.dict x), some (.dict y) => some (.dict (updL x y))
  | some (.leaf _), some (.dict y) =>                -- `d[key] = {}`, then update it
    some (.dict (updL (emptyLike y) y))
  | none, some (.dict y) => some (.dict y)           -- `else: d[key] = val`
def updL : Slots α → Slots α → Slots α
  | d, [] => d
  | [], y :: r' => updO none y :: updL [] r'
  | x :: r, y :: r' => updO x y :: updL r r'
end

/-- `update_recursively(d, other)` for arbitrary values, returning the new value of `d`:
`LenaTypeError` unless both are dictionaries (lines 650-653).  (A string `other` is converted
by `str_to_dict` first; that belongs to C08.) -/
def updateRecursively (d other : Val α) : Out (Slots α) :=
  match d, other with
  | .dict x, .dict y => .ok (updL x y)
  | _, _ => .lenaTypeError

/-! ## update_nested -/

mutual
/-- `get_most_nested_subdict_with(key, d)` followed by `other_most_nested[key] = dk`,
returning the modified `d`.  `key in d` on a value that is not a dictionary raises `TypeError`
for `None`/numbers, and for a string or list it is a membership test after which either
`d[key]` or `…[key] = …` raises `TypeError`: every non-dictionary in the chain gives
`TypeError` before anything was modified.  The test `d in nested_dicts` (a dictionary equal to
one it is nested in) is false for every finite value. -/
def nestV (k : Nat) (dk : Val α) : Val α → Out (Val α)
  | .leaf _ => .typeError
  | .dict y =>
    match nestL k dk k y with
    | .ok r => .ok (.dict r)
    | .lenaTypeError => .lenaTypeError
    | .typeError => .typeError
/-- walk to slot `j` of the vector -/
def nestL (k : Nat) (dk : Val α) : Nat → Slots α → Out (Slots α)
  | j, [] => .ok (setSlot [] j (some dk))            -- (key beyond the alphabet: absent)
  | 0, none :: r => .ok (some dk :: r)               -- `key not in d`: `return d`; `d[key] = dk`
  | 0, some v :: r =>                                -- `key in d`: `d = d[key]`
    match nestV k dk v with
    | .ok v' => .ok (some v' :: r)
    | .lenaTypeError => .lenaTypeError
    | .typeError => .typeError
  | j + 1, x :: r =>
    match nestL k dk j r with
    | .ok r' => .ok (x :: r')
    | .lenaTypeError => .lenaTypeError
    | .typeError => .typeError
end

/-- `update_nested(key, d, other)` (lines 603-608) returning the new `d`
(whose `d[key]` is the modified `other`) -/
def updateNested (k : Nat) (d other : Slots α) : Out (Slots α) :=
  match getSlot d k with
  | some dk =>                                        -- `if key in d:`
    match nestL k dk k other with
    | .ok other' => .ok (setSlot d k (some (.dict other')))
    | .lenaTypeError => .lenaTypeError
    | .typeError => .typeError
  | none => .ok (setSlot d k (some (.dict other)))    -- `d[key] = other`

mutual
/-- number of nested `key`s: how often `key in d` is true in `get_most_nested_subdict_with`
(0 for a non-dictionary) -/
def nestDepth (k : Nat) : Val α → Nat
  | .leaf _ => 0
  | .dict y => nestDepthL k k y
def nestDepthL (k : Nat) : Nat → Slots α → Nat
  | _, [] => 0
  | 0, none :: _ => 0
  | 0, some v :: _ => 1 + nestDepth k v
  | j + 1, _ :: r => nestDepthL k j r
end

/-! ## specification vocabulary: containment at a level

`a ⊑ b` at level `lv`: every key of `a` is in `b` with an equal value or — when the level
allows one more recursion — both values are dictionaries and the first is contained in the
second at `level - 1`.  Level 1 compares values without recursion; level 0 compares whole
dictionaries (`contained`, below). -/

mutual
def contO (lv : Int) : Option (Val α) → Option (Val α) → Bool
  | none, _ => true
  | some _, none => false
  | some v, some w =>
    decide (v = w) ||
      (decide (lv ≠ 1) && match v, w with
        | .dict x, .dict y => contL (lv - 1) x y
        | _, _ => false)
def contL (lv : Int) : Slots α → Slots α → Bool
  | [], _ => true
  | x :: r, [] => contO lv x none && contL lv r []
  | x :: r, y :: r' => contO lv x y && contL lv r r'
end

/-- containment of dictionaries at `level`; at level 0 no recursion at all is allowed, not even
into the dictionary itself: `a ⊑₀ b` iff `a == b`, or `a` is the empty dictionary (which is
contained in everything) -/
def contained (lv : Int) (a b : Slots α) : Bool :=
  if lv = 0 then decide (a = b) || !nonEmpty a else contL lv a b

/-! ## specification vocabulary: paths that an update leaves alone -/

/-- `other` does not overwrite the path `p`: walking `p` in `other` meets an absent key while
still inside dictionaries of `other` (the empty path is the dictionary itself, which an update
changes in general; a path through or onto a leaf of `other` is overwritten) -/
def untouchedL : Slots α → List Nat → Bool
  | _, [] => false
  | o, k :: p =>
    match getSlot o k with
    | none => true
    | some (.leaf _) => false
    | some (.dict y) => untouchedL y p

/-! ## specification vocabulary: the items of `d1` not contained in `d2`

Written with containment only (no truth-value test): the binding of a key in "the items of `d1`
not contained in `d2`" is absent when the item is contained in `d2`; otherwise it is the item
itself, except that for two dictionaries (when the level allows one more recursion) it is the
part of `d1[key]` not contained in `d2[key]`. -/

mutual
def diffSpecO (lv : Int) : Option (Val α) → Option (Val α) → Option (Val α)
  | none, _ => none
  | some v, none => some v
  | some v, some w =>
    if contO lv (some v) (some w) = true then none
    else match v, w with
      | .dict x, .dict y => if lv = 1 then some v else some (.dict (diffSpecL (lv - 1) x y))
      | _, _ => some v
def diffSpecL (lv : Int) : Slots α → Slots α → Slots α
  | [], _ => []
  | x :: r, [] => diffSpecO lv x none :: diffSpecL lv r []
  | x :: r, y :: r' => diffSpecO lv x y :: diffSpecL lv r r'
end

/-- the items of `a` not contained in `b` at `level`; at level 0 (no recursion at all, see
`contained`) that is nothing when `a == b` and the whole of `a` otherwise -/
def diffSpec (lv : Int) (a b : Slots α) : Slots α :=
  if lv = 0 then (if a = b then emptyLike a else a) else diffSpecL lv a b

/-! ## specification vocabulary: nesting depth -/

mutual
/-- nesting depth: 0 for a leaf, 1 for a dictionary of leaves (or an empty one), … -/
def depthV : Val α → Nat
  | .leaf _ => 0
  | .dict l => 1 + depthL l
/-- the largest depth of an item (0 when there is none) -/
def depthL : Slots α → Nat
  | [] => 0
  | none :: r => depthL r
  | some v :: r => max (depthV v) (depthL r)
end

end Lena.C07
