/-! # C14 model — variables (`lena/variables/variable.py`)

Transcription of `Variable.__init__` (lines 54-123), `Variable.__call__` (125-145),
`Variable._update_context` (180-225), `Combine.__init__` (251-305), `Compose.__init__` (315-372) and
`lena.flow.get_data_context` (`lena/flow/functions.py` 32-56).

## Values

`V := int i | str s | seq isTuple l | dict slots` — what a context can hold here: opaque scalars
(`int`: Python ints, and — encoded by the harness as codes beyond `±10⁶` — `None`, `True`/`False` and floats, which
the transcribed code observes only through truthiness, hashability and "is not a str/list/dict", exactly like an
int; codes `≤ -10⁶` are the falsy ones), strings, Python lists (`seq false`) and tuples (`seq true`), and dictionaries.  As in
`Model/Val.lean` **a dictionary is a slot vector over the key alphabet of the case**
(`names : List String`, the sorted strings that occur as keys or as `type` values in a case):
slot `i` holds the binding of key `names[i]`, `none` = key absent.  Structural equality therefore is
Python's order-insensitive `dict.__eq__`.  `Model/Val.lean` is not reused because `compose` is a *list*
of strings and `combine` a *tuple* of dictionaries, which need the `seq` constructor inside the nested
type.  Strings are real strings because `_update_context` uses the *value* of `type` as a key
(`key names s` is the slot of the string `s`) and `Combine` joins names with `"_"`.

`copy.deepcopy` is the identity on values.  Assumptions (stated in the harness module): dictionaries
have string keys only (so an `int` is never a key that is present); getters are total functions.

## The condition of `_update_context` (line 196) in two versions

`fx = false`: `if cvar and ("type" in cvar):` — the tree as pinned (and after `78845aa`).
`fx = true` : `if cvar and ("type" in cvar or "compose" in cvar):` — `notes/C14_defect_1.patch`.
Everything else is common.  The harness finds out which of the two /repo implements and asks the
driver for that one. -/

namespace Lena.C14

inductive V where
  | int (i : Int)
  | str (s : String)
  | seq (isTuple : Bool) (l : List V)
  | dict (l : List (Option V))
  deriving Repr

/-- the slots of one dictionary -/
abbrev Slots := List (Option V)

/-- Python exceptions that the transcribed code can raise -/
inductive Err where
  | lenaTypeError        -- `lena.core.LenaTypeError`
  | lenaAttributeError   -- `lena.core.LenaAttributeError` (`var.name` when `name` is missing)
  | typeError            -- builtin `TypeError`
  | assertionError       -- a failed `assert`
  | unmodelled           -- a non-string hashable `type` (would become a non-string dictionary key)
  | attributeError       -- builtin `AttributeError` (`__getattr__` of a name that starts with `_`)
  | indexError           -- builtin `IndexError` (`Combine.__getitem__`)
  deriving Repr, DecidableEq

namespace V

/-! ## decidable structural equality (`deriving DecidableEq` does not handle the nested type) -/
mutual
def beq : V → V → Bool
  | int a, int b => decide (a = b)
  | str a, str b => decide (a = b)
  | seq t a, seq u b => decide (t = u) && beqS a b
  | dict a, dict b => beqL a b
  | _, _ => false
def beqS : List V → List V → Bool
  | [], [] => true
  | x :: r, y :: r' => beq x y && beqS r r'
  | _, _ => false
def beqL : Slots → Slots → Bool
  | [], [] => true
  | x :: r, y :: r' => beqO x y && beqL r r'
  | _, _ => false
def beqO : Option V → Option V → Bool
  | none, none => true
  | some v, some w => beq v w
  | _, _ => false
end

mutual
theorem beq_iff : ∀ a b : V, beq a b = true ↔ a = b
  | int a, int b => by simp [beq]
  | str a, str b => by simp [beq]
  | seq t a, seq u b => by simp [beq, beqS_iff a b]
  | dict a, dict b => by simp [beq, beqL_iff a b]
  | int _, str _ => by simp [beq]
  | int _, seq _ _ => by simp [beq]
  | int _, dict _ => by simp [beq]
  | str _, int _ => by simp [beq]
  | str _, seq _ _ => by simp [beq]
  | str _, dict _ => by simp [beq]
  | seq _ _, int _ => by simp [beq]
  | seq _ _, str _ => by simp [beq]
  | seq _ _, dict _ => by simp [beq]
  | dict _, int _ => by simp [beq]
  | dict _, str _ => by simp [beq]
  | dict _, seq _ _ => by simp [beq]
theorem beqS_iff : ∀ a b : List V, beqS a b = true ↔ a = b
  | [], [] => by simp [beqS]
  | x :: r, y :: r' => by simp [beqS, beq_iff x y, beqS_iff r r']
  | [], _ :: _ => by simp [beqS]
  | _ :: _, [] => by simp [beqS]
theorem beqL_iff : ∀ a b : Slots, beqL a b = true ↔ a = b
  | [], [] => by simp [beqL]
  | x :: r, y :: r' => by simp [beqL, beqO_iff x y, beqL_iff r r']
  | [], _ :: _ => by simp [beqL]
  | _ :: _, [] => by simp [beqL]
theorem beqO_iff : ∀ a b : Option V, beqO a b = true ↔ a = b
  | none, none => by simp [beqO]
  | some v, some w => by simp [beqO, beq_iff v w]
  | none, some _ => by simp [beqO]
  | some _, none => by simp [beqO]
end

instance instDecidableEq : DecidableEq V := fun a b =>
  if h : beq a b = true then isTrue ((beq_iff a b).1 h)
  else isFalse (fun e => h ((beq_iff a b).2 e))

/-! ## observations Python makes of a value -/

/-- `bool(v)`: non-zero number, non-empty string / list / tuple / dictionary -/
def truthy : V → Bool
  | int i => i != 0 && decide (-1000000 < i)   -- codes `≤ -10⁶` are the falsy opaque scalars `None`, `False`, `0.0`
  | str s => s != ""
  | seq _ l => !l.isEmpty
  | dict l => l.any Option.isSome

mutual
/-- `hash(v)` succeeds: lists and dictionaries are unhashable, a tuple is hashable iff its items are -/
def hashable : V → Bool
  | int _ => true
  | str _ => true
  | seq true l => hashableS l
  | seq false _ => false
  | dict _ => false
def hashableS : List V → Bool
  | [] => true
  | x :: r => hashable x && hashableS r
end

end V

open V

/-! ## dictionaries as slot vectors -/

/-- `{}` over an alphabet of `n` keys -/
def emptyD (n : Nat) : Slots := List.replicate n none

/-- `d.get(key)` for key number `i` (`none` = absent; also beyond the end of the vector) -/
def getSlot (l : Slots) (i : Nat) : Option V :=
  match l[i]? with
  | some x => x
  | none => none

/-- `d[key] = v` / `del d[key]` for key number `i`; a vector that is too short is padded -/
def setSlot : Slots → Nat → Option V → Slots
  | [], 0, v => [v]
  | [], i + 1, v => none :: setSlot [] i v
  | _ :: r, 0, v => v :: r
  | x :: r, i + 1, v => x :: setSlot r i v

/-- `key in d` -/
def hasKey (l : Slots) (i : Nat) : Bool := (getSlot l i).isSome

/-- `d.update(other)`: a binding of `other` wins -/
def dictUpdate : Slots → Slots → Slots
  | [], o => o
  | d, [] => d
  | x :: r, y :: r' => (match y with | some v => some v | none => x) :: dictUpdate r r'

/-- the slot of the string `s` (`names.length` when `s` is not in the alphabet: absent everywhere) -/
def key (names : List String) (s : String) : Nat := names.idxOf s

/-- `pat in s` for strings: substring test -/
def hasSub (pat : List Char) : List Char → Bool
  | [] => pat.isEmpty
  | c :: r => pat.isPrefixOf (c :: r) || hasSub pat r

/-- `"_".join(parts)` -/
def joinUnderscore : List String → String
  | [] => ""
  | [s] => s
  | s :: r => s ++ "_" ++ joinUnderscore r

section withNames
variable (names : List String)

def kName := key names "name"
def kType := key names "type"
def kCompose := key names "compose"
def kVariable := key names "variable"
def kDim := key names "dim"
def kCombine := key names "combine"
def kGetter := key names "getter"

/-- `"type" in cvar` (or `"compose" in cvar`) for a *non-dictionary* truthy `cvar`: `TypeError` for a
number; substring test for a string; membership test for a list or tuple. -/
def nonDictContains (word : String) : V → Except Err Bool
  | .int _ => .error .typeError               -- argument of type 'int' is not iterable
  | .str s => .ok (hasSub word.toList s.toList)
  | .seq _ l => .ok (l.contains (.str word))
  | .dict _ => .ok false                      -- not used for dictionaries

/-- one iteration of `for type_ in composed:` (lines 223-225):
`if type_ not in cvar and type_ in old_cvar: cvar[type_] = old_cvar[type_]`.
`type_ not in cvar` hashes `type_` first: `TypeError` for a list, a dictionary or a tuple that holds
one; a number or a tuple is never a key that is present (string keys only). -/
def preserveStep (old : Slots) (acc : Slots) (t : V) : Except Err Slots :=
  match t with
  | .str s =>
    let k := key names s
    match getSlot acc k, getSlot old k with
    | none, some x => .ok (setSlot acc k (some x))
    | _, _ => .ok acc
  | other => if hashable other then .ok acc else .error .typeError

/-- the loop `for type_ in composed:` -/
def preserveLoop (old : Slots) : Slots → List V → Except Err Slots
  | acc, [] => .ok acc
  | acc, t :: r =>
    match preserveStep names old acc t with
    | .ok acc' => preserveLoop old acc' r
    | .error e => .error e

/-- lines 197-213, executed when `cvar` is a dictionary `d` that passed the test of line 196;
result: `composed` (= the list object `cvar["compose"]` after the in-place `extend`/`append`).
A missing `type` when `compose` is missing cannot happen after the test of line 196; Python would
raise `KeyError`, which is outside `Err`, so that unreachable branch reports `unmodelled`. -/
def composedOf (d : Slots) (vc : Slots) : Except Err (List V) :=
  -- `if "type" in var_context: cur_type = var_context["type"] else: cur_type = []`
  let curType : Option V := getSlot vc (kType names)
  -- `if "compose" in cvar: assert isinstance(cvar["compose"], list) else: cvar["compose"] = [cvar["type"]]`
  let base : Except Err (List V) :=
    match getSlot d (kCompose names) with
    | some (.seq false l) => .ok l
    | some _ => .error .assertionError
    | none =>
      match getSlot d (kType names) with
      | some t => .ok [t]
      | none => .error .unmodelled
  match base with
  | .error e => .error e
  | .ok l =>
    -- `if "compose" in var_context: assert isinstance(…, list); cvar["compose"].extend(var_context["compose"])`
    match getSlot vc (kCompose names) with
    | some (.seq false l2) => .ok (l ++ l2)
    | some _ => .error .assertionError
    | none =>
      -- `else: if cur_type: cvar["compose"].append(cur_type)`
      match curType with
      | some t => if truthy t then .ok (l ++ [t]) else .ok l
      | none => .ok l

/-- lines 215-225 for a non-empty `composed`: `old` is the mutated old `cvar`
(its `compose` is the list `composed`), `vc` the new variable context. -/
def finish (old : Slots) (vc : Slots) (composed : List V) : Except Err Slots :=
  if composed.isEmpty then .ok vc          -- `if composed:` is false
  else preserveLoop names old (setSlot vc (kCompose names) (some (.seq false composed))) composed

/-- `Variable._update_context(context, var_context)` seen on `context["variable"]`:
first argument `context.get("variable")`, result the new value of `context["variable"]`
(the method changes no other key of `context`, see `updateContext`). -/
def updateVar (fx : Bool) (cvar : Option V) (vc : Slots) : Except Err Slots :=
  match cvar with
  | none => .ok vc                                   -- `cvar` is `None`
  | some c =>
    if !truthy c then .ok vc                         -- `cvar and …` is false
    else match c with
      | .dict d =>
        if hasKey d (kType names) || (fx && hasKey d (kCompose names)) then
          match composedOf names d vc with
          | .error e => .error e
          | .ok composed =>
            finish names (setSlot d (kCompose names) (some (.seq false composed))) vc composed
        else .ok vc
      | other =>
        -- a truthy non-dictionary: if the containment test succeeds, the following subscription
        -- `cvar["type"]` / `cvar["compose"]` raises `TypeError`
        match nonDictContains "type" other with
        | .error e => .error e
        | .ok true => .error .typeError
        | .ok false =>
          if fx then
            match nonDictContains "compose" other with
            | .error e => .error e
            | .ok true => .error .typeError
            | .ok false => .ok vc
          else .ok vc

/-- `Variable._update_context(context, var_context)` on the whole context:
only `context["variable"]` is assigned (line 216). -/
def updateContext (fx : Bool) (ctx : Slots) (vc : Slots) : Except Err Slots :=
  match updateVar names fx (getSlot ctx (kVariable names)) vc with
  | .ok r => .ok (setSlot ctx (kVariable names) (some (.dict r)))
  | .error e => .error e

/-! ## variables -/

/-- a variable: its getter and its `var_context` -/
structure Variable (D : Type) where
  getter : D → D
  varCtx : Slots

/-- a flow value: bare data or a `(data, context)` pair -/
inductive Value (D : Type) where
  | bare (d : D)
  | pair (d : D) (ctx : Slots)

/-- raw Python data as getters receive and return it: a number, a tuple, or (inside a tuple) a dictionary -/
inductive Raw where
  | int (i : Int)
  | tuple (l : List Raw)
  | dict (s : Slots)

/-- `lena.flow._has_context(value)` (`lena/flow/functions.py` 48-56): a tuple of length 2 whose second element is a
dictionary -/
def hasContext : Raw → Bool
  | .tuple [_, .dict _] => true
  | _ => false

/-- how `get_data_context` reads a raw value: `(value[0], value[1])` if `_has_context(value)`, else a value without
context (lines 42-45) -/
def rawValue : Raw → Value Raw
  | .tuple [d, .dict c] => .pair d c
  | r => .bare r

/-- `lena.flow.get_data_context(value)`: `(value, {})` for a value without context -/
def getDataContext {D : Type} : Value D → D × Slots
  | .bare d => (d, emptyD names.length)
  | .pair d c => (d, c)

/-- `Variable.__call__(value)` (lines 135-145): the getter on the data, `_update_context` with a deep
copy of `var_context` on the context; the result is always a `(data, context)` pair. -/
def call {D : Type} (fx : Bool) (v : Variable D) (x : Value D) : Except Err (D × Slots) :=
  let (d, c) := getDataContext names x
  match updateContext names fx c v.varCtx with
  | .ok c' => .ok (v.getter d, c')
  | .error e => .error e

/-- the variables `v₁ … vₙ` applied one after the other (what `Sequence(v₁, …, vₙ)` does with a
value: every variable is wrapped in `Call`, whose `run` yields `el(value)`); the empty chain is only
the end of the recursion (a value that went through a variable is a pair) -/
def seqCall {D : Type} (fx : Bool) : List (Variable D) → Value D → Except Err (D × Slots)
  | [], x => .ok (getDataContext names x)
  | v :: r, x =>
    match call names fx v x with
    | .ok (d, c) => seqCall fx r (.pair d c)
    | .error e => .error e

/-- what a constructor can be given as `getter` -/
inductive GetterArg (D : Type) where
  | fn (f : D → D)
  | variable        -- a `Variable` instance: `LenaTypeError` (line 93)
  | notCallable     -- `LenaTypeError` (line 98)

/-- `Variable.__init__(name, getter, type, **kwargs)` (lines 93-123).  `kw` has no `name`, `getter`,
`type` (they are named parameters). -/
def mkVariable {D : Type} (name : V) (g : GetterArg D) (ty : V) (kw : Slots) : Except Err (Variable D) :=
  match g with
  | .variable => .error .lenaTypeError
  | .notCallable => .error .lenaTypeError
  | .fn f =>
    -- `var_context = {"name": name}; var_context.update(**kwargs)`
    let varc := dictUpdate (setSlot (emptyD names.length) (kName names) (some name)) kw
    if !truthy ty then .ok ⟨f, varc⟩                      -- `if type:` is false
    else match ty with
      | .str s =>
        -- `varc.update({type: deepcopy(varc)}); varc["type"] = type`
        .ok ⟨f, setSlot (setSlot varc (key names s) (some (.dict varc))) (kType names) (some (.str s))⟩
      | other => if hashable other then .error .unmodelled else .error .typeError

/-- `var.name` (`__getattr__`, lines 147-160) -/
def nameOf {D : Type} (v : Variable D) : Except Err V :=
  match getSlot v.varCtx (kName names) with
  | some x => .ok x
  | none => .error .lenaAttributeError

/-- the loop of `Compose.__init__` (lines 350-356): `compose = {"variable": deepcopy(vars[0].var_context)}`,
then `_update_context(compose, deepcopy(var.var_context))` for the others; result `compose["variable"]` -/
def composeFold (fx : Bool) : Slots → List Slots → Except Err Slots
  | acc, [] => .ok acc
  | acc, vc :: r =>
    match updateVar names fx (some (.dict acc)) vc with
    | .ok acc' => composeFold fx acc' r
    | .error e => .error e

/-- the getter of a `Compose`: `for var in self._vars: value = var.getter(value)` -/
def composeGetter {D : Type} (vars : List (Variable D)) (x : D) : D :=
  vars.foldl (fun x v => v.getter x) x

/-- `Compose.__init__(*args, **kwargs)` (lines 329-372); an argument that is not a `Variable` is `none`. -/
def mkCompose {D : Type} (fx : Bool) (args : List (Option (Variable D))) (kw : Slots) : Except Err (Variable D) :=
  if !args.all Option.isSome then .error .lenaTypeError
  else
    let vars := args.filterMap id
    match vars with
    | [] => .error .lenaTypeError                         -- `if not args`
    | v1 :: rest =>
      if hasKey kw (kGetter names) then .error .lenaTypeError
      else
        match composeFold names fx v1.varCtx (rest.map Variable.varCtx) with
        | .error e => .error e
        | .ok compose =>
          -- `name = kwargs.pop("name")` or `self._vars[-1].name`; the value is only passed to
          -- `super().__init__`, whose `var_context` is replaced in line 372
          let nm : Except Err V :=
            match getSlot kw (kName names) with
            | some x => .ok x
            | none => nameOf names ((v1 :: rest).getLast (by simp))
          match nm with
          | .error e => .error e
          | .ok _ =>
            -- `var_context.update(kwargs)` (without the popped `name`)
            .ok ⟨composeGetter vars, dictUpdate compose (setSlot kw (kName names) none)⟩

/-- the names of the combined variables (`[var.name for var in self._vars]`) joined with `"_"`:
`LenaAttributeError` for a missing name, `TypeError` of `str.join` for a name that is not a string -/
def joinedName {D : Type} (vars : List (Variable D)) : Except Err V :=
  let rec namesOf : List (Variable D) → Except Err (List V)
    | [] => .ok []
    | v :: r =>
      match nameOf names v with
      | .error e => .error e
      | .ok x => match namesOf r with
        | .error e => .error e
        | .ok xs => .ok (x :: xs)
  let rec strs : List V → Option (List String)
    | [] => some []
    | .str s :: r => (strs r).map (s :: ·)
    | _ :: _ => none
  match namesOf vars with
  | .error e => .error e
  | .ok xs =>
    match strs xs with
    | some ss => .ok (.str (joinUnderscore ss))
    | none => .error .typeError

/-- `Combine.__init__(*args, **kwargs)` (lines 270-305); `tup` builds the tuple of the getters' results.
A `getter` among the keyword arguments reaches `Variable.__init__` twice (`TypeError`); a `type` among
them is the `type` parameter of `Variable.__init__`. -/
def mkCombine {D : Type} (tup : List D → D) (args : List (Option (Variable D))) (kw : Slots) :
    Except Err (Variable D) :=
  if args.isEmpty then .error .lenaTypeError
  else if !args.all Option.isSome then .error .lenaTypeError
  else
    let vars := args.filterMap id
    let getter : D → D := fun x => tup (vars.map (fun v => v.getter x))
    -- `name = kwargs.pop("name", None); if name is None: name = "_".join(…)`
    let nm : Except Err V :=
      match getSlot kw (kName names) with
      | some x => .ok x
      | none => joinedName names vars
    match nm with
    | .error e => .error e
    | .ok name =>
      let kw1 := setSlot kw (kName names) none
      if hasKey kw1 (kDim names) then .error .assertionError        -- `assert "dim" not in kwargs`
      else
        -- `var_context.update(kwargs); var_context.update({"dim": …}); var_context["combine"] = tuple(…)`
        let vc := setSlot (setSlot (dictUpdate (emptyD names.length) kw1) (kDim names) (some (.int vars.length)))
                    (kCombine names) (some (.seq true (vars.map (fun v => .dict v.varCtx))))
        if hasKey vc (kGetter names) then .error .typeError            -- multiple values for `getter`
        else
          -- `super().__init__(name=name, getter=getter, **var_context)`
          let ty : V := (getSlot vc (kType names)).getD (.str "")
          mkVariable names name (.fn getter) ty (setSlot vc (kType names) none)

/-! ## attribute access (`__getattr__`, `__setattr__`, `Combine.__getitem__`) and the patched `Compose` -/

/-- `var.<attr>` for an attribute that normal lookup does not find (lines 147-160; `getter`, `var_context`,
`_vars` and the methods are found by normal lookup and never reach `__getattr__`): `AttributeError` for a name
that starts with `_`, else `var_context[attr]`, `LenaAttributeError` when it is missing -/
def getAttr {D : Type} (v : Variable D) (attr : String) : Except Err V :=
  if attr.startsWith "_" then .error .attributeError
  else
    match getSlot v.varCtx (key names attr) with
    | some x => .ok x
    | none => .error .lenaAttributeError

/-- `var.<attr> = value` (`__setattr__`, lines 162-164): `self.var_context[attr] = value`, for every name -/
def setAttr {D : Type} (v : Variable D) (attr : String) (x : V) : Variable D :=
  ⟨v.getter, setSlot v.varCtx (key names attr) (some x)⟩

/-- `Compose.__init__` with `notes/C14_defect_2.patch`: `var_context["name"] = name` after
`var_context.update(kwargs)`; without the keyword `name` is the last variable's name, which `var_context`
already holds -/
def mkComposeN {D : Type} (fx : Bool) (args : List (Option (Variable D))) (kw : Slots) : Except Err (Variable D) :=
  match mkCompose names fx args kw with
  | .error e => .error e
  | .ok c =>
    match getSlot kw (kName names) with
    | some x => .ok ⟨c.getter, setSlot c.varCtx (kName names) (some x)⟩
    | none => .ok c

/-- `Compose.__init__` as the tree under test implements it: `nk = true` with the patch, `false` as pinned -/
def mkComposeK {D : Type} (fx nk : Bool) (args : List (Option (Variable D))) (kw : Slots) : Except Err (Variable D) :=
  if nk then mkComposeN names fx args kw else mkCompose names fx args kw

end withNames

/-- position of `l[i]` for a Python sequence of length `n`: negative indices count from the end, `IndexError`
outside `-n … n-1` -/
def pyIndex (n : Nat) (i : Int) : Except Err Nat :=
  if 0 ≤ i then (if i.toNat < n then .ok i.toNat else .error .indexError)
  else (if (-i).toNat ≤ n then .ok (n - (-i).toNat) else .error .indexError)

/-- `Combine.__getitem__(index)` (line 309): `self._vars[index]` -/
def combineGetItem {D : Type} (vars : List (Variable D)) (i : Int) : Except Err (Variable D) :=
  match pyIndex vars.length i with
  | .error e => .error e
  | .ok j =>
    match vars[j]? with
    | some v => .ok v
    | none => .error .indexError

/-! ## specification vocabulary (executable, so that the driver can report it and the harness compare)

The hypotheses of the theorems of `Props/C14.lean` as Boolean checks; `Lemmas/C14.lean` proves that a check
that returns `true` implies the corresponding proposition. -/
section spec
variable (names : List String)

/-- the composition history a variable context carries: its `compose` list, else its `type` -/
def hist (a : Slots) : List V :=
  match getSlot a (kCompose names) with
  | some (.seq false l) => l
  | some _ => []
  | none =>
    match getSlot a (kType names) with
    | some t => [t]
    | none => []

/-- key number `j` is the slot of one of the strings in `c` -/
def inT (c : List V) (j : Nat) : Bool :=
  c.any (fun t => match t with | .str s => key names s == j | _ => false)

/-- `context.variable` of a flow value (`None` for a value without context) -/
def cvarOf {D : Type} (x : Value D) : Option V :=
  getSlot (getDataContext names x).2 (kVariable names)

/-- the composition history the value already carries -/
def preHist (cv : Option V) : List V :=
  match cv with
  | some (.dict p) => hist names p
  | _ => []

/-- all types of a run: those the value carries, then those of the chain's variables, in order -/
def allTypes (cv : Option V) (as : List Slots) : List V :=
  preHist names cv ++ as.flatMap (hist names)

def isTypeListB (l : List V) : Bool :=
  l.all (fun t => match t with | .str _ => true | _ => false)

/-- `VarWF`: a dictionary over the alphabet whose `compose`, if present, is a non-empty list of strings and
whose `type`, if present, is a non-empty string -/
def varWFb (a : Slots) : Bool :=
  a.length == names.length &&
  (match getSlot a (kCompose names) with
   | none => true
   | some (.seq false l) => !l.isEmpty && isTypeListB l
   | some _ => false) &&
  (match getSlot a (kType names) with
   | none => true
   | some (.str s) => s != ""
   | some _ => false)

/-- `NoClash`: a key of `x` that is named like a type in `T` is one of the types `x` lists itself -/
def noClashB (T : List V) (x : Slots) : Bool :=
  (List.range names.length).all (fun j => !(inT names T j) || !(getSlot x j).isSome || inT names (hist names x) j)

/-- `ChainWF` -/
def chainWFb (cv : Option V) (as : List Slots) : Bool :=
  let T := allTypes names cv as
  (match cv with
   | some (.dict p) => varWFb names p && noClashB names T p
   | _ => true) &&
  as.all (fun a => varWFb names a && noClashB names T a && (getSlot a (kName names)).isSome) &&
  !(inT names T (kCompose names))

/-- `NamesOK`: no duplicates, the reserved words the theorems speak about are keys -/
def namesOKb : Bool :=
  decide names.Nodup && names.contains "name" && names.contains "type" && names.contains "compose" &&
  names.contains "variable"

/-- one iteration of `for type_ in composed` for an entry that does not raise -/
def presStep (old : Slots) (acc : Slots) (t : V) : Slots :=
  match t with
  | .str s =>
    match getSlot acc (key names s), getSlot old (key names s) with
    | none, some x => setSlot acc (key names s) (some x)
    | _, _ => acc
  | _ => acc

/-- the loop `for type_ in composed` when every entry is a string (no `TypeError`) -/
def preservePure (old : Slots) (acc : Slots) (c : List V) : Slots :=
  c.foldl (presStep names old) acc

/-- `_update_context` (patched condition) on well-formed dictionaries, as a pure function:
first argument the old `context.variable`, second the new variable context -/
def UP (p b : Slots) : Slots :=
  if hist names p = [] then b
  else
    let c := hist names p ++ hist names b
    preservePure names (setSlot p (kCompose names) (some (.seq false c)))
      (setSlot b (kCompose names) (some (.seq false c))) c


/-- the dictionary `context.variable` the chain starts from: the value's own, or `{}` -/
def preDict (names : List String) (cv : Option V) : Slots :=
  match cv with
  | some (.dict p) => p
  | _ => emptyD names.length


end spec

/-- the data of a chain: the getters applied in order -/
def chainData {D : Type} (vars : List (Variable D)) (d : D) : D := vars.foldl (fun x v => v.getter x) d


/-- a plain typed variable `Variable(name, f, type=ty, **kw)` -/
structure Leaf (D : Type) where
  name : V
  f : D → D
  ty : String
  kw : Slots

/-- `{"name": name, **kw}`: what the variable stores under its type -/
def Leaf.attrs {D : Type} (names : List String) (l : Leaf D) : Slots :=
  dictUpdate (setSlot (emptyD names.length) (kName names) (some l.name)) l.kw

/-- its `var_context` -/
def Leaf.ctx {D : Type} (names : List String) (l : Leaf D) : Slots :=
  setSlot (setSlot (l.attrs names) (key names l.ty) (some (.dict (l.attrs names)))) (kType names) (some (.str l.ty))

def Leaf.var {D : Type} (names : List String) (l : Leaf D) : Variable D := ⟨l.f, l.ctx names⟩


/-- `LeavesOK` (hypothesis of `types_persist`, `compose_order`): pairwise distinct non-empty types that are keys
of the alphabet and not `name`/`type`/`compose`; keyword arguments over the alphabet without `name`, `type`,
`compose`; no attribute named like a type of the chain -/
def leavesOKb {D : Type} (names : List String) (leaves : List (Leaf D)) : Bool :=
  leaves.all (fun l =>
    l.ty != "" && names.contains l.ty && l.ty != "name" && l.ty != "type" && l.ty != "compose" &&
    l.kw.length == names.length &&
    (getSlot l.kw (kName names)).isNone && (getSlot l.kw (kType names)).isNone &&
    (getSlot l.kw (kCompose names)).isNone &&
    leaves.all (fun l' => (getSlot l.kw (key names l'.ty)).isNone)) &&
  decide (leaves.map Leaf.ty).Nodup


/-! ## variable expressions (what the harness builds on both sides) -/

/-- a constructor expression; `other` is an object that is not a `Variable` -/
inductive Expr (D : Type) where
  | var (name : V) (g : GetterArg D) (ty : V) (kw : Slots)
  | compose (args : List (Expr D)) (kw : Slots)
  | combine (args : List (Expr D)) (kw : Slots)
  | other

mutual
/-- evaluate a constructor expression: `none` = not a `Variable`; arguments are constructed left to
right before the constructor runs, so the first failing argument decides the exception -/
def evalExpr {D : Type} (names : List String) (fx nk : Bool) (tup : List D → D) :
    Expr D → Except Err (Option (Variable D))
  | .other => .ok none
  | .var name g ty kw =>
    match mkVariable names name g ty kw with
    | .ok v => .ok (some v)
    | .error e => .error e
  | .compose args kw =>
    match evalArgs names fx nk tup args with
    | .error e => .error e
    | .ok as =>
      match mkComposeK names fx nk as kw with
      | .ok v => .ok (some v)
      | .error e => .error e
  | .combine args kw =>
    match evalArgs names fx nk tup args with
    | .error e => .error e
    | .ok as =>
      match mkCombine names tup as kw with
      | .ok v => .ok (some v)
      | .error e => .error e
def evalArgs {D : Type} (names : List String) (fx nk : Bool) (tup : List D → D) :
    List (Expr D) → Except Err (List (Option (Variable D)))
  | [] => .ok []
  | e :: r =>
    match evalExpr names fx nk tup e with
    | .error err => .error err
    | .ok v =>
      match evalArgs names fx nk tup r with
      | .error err => .error err
      | .ok vs => .ok (v :: vs)
end

/-! ## expression trees of any depth: reference data, listed types, syntactic well-formedness

`exprData` is the data an expression computes by the property's statement (`vₙ.getter(…v₁.getter(x)…)` for a
`Compose`, the tuple of the getters' results for a `Combine`), `exprTypes` the types it contributes to `compose`,
`exprOKb names T` the syntactic conditions under which `Props/C14.lean` proves that the constructed variable
satisfies the hypotheses of `compose_eq_sequence_partial` (`T` = all types of the run).  All executable. -/

mutual
def exprData {D : Type} (tup : List D → D) : Expr D → D → D
  | .var _ (.fn f) _ _, x => f x
  | .var _ _ _ _, x => x
  | .compose args _, x => composeData tup args x
  | .combine args _, x => tup (combineData tup args x)
  | .other, x => x
def composeData {D : Type} (tup : List D → D) : List (Expr D) → D → D
  | [], x => x
  | e :: r, x => composeData tup r (exprData tup e x)
def combineData {D : Type} (tup : List D → D) : List (Expr D) → D → List D
  | [], _ => []
  | e :: r, x => exprData tup e x :: combineData tup r x
end

/-- the `type` a constructor call is given, if it is a non-empty string -/
def typeOf (ty : V) : List V :=
  match ty with
  | .str s => if s = "" then [] else [.str s]
  | _ => []

mutual
def exprTypes {D : Type} (names : List String) : Expr D → List V
  | .var _ _ ty _ => typeOf ty
  | .compose args _ => argsTypes names args
  | .combine _ kw => typeOf ((getSlot kw (kType names)).getD (.str ""))
  | .other => []
def argsTypes {D : Type} (names : List String) : List (Expr D) → List V
  | [] => []
  | e :: r => exprTypes names e ++ argsTypes names r
end

mutual
/-- every type that occurs anywhere in an expression (those of the arguments of a `Combine` included) -/
def exprAllTypes {D : Type} (names : List String) : Expr D → List V
  | .var _ _ ty _ => typeOf ty
  | .compose args _ => argsAllTypes names args
  | .combine args kw => typeOf ((getSlot kw (kType names)).getD (.str "")) ++ argsAllTypes names args
  | .other => []
def argsAllTypes {D : Type} (names : List String) : List (Expr D) → List V
  | [] => []
  | e :: r => exprAllTypes names e ++ argsAllTypes names r
end

section exprOK
variable (names : List String) (T : List V)

/-- a `type` argument: absent / `""`, or a non-empty string of the alphabet that is not a reserved word -/
def typeOKb (ty : V) : Bool :=
  match ty with
  | .str s => s == "" || (names.contains s && !(["name", "type", "compose", "dim", "combine"].contains s))
  | _ => false

/-- keyword arguments: over the alphabet, none of `type`, `compose`, `getter`, `dim`, no key named like a type
of the run; `name` is handled by the caller -/
def kwOKb (kw : Slots) : Bool :=
  kw.length == names.length &&
  (getSlot kw (kType names)).isNone && (getSlot kw (kCompose names)).isNone &&
  (getSlot kw (kGetter names)).isNone && (getSlot kw (kDim names)).isNone &&
  (List.range names.length).all (fun j => !(inT names T j) || (getSlot kw j).isNone || j == kName names)

def nameKwOKb (kw : Slots) : Bool :=
  match getSlot kw (kName names) with
  | none => true
  | some (.str _) => true
  | some _ => false

mutual
def exprOKb {D : Type} : Expr D → Bool
  | .var name g ty kw =>
    (match g with | .fn _ => true | _ => false) &&
    (match name with | .str _ => true | _ => false) &&
    typeOKb names ty && kwOKb names T kw && (getSlot kw (kName names)).isNone
  | .compose args kw => !args.isEmpty && argsOKb args && kwOKb names T kw && nameKwOKb names kw
  | .combine args kw =>
    !args.isEmpty && argsOKb args && kw.length == names.length &&
    kwOKb names T (setSlot kw (kType names) none) && nameKwOKb names kw &&
    typeOKb names ((getSlot kw (kType names)).getD (.str ""))
  | .other => false
def argsOKb {D : Type} : List (Expr D) → Bool
  | [] => true
  | e :: r => exprOKb e && argsOKb r
end

/-- no type of the run is a reserved word -/
def typesOKb : Bool :=
  !(inT names T (kName names)) && !(inT names T (kType names)) && !(inT names T (kCompose names)) &&
  !(inT names T (kDim names)) && !(inT names T (kCombine names))

end exprOK

/-- the alphabet holds every reserved word (`NamesOK` plus `dim`, `combine`, `getter`) -/
def namesOK2b (names : List String) : Bool :=
  namesOKb names && names.contains "dim" && names.contains "combine" && names.contains "getter"

/-- the syntactic hypothesis of `compose_eq_sequence_expr_partial` for a chain of expressions `es` applied to a value
whose `context.variable` is `cv` -/
def chainOKb {D : Type} (names : List String) (cv : Option V) (es : List (Expr D)) : Bool :=
  let T := preHist names cv ++ argsAllTypes names es
  namesOK2b names && !es.isEmpty && argsOKb names T es && typesOKb names T &&
  (match cv with
   | some (.dict p) => varWFb names p && noClashB names T p
   | _ => true)

/-- a constructor expression of a plain variable with a string name and type, as a `Leaf` -/
def Expr.asLeaf {D : Type} : Expr D → Option (Leaf D)
  | .var name (.fn f) (.str ty) kw => some ⟨name, f, ty, kw⟩
  | _ => none

end Lena.C14
