/-! # C10 model — selective elements (`ToCSV`, `Write`, `RenderLaTeX`, `LaTeXToPDF`, `PDFToPNG`,
`HistToGraph`, `MapBins`, `IterateBins`, `RunIf`, `MapGroup(map_scalars=False)`)

Transcription of the `run` loops of (working tree of /repo)
* `lena/output/to_csv.py` `ToCSV.run` (223-337), `lena/output/write.py` `Write._make_filename` (79-124) and
  `Write.run` (126-290), `lena/output/render_latex.py` `_is_csv`, `_select_template_or_default`,
  `RenderLaTeX.run` (62-82, 183-228), `lena/output/latex_to_pdf.py` `LaTeXToPDF.run` (56-203),
  `lena/output/pdf_to_png.py` `PDFToPNG.run` (65-107);
* `lena/structures/elements.py` `HistToGraph.run` (65-116), `lena/structures/split_into_bins.py`
  `IterateBins.run` (79-131), `_MdSeqMap`, `MapBins.run` (16-37, 201-270);
* `lena/flow/elements.py` `RunIf.run` (201-220), `lena/flow/group_plots.py` `MapGroup.run` (137-217);
* `lena/flow/functions.py` `get_data_context` / `_has_context`; `lena/context/functions.py`
  `get_recursively` and `update_recursively` for the literal dotted keys these elements use;
  `posixpath.join`, `posixpath.dirname`, `posixpath.isabs`.

What is modelled exactly: the **selection tests** of every loop (same tests, same order), the
**shape** of what is yielded per consumed value (how many values, which of them are the incoming
object itself, which context object they carry), the **exception** a selected value can raise, the
`output` sub-context (it drives the selection of the next element of an output pipeline) and the
**file system** (files with contents and logical modification times, directories).
What is abstracted: the *payload* of produced data — a CSV or LaTeX text is `Data.text kind src lines`
("the text of that kind made from the value with identity `src`", with its number of lines for CSV —
that is where `duplicate_last_bin` and the header show), a graph is `Data.graph src n`,
context entries written by third parties (`histogram`, `value`, `bins`, `bin`, `group`) are
`CV.opaque`; the converters `pdflatex` / `pdftoppm` are stubs that write their output file.

**Identity.**  Every flow value carries a token `Tok` for the Python object itself (the tuple of a
`(data, context)` pair, or the bare object) and its context dictionary carries another one.  Values
handed in have tokens `Tok.src n`; an object created while processing the value with token `t` gets
`Tok.made t k`.  "Yielded as the very same object" is: the yielded `Item` is the incoming `Item`.
Assumption (locality): distinct flow values do not share mutable context objects, so a mutation made
while processing one value is invisible in the others — the model is value-passing.

Finite flows are lists.  A run is reported as `Run`: the blocks of values yielded while each consumed
value was being processed (observable on the real generators by instrumenting the input iterator),
the final state and the exception that ended the run, if any.  No imports. -/

namespace Lena.C10

/-! ## Exceptions, tokens -/

/-- exception classes that can leave the modelled loops; `inner n` is whatever a user-supplied inner
sequence raises; `unmodelled` is not an exception: the model declines to predict -/
inductive Exc where
  | lenaRuntimeError
  | lenaTypeError
  | lenaValueError
  | attributeError
  | typeError
  | keyError
  | indexError
  | assertionError
  | fileNotFoundError
  | templateNotFound
  | valueError
  | inner (n : Nat)
  | unmodelled
  deriving DecidableEq, Repr

/-- object identity -/
inductive Tok where
  | src (n : Nat)
  | made (parent : Tok) (k : Nat)
  deriving DecidableEq, Repr

/-! ## Context values -/

/-- a value inside a context: JSON-like, dictionaries are insertion-ordered association lists with
string keys; `opaque` is an entry whose content the model does not interpret -/
inductive CV where
  | none
  | bool (b : Bool)
  | int (i : Int)
  | str (s : String)
  | list (l : List CV)
  | dict (kv : List (String × CV))
  | opaque (tag : String)

abbrev Dict := List (String × CV)

/-- `d.get(key)` / `key in d` -/
def lookup : Dict → String → Option CV
  | [], _ => none
  | (k, v) :: r, key => if k = key then some v else lookup r key

/-- `d[key] = v` (in place when the key exists, appended otherwise) -/
def setKey : Dict → String → CV → Dict
  | [], key, v => [(key, v)]
  | (k, w) :: r, key, v => if k = key then (k, v) :: r else (k, w) :: setKey r key v

def hasKey (d : Dict) (key : String) : Bool := (lookup d key).isSome

/-- Python truthiness -/
def CV.truthy : CV → Bool
  | .none => false
  | .bool b => b
  | .int i => i != 0
  | .str s => s != ""
  | .list l => !l.isEmpty
  | .dict d => !d.isEmpty
  | .opaque _ => true

/-- `get_recursively(d, "k1.k2…", default)` for a literal dotted key (functions.py:317-338):
`none` = the default is returned.  Every key but the last must lead to a dictionary. -/
def getRec : Dict → List String → Option CV
  | d, [] => some (.dict d)
  | d, [k] => lookup d k
  | d, k :: k' :: ks =>
    match lookup d k with
    | some (.dict d') => getRec d' (k' :: ks)
    | _ => none

/-- `update_recursively(d, {k1: {k2: … v}})` for a scalar `v` (functions.py:641-653): an existing
non-dictionary on the way is replaced by `{}` first -/
def updPath : Dict → List String → CV → Dict
  | d, [], _ => d
  | d, [k], v => setKey d k v
  | d, k :: k' :: ks, v =>
    match lookup d k with
    | some (.dict d') => setKey d k (.dict (updPath d' (k' :: ks) v))
    | _ => setKey d k (.dict (updPath [] (k' :: ks) v))

/-! ## Data, flow values -/

/-- the class of a container that stands in a bin (seed round I/J: bins may hold containers — a histogram made
by `SplitIntoBins(StoreFilled(), …)` has a list of the stored values in every bin) -/
inductive ContCls where
  | list | tuple | dict
  deriving DecidableEq, Repr

/-- what stands at index 0 of a container in a bin (that is where a descent `bins[0]` would land) -/
inductive ContFirst where
  | empty    -- nothing: the container is empty
  | num      -- a number
  | hist     -- a histogram
  | pair     -- a `(number, context)` pair
  | list     -- a non-empty list (nested once more)
  | elist    -- an empty list (nested once more)
  deriving DecidableEq, Repr

/-- what the bins of a histogram hold (all bins of one histogram alike) -/
inductive BinKind where
  | num      -- numbers
  | hist     -- one-dimensional histograms of numbers
  | vec      -- 3-tuples of numbers
  | pair     -- `(number, context)` pairs
  /-- containers: a list / tuple / dictionary per bin (bin 0 as `first` says; for a dictionary `first` is what
  stands under the key `0`) -/
  | cont (cls : ContCls) (first : ContFirst)
  deriving DecidableEq, Repr

/-- the Python class `select_bins` sees when it is given the data part of a bin of this kind
(`Selector([int, …])` tests `isinstance`): "int", "histogram", "tuple", "list", "dict" -/
def BinKind.cls : BinKind → String
  | .num => "int"
  | .hist => "histogram"
  | .vec => "tuple"
  | .pair => "int"
  | .cont .list _ => "list"
  | .cont .tuple _ => "tuple"
  | .cont .dict _ => "dict"

/-- what `data.rows()` returns -/
inductive RowsKind where
  | ok            -- a non-empty iterable of rows
  | empty         -- an empty iterable
  | notIterable   -- not an iterable: `iterable_to_table` raises `TypeError` when the text is joined
  /-- the attribute `rows` is not callable (e.g. a list of rows): not "a method rows()" — the value is not
  convertible (repaired code, notes/C10_defect_1: `callable(getattr(data, "rows", None))`) -/
  | notCallable
  deriving DecidableEq, Repr

/-- a `lena.structures.histogram` -/
structure HistD where
  id : Nat
  dim : Nat
  shape : List Nat
  bin : BinKind
  deriving Repr

/-- number of bins -/
def HistD.ncells (h : HistD) : Nat := h.shape.foldl (· * ·) 1

/-- the data part of a flow value, as far as the selective elements look at it -/
inductive Data where
  | int (i : Int)
  | str (s : String)
  /-- a text produced by an element (`isinstance(data, str)`): kind `"csv"`/`"tex"`, made from `src`;
  `lines`: its number of lines (CSV; 0 = not modelled) -/
  | text (kind : String) (src : Tok) (lines : Nat)
  /-- a foreign object of class `cls` (None, float, object(), bytes, a bare dict …); `iter`: has `__iter__` -/
  | other (cls : String) (id : Nat) (iter : Bool)
  /-- a Python list (`isTuple = false`) or tuple that is not a `(data, context)` pair -/
  | seq (isTuple : Bool) (items : List Data)
  /-- an object with a callable `write(filepath)` -/
  | writable (id : Nat)
  /-- an object with a callable `rows()`; `upd`: it also has a callable `_update_context` -/
  | rows (id : Nat) (k : RowsKind) (upd : Bool)
  | hist (h : HistD)
  /-- a graph produced by `HistToGraph` from the value `src`, with `n` points -/
  | graph (src : Tok) (n : Nat)

/-- a context dictionary object: identity and content -/
structure Ctx where
  tok : Tok
  d : Dict

/-- a flow value: `ctx = none` is a bare value, otherwise a `(data, context)` pair
(`_has_context`: a 2-tuple whose second item is a dict) -/
structure Item where
  tok : Tok
  data : Data
  ctx : Option Ctx

/-- the context part of `get_data_context(val)` (content only): `{}` for a bare value -/
def Item.dict (v : Item) : Dict :=
  match v.ctx with
  | some c => c.d
  | none => []

/-- the context object of `get_data_context(val)`: the value's own, or a new `{}` -/
def Item.ctxOr (v : Item) (k : Nat) : Ctx :=
  match v.ctx with
  | some c => c
  | none => ⟨.made v.tok (2 * k + 1), []⟩

/-- the `k`-th new tuple `(data, c)` made while processing `v` -/
def mk (v : Item) (k : Nat) (data : Data) (c : Ctx) : Item := ⟨.made v.tok (2 * k), data, some c⟩

/-- `val` itself after its context dictionary was mutated in place to `d` (a bare value has none) -/
def Item.withDict (v : Item) (d : Dict) : Item :=
  match v.ctx with
  | some c => { v with ctx := some { c with d := d } }
  | none => v

def Data.isStr : Data → Bool
  | .str _ => true
  | .text _ _ _ => true
  | _ => false

def Data.isHist : Data → Bool
  | .hist _ => true
  | _ => false

/-- `hasattr(data, "__iter__")` -/
def Data.hasIter : Data → Bool
  | .str _ => true
  | .text _ _ _ => true
  | .other _ _ it => it
  | .seq _ _ => true
  | .graph _ _ => true
  | _ => false

/-! ## Runs -/

/-- what processing one consumed value does: the values yielded, the new state, the exception raised
(after the yields) if any -/
structure Step (σ α : Type) where
  out : List α
  st : σ
  err : Option Exc

/-- a whole run: `blocks[i]` = the values yielded while the `i`-th consumed value was processed; if
`err = some e` the last block belongs to the value that raised -/
structure Run (σ α : Type) where
  blocks : List (List α)
  st : σ
  err : Option Exc

/-- the flat output stream -/
def Run.out {σ α : Type} (r : Run σ α) : List α := r.blocks.flatten

/-- `yield val` with nothing else happening -/
def pass {σ α : Type} (s : σ) (v : α) : Step σ α := ⟨[v], s, none⟩

/-- the loop body yields a value it does not select as it is, and does nothing else -/
def Passes {σ α : Type} (f : σ → α → Step σ α) (sel : α → Bool) : Prop :=
  ∀ s v, sel v = false → f s v = pass s v

/-- `for val in flow: <body>` — the body is `f`; an exception ends the generator -/
def loop {σ α β : Type} (f : σ → α → Step σ β) : σ → List α → Run σ β
  | s, [] => ⟨[], s, none⟩
  | s, v :: vs =>
    match f s v with
    | ⟨out, s', some e⟩ => ⟨[out], s', some e⟩
    | ⟨out, s', none⟩ =>
      let t := loop f s' vs
      ⟨out :: t.blocks, t.st, t.err⟩

/-! ## Interleavings (vocabulary of the property statement) -/

/-- the interleaving of `as` and `bs` described by the pattern (`true` = next value of `as`) -/
def merge {α : Type} : List Bool → List α → List α → List α
  | true :: p, a :: as, bs => a :: merge p as bs
  | false :: p, as, b :: bs => b :: merge p as bs
  | _, _, _ => []

/-- `p` describes an interleaving of `as` with `bs` -/
def IsPattern {α β : Type} (p : List Bool) (as : List α) (bs : List β) : Prop :=
  p.count true = as.length ∧ p.count false = bs.length

/-- the blocks of the interleaved run predicted from the blocks of the run on the selected values
alone: every unselected value is a block of its own; if the run on the selected values failed,
nothing follows its last block -/
def mergeBlocks {α : Type} (failed : Bool) : List Bool → List (List α) → List α → List (List α)
  | true :: p, blk :: as, bs =>
    if failed && as.isEmpty then [blk] else blk :: mergeBlocks failed p as bs
  | false :: p, as, b :: bs => [b] :: mergeBlocks failed p as bs
  | _, _, _ => []

/-- how many unselected values `mergeBlocks` lets through: all the `false` entries of the pattern, or — if the
run on the selected values failed at its `n`-th block — those before the position of that block -/
def consumedB (failed : Bool) : List Bool → Nat → Nat
  | true :: p, n + 1 => if failed && n == 0 then 0 else consumedB failed p n
  | false :: p, n => consumedB failed p n + 1
  | _, _ => 0

/-- the entries of `xs` at the `true` (`which = true`) or `false` positions of the pattern -/
def pick {β : Type} (which : Bool) : List Bool → List β → List β
  | b :: p, x :: xs => if b = which then x :: pick which p xs else pick which p xs
  | _, _ => []

/-! ## File system -/

/-- what a file holds -/
inductive Content where
  | lit (s : String)                       -- a literal string
  | text (kind : String) (src : Tok)       -- a produced text (see `Data.text`)
  | byObj (id : Nat)                       -- written by `data.write(filepath)` of object `id`
  | conv (kind : String) (src : String)    -- written by a converter stub from the file `src`
  deriving DecidableEq, Repr

structure File where
  path : String
  content : Content
  mtime : Nat

/-- files, directories, and a logical clock for modification times -/
structure FS where
  files : List File
  dirs : List String
  clock : Nat

def FS.find (fs : FS) (p : String) : Option File := fs.files.find? (fun f => f.path == p)
def FS.isFile (fs : FS) (p : String) : Bool := (fs.find p).isSome
def FS.isDir (fs : FS) (p : String) : Bool := fs.dirs.contains p
/-- `os.path.exists` -/
def FS.exists (fs : FS) (p : String) : Bool := fs.isFile p || fs.isDir p
/-- `os.path.getmtime` of a file (`none`: `os.error`) -/
def FS.mtime (fs : FS) (p : String) : Option Nat := (fs.find p).map (·.mtime)

def replaceFile (p : String) (c : Content) (t : Nat) : List File → List File
  | [] => [⟨p, c, t⟩]
  | f :: r => if f.path == p then ⟨p, c, t⟩ :: r else f :: replaceFile p c t r

/-- `open(p, "w").write(c)`; the containing directory is not checked: the callers create it (`Write`) or the
generated cases name existing directories only (converter stubs) -/
def FS.write (fs : FS) (p : String) (c : Content) : FS :=
  { fs with files := replaceFile p c fs.clock fs.files, clock := fs.clock + 1 }

/-! ### `posixpath` -/

def isAbs (p : String) : Bool := p.startsWith "/"

/-- one step of `posixpath.join` -/
def join2 (path b : String) : String :=
  if b.startsWith "/" then b
  else if path == "" || path.endsWith "/" then path ++ b
  else path ++ "/" ++ b

/-- `posixpath.dirname` on characters -/
def dirnameC (cs : List Char) : List Char :=
  let head := (cs.reverse.dropWhile (· != '/')).reverse
  if head.all (· == '/') then head else (head.reverse.dropWhile (· == '/')).reverse

def dirname (p : String) : String := String.ofList (dirnameC p.toList)

/-- `str.replace(pat, rep)` on characters for a non-empty `pat`: all non-overlapping occurrences, left to
right; the counter says how many characters of a matched occurrence are still to be skipped -/
def replaceGo (pat rep : List Char) : Nat → List Char → List Char
  | _, [] => []
  | skip + 1, _ :: cs => replaceGo pat rep skip cs
  | 0, c :: cs =>
    if pat.isPrefixOf (c :: cs) then rep ++ replaceGo pat rep (pat.length - 1) cs
    else c :: replaceGo pat rep 0 cs

/-- Python `s.replace(pat, rep)` (`pat` non-empty) -/
def pyReplace (s pat rep : String) : String := String.ofList (replaceGo pat.toList rep.toList 0 s.toList)

/-- the file name with its extension `ext` replaced by `new` (latex_to_pdf.py:144-149, pdf_to_png.py:90-94,
after commit 7f5ee11): only a trailing extension is replaced; a name that does not end with it falls back to
`str.replace` over the whole name -/
def replaceExt (name ext new : String) : String :=
  if name.endsWith ext then String.ofList (name.toList.take (name.length - ext.length)) ++ new
  else pyReplace name ext new

/-- all the ancestors `os.makedirs(p)` may have to create, `p` included -/
def ancestors : Nat → String → List String
  | 0, _ => []
  | n + 1, p => if p == "" || p == "/" then [] else p :: ancestors n (dirname p)

/-- `os.makedirs(p)` (existing ancestors are left alone) -/
def FS.makedirs (fs : FS) (p : String) : FS :=
  { fs with dirs := fs.dirs ++ ((ancestors p.length p).filter (fun q => !fs.dirs.contains q)).reverse }

/-! ## `ToCSV.run` (to_csv.py:248-337) -/

/-- `data.rows()` exists and is callable: what it returns, whether `data._update_context` adds to the
context (a graph made by `HistToGraph` has no error fields: its `_update_context` does nothing), and the
number of rows -/
def Data.rowsInfo : Data → Option (RowsKind × Bool × Nat)
  | .rows _ .notCallable _ => none
  | .rows _ k upd => some (k, upd, match k with
      | .ok => 2
      | _ => 0)
  | .graph _ n => some (.ok, false, n)
  | _ => none

def Data.hasRows (d : Data) : Bool := d.rowsInfo.isSome

/-- `get_recursively(context, "output.to_csv", True)` is true -/
def csvAllowed (d : Dict) : Bool :=
  match getRec d ["output", "to_csv"] with
  | some x => x.truthy
  | none => true

/-- the values `ToCSV` converts: the context does not forbid it, and the data is a histogram of
dimension 1 or 2 or has a method `rows()` -/
def toCSVSel (v : Item) : Bool :=
  csvAllowed v.dict
  && (match v.data with
      | .hist h => h.dim == 1 || h.dim == 2
      | d => d.hasRows)

/-- `ToCSV(header=…, duplicate_last_bin=…)`: the settings that show in the shape of the text -/
structure CsvCfg where
  dupLast : Bool
  header : Bool

def b2n (b : Bool) : Nat := if b then 1 else 0

/-- number of lines of the CSV text of a histogram (`hist1d_to_csv`, `hist2d_to_csv`) -/
def csvLines (h : HistD) (dup header : Bool) : Nat :=
  b2n header +
    (match h.shape with
     | [n] => n + b2n dup
     | [n, m] => (n + b2n dup) * (m + b2n dup)
     | _ => 0)

/-- the loop body of `ToCSV.run` -/
def toCSVStep {σ : Type} (cfg : CsvCfg) (s : σ) (v : Item) : Step σ Item :=
  let c := v.ctxOr 0
  -- `if not get_recursively(context, "output.to_csv", True): yield val; continue`
  if !csvAllowed c.d then pass s v
  else
    match v.data with
    | .hist h =>
      -- "context duplicate_last_bin has higher priority than that of ToCSV": read from THIS value's context
      let dup := match getRec c.d ["output", "duplicate_last_bin"] with
        | some x => x.truthy
        | none => cfg.dupLast
      if h.dim == 1 then
        -- `hist1d_to_csv`: `float(bin_content)` raises TypeError → LenaTypeError for non-numbers
        if h.bin == .num then
          let d1 := setKey c.d "histogram" (.opaque "histogram")
          let d2 := updPath d1 ["output", "filetype"] (.str "csv")
          ⟨[mk v 0 (.text "csv" v.tok (csvLines h dup cfg.header)) ⟨c.tok, d2⟩], s, none⟩
        else ⟨[], s, some .lenaTypeError⟩
      else if h.dim == 2 then
        -- `"{:f}".format(bin_content)` raises TypeError for non-numbers
        if h.bin == .num then
          let d1 := setKey c.d "histogram" (.opaque "histogram")
          let d2 := updPath d1 ["output", "filetype"] (.str "csv")
          ⟨[mk v 0 (.text "csv" v.tok (csvLines h dup cfg.header)) ⟨c.tok, d2⟩], s, none⟩
        else ⟨[], s, some .typeError⟩
      else pass s v          -- warning "not implemented"; `yield val`
    | d =>
      match d.rowsInfo with
      | some (k, upd, nrows) =>
        -- `rows = iterable_to_table(...)` is a generator object: always truthy, `TypeError` cannot be
        -- raised at its creation; it is raised, uncaught, when the lines are joined
        match k with
        | .notIterable => ⟨[], s, some .typeError⟩
        | _ =>
          let d1 := if upd then setKey c.d "value" (.opaque "value") else c.d
          let d2 := updPath d1 ["output", "filetype"] (.str "csv")
          ⟨[mk v 0 (.text "csv" v.tok (b2n cfg.header + nrows)) ⟨c.tok, d2⟩], s, none⟩
      | none => pass s v      -- `data.rows()` raised AttributeError: unknown type, `yield val`

/-! ## `Write.run` (write.py:126-290) -/

structure WriteCfg where
  outdir : String
  defName : String
  existingUnchanged : Bool
  overwrite : Bool

/-- `hasattr(data, "write") and callable(data.write)` -/
def Data.hasWrite : Data → Bool
  | .writable _ => true
  | _ => false

/-- `is_writable(data, context)` (write.py:181-196) -/
def isWritable (data : Data) (d : Dict) : Bool :=
  -- `get_recursively(context, "output.write", True) is False`
  if (match getRec d ["output", "write"] with
      | some (.bool false) => true
      | _ => false) then false
  else if data.hasWrite then true
  else data.isStr

def writeSel (v : Item) : Bool := isWritable v.data v.dict

/-- `normalize_path` (write.py:107-118) -/
def normalizePath (p : String) : Except Exc String :=
  if isAbs p then
    let q := String.ofList (p.toList.drop 1)
    if isAbs q then .error .assertionError else .ok q
  else .ok p

/-- `_make_filename(outputc)`: `(filename, fileext, filepath)`.  A file name, extension or directory
name that is not a string where the code concatenates it (`filename + "." + fileext`, `os.path.isabs`)
raises `TypeError`; uninterpreted values are outside the model -/
def makeFilename (cfg : WriteCfg) (outputc : Dict) : Except Exc (String × CV × String) :=
  let dirnameV := (lookup outputc "dirname").getD (.str "")
  let fileextV :=
    if hasKey outputc "filetype" && !hasKey outputc "fileext" then (lookup outputc "filetype").getD .none
    else (lookup outputc "fileext").getD (.str "txt")
  let filenameR : Except Exc CV :=
    match lookup outputc "filename" with
    | some f => if !f.truthy then .error .lenaRuntimeError else .ok f
    | none => .ok (.str cfg.defName)
  match filenameR with
  | .error e => .error e
  | .ok (.str filename) =>
    let filepathR : Except Exc String :=
      if fileextV.truthy then
        match fileextV with
        | .str ext => .ok (filename ++ "." ++ ext)
        | .opaque _ => .error .unmodelled
        | _ => .error .typeError
      else .ok filename
    match filepathR, dirnameV with
    | .error e, _ => .error e
    | .ok filepath, .str dn =>
      match normalizePath dn with
      | .error e => .error e
      | .ok dn' =>
        match normalizePath filepath with
        | .error e => .error e
        | .ok fp' => .ok (filename, fileextV, join2 (join2 cfg.outdir dn') fp')
    | .ok _, .opaque _ => .error .unmodelled
    | .ok _, _ => .error .typeError
  | .ok (.opaque _) => .error .unmodelled
  | .ok _ => .error .typeError

/-- the content `fil.write(data)` puts into a file -/
def Data.content : Data → Content
  | .str s => .lit s
  | .text k t _ => .text k t
  | .writable id => .byObj id
  | _ => .lit ""

/-- `data == filepath` -/
def Data.eqStr : Data → String → Bool
  | .str s, p => s == p
  | _, _ => false

/-- the loop body of `Write.run` -/
def writeStep (cfg : WriteCfg) (fs : FS) (v : Item) : Step FS Item :=
  let c := v.ctxOr 0
  if !isWritable v.data c.d then pass fs v
  else
    -- `if "output" not in context: context["output"] = {}`
    let d1 := if hasKey c.d "output" then c.d else setKey c.d "output" (.dict [])
    match lookup d1 "output" with
    | some (.dict outputc) =>
      match makeFilename cfg outputc with
      | .error e => ⟨[], fs, some e⟩
      | .ok (filename, fileext, filepath) =>
        -- "this file path was already written by another Write": `yield val`
        if v.data.eqStr filepath then ⟨[v.withDict d1], fs, none⟩
        else
          let o1 := setKey (setKey (setKey outputc "filename" (.str filename)) "fileext" fileext)
                      "filepath" (.str filepath)
          let changed := (lookup o1 "changed").getD (.bool false)
          let yld (o : Dict) (fs' : FS) : Step FS Item :=
            ⟨[mk v 0 (.str filepath) ⟨c.tok, setKey d1 "output" (.dict o)⟩], fs', none⟩
          if v.data.hasWrite then
            -- `data.write(filepath)`: no directory is created in this branch (write.py:232-242); an object that
            -- opens the file fails when the directory does not exist
            let curdir := dirname filepath
            if curdir == "" || fs.exists curdir then
              yld (setKey o1 "changed" (.bool true)) (fs.write filepath v.data.content)
            else ⟨[], fs, some .fileNotFoundError⟩
          else if fs.exists filepath then
            if fs.isDir filepath then ⟨[], fs, some .unmodelled⟩
            else if cfg.existingUnchanged then yld (setKey o1 "changed" changed) fs
            else if cfg.overwrite then
              yld (setKey o1 "changed" (.bool true)) (fs.write filepath v.data.content)
            else if (fs.find filepath).map (·.content) != some v.data.content then
              yld (setKey o1 "changed" (.bool true)) (fs.write filepath v.data.content)
            else yld (setKey o1 "changed" changed) fs
          else
            let curdir := dirname filepath
            if fs.exists curdir then yld o1 (fs.write filepath v.data.content)
            else if curdir == "" then ⟨[], fs, some .fileNotFoundError⟩
            else yld o1 ((fs.makedirs curdir).write filepath v.data.content)
    | _ => ⟨[], fs, some .attributeError⟩       -- `outputc.get` on a non-dictionary

/-! ## `RenderLaTeX.run` (render_latex.py:183-228) -/

structure RenderCfg where
  /-- `select_template` given as a string -/
  defTemplate : String
  /-- the templates the jinja2 loader finds -/
  templates : List String
  /-- `select_data` (`none`: the default `_is_csv`) -/
  selectData : Option (Item → Bool)
  /-- `select_template` given as a callable (`none`: it is the string `defTemplate`); it may raise -/
  selectTemplate : Option (Item → Except Exc String)
  /-- `from_data`: render the data part instead of the context -/
  fromData : Bool

/-- `template.render(data)` with `from_data=True`: jinja2 builds `dict(data)`; the exception it raises -/
def renderDataErr : Data → Option Exc
  | .other "dict" _ _ => none
  | .seq _ [] => none
  | .seq _ (_ :: _) => some .typeError       -- "cannot convert dictionary update sequence element #0 to a sequence"
  | .str s => if s == "" then none else some .valueError
  | .text _ _ _ => some .unmodelled
  | .graph _ _ => some .unmodelled
  | _ => some .typeError                     -- "object is not iterable"

/-- `_is_csv(value)` -/
def isCsv (v : Item) : Bool :=
  match getRec v.dict ["output", "filetype"] with
  | some (.str s) => s == "csv"
  | _ => false

def renderSel (cfg : RenderCfg) (v : Item) : Bool :=
  match cfg.selectData with
  | some f => f v
  | none => isCsv v

/-- the loop body of `RenderLaTeX.run` -/
def renderStep {σ : Type} (cfg : RenderCfg) (s : σ) (v : Item) : Step σ Item :=
  if renderSel cfg v then
    let nameR : Except Exc String :=
      match cfg.selectTemplate with
      | some f => f v                          -- a callable `select_template` is used as it is
      | none =>
        -- `_select_template_or_default(val, default)`
        match getRec v.dict ["output", "template"] with
        | some t =>
          if t.truthy then
            match t with
            | .str n => .ok n
            | _ => .error .unmodelled
          else if cfg.defTemplate == "" then .error .lenaRuntimeError else .ok cfg.defTemplate
        | none => if cfg.defTemplate == "" then .error .lenaRuntimeError else .ok cfg.defTemplate
    match nameR with
    | .error e => ⟨[], s, some e⟩
    | .ok name =>
      if !cfg.templates.contains name then ⟨[], s, some .templateNotFound⟩
      else
        let c := v.ctxOr 0
        let d1 := updPath c.d ["output", "filetype"] (.str "tex")
        let d2 := updPath d1 ["output", "fileext"] (.str "tex")
        -- the context is updated before the template is rendered
        match (if cfg.fromData then renderDataErr v.data else none) with
        | some e => ⟨[], s, some e⟩
        | none => ⟨[mk v 0 (.text "tex" v.tok 0) ⟨c.tok, d2⟩], s, none⟩
  else pass s v

/-! ## `PDFToPNG.run` (pdf_to_png.py:78-107) -/

structure PngCfg where
  format : String
  overwrite : Bool

/-- `is_pdf(context)` -/
def pngSel (v : Item) : Bool :=
  match getRec v.dict ["output", "filetype"] with
  | some (.str s) => s == "pdf"
  | _ => false

/-- the loop body of `PDFToPNG.run`; the `pdftoppm` stub writes `<base>.<format>` -/
def pngStep (cfg : PngCfg) (fs : FS) (v : Item) : Step FS Item :=
  if pngSel v then
    let c := v.ctxOr 0
    match lookup c.d "output" with
    | some (.dict outputc) =>
      let o1 := setKey outputc "filetype" (.str "png")
      match v.data with
      | .str pdfName =>
        let base := replaceExt pdfName ".pdf" ""
        let target := base ++ "." ++ cfg.format
        let changed := (lookup o1 "changed").getD (.bool false)
        if !fs.exists target || cfg.overwrite || changed.truthy then
          let o2 := setKey o1 "changed" (.bool true)
          ⟨[mk v 0 (.str target) ⟨c.tok, setKey c.d "output" (.dict o2)⟩],
            fs.write target (.conv cfg.format pdfName), none⟩
        else
          let o2 := setKey o1 "changed" (.bool false)
          ⟨[mk v 0 (.str target) ⟨c.tok, setKey c.d "output" (.dict o2)⟩], fs, none⟩
      | .text _ _ _ => ⟨[], fs, some .unmodelled⟩
      | _ => ⟨[], fs, some .attributeError⟩        -- `pdf_name.replace`
    | _ => ⟨[], fs, some .unmodelled⟩               -- unreachable: `pngSel` found `output.filetype`
  else pass fs v

/-! ## `HistToGraph.run` (elements.py:65-116) -/

/-- `get_recursively(context, "histogram.to_graph", True)` is true -/
def graphAllowed (d : Dict) : Bool :=
  match getRec d ["histogram", "to_graph"] with
  | some x => x.truthy
  | none => true

/-- histograms whose context does not set `histogram.to_graph` to a false value -/
def histToGraphSel (v : Item) : Bool := v.data.isHist && graphAllowed v.dict

/-- what `make_value` (a `Variable`) does to a bin -/
inductive MakeValue where
  | default     -- the bin content itself
  | first       -- `lambda b: b[0]`
  | withErr     -- `lambda b: (b, 1)`
  deriving DecidableEq, Repr

/-- `HistToGraph(make_value, get_coordinate, field_names, scale)`: the settings that can make
`hist_to_graph` fail (`get_coordinate` and a numeric `scale` never do) -/
structure H2GCfg where
  makeValue : MakeValue
  nfields : Nat
  scaleTrue : Bool

/-- the exception `hist_to_graph(hist, …)` raises (hist_functions.py:299-420), if any: `hist.scale()` needs
numbers; the getter of `make_value` is applied to every bin; every field needs a coordinate -/
def histToGraphErr (cfg : H2GCfg) (h : HistD) : Option Exc :=
  if cfg.scaleTrue && h.bin == .hist then some .typeError
  else if cfg.scaleTrue && h.bin != .num then some .indexError
  else if cfg.makeValue == .first && (h.bin == .num || h.bin == .hist) then some .typeError
  else
    let width : Nat := match cfg.makeValue, h.bin with
      | .first, _ => 1
      | .withErr, _ => 2
      | .default, .vec => 3
      | .default, .pair => 2
      | .default, _ => 1
    if cfg.nfields > h.dim + width then some .lenaValueError else none

/-- the loop body of `HistToGraph.run` -/
def histToGraphStep {σ : Type} (cfg : H2GCfg) (s : σ) (v : Item) : Step σ Item :=
  let c := v.ctxOr 0
  if !v.data.isHist || !graphAllowed c.d then pass s v
  else
    match v.data with
    | .hist h =>
      match histToGraphErr cfg h with
      | some e => ⟨[], s, some e⟩
      | none =>
        -- `update_nested("value", context, bin_context)`
        ⟨[mk v 0 (.graph v.tok h.ncells) ⟨c.tok, setKey c.d "value" (.opaque "value")⟩], s, none⟩
    | _ => pass s v        -- unreachable: `isHist`

/-! ## bins of a histogram -/


/-- the content of bin number `i` (row-major) of the histogram held by `v`, as a flow value -/
def cell (v : Item) (h : HistD) (i : Nat) : Item :=
  let t := Tok.made v.tok (1000 + 2 * i)
  match h.bin with
  | .num => ⟨t, .int i, none⟩
  | .hist => ⟨t, .hist ⟨h.id * 100 + i + 1, 1, [1], .num⟩, none⟩
  | .vec => ⟨t, .seq true [.int i, .int 0, .int 0], none⟩
  | .pair => ⟨t, .int i, some ⟨.made v.tok (1001 + 2 * i), [("a", .int 1)]⟩⟩
  -- a container in a bin is a value without context (a 1-tuple / a list / a dictionary is not a `(data, context)`
  -- pair).  NOT modelled: `MapBins` on selected histograms of LISTS (`md_map` descends into the lists)
  | .cont .list _ => ⟨t, .other "list" 0 true, none⟩
  | .cont .tuple _ => ⟨t, .other "tuple" 0 true, none⟩
  | .cont .dict _ => ⟨t, .other "dict" 0 true, none⟩

/-! ## `IterateBins.run` (split_into_bins.py:79-131) -/

/-- histograms whose (example) bin data passes `select_bins` -/
def iterateBinsSel (selectBins : BinKind → Bool) (v : Item) : Bool :=
  match v.data with
  | .hist h => selectBins h.bin
  | _ => false

/-- `cell_to_string(bin_edges, var_context=get_recursively(hist_context, "variable", None))`:
the exception it raises, if any -/
def edgesStrErr (d : Dict) (dim : Nat) : Option Exc :=
  match lookup d "variable" with
  | none => none
  | some .none => none
  | some (.dict vc) =>
    if hasKey vc "combine" then some .unmodelled
    else if !hasKey vc "name" then some .keyError
    else if dim != 1 then some .lenaValueError
    else none
  | some (.str _) => some .typeError        -- `"x"["name"]`
  | some _ => some .typeError               -- `"combine" in 5`

/-- the loop body of `IterateBins.run` -/
def iterateBinsStep {σ : Type} (selectBins : BinKind → Bool) (s : σ) (v : Item) : Step σ Item :=
  match v.data with
  | .hist h =>
    if !selectBins h.bin then pass s v
    else
      match edgesStrErr v.dict h.dim with
      | some e => ⟨[], s, some e⟩
      | none =>
        ⟨(List.range h.ncells).map (fun i =>
            let b := cell v h i
            let bc := b.ctxOr 0
            let d1 := setKey bc.d "bins" (.opaque "bins")
            let d2 := setKey d1 "bin" (.opaque "bin")
            (⟨.made v.tok (2 * i), b.data, some ⟨.made v.tok (2 * i + 1), d2⟩⟩ : Item)), s, none⟩
  | _ => pass s v

/-! ## `MapBins.run` (split_into_bins.py:201-270) -/

/-- the kind of bin a data value makes -/
def binKindOf : Data → BinKind
  | .hist _ => .hist
  | .seq _ _ => .vec
  | _ => .num

/-- what `copy.deepcopy(seq).run([cell])` does when iterated: yields `out`, then stops or raises -/
abbrev CellRes := List Item × Option Exc

inductive Round where
  | ok (items : List Item)
  | stop
  | raise (e : Exc)

/-- `md_map(next, generators)` for round `k`: `next` on every cell's generator in order -/
def roundK (k : Nat) : List CellRes → Round
  | [] => .ok []
  | (outs, err) :: rest =>
    match outs[k]? with
    | some x =>
      match roundK k rest with
      | .ok xs => .ok (x :: xs)
      | r => r
    | none =>
      match err with
      | some e => .raise e
      | none => .stop

/-- histograms whose example bin passes `select_bins` -/
def mapBinsSel (selectBins : BinKind → Bool) (v : Item) : Bool :=
  match v.data with
  | .hist h => selectBins h.bin
  | _ => false

/-- `for new_bins in generators: … yield (new_hist, new_context)`, rounds `k, k+1, …` (fuel = an upper
bound on the number of rounds) -/
def mapBinsRounds {σ : Type} (dropCtx : Bool) (v : Item) (h : HistD) (d : Dict) (res : List CellRes) (s : σ) :
    Nat → Nat → List Item → Step σ Item
  | 0, _, acc => ⟨acc.reverse, s, some .unmodelled⟩       -- out of fuel: not reached with the bound of `mapBinsStep`
  | fuel + 1, k, acc =>
    match roundK k res with
    | .stop => ⟨acc.reverse, s, none⟩
    | .raise e => ⟨acc.reverse, s, some e⟩
    | .ok items =>
      -- `bin_context = deepcopy(get_context(get_example_bin(new_bins)))`; `if bin_context: update_nested(...)`
      let binCtx : Dict := match items with
        | x :: _ => x.dict
        | [] => []
      let d' := if !binCtx.isEmpty then setKey d "value" (.opaque "value") else d
      -- the new histogram holds the data parts of the results (`drop_bins_context=True`) or the results as
      -- they are, context included
      let kind : BinKind := match items with
        | x :: _ => if !dropCtx && x.ctx.isSome && binKindOf x.data == .num then .pair else binKindOf x.data
        | [] => .num
      let y : Item := ⟨.made v.tok (2 * k), .hist ⟨0, h.dim, h.shape, kind⟩, some ⟨.made v.tok (2 * k + 1), d'⟩⟩
      mapBinsRounds dropCtx v h d res s fuel (k + 1) (y :: acc)

/-- the loop body of `MapBins.run`; `inner cell` = what the (deep-copied) sequence yields for `[cell]`,
`dropCtx` = `drop_bins_context` -/
def mapBinsStep {σ : Type} (selectBins : BinKind → Bool) (inner : Item → CellRes) (dropCtx : Bool) (s : σ)
    (v : Item) :
    Step σ Item :=
  match v.data with
  | .hist h =>
    if !selectBins h.bin then pass s v
    else
      let res := (List.range h.ncells).map (fun i => inner (cell v h i))
      let bound := (res.map (fun r => r.1.length)).foldl max 0 + 1
      mapBinsRounds dropCtx v h v.dict res s bound 0 []
  | _ => pass s v

/-! ## `get_example_bin` (hist_functions.py:286-300) — which bin `select_bins` is shown

Seed round I/J.  `IterateBins.run` and `MapBins.run` test `select_bins` on `get_example_bin(hist)`.  For a histogram
that is `get_bin_on_index([0] * dim, bins)`: exactly `dim` subscripts, so a bin that is itself a list (the stored
values of `SplitIntoBins(StoreFilled(), …)`) is returned WHOLE.  For a bare array of bins the same function descends
`while isinstance(bins, list): bins = bins[0]` — into a list-valued bin.  The loops above abstract the example bin by
`h.bin`; this section models the nested Python lists so that the abstraction is a theorem
(`Props/C10.lean`: `exampleOfHist_wellShaped`, `iterateBinsStepE_eq`). -/

/-- a Python value as `get_bin_on_index` / `get_example_bin` see it: a list (subscripted, `isinstance(·, list)`) or
anything else, known by its kind -/
inductive PyV where
  | atom (k : BinKind)
  | list (xs : List PyV)
  deriving Repr

/-- the items of a list in a bin, by what stands first -/
def contItems : ContFirst → List PyV
  | .empty => []
  | .num => [.atom .num, .atom .num]
  | .hist => [.atom .hist, .atom .hist]
  | .pair => [.atom .pair]
  | .list => [.list [.atom .num], .list []]
  | .elist => [.list [], .atom .num]

/-- the content of one bin: only a LIST in a bin is a `PyV.list` (tuples, dictionaries, histograms, pairs and
numbers are not instances of `list`) -/
def binVal : BinKind → PyV
  | .cont .list f => .list (contItems f)
  | k => .atom k

/-- what stands first in a list -/
def firstOf : List PyV → ContFirst
  | [] => .empty
  | .atom .hist :: _ => .hist
  | .atom .pair :: _ => .pair
  | .atom _ :: _ => .num
  | .list [] :: _ => .elist
  | .list (_ :: _) :: _ => .list

/-- the kind of a value standing in a bin (left inverse of `binVal`: `kindOfPyV_binVal`) -/
def kindOfPyV : PyV → BinKind
  | .atom k => k
  | .list xs => .cont .list (firstOf xs)

/-- `histogram.bins` for the given shape with `b` in every bin: nested lists, one level per axis -/
def nestBins (b : PyV) : List Nat → PyV
  | [] => b
  | n :: ns => .list (List.replicate n (nestBins b ns))

/-- the bins of the histogram `h` as nested lists -/
def HistD.binsVal (h : HistD) : PyV := nestBins (binVal h.bin) h.shape

/-- the result of looking for the example bin -/
inductive ExBin where
  | ok (v : PyV)
  | lenaIndexError     -- `get_bin_on_index`: `except IndexError: raise LenaIndexError`
  | indexError         -- `bins[0]` on an empty list
  | notAList           -- a subscript applied to something the model does not subscript
  deriving Repr

/-- `get_bin_on_index(index, bins)` (hist_functions.py:126-156): `for ind in index: subarr = subarr[ind]` -/
def getBinOnIndex : List Nat → PyV → ExBin
  | [], v => .ok v
  | _ :: _, .atom _ => .notAList
  | i :: is, .list xs =>
    match xs[i]? with
    | some x => getBinOnIndex is x
    | none => .lenaIndexError

/-- `get_example_bin(struct)` for a histogram of dimension `dim`: `get_bin_on_index([0] * struct.dim, struct.bins)` -/
def exampleOfHist (dim : Nat) (bins : PyV) : ExBin := getBinOnIndex (List.replicate dim 0) bins

/-- `get_example_bin(struct)` for an array of bins: `while isinstance(bins, list): bins = bins[0]` -/
def exampleOfArray : PyV → ExBin
  | .atom k => .ok (.atom k)
  | .list [] => .indexError
  | .list (x :: _) => exampleOfArray x

/-- the loop body of `IterateBins.run` with the example bin computed on the nested lists (lines 97-104:
`data00 = get_data(get_example_bin(data)); if not self._select_bins(data00): yield val; continue`).  The rest of the
body is `iterateBinsStep` (with the answer of `select_bins` put in). -/
def iterateBinsStepE {σ : Type} (selectBins : BinKind → Bool) (s : σ) (v : Item) : Step σ Item :=
  match v.data with
  | .hist h =>
    match exampleOfHist h.dim h.binsVal with
    | .ok b => iterateBinsStep (fun _ => selectBins (kindOfPyV b)) s v
    | _ => ⟨[], s, some .unmodelled⟩        -- not reached for a histogram with `dim` axes of at least one bin
  | _ => pass s v

/-- `MapBins.run` likewise (lines 243-248: `bin_ = get_example_bin(hist); if not self._select_bins(bin_): …`) -/
def mapBinsStepE {σ : Type} (selectBins : BinKind → Bool) (inner : Item → CellRes) (dropCtx : Bool) (s : σ)
    (v : Item) : Step σ Item :=
  match v.data with
  | .hist h =>
    match exampleOfHist h.dim h.binsVal with
    | .ok b => mapBinsStep (fun _ => selectBins (kindOfPyV b)) inner dropCtx s v
    | _ => ⟨[], s, some .unmodelled⟩
  | _ => pass s v

/-- a histogram as lena makes them: one axis per dimension, at least one bin on every axis -/
def HistD.WellShaped (h : HistD) : Prop := h.shape.length = h.dim ∧ ∀ n ∈ h.shape, 0 < n

/-- NOT the code: the loop body of `IterateBins.run` if the example bin were looked up in the bare array of bins
(`get_example_bin(data.bins)`, the descent `while isinstance(bins, list)`) — kept to state how it differs
(`Props/C10.lean`: `arrayDescent_*`) -/
def iterateBinsStepArr {σ : Type} (selectBins : BinKind → Bool) (s : σ) (v : Item) : Step σ Item :=
  match v.data with
  | .hist h =>
    match exampleOfArray h.binsVal with
    | .ok b => iterateBinsStep (fun _ => selectBins (kindOfPyV b)) s v
    | .indexError => ⟨[], s, some .indexError⟩
    | _ => ⟨[], s, some .unmodelled⟩
  | _ => pass s v

/-! ## `RunIf.run` (flow/elements.py:201-220) -/

/-- the loop body of `RunIf.run`: `inner s [val]` is `self._seq.run([val])` -/
def runIfStep {σ : Type} (select : Item → Bool) (inner : σ → List Item → Step σ Item) (s : σ) (v : Item) :
    Step σ Item :=
  if select v then inner s [v] else pass s v

/-! ## `MapGroup.run` with `map_scalars=False` (group_plots.py:137-217) -/

/-- groups: the context has a key `group` and the data is iterable -/
def mapGroupSel (v : Item) : Bool := hasKey v.dict "group" && v.data.hasIter

/-- run the inner sequence on every member `(dt, context["group"][i])` in turn -/
def runMembers {σ : Type} (inner : σ → List Item → Step σ Item) (v : Item) :
    σ → Nat → List Data → List CV → List (List Item) → (List (List Item) × σ × Option Exc)
  | s, _, [], _, acc => (acc.reverse, s, none)
  | s, _, _ :: _, [], acc => (acc.reverse, s, some .unmodelled)
  | s, i, dt :: ds, g :: gs, acc =>
    match g with
    | .dict gd =>
      let m : Item := ⟨.made v.tok (1000 + 2 * i), dt, some ⟨.made v.tok (1001 + 2 * i), gd⟩⟩
      match inner s [m] with
      | ⟨_, s', some e⟩ => (acc.reverse, s', some e)
      | ⟨out, s', none⟩ => runMembers inner v s' (i + 1) ds gs (out :: acc)
    | _ => (acc.reverse, s, some .unmodelled)

/-- the `k`-th results of all members, `k = 0 … n-1` -/
def transposeK (newVals : List (List Item)) (k : Nat) : List Data :=
  newVals.filterMap (fun r => (r[k]?).map (·.data))

/-- `_update_with_group` (group_plots.py:70-90): the new `output.changed` from the values found in the common
context and in the group contexts (`none` = leave it alone).  The values are put into a `set`: an unhashable
one raises `TypeError`; `False in all_changed` also finds `0`. -/
def groupChanged (vals : List (Option CV)) : Except Exc (Option Bool) :=
  if vals.any (fun x => match x with
      | some (.list _) => true
      | some (.dict _) => true
      | _ => false) then .error .typeError
  else if vals.any (fun x => match x with
      | some (.opaque _) => true
      | _ => false) then .error .unmodelled
  else if vals.any (fun x => match x with
      | some v => v.truthy
      | none => false) then .ok (some true)
  else if vals.any (fun x => match x with
      | some (.bool false) => true
      | some (.int 0) => true
      | _ => false) then .ok (some false)
  else .ok none

/-- the context of the `k`-th value yielded for a group: `output.changed` set from the group, `group` replaced
(the common part of the group contexts does not change under the modelled inner sequences) -/
def groupCtx (d : Dict) (newVals : List (List Item)) (k : Nat) : Except Exc Dict :=
  let vals := getRec d ["output", "changed"] ::
    newVals.filterMap (fun r => (r[k]?).map (fun y => getRec y.dict ["output", "changed"]))
  match groupChanged vals with
  | .error e => .error e
  | .ok (some b) => .ok (setKey (updPath d ["output", "changed"] (.bool b)) "group" (.opaque "group"))
  | .ok none => .ok (setKey d "group" (.opaque "group"))

/-- the values yielded for a group, `k = from … n-1`; an exception in `_update_with_group` ends the run after
the values yielded before -/
def groupOut (v : Item) (c : Ctx) (newVals : List (List Item)) (n : Nat) :
    Nat → Nat → List Item → (List Item × Option Exc)
  | 0, _, acc => (acc.reverse, none)
  | fuel + 1, k, acc =>
    match groupCtx c.d newVals k with
    | .error e => (acc.reverse, some e)
    | .ok d' =>
      let ctok := if k + 1 == n then c.tok else Tok.made v.tok (2 * k + 1)
      groupOut v c newVals n fuel (k + 1)
        ((⟨.made v.tok (2 * k), .seq false (transposeK newVals k), some ⟨ctok, d'⟩⟩ : Item) :: acc)

/-- the loop body of `MapGroup.run` (`map_scalars=False`) -/
def mapGroupStep {σ : Type} (inner : σ → List Item → Step σ Item) (s : σ) (v : Item) : Step σ Item :=
  match v.ctx with
  | none => pass s v                 -- `"group" not in {}`
  | some c =>
    match lookup c.d "group" with
    | none => pass s v
    | some g =>
      if !v.data.hasIter then pass s v
      else
        match v.data, g with
        | .seq _ items, .list gl =>
          -- `len(data) != len(context["group"])`
          if items.length != gl.length then ⟨[], s, some .lenaRuntimeError⟩
          -- `intersection(*context["group"])`: all must be dictionaries
          else if !gl.all (fun x => match x with | .dict _ => true | _ => false) then
            ⟨[], s, some .lenaTypeError⟩
          else
            match runMembers inner v s 0 items gl [] with
            | (_, s', some e) => ⟨[], s', some e⟩
            | (newVals, s', none) =>
              match newVals with
              | [] => ⟨[], s', some .indexError⟩            -- `new_vals[0]`
              | first :: rest =>
                let n := first.length
                if !rest.all (fun r => r.length == n) then ⟨[], s', some .lenaRuntimeError⟩
                else
                  let r := groupOut v c newVals n n 0 []
                  ⟨r.1, s', r.2⟩
        | _, _ => ⟨[], s, some .unmodelled⟩

/-! ## `LaTeXToPDF.run` (latex_to_pdf.py:56-203)

The process pool makes this element different: finished processes are collected — and their results
yielded — at *every* iteration, also while an unselected value is being processed.  When a process
terminates is outside the program: a schedule `Sched` says, per launched process (numbered in launch
order), from which iteration on `poll()` reports termination, and the return code. -/

structure Proc where
  key : String        -- output file name (key of the OrderedDict)
  pid : Nat           -- launch number
  tex : String
  ctx : Ctx           -- the context object stored with the process
  parent : Tok        -- identity of the value that launched it

structure Sched where
  finishAt : Nat → Nat
  rc : Nat → Int

structure PdfSt where
  fs : FS
  pool : List Proc
  launched : Nat
  iter : Nat

/-- a yielded value with its origin: `pass v` is the consumed value itself, `prod v` was made by the element -/
inductive Emit where
  | pass (v : Item)
  | prod (v : Item)

def Emit.item : Emit → Item
  | .pass v => v
  | .prod v => v

def Emit.isPass : Emit → Bool
  | .pass _ => true
  | .prod _ => false

/-- `is_tex_file(context)` -/
def pdfSel (v : Item) : Bool :=
  match getRec v.dict ["output", "filetype"] with
  | some (.str s) => s == "tex"
  | _ => false

/-- the value `(filename, context)` yielded for a finished process; the stub has written the pdf -/
def procResult (p : Proc) : Item := ⟨.made p.parent 0, .str p.key, some p.ctx⟩

/-- `pop_returned_processes`: processes whose `poll()` reports termination leave the pool (in pool
order); those with return code 0 are yielded and have written their pdf -/
def popReturned (sch : Sched) (it : Nat) : FS → List Proc → (List Proc × List Emit × FS)
  | fs, [] => ([], [], fs)
  | fs, p :: ps =>
    if sch.finishAt p.pid ≤ it then
      if sch.rc p.pid != 0 then popReturned sch it fs ps
      else
        let (rest, ys, fs') := popReturned sch it (fs.write p.key (.conv "pdf" p.tex)) ps
        (rest, .prod (procResult p) :: ys, fs')
    else
      let (rest, ys, fs') := popReturned sch it fs ps
      (p :: rest, ys, fs')

/-- `pool[outfilename] = (process, context)` on an OrderedDict: an existing key keeps its position -/
def poolSet (p : Proc) : List Proc → List Proc
  | [] => [p]
  | q :: qs => if q.key == p.key then p :: qs else q :: poolSet p qs

/-- what `LaTeXToPDF.run` decides for a selected value -/
inductive PdfDec where
  | err (e : Exc)
  /-- the pdf exists and is up to date: `(pdf, context)` is yielded at once -/
  | skip (y : Item)
  /-- a process is launched; its result will be `(key, ctx)` -/
  | launch (key tex : String) (ctx : Ctx)

/-- the body of the loop for a selected value (latex_to_pdf.py:151-181): it reads the file system only
through `getmtime(pdf)`, `getmtime(tex)` and `exists(pdf)` -/
def pdfDecide (overwrite : Bool) (fs : FS) (v : Item) : PdfDec :=
  let c := v.ctxOr 0
  match lookup c.d "output" with
  | some (.dict outputc) =>
    let o1 := setKey outputc "filetype" (.str "pdf")
    match v.data with
    | .str texName =>
      let pdf := replaceExt texName ".tex" ".pdf"
      let changedR : Except Exc Bool :=
        match lookup o1 "changed" with
        | some x => .ok x.truthy
        | none =>
          match fs.mtime pdf with
          | none => .ok true
          | some pt =>
            match fs.mtime texName with
            | none => .error .fileNotFoundError
            | some tt => .ok (decide (tt > pt))
      match changedR with
      | .error e => .err e
      | .ok changed =>
        if !overwrite && fs.exists pdf && !changed then
          let o2 := setKey o1 "changed" (.bool false)
          .skip (mk v 0 (.str pdf) ⟨c.tok, setKey c.d "output" (.dict o2)⟩)
        else
          let o2 := setKey o1 "changed" (.bool true)
          .launch pdf texName ⟨c.tok, setKey c.d "output" (.dict o2)⟩
    | .text _ _ _ => .err .unmodelled
    | _ => .err .attributeError                       -- `texfile_name.replace`
  | _ => .err .unmodelled                              -- unreachable: `pdfSel` found `output.filetype`

/-- the loop body of `LaTeXToPDF.run` -/
def pdfStep (overwrite : Bool) (sch : Sched) (st : PdfSt) (v : Item) : Step PdfSt Emit :=
  let (pool1, popped, fs1) := popReturned sch st.iter st.fs st.pool
  let st1 : PdfSt := { st with fs := fs1, pool := pool1, iter := st.iter + 1 }
  if !pdfSel v then ⟨popped ++ [.pass v], st1, none⟩
  else
    match pdfDecide overwrite fs1 v with
    | .err e => ⟨popped, st1, some e⟩
    | .skip y => ⟨popped ++ [.prod y], st1, none⟩
    | .launch key tex ctx =>
      ⟨popped, { st1 with pool := poolSet ⟨key, st1.launched, tex, ctx, v.tok⟩ st1.pool,
                          launched := st1.launched + 1 }, none⟩

/-- after the flow: `process.communicate()` for every process still in the pool, in pool order -/
def pdfDrain (sch : Sched) : FS → List Proc → (List Emit × FS)
  | fs, [] => ([], fs)
  | fs, p :: ps =>
    if sch.rc p.pid != 0 then pdfDrain sch fs ps
    else
      let (ys, fs') := pdfDrain sch (fs.write p.key (.conv "pdf" p.tex)) ps
      (.prod (procResult p) :: ys, fs')

/-- the result of `LaTeXToPDF.run`: the blocks of the loop, what is yielded after the flow, the final
file system -/
structure PdfRun where
  blocks : List (List Emit)
  tail : List Emit
  fs : FS
  err : Option Exc

def pdfRun (overwrite : Bool) (sch : Sched) (fs : FS) (xs : List Item) : PdfRun :=
  let r := loop (pdfStep overwrite sch) ⟨fs, [], 0, 0⟩ xs
  match r.err with
  | some e => ⟨r.blocks, [], r.st.fs, some e⟩
  | none =>
    let (ys, fs') := pdfDrain sch r.st.fs r.st.pool
    ⟨r.blocks, ys, fs', none⟩

def PdfRun.out (r : PdfRun) : List Emit := r.blocks.flatten ++ r.tail

/-- `run` of an element object that may have been used before: the process pool and the launch counter are what
the previous run left (`self.processes` is cleared only when a run ends normally — after an exception its
processes are still there), the iteration count starts again; returns the state the object is left in -/
def pdfRunFrom (overwrite : Bool) (sch : Sched) (st : PdfSt) (xs : List Item) : PdfRun × PdfSt :=
  let r := loop (pdfStep overwrite sch) { st with iter := 0 } xs
  match r.err with
  | some e => (⟨r.blocks, [], r.st.fs, some e⟩, r.st)
  | none =>
    let (ys, fs') := pdfDrain sch r.st.fs r.st.pool
    (⟨r.blocks, ys, fs', none⟩, { r.st with fs := fs', pool := [] })

/-! ## Loops that yield more after the flow: `GroupPlots.run` (group_plots.py:330-358)

`for val in flow: <body>` followed by `for … in <state>: yield …`.  `GroupPlots` (deprecated since 0.6 but
part of the anchored file) passes what it does not select, collects the selected values into groups and
yields one `group_plots(grp)` per group after the flow. -/

/-- a run with values yielded after the flow was exhausted -/
structure TRun (σ α : Type) where
  blocks : List (List α)
  tail : List α
  st : σ
  err : Option Exc

/-- `for val in flow: <f>` and then `<fin>` (not reached when the loop raised) -/
def loopTail {σ α β : Type} (f : σ → α → Step σ β) (fin : σ → Step σ β) (s : σ) (xs : List α) : TRun σ β :=
  let r := loop f s xs
  match r.err with
  | some e => ⟨r.blocks, [], r.st, some e⟩
  | none =>
    let t := fin r.st
    ⟨r.blocks, t.out, t.st, t.err⟩

def TRun.out {σ α : Type} (r : TRun σ α) : List α := r.blocks.flatten ++ r.tail

/-- data that `copy.deepcopy` returns as the very same object (atomic or immutable all the way down) -/
def Data.immLeaf : Data → Bool
  | .int _ => true
  | .str _ => true
  | .text _ _ _ => true
  | .other cls _ _ => cls == "NoneType" || cls == "float" || cls == "bytes"
  | _ => false

/-- `copy.deepcopy(val)`: a bare immutable value is returned itself, anything else is a new object (a pair
gets a new tuple and a new context dictionary) -/
def deepcopyItem (v : Item) : Item :=
  match v.ctx with
  | some c => ⟨.made v.tok 0, v.data, some ⟨.made v.tok 1, c.d⟩⟩
  | none =>
    if v.data.immLeaf || (match v.data with
        | .seq true items => items.all Data.immLeaf
        | _ => false) then v
    else ⟨.made v.tok 0, v.data, none⟩

structure GPCfg where
  /-- `select` (`None` selects everything) -/
  select : Item → Bool
  /-- `group_by` given as a callable; it may raise -/
  key : Item → Except Exc String
  yieldSelected : Bool

/-- the groups: key ↦ members, in the order of first appearance (a Python dict) -/
abbrev Groups := List (String × List Item)

/-- `groups[key].append(val)` / `groups[key] = [val]` -/
def addToGroup : Groups → String → Item → Groups
  | [], k, v => [(k, [v])]
  | (k', vs) :: r, k, v => if k' = k then (k', vs ++ [v]) :: r else (k', vs) :: addToGroup r k v

/-- the loop body of `GroupPlots.run` -/
def groupPlotsStep (cfg : GPCfg) (g : Groups) (v : Item) : Step Groups Item :=
  if cfg.select v then
    let ys := if cfg.yieldSelected then [deepcopyItem v] else []
    match cfg.key v with
    | .error e => ⟨ys, g, some e⟩
    | .ok k => ⟨ys, addToGroup g k v, none⟩
  else pass g v

/-- `group_plots(grp)` (group_plots.py:218-242): the data parts, and a new context — the intersection of the
members' contexts (not interpreted here) with `output.changed = any(member's output.changed)` and
`group` = the members' contexts -/
def groupPlots (grp : List Item) : Item :=
  let changed := grp.any (fun v => match getRec v.dict ["output", "changed"] with
    | some x => x.truthy
    | none => false)
  let t : Tok := match grp with
    | v :: _ => .made v.tok 700
    | [] => .src 0
  ⟨t, .seq false (grp.map (·.data)),
    some ⟨.made t 1, [("output", .dict [("changed", .bool changed)]), ("group", .opaque "group")]⟩⟩

/-- after the flow: one group value per key (no `scale`, empty `transform`) -/
def groupPlotsFin (g : Groups) : Step Groups Item := ⟨g.map (fun kv => groupPlots kv.2), g, none⟩

def groupPlotsRun (cfg : GPCfg) : Groups → List Item → TRun Groups Item :=
  loopTail (groupPlotsStep cfg) groupPlotsFin

/-! ## Aliasing: when flow values share context objects (the locality hypothesis)

Everything above passes values: a step sees the context its value was built with.  Python passes references:
if two flow values hold the *same* context dictionary (or the same value occurs twice), a mutation made while
one is processed is seen when the other is processed — and in the values already yielded.  `sharedStep` adds
that: a heap maps the identity of a context object to its current content; a value is refreshed from the heap
before it is processed, and the contexts of what is yielded are written back.  `Local` flows (all identities
different) behave the same in both semantics (`Props/C10.lean`, `shared_eq_loop_of_local`); flows that are
not `Local` do not satisfy the property (`example`s there, and the harness's aliasing cases). -/

abbrev Heap := List (Tok × Dict)

def Heap.get : Heap → Tok → Option Dict
  | [], _ => none
  | (t, d) :: r, k => if t = k then some d else Heap.get r k

def Heap.set : Heap → Tok → Dict → Heap
  | [], k, d => [(k, d)]
  | (t, d') :: r, k, d => if t = k then (t, d) :: r else (t, d') :: Heap.set r k d

/-- the value as the program sees it now: its context object with the current content -/
def Item.refresh (h : Heap) (v : Item) : Item :=
  match v.ctx with
  | some c =>
    match h.get c.tok with
    | some d => { v with ctx := some ⟨c.tok, d⟩ }
    | none => v
  | none => v

/-- the contexts of yielded values are (possibly mutated) objects: remember the content of those that came
with the flow (`Tok.src`); an object made during a step is not seen by a later step -/
def Heap.record (h : Heap) (outs : List Item) : Heap :=
  outs.foldl (fun h y => match y.ctx with
    | some c => match c.tok with
      | .src _ => h.set c.tok c.d
      | .made _ _ => h
    | none => h) h

/-- the loop body `f` under reference semantics -/
def sharedStep {σ : Type} (f : σ → Item → Step σ Item) (sh : σ × Heap) (v : Item) : Step (σ × Heap) Item :=
  let r := f sh.1 (v.refresh sh.2)
  ⟨r.out, (r.st, sh.2.record r.out), r.err⟩

/-- what an observer holding the yielded values sees after the run -/
def finalView (h : Heap) (blocks : List (List Item)) : List (List Item) := blocks.map (·.map (Item.refresh h))

/-- the identities (value, context) occurring in a flow -/
def valueToks (xs : List Item) : List Tok := xs.map (·.tok)
def ctxToks (xs : List Item) : List Tok := xs.filterMap (fun v => v.ctx.map (·.tok))

/-- executable form of `Local` (`Props/C10.lean`): all flow values are source objects with contexts of their own -/
def localB (xs : List Item) : Bool :=
  decide (ctxToks xs).Nodup &&
  (ctxToks xs).all (fun t => match t with
    | .src _ => true
    | .made _ _ => false)

/-! ## `LaTeXToPDF`: the timing-free description (reference notions of the theorems)

What is produced for the selected values is, as a multiset, `pdfSpec`: decide for every selected value
against the *initial* file system; a skipped one contributes its `(pdf, context)` at once, a launched one
the result of its process iff the return code is 0 (`Lemmas/C10.lean`: `pdf_loop_spec`). -/

/-- the pdf name of a tex name -/
def pdfName (t : String) : String := replaceExt t ".tex" ".pdf"

/-- the tex file name a value carries as data -/
def texOf (v : Item) : Option String :=
  match v.data with
  | .str t => some t
  | _ => none

/-- what the processes of a pool will yield once they have ended: `(key, context)` for return code 0 -/
def pending (rc : Nat → Int) (pool : List Proc) : List Item :=
  pool.filterMap (fun p => if rc p.pid != 0 then none else some (procResult p))

/-- the values made by the element among what was yielded -/
def prodsOf (es : List Emit) : List Item :=
  es.filterMap (fun e => match e with
    | .prod v => some v
    | .pass _ => none)

/-- decide every selected value against one file system `fs`; `n` = number of processes launched so far -/
def pdfSpec (ow : Bool) (rc : Nat → Int) (fs : FS) : Nat → List Item → List Item
  | _, [] => []
  | n, a :: as =>
    match pdfDecide ow fs a with
    | .err _ => []
    | .skip y => y :: pdfSpec ow rc fs n as
    | .launch key tex ctx =>
      (if rc n != 0 then [] else [procResult ⟨key, n, tex, ctx, a.tok⟩]) ++ pdfSpec ow rc fs (n + 1) as

/-- the exception the run ends with, decided against one file system: that of the first selected value whose
decision is an error -/
def pdfSpecErr (ow : Bool) (fs : FS) : List Item → Option Exc
  | [] => none
  | a :: as =>
    match pdfDecide ow fs a with
    | .err e => some e
    | _ => pdfSpecErr ow fs as

/-- the tex names of the selected values of a flow, and the pdf names made from them -/
def selTex (xs : List Item) : List String := (xs.filter pdfSel).filterMap texOf
def selKeys (xs : List Item) : List String := (selTex xs).map pdfName

/-- the consumed values among what was yielded -/
def passedOf (es : List Emit) : List Item :=
  es.filterMap (fun e => match e with
    | .pass v => some v
    | .prod _ => none)

/-- executable form of the no-collision hypothesis `KeysOK` (`Lemmas/C10.lean`): the pdf names in the pool
and of the selected values are pairwise different, and no tex name is one of them -/
def keysOKb (poolKeys : List String) (xs : List Item) : Bool :=
  decide (poolKeys ++ selKeys xs).Nodup && (selTex xs).all (fun t => !(poolKeys ++ selKeys xs).contains t)

/-! ## Pipelines: `Sequence(E1, E2, …)` of per-value loops

Generators are demand-driven: `E2` consumes every value `E1` yields while `E1` processes one input value,
before `E1` pulls the next one.  All modelled elements finish the side effects of a step before its first
`yield`, so at the granularity of blocks the composite is again a loop `for val in flow: <body>`. -/

/-- the body of the composite loop: `E1` processes `v`, `E2` processes what `E1` yielded; an exception of
`E2` ends the run at once, an exception of `E1` after `E2` has consumed what `E1` yielded before it -/
def pipeStep {σ : Type} (f1 f2 : σ → Item → Step σ Item) (s : σ) (v : Item) : Step σ Item :=
  let r1 := f1 s v
  let r2 := loop f2 r1.st r1.out
  match r2.err with
  | some e => ⟨r2.out, r2.st, some e⟩
  | none => ⟨r2.out, r2.st, r1.err⟩

/-- the empty pipeline yields every value as it is -/
def idStep {σ : Type} (s : σ) (v : Item) : Step σ Item := pass s v

/-- `Sequence(E1, …, En)` -/
def pipeAll {σ : Type} : List (σ → Item → Step σ Item) → σ → Item → Step σ Item
  | [] => idStep
  | f :: fs => pipeStep f (pipeAll fs)

/-- an element that only knows the file system, run in a world with more state -/
def liftFS {ω : Type} (get : ω → FS) (set : ω → FS → ω) (f : FS → Item → Step FS Item) (w : ω) (v : Item) :
    Step ω Item :=
  let r := f (get w) v
  ⟨r.out, set w r.st, r.err⟩

/-! ## The documented selection rules, written independently of the loop bodies

`docGet` follows a dotted key through nested dictionaries as `get_recursively` is documented ("a list of keys
is searched in the dictionary recursively; if any of them is not found, default is returned").  The `…Doc`
predicates are the selection rules as the docstrings of the elements state them; `Props/C10.lean` proves that
the guards transcribed from the code (`toCSVSel`, `isWritable`, …) coincide with them, and the driver evaluates
them on every generated value against the harness's own `ref_selected`. -/

def docGet : CV → List String → Option CV
  | v, [] => some v
  | .dict d, k :: ks => (lookup d k).bind (fun w => docGet w ks)
  | _, _ :: _ => none

/-- the context does not switch the element off at `path` (absent counts as on) -/
def notDisabled (d : Dict) (path : List String) : Bool :=
  match docGet (.dict d) path with
  | some x => x.truthy
  | none => true

/-- `context` has the string `s` at `path` -/
def hasStrAt (d : Dict) (path : List String) (s : String) : Bool :=
  match docGet (.dict d) path with
  | some (.str t) => t == s
  | _ => false

/-- ToCSV: "Convertible data types are histograms and those that implement a method rows() … If
context.output.to_csv is False, the value is skipped" (histograms of more than two dimensions are not implemented) -/
def toCSVDoc (v : Item) : Bool :=
  notDisabled v.dict ["output", "to_csv"] &&
  (match v.data with
   | .hist h => h.dim == 1 || h.dim == 2
   | .rows _ k _ => k != .notCallable
   | .graph _ _ => true
   | _ => false)

/-- Write: "Only strings and objects with a method write are written. If context["output"]["write"] is set to
False, a value will not be written" -/
def writeDoc (v : Item) : Bool :=
  (match docGet (.dict v.dict) ["output", "write"] with
   | some (.bool false) => false
   | _ => true) &&
  (match v.data with
   | .str _ => true
   | .text _ _ _ => true
   | .writable _ => true
   | _ => false)

/-- RenderLaTeX: "values with context.output.filetype equal to "csv" are selected by default" -/
def renderDoc (v : Item) : Bool := hasStrAt v.dict ["output", "filetype"] "csv"
/-- LaTeXToPDF: "A value from flow corresponds to a TeX file if its context.output.filetype is "tex"" -/
def pdfDoc (v : Item) : Bool := hasStrAt v.dict ["output", "filetype"] "tex"
/-- PDFToPNG: "PDF files are recognized via context.output.filetype" -/
def pngDoc (v : Item) : Bool := hasStrAt v.dict ["output", "filetype"] "pdf"

/-- HistToGraph: "Not histograms or histograms with context.histogram.to_graph set to False pass unchanged" -/
def histToGraphDoc (v : Item) : Bool :=
  (match v.data with
   | .hist _ => true
   | _ => false) && notDisabled v.dict ["histogram", "to_graph"]

/-- MapGroup: "A value represents a group if its context has a key group and its data part is iterable" -/
def mapGroupDoc (v : Item) : Bool :=
  (docGet (.dict v.dict) ["group"]).isSome && v.data.hasIter

/-! ## Stand-ins of the correspondence: the user-supplied callables the harness instantiates

`lena.flow.Selector` specifications, inner sequences, `group_by` and `select_template` callables.  The theorems
quantify over *all* functions in these places; the driver evaluates the model with the members of these small
menus, which the harness implements as Python classes (`harness/props/c10.py`: `_make_selector`, `_Id`, `_Dup`, …). -/

/-- the class name `Selector(cls)` tests with `isinstance(get_data(val), cls)` -/
def dataCls : Data → String
  | .int _ => "int"
  | .str _ => "str"
  | .text _ _ _ => "str"
  | .other c _ _ => c
  | .seq true _ => "tuple"
  | .seq false _ => "list"
  | .writable _ => "Writable"
  | .rows _ _ _ => "Rows"
  | .hist _ => "histogram"
  | .graph _ _ => "graph"

/-- a `Selector` argument: a class, a context key, a list (or), a tuple (and), a constant callable -/
inductive SelSpec where
  | cls (name : String)
  | key (k : String)
  | or (l : List SelSpec)
  | and (l : List SelSpec)
  | const (b : Bool)

mutual
/-- `Selector(spec)(val)`; `isinstance(True, int)` holds in Python -/
def evalSel : SelSpec → Item → Bool
  | .cls n, v => dataCls v.data == n || (n == "int" && dataCls v.data == "bool")
  | .key k, v => hasKey v.dict k
  | .or l, v => evalAny l v
  | .and l, v => evalAll l v
  | .const b, _ => b
def evalAny : List SelSpec → Item → Bool
  | [], _ => false
  | s :: r, v => evalSel s v || evalAny r v
def evalAll : List SelSpec → Item → Bool
  | [], _ => true
  | s :: r, v => evalSel s v && evalAll r v
end

/-- the state the inner sequences of `RunIf` / `MapGroup` may use: the file system and a counter -/
structure World where
  fs : FS
  n : Nat

/-- a sequence given by a loop body, as an inner sequence -/
def asInner {σ : Type} (f : σ → Item → Step σ Item) (s : σ) (xs : List Item) : Step σ Item :=
  let r := loop f s xs
  ⟨r.out, r.st, r.err⟩

/-- a fresh list `[a, data]` made from `v` (never a `(data, context)` pair) -/
def numbered (v : Item) (a : Nat) : Item := ⟨.made v.tok 500, .seq false [.int a, v.data], none⟩

def numberAll : Nat → List Item → List Item
  | _, [] => []
  | i, v :: vs => numbered v i :: numberAll (i + 1) vs

/-- the inner sequences of the harness (`_Id`, `_Dup`, `_Drop`, `_Number`, `Slice(1)`, `_Count`, `_Raise`,
`_YieldRaise`, `_DupEven`, `_Last`, `Write(…)`) -/
inductive InnerKind where
  | id | dup | drop | number | first | count | raise | yieldraise | dupeven | last
  | write (cfg : WriteCfg)

def innerApply : InnerKind → World → List Item → Step World Item
  | .id, w, xs => ⟨xs, w, none⟩
  | .dup, w, xs => ⟨xs.flatMap (fun v => [v, v]), w, none⟩
  | .drop, w, _ => ⟨[], w, none⟩
  | .number, w, xs => ⟨numberAll 0 xs, w, none⟩
  | .first, w, xs => ⟨xs.take 1, w, none⟩
  | .count, w, xs => ⟨numberAll w.n xs, { w with n := w.n + xs.length }, none⟩
  | .raise, w, _ => ⟨[], w, some (.inner 1)⟩
  | .yieldraise, w, xs => ⟨xs.take 1, w, some (.inner 2)⟩
  | .dupeven, w, xs => ⟨xs.flatMap (fun v =>
      match v.data with
      | .int i => if i % 2 == 0 then [v, v] else [v]
      | _ => [v]), w, none⟩
  | .last, w, xs =>
    match xs.getLast? with
    | some v => ⟨[numbered v xs.length], w, none⟩
    | none => ⟨[], w, none⟩
  | .write cfg, w, xs =>
    let r := asInner (writeStep cfg) w.fs xs
    ⟨r.out, { w with fs := r.st }, r.err⟩

/-- a new `(data, {"k": 1})` pair made from the cell -/
def withCtx (v : Item) : Item := ⟨.made v.tok 500, v.data, some ⟨.made v.tok 501, [("k", .int 1)]⟩⟩

/-- the sequences mapped over bins (`_Id`, `_Dup`, `_Drop`, `_DupFirst`, `_Raise`, `_YieldRaise`, `_WithCtx`) -/
inductive CellInnerKind where
  | id | dup | drop | dupfirst | raise | yieldraise | ctx

def cellInnerApply : CellInnerKind → Item → CellRes
  | .id, v => ([v], none)
  | .dup, v => ([v, v], none)
  | .drop, _ => ([], none)
  | .dupfirst, v =>
    match v.data with
    | .int 0 => ([v, v], none)
    | .hist h => if h.id % 100 == 1 then ([v, v], none) else ([v], none)
    | .seq _ (.int 0 :: _) => ([v, v], none)
    | _ => ([v], none)
  | .raise, _ => ([], some (.inner 1))
  | .yieldraise, v => ([v], some (.inner 2))
  | .ctx, v => ([withCtx v], none)

/-- `group_by` callables: parity of the data, class name of the data, `str(context["n"])`, a constant -/
inductive KeyKind where
  | parity | cls | ctxn | const

def keyApply : KeyKind → Item → Except Exc String
  | .parity, v =>
    match v.data with
    | .int i => .ok (if i % 2 == 0 then "k0" else "k1")
    | .other "float" _ _ => .error .unmodelled
    | .other "bool" _ _ => .error .unmodelled
    | _ => .error .typeError
  | .cls, v => .ok (dataCls v.data)
  | .ctxn, v =>
    match lookup v.dict "n" with
    | some (.int i) => .ok (toString i)
    | some (.str s) => .ok s
    | some _ => .error .unmodelled
    | none => .error .keyError
  | .const, _ => .ok "all"

/-- `select_template` callables -/
inductive SelTemplateKind where
  | t2 | bycls | missing | raise

def selTemplateApply : SelTemplateKind → Item → Except Exc String
  | .t2, _ => .ok "t2.tex"
  | .bycls, v => .ok (match v.data with
      | .int _ => "t1.tex"
      | _ => "t2.tex")
  | .missing, _ => .ok "missing.tex"
  | .raise, _ => .error (.inner 1)

/-! ## the elements as loops -/

def toCSVRun {σ : Type} (cfg : CsvCfg) : σ → List Item → Run σ Item := loop (toCSVStep cfg)
def writeRun (cfg : WriteCfg) : FS → List Item → Run FS Item := loop (writeStep cfg)
def renderRun {σ : Type} (cfg : RenderCfg) : σ → List Item → Run σ Item := loop (renderStep cfg)
def pngRun (cfg : PngCfg) : FS → List Item → Run FS Item := loop (pngStep cfg)
def histToGraphRun {σ : Type} (cfg : H2GCfg) : σ → List Item → Run σ Item := loop (histToGraphStep cfg)
def iterateBinsRun {σ : Type} (sb : BinKind → Bool) : σ → List Item → Run σ Item := loop (iterateBinsStep sb)
def mapBinsRun {σ : Type} (sb : BinKind → Bool) (inner : Item → CellRes) (dropCtx : Bool) :
    σ → List Item → Run σ Item := loop (mapBinsStep sb inner dropCtx)
def runIfRun {σ : Type} (select : Item → Bool) (inner : σ → List Item → Step σ Item) :
    σ → List Item → Run σ Item := loop (runIfStep select inner)
def mapGroupRun {σ : Type} (inner : σ → List Item → Step σ Item) : σ → List Item → Run σ Item :=
  loop (mapGroupStep inner)
def pipeRun {σ : Type} (fs : List (σ → Item → Step σ Item)) : σ → List Item → Run σ Item := loop (pipeAll fs)

end Lena.C10
