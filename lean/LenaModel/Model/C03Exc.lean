import LenaModel.Model.C03
/-! # C03 model, part 4 — exception classes and the `except LenaStopFill` clause of `Split.run`

`Split.run` (lena/core/split.py:377-382 and 395-400) wraps `seq.fill(val)` in

    try: seq.fill(val)
    except exceptions.LenaStopFill: stopped = True; break

An `except C` clause is an `isinstance` test: it catches `C` and its subclasses and nothing
else.  `LenaStopFill` derives from `LenaException` like every other lena error
(lena/core/exceptions.py), so which of the exceptions of a branch is *the stop signal* — and
which ones leave `Split.run` — is decided by the class hierarchy.  This file transcribes the
hierarchy (the `class X(A, B)` lines of exceptions.py, the builtins they mention, and two
user-defined subclasses used by the harness) and the clause.

No imports except `Model/C03.lean`; executed by `drivers/C03.lean` (through `Model/C03X.lean`). -/

namespace Lena.C03

/-- exception classes a branch method can raise in the generated cases -/
inductive ExcClass where
  | baseException | exception | keyboardInterrupt
  | arithmeticError | lookupError | osError
  | attributeError | indexError | keyError | notImplementedError | runtimeError | typeError
  | valueError | zeroDivisionError
  /-- lena/core/exceptions.py -/
  | lenaException | lenaAttributeError | lenaEnvironmentError | lenaIndexError | lenaKeyError
  | lenaNotImplementedError | lenaRuntimeError | lenaStopFill | lenaTypeError | lenaValueError
  | lenaZeroDivisionError
  /-- `class SubStopFill(LenaStopFill)`: a user-defined stop signal (harness) -/
  | subStopFill
  /-- `class SubLenaException(LenaException)`: a user-defined lena error (harness) -/
  | subLenaException
  deriving Repr, DecidableEq

/-- the direct base classes: `class LenaValueError(LenaException, ValueError)` … -/
def ExcClass.bases : ExcClass → List ExcClass
  | .baseException => []
  | .exception => [.baseException]
  | .keyboardInterrupt => [.baseException]
  | .arithmeticError => [.exception]
  | .lookupError => [.exception]
  | .osError => [.exception]
  | .attributeError => [.exception]
  | .indexError => [.lookupError]
  | .keyError => [.lookupError]
  | .runtimeError => [.exception]
  | .notImplementedError => [.runtimeError]
  | .typeError => [.exception]
  | .valueError => [.exception]
  | .zeroDivisionError => [.arithmeticError]
  | .lenaException => [.exception]
  | .lenaAttributeError => [.lenaException, .attributeError]
  | .lenaEnvironmentError => [.lenaException, .osError]
  | .lenaIndexError => [.lenaException, .indexError]
  | .lenaKeyError => [.lenaException, .keyError]
  | .lenaNotImplementedError => [.lenaException, .notImplementedError]
  | .lenaRuntimeError => [.lenaException, .runtimeError]
  | .lenaStopFill => [.lenaException]
  | .lenaTypeError => [.lenaException, .typeError]
  | .lenaValueError => [.lenaException, .valueError]
  | .lenaZeroDivisionError => [.lenaException, .zeroDivisionError]
  | .subStopFill => [.lenaStopFill]
  | .subLenaException => [.lenaException]

/-- `issubclass(c, d)` by following `bases` at most `n` levels up -/
def ExcClass.isaFuel : Nat → ExcClass → ExcClass → Bool
  | 0, c, d => c == d
  | n + 1, c, d => c == d || c.bases.any (fun b => ExcClass.isaFuel n b d)

/-- `issubclass(c, d)` (the hierarchy above is five levels deep) -/
def ExcClass.isa (c d : ExcClass) : Bool := ExcClass.isaFuel 6 c d

/-- the class with the Python name `s` -/
def ExcClass.ofName : String → Option ExcClass
  | "BaseException" => some .baseException | "Exception" => some .exception
  | "KeyboardInterrupt" => some .keyboardInterrupt
  | "ArithmeticError" => some .arithmeticError | "LookupError" => some .lookupError
  | "OSError" => some .osError | "AttributeError" => some .attributeError
  | "IndexError" => some .indexError | "KeyError" => some .keyError
  | "NotImplementedError" => some .notImplementedError | "RuntimeError" => some .runtimeError
  | "TypeError" => some .typeError | "ValueError" => some .valueError
  | "ZeroDivisionError" => some .zeroDivisionError
  | "LenaException" => some .lenaException | "LenaAttributeError" => some .lenaAttributeError
  | "LenaEnvironmentError" => some .lenaEnvironmentError | "LenaIndexError" => some .lenaIndexError
  | "LenaKeyError" => some .lenaKeyError | "LenaNotImplementedError" => some .lenaNotImplementedError
  | "LenaRuntimeError" => some .lenaRuntimeError | "LenaStopFill" => some .lenaStopFill
  | "LenaTypeError" => some .lenaTypeError | "LenaValueError" => some .lenaValueError
  | "LenaZeroDivisionError" => some .lenaZeroDivisionError
  | "SubStopFill" => some .subStopFill | "SubLenaException" => some .subLenaException
  | _ => none

def ExcClass.name : ExcClass → String
  | .baseException => "BaseException" | .exception => "Exception"
  | .keyboardInterrupt => "KeyboardInterrupt"
  | .arithmeticError => "ArithmeticError" | .lookupError => "LookupError" | .osError => "OSError"
  | .attributeError => "AttributeError" | .indexError => "IndexError" | .keyError => "KeyError"
  | .notImplementedError => "NotImplementedError" | .runtimeError => "RuntimeError"
  | .typeError => "TypeError" | .valueError => "ValueError" | .zeroDivisionError => "ZeroDivisionError"
  | .lenaException => "LenaException" | .lenaAttributeError => "LenaAttributeError"
  | .lenaEnvironmentError => "LenaEnvironmentError" | .lenaIndexError => "LenaIndexError"
  | .lenaKeyError => "LenaKeyError" | .lenaNotImplementedError => "LenaNotImplementedError"
  | .lenaRuntimeError => "LenaRuntimeError" | .lenaStopFill => "LenaStopFill"
  | .lenaTypeError => "LenaTypeError" | .lenaValueError => "LenaValueError"
  | .lenaZeroDivisionError => "LenaZeroDivisionError"
  | .subStopFill => "SubStopFill" | .subLenaException => "SubLenaException"

/-- `except exceptions.LenaStopFill:` — does the clause catch an exception of class `c`? -/
def ExcClass.isStopSignal (c : ExcClass) : Bool := c.isa .lenaStopFill

/-- the same test on a class given by its name (a name outside the vocabulary is not a stop
signal) -/
def isStopSignalName (s : String) : Bool :=
  match ExcClass.ofName s with
  | some c => c.isStopSignal
  | none => false

end Lena.C03
