import LenaModel.Model.Val
import LenaModel.Model.C07
import LenaModel.Model.C07Tok
/-! # C07 mutation model — which objects `update_recursively` and `update_nested` write to

`update_recursively(d, other)` changes `d` in place *by design*; `update_nested(key, d, other)`
changes `d` and, in general, `other` ("*other* is modified in general").  To say exactly what is
written, both arguments carry object identities (`TVal`, `Model/C07Tok.lean`) and every Python
statement that stores into a dictionary (`x[key] = …`) appends the identity of `x` to a write log.
The functions return the new tree of `d` (same root identity: it is the same object), the log, and
the allocation counter.  The harness compares the predicted post-state trees of `d` and `other`
(identities included) with the real objects after the call, and the objects whose own items really
changed with the log. -/

namespace Lena.C07
open Lena Lena.Val

variable {α : Type}

/-- result of a mutating step: new value, identities of the dictionaries written to, next free identity -/
structure Step (β : Type) where
  val : β
  log : List Nat
  next : Nat

mutual
/-- identities of the dictionary objects of a value (not of the lists in its leaves) -/
def dictToksV : TVal α → List Nat
  | .leaf _ _ => []
  | .dict t l => t :: dictToksL l
def dictToksL : TSlots α → List Nat
  | [] => []
  | none :: r => dictToksL r
  | some v :: r => dictToksV v ++ dictToksL r
end

mutual
/-- body of `for key, val in other.items():` for one key of the dictionary object `t` (cf. `updO`) -/
def updTO (t : Nat) : Option (TVal α) → Option (TVal α) → Nat → Step (Option (TVal α))
  | x, none, c => ⟨x, [], c⟩                                       -- key not in other
  | _, some (.leaf ts a), c => ⟨some (.leaf ts a), [t], c⟩          -- `d[key] = val` (the object `val` itself)
  | some (.dict u x), some (.dict _ y), c =>                        -- `update_recursively(d[key], other[key])`
    ⟨some (.dict u (updTL u x y c).val), (updTL u x y c).log, (updTL u x y c).next⟩
  | some (.leaf _ _), some (.dict _ y), c =>                        -- `d[key] = {}` (new object `c`), then update it
    ⟨some (.dict c (updTL c (List.replicate y.length none) y (c + 1)).val),
     t :: (updTL c (List.replicate y.length none) y (c + 1)).log,
     (updTL c (List.replicate y.length none) y (c + 1)).next⟩
  | none, some (.dict w y), c => ⟨some (.dict w y), [t], c⟩         -- `d[key] = val`: the object of `other` is shared
/-- the loop over the keys of `other`, writing into the dictionary object `t` whose slots are the first argument -/
def updTL (t : Nat) : TSlots α → TSlots α → Nat → Step (TSlots α)
  | d, [], c => ⟨d, [], c⟩
  | [], y :: r', c =>
    ⟨(updTO t none y c).val :: (updTL t [] r' (updTO t none y c).next).val,
     (updTO t none y c).log ++ (updTL t [] r' (updTO t none y c).next).log,
     (updTL t [] r' (updTO t none y c).next).next⟩
  | x :: r, y :: r', c =>
    ⟨(updTO t x y c).val :: (updTL t r r' (updTO t x y c).next).val,
     (updTO t x y c).log ++ (updTL t r r' (updTO t x y c).next).log,
     (updTL t r r' (updTO t x y c).next).next⟩
end

/-- `update_recursively(d, other)` on two dictionary objects: `d` afterwards (`other` is not returned:
nothing is ever stored into it) -/
def updT (d other : TVal α) (c : Nat) : Option (Step (TVal α)) :=
  match d, other with
  | .dict t x, .dict _ y => some ⟨.dict t (updTL t x y c).val, (updTL t x y c).log, (updTL t x y c).next⟩
  | _, _ => none                                                    -- `LenaTypeError`, nothing written

/-! ## update_nested -/

/-- `d[key] = v` on identity-carrying slots (cf. `setSlot`) -/
def setSlotT : TSlots α → Nat → Option (TVal α) → TSlots α
  | [], 0, v => [v]
  | [], i + 1, v => none :: setSlotT [] i v
  | _ :: r, 0, v => v :: r
  | x :: r, i + 1, v => x :: setSlotT r i v

/-- `d.get(key)` on identity-carrying slots (cf. `getSlot`) -/
def getSlotT (l : TSlots α) (i : Nat) : Option (TVal α) :=
  match l[i]? with
  | some x => x
  | none => none

mutual
/-- `get_most_nested_subdict_with(key, other)` followed by `other_most_nested[key] = dk` (cf. `nestV`):
the modified value and the identity of the dictionary written to; `none` = `TypeError` -/
def nestTV (k : Nat) (dk : TVal α) : TVal α → Option (TVal α × Nat)
  | .leaf _ _ => none
  | .dict t y =>
    match nestTL k dk t k y with
    | some (r, w) => some (.dict t r, w)
    | none => none
def nestTL (k : Nat) (dk : TVal α) (t : Nat) : Nat → TSlots α → Option (TSlots α × Nat)
  | j, [] => some (setSlotT [] j (some dk), t)                      -- key absent: written here
  | 0, none :: r => some (some dk :: r, t)
  | 0, some v :: r =>
    match nestTV k dk v with
    | some (v', w) => some (some v' :: r, w)
    | none => none
  | j + 1, x :: r =>
    match nestTL k dk t j r with
    | some (r', w) => some (x :: r', w)
    | none => none
end

/-- `update_nested(key, d, other)` on the dictionary objects `d = (td, x)` and `other = (to, y)`: the new
tree of `d` (whose item `key` is the object `other`, modified), the identities written to;
`none` = `TypeError` (nothing written) -/
def updateNestedT (k : Nat) (td : Nat) (x : TSlots α) (to : Nat) (y : TSlots α) :
    Option (TVal α × List Nat) :=
  match getSlotT x k with
  | some dk =>                                                      -- `if key in d:`
    match nestTL k dk to k y with
    | some (y', w) => some (.dict td (setSlotT x k (some (.dict to y'))), [w, td])
    | none => none
  | none => some (.dict td (setSlotT x k (some (.dict to y))), [td])   -- `d[key] = other`

mutual
/-- the dictionary objects of a value, each with everything below it (preorder) -/
def subsV : TVal α → List (TVal α)
  | .leaf _ _ => []
  | .dict t l => .dict t l :: subsL l
def subsL : TSlots α → List (TVal α)
  | [] => []
  | none :: r => subsL r
  | some v :: r => subsV v ++ subsL r
end

/-- the identity of a dictionary object (`none` for a leaf) -/
def rootTok : TVal α → Option Nat
  | .dict t _ => some t
  | .leaf _ _ => none

/-- the outcome of the value model that corresponds to an optional result of the identity model
(`none` = `TypeError`) -/
def toOut {β : Type} : Option β → Out β
  | some b => .ok b
  | none => .typeError

/-! ## intersection and difference: the write log, all arguments with identities

`interTO`/`diffTV` (`Model/C07Tok.lean`) take the arguments that are only read (`dicts[1:]`, `d2`) as plain values.
Here every argument carries identities, and the statements that store into or delete from a dictionary
(`del res[key]`, `res[key] = …`, `result[key] = …`) are logged with the identity of the dictionary they change; the
recursion and the allocation counter are those of `interTO`/`diffTV`. -/

section wlog
variable [DecidableEq α]

/-- the slots of a dictionary argument by value (`[]` for a non-dictionary, which raises before anything happens) -/
def argSlots : TVal α → Slots α
  | .dict _ l => eraseL l
  | .leaf _ _ => []

mutual
/-- writes of the body of `for key in res:` + `del res[key]` for one key; `t` is the identity of `res` -/
def interWO (t : Nat) (lv : Int) : Option (TVal α) → Option (Val α) → Nat → List Nat
  | none, _, _ => []
  | some _, none, _ => [t]                                        -- `del res[key]`
  | some v, some w, c =>
    if w = eraseV v then []
    else if lv = 1 then [t]                                       -- `del res[key]`
    else match v, w with
      | .dict _ x, .dict y =>
        -- the recursive call works on its own copy (the new object `c`), then `res[key] = …`
        (if lv - 1 = 0 then [] else interWL c (lv - 1) (copyL x (c + 1)).1 y (copyL x (c + 1)).2) ++ [t]
      | _, _ => [t]                                               -- `del res[key]`
  termination_by _ y _ => sizeOf y
def interWL (t : Nat) (lv : Int) : TSlots α → Slots α → Nat → List Nat
  | [], _, _ => []
  | x :: r, [], _ => (x :: r).filterMap (fun o => o.map (fun _ => t))   -- every key is deleted
  | x :: r, y :: r', c => interWO t lv x y c ++ interWL t lv r r' (interTO lv x y c).2
  termination_by _ b _ => sizeOf b
end

/-- writes of the loop `for d in dicts[1:]:` on the dictionary object `t` -/
def interWFold (lv : Int) (t : Nat) : TSlots α → List (Slots α) → Nat → List Nat
  | _, [], _ => []
  | l, d :: ds, c =>
    if lv = 0 then
      if d = eraseL l ∧ nonEmpty d = true then interWFold lv t l ds c else []
    else
      interWL t lv l d c ++
        (if nonEmpty (eraseL (interTL lv l d c).1) = true then interWFold lv t (interTL lv l d c).1 ds (interTL lv l d c).2
         else [])

/-- `intersection(*args, level=lv)` with every argument carrying identities: the result of `interT` on the first
argument and the values of the others -/
def interArgs (n : Nat) (lv : Int) (c : Nat) : List (TVal α) → TVal α × Nat
  | [] => interT n lv c none []
  | .dict t l0 :: rest => interT n lv c (some (t, l0)) (rest.map argSlots)
  | .leaf _ _ :: _ => (emptyT c n, c)                              -- (`LenaTypeError`; not used)

/-- the identities of the dictionaries that call writes to -/
def interArgsLog (lv : Int) (c : Nat) : List (TVal α) → List Nat
  | [] => []
  | .dict _ l0 :: rest => interWFold lv c (copyL l0 (c + 1)).1 (rest.map argSlots) (copyL l0 (c + 1)).2
  | .leaf _ _ :: _ => []

variable (truthy : α → Bool)

mutual
/-- writes of `difference(d1, d2, level)` (`result[key] = …`) -/
def diffWV (lv : Int) : TVal α → Val α → Nat → List Nat
  | .dict _ x, .dict y, c =>
    if eraseL x = y then [] else if lv = 0 then [] else diffWL c lv x y (c + 1)      -- `result` is the new object `c`
  | _, _, _ => []
def diffWO (t : Nat) (lv : Int) : Option (TVal α) → Option (Val α) → Nat → List Nat
  | none, _, _ => []
  | some _, none, _ => [t]
  | some v, some w, c =>
    if eraseV v = w then []
    else if lv ≠ 1 ∧ isDict (eraseV v) = true ∧ isDict w = true then
      diffWV (lv - 1) v w c ++ (if truthyT truthy (diffTV truthy (lv - 1) v w c).1 = true then [t] else [])
    else [t]
def diffWL (t : Nat) (lv : Int) : TSlots α → Slots α → Nat → List Nat
  | [], _, _ => []
  | x :: r, [], c => diffWO t lv x none c ++ diffWL t lv r [] (diffTO truthy lv x none c).2
  | x :: r, y :: r', c => diffWO t lv x y c ++ diffWL t lv r r' (diffTO truthy lv x y c).2
end

/-- `difference(d1, d2, level)` with both arguments carrying identities -/
def diffArgs (lv : Int) (d1 d2 : TVal α) (c : Nat) : TVal α × Nat := diffTV truthy lv d1 (eraseV d2) c

def diffArgsLog (lv : Int) (d1 d2 : TVal α) (c : Nat) : List Nat := diffWV truthy lv d1 (eraseV d2) c

end wlog

end Lena.C07
