import LenaModel.Model.C17
import LenaModel.Model.C03
/-! # C02 model — laziness: pull-based generators

Python generators nest: `Sequence.run` (lena/core/sequence.py:67-77) only chains
`flow = el.run(flow)`; nothing runs until the consumer calls `next`.  Here a generator is a
`Gen σ α`: a transition function `next : fuel → σ → Out σ α` on an explicit state; the state of a
stage *contains* the state of its upstream generator, so the state of the ultimate source (which
carries the pull clock) is at the bottom of every pipeline state.  `fuel` bounds the number of
iterations of the loops inside one `next` call (that is what makes `next` total); the theorems
of `Props/C02.lean` say which fuel suffices.

Transcribed (file:lines of /repo/lena):
* `Run._call_run`            core/adapters.py:700-703           → `mapG`
* `Filter.run`               flow/filter.py:52-56               → `filterG`
* `RunIf.run`                flow/elements.py:201-220           → `runIfG`
* `Slice.run` = `itertools.islice` (flow/iterators.py:168-178,312-316; CPython 3.12
  `islice_next`)                                                → `isliceG`
* `Slice._run_negative_islice` flow/iterators.py:223-301        → `negG`
* `Count.run`                flow/elements.py:74-106            → `countG`
* `Split.run`                core/split.py:280-417 (block processing from `Lena.C03`) → `splitG`
* `Split.__init__` (effective `bufsize`, `_contains_cache`) core/split.py:74-85,252-260 → `effBufsize`
* `Sequence.run`             core/sequence.py:67-77             → `seqRun`
  (`Source.__call__`, core/source.py: `self._tail.run(flow)` with `flow = first()` for a callable and
  `flow = first` itself for an iterable — also for a one-pass iterator object —, is `seqRun` on that flow)
and the pieces of `FillComputeSeq`/`FillSeq`/`FillInto` (`fillChain`: callables, `Filter.fill_into`,
`Slice.fill_into`, `Count.fill_into`) that decide when a fill/compute branch of a `Split` raises
`LenaStopFill`; `Source` branches of a `Split` (`srcOps`); sequence-type branches keep the state of
the `Count` elements inside their `RunIf` elements from block to block (`seqOps`).
Not modelled (not streaming elements): fill/request branches (`FillRequest`, C16), `Run._fc_run`,
`Reverse`/`End` (consume the whole flow by documentation), `RunIf` as a fill-into element
(`FillInto._run_fill_into`).

Conventions.
* A Python generator that has finished keeps raising `StopIteration` without running any code.
  The instrumented inputs of the harness are generator functions, so *every* iterator in a
  pipeline has this property; it is the `Sticky` hypothesis of the theorems.  Stages whose code
  can call `next(flow)` again after the input ended (`Split.run`, `_run_negative_islice`) do so
  here as well.
* The **clock** of a source counts every resumption of the source generator: one per value
  produced plus one for the resumption that finds the input exhausted.
* Only source pulls are observable; what happens to a block *inside* `Split.run` between two
  reads (lazily in Python) is computed at once (`Lena.C03.blockLoop`).

Imports only `LenaModel.Model.*`; executed by `drivers/C02.lean`. -/

namespace Lena.C02

/-- exceptions a modelled generator can raise: `IndexError` from a `deque.pop()`/`popleft()` on an
empty deque (`Props/C02.lean` shows it never happens) -/
inductive Exc where
  | indexError
  deriving Repr, DecidableEq

/-- result of one `next(gen)` -/
inductive Out (σ α : Type) where
  /-- `yield a`; the generator is suspended in state `s` -/
  | item (a : α) (s : σ)
  /-- `StopIteration` -/
  | done (s : σ)
  /-- the loop bound was exhausted (not an outcome of Python; excluded by the theorems) -/
  | fuel
  /-- an exception left the generator -/
  | error (e : Exc)

/-- a generator (or any iterator object) with explicit state -/
structure Gen (σ α : Type) where
  next : Nat → σ → Out σ α

/-- one iteration of a loop inside a generator body; makes at most one upstream `next` -/
inductive Step (σ α : Type) where
  | yield (a : α) (s : σ)
  | stop (s : σ)
  | cont (s : σ)
  | fuel
  | error (e : Exc)

section generic
variable {σ α β : Type}

/-- run loop iterations until the generator yields or returns -/
def iter (step : σ → Step σ α) : Nat → σ → Out σ α
  | 0, _ => .fuel
  | n + 1, s =>
    match step s with
    | .yield a s' => .item a s'
    | .stop s' => .done s'
    | .cont s' => iter step n s'
    | .fuel => .fuel
    | .error e => .error e

/-- a generator given by its loop body -/
def ofStep (step : Nat → σ → Step σ α) : Gen σ α := ⟨fun fu s => iter (step fu) fu s⟩

/-! ## sources (the instrumented inputs of the harness) -/

/-- state of `def source(vals): for v in vals: <log>; yield v; <log end>`:
the values not yet produced, the clock, and whether the generator has finished -/
structure Src (α : Type) where
  rest : List α
  clock : Nat
  ended : Bool
  deriving Repr

/-- a finite instrumented input -/
def listSrc : Gen (Src α) α where
  next := fun _ s =>
    match s.rest with
    | a :: r => .item a { rest := r, clock := s.clock + 1, ended := false }
    | [] => if s.ended then .done s else .done { rest := [], clock := s.clock + 1, ended := true }

/-- an infinite instrumented input `f 0, f 1, …` (`itertools.count`-like); the state is the clock -/
def fnSrc (f : Nat → α) : Gen Nat α where
  next := fun _ n => .item (f n) (n + 1)

/-! ## per-value stages -/

/-- `Run._call_run`: `for val in flow: yield self._el(val)` -/
def mapG (f : α → β) (up : Gen σ α) : Gen σ β where
  next := fun fu s =>
    match up.next fu s with
    | .item a s' => .item (f a) s'
    | .done s' => .done s'
    | .fuel => .fuel
    | .error e => .error e

/-- loop body of `(val for val in flow if selector(val))` -/
def filterStep (p : α → Bool) (up : Gen σ α) (fu : Nat) (s : σ) : Step σ α :=
  match up.next fu s with
  | .item a s' => if p a then .yield a s' else .cont s'
  | .done s' => .stop s'
  | .fuel => .fuel
  | .error e => .error e

/-- `Filter.run` -/
def filterG (p : α → Bool) (up : Gen σ α) : Gen σ α := ofStep (filterStep p up)

/-- loop body of `RunIf.run`:
`for val in flow: if select(val): for result in seq.run([val]): yield result  else: yield val`.
`inner i val` is what `seq.run([val])` yields, drained, together with the new state `i` of the inner
sequence's elements (a `Count` inside keeps counting from one value to the next); the inner flow
does not touch the source, so its own laziness is not observable.  The local state is what
`seq.run([val])` still has to yield, and the state of the inner sequence. -/
def runIfStep {ι : Type} (sel : α → Bool) (inner : ι → α → List α × ι) (up : Gen σ α) (fu : Nat) :
    σ × (List α × ι) → Step (σ × (List α × ι)) α
  | (s, (x :: r, i)) => .yield x (s, (r, i))
  | (s, ([], i)) =>
    match up.next fu s with
    | .item a s' => if sel a then .cont (s', inner i a) else .yield a (s', ([], i))
    | .done s' => .stop (s', ([], i))
    | .fuel => .fuel
    | .error e => .error e

/-- `RunIf.run` -/
def runIfG {ι : Type} (sel : α → Bool) (inner : ι → α → List α × ι) (up : Gen σ α) :
    Gen (σ × (List α × ι)) α :=
  ofStep (runIfStep sel inner up)

/-! ## `itertools.islice` (CPython 3.12 `islice_next`) -/

/-- `lz->next`, `lz->cnt`, and `lz->it != NULL` -/
structure ISt where
  next : Nat
  cnt : Nat
  live : Bool
  deriving Repr, DecidableEq

/-- `stop != -1 && cnt >= stop` -/
def reached (stop : Option Nat) (cnt : Nat) : Bool :=
  match stop with
  | some st => decide (cnt ≥ st)
  | none => false

/-- `lz->next += step; if (stop != -1 && lz->next > stop) lz->next = stop` -/
def bump (stop : Option Nat) (step nx : Nat) : Nat :=
  match stop with
  | some st => if nx + step > st then st else nx + step
  | none => nx + step

/-- one upstream `next` of `islice_next`: the skipping loop `while (lz->cnt < lz->next)`, the test
of `stop`, the value that is returned; `goto empty` clears `lz->it` -/
def isliceStep (stop : Option Nat) (step : Nat) (up : Gen σ α) (fu : Nat) :
    σ × ISt → Step (σ × ISt) α
  | (s, l) =>
    if !l.live then .stop (s, l)
    else if l.cnt < l.next then
      match up.next fu s with
      | .item _ s' => .cont (s', { l with cnt := l.cnt + 1 })
      | .done s' => .stop (s', { l with live := false })
      | .fuel => .fuel
      | .error e => .error e
    else if reached stop l.cnt then .stop (s, { l with live := false })
    else
      match up.next fu s with
      | .item a s' => .yield a (s', { next := bump stop step l.next, cnt := l.cnt + 1, live := true })
      | .done s' => .stop (s', { l with live := false })
      | .fuel => .fuel
      | .error e => .error e

/-- `itertools.islice(flow, start, stop, step)`; the initial local state is `isliceInit start` -/
def isliceG (stop : Option Nat) (step : Nat) (up : Gen σ α) : Gen (σ × ISt) α :=
  ofStep (isliceStep stop step up)

def isliceInit (start : Nat) : ISt := { next := start, cnt := 0, live := true }

/-! ## `Count.run` -/

/-- where the generator `Count.run` is suspended -/
inductive CSt (α : Type) where
  /-- not started -/
  | start
  /-- inside `for val in flow`: `prev_val`, `count` -/
  | running (prev : α) (count : Nat)
  | finished
  deriving Repr

/-- `Count.run`: `prev_val = next(flow)` (return if the flow is empty); `for val in flow: yield
prev_val; count += 1; prev_val = val`; then `self.count += count`, and the last value is yielded
with `{name: self.count}` in its context — `mark count prev_val`. -/
def countStep (mark : Nat → α → α) (up : Gen σ α) (fu : Nat) : σ × CSt α → Step (σ × CSt α) α
  | (s, .start) =>
    match up.next fu s with
    | .item a s' => .cont (s', .running a 1)
    | .done s' => .stop (s', .finished)
    | .fuel => .fuel
    | .error e => .error e
  | (s, .running prev c) =>
    match up.next fu s with
    | .item v s' => .yield prev (s', .running v (c + 1))
    | .done s' => .yield (mark c prev) (s', .finished)
    | .fuel => .fuel
    | .error e => .error e
  | (s, .finished) => .stop (s, .finished)

def countG (mark : Nat → α → α) (up : Gen σ α) : Gen (σ × CSt α) α := ofStep (countStep mark up)

/-! ## `Slice._run_negative_islice` -/

/-- where the generator `_run_negative_islice` is suspended / which loop it is in.  A deque is the
list of its items from left to right (as in `Lena.C17`). -/
inductive NSt (α : Type) where
  | init
  /-- `for _ in zip(range(start), flow): pass` after `i` iterations -/
  | skip (i : Nat)
  /-- `fill_deque`: `for _, val in zip(range(maxlen), flow): d.appendleft(val)` after `i` iterations -/
  | fill (i : Nat) (d : List α)
  /-- `fill_deque` has returned `d` -/
  | filled (d : List α)
  /-- `for val in flow: yield d.pop(); d.appendleft(val)` -/
  | lag (d : List α)
  /-- `d = deque(flow, maxlen=-start)` -/
  | drain (d : List α)
  /-- `deque(flow, maxlen=-start)` has returned `d` -/
  | drained (d : List α)
  /-- `while True: try: yield d.popleft() except IndexError: return` -/
  | emitAll (d : List α)
  /-- `while ind < len_d + stop: yield d.popleft(); ind += 1` with `n` iterations to go -/
  | emitN (n : Nat) (d : List α)
  /-- `for val in flow: if ind >= stop - start: return; d.append(val); ind += 1` -/
  | posLoop (ind : Nat) (d : List α)
  /-- `while ind < stop: try: yield d.popleft() except IndexError: return; ind += 1`, `n` to go -/
  | emitUpTo (n : Nat) (d : List α)
  | finished
  deriving Repr

/-- `-stop` for a negative `stop` (`to_skip`, the `maxlen` of `fill_deque`) -/
def negLen (v : Option Int) : Nat :=
  match v with
  | some b => (-b).toNat
  | none => 0

/-- after `fill_deque` returned `d` (iterators.py:240-243 resp. 251-257) -/
def afterFill (start stop : Option Int) (s : σ) (d : List α) : Step (σ × NSt α) α :=
  match start with
  | none => .cont (s, .lag d)
  | some _ => if d.length < negLen stop then .stop (s, .finished) else .cont (s, .lag d)

/-- one loop iteration of `_run_negative_islice` (step 1; `start`, `stop` as stored by
`Slice.__init__`, at least one of them negative) -/
def negStep (start stop : Option Int) (up : Gen σ α) (fu : Nat) : σ × NSt α → Step (σ × NSt α) α
  | (s, .init) =>
    match start with
    | none => .cont (s, .fill 0 [])
    | some a =>
      if a ≥ 0 then .cont (s, .skip 0)
      else
        match stop with
        | none => .cont (s, .drain [])
        | some b =>
          if b ≤ a then .stop (s, .finished)
          else if b < 0 then .cont (s, .drain [])
          else .cont (s, .posLoop 0 [])
  | (s, .skip i) =>
    -- `zip` asks `range(start)` first: no pull once `start` values were skipped
    if i ≥ (start.getD 0).toNat then .cont (s, .fill 0 [])
    else
      match up.next fu s with
      | .item _ s' => .cont (s', .skip (i + 1))
      | .done s' => .cont (s', .fill 0 [])
      | .fuel => .fuel
      | .error e => .error e
  | (s, .fill i d) =>
    if i ≥ negLen stop then .cont (s, .filled d)
    else
      match up.next fu s with
      | .item v s' => .cont (s', .fill (i + 1) (Lena.C17.dqAppendLeft (negLen stop) d v))
      | .done s' => .cont (s', .filled d)
      | .fuel => .fuel
      | .error e => .error e
  | (s, .filled d) => afterFill start stop s d
  | (s, .lag d) =>
    match up.next fu s with
    | .item v s' =>
      match d.getLast? with
      | none => .error .indexError
      | some o => .yield o (s', .lag (Lena.C17.dqAppendLeft (negLen stop) d.dropLast v))
    | .done s' => .stop (s', .finished)
    | .fuel => .fuel
    | .error e => .error e
  | (s, .drain d) =>
    match up.next fu s with
    | .item v s' => .cont (s', .drain (Lena.C17.dqAppend (negLen start) d v))
    | .done s' => .cont (s', .drained d)
    | .fuel => .fuel
    | .error e => .error e
  | (s, .drained d) =>
    match stop with
    | none => .cont (s, .emitAll d)
    | some b => .cont (s, .emitN ((d.length : Int) + b).toNat d)    -- `len_d + stop`
  | (s, .emitAll d) =>
    match d with
    | [] => .stop (s, .finished)
    | x :: r => .yield x (s, .emitAll r)
  | (s, .emitN n d) =>
    match n, d with
    | 0, _ => .stop (s, .finished)
    | _ + 1, [] => .error .indexError
    | n + 1, x :: r => .yield x (s, .emitN n r)
  | (s, .posLoop ind d) =>
    match up.next fu s with
    | .item v s' =>
      if ind ≥ (stop.getD 0 - start.getD 0).toNat then .stop (s', .finished)
      else .cont (s', .posLoop (ind + 1) (Lena.C17.dqAppend (negLen start) d v))
    | .done s' =>
      -- `ind -= len(d)`; `while ind < stop`
      .cont (s', .emitUpTo (stop.getD 0 - ((ind : Int) - d.length)).toNat d)
    | .fuel => .fuel
    | .error e => .error e
  | (s, .emitUpTo n d) =>
    match n, d with
    | 0, _ => .stop (s, .finished)
    | _ + 1, [] => .stop (s, .finished)
    | n + 1, x :: r => .yield x (s, .emitUpTo n r)
  | (s, .finished) => .stop (s, .finished)

/-- `Slice._run_negative_islice(flow)` -/
def negG (start stop : Option Int) (up : Gen σ α) : Gen (σ × NSt α) α := ofStep (negStep start stop up)

/-! ## `Split.run` -/

inductive SPhase where
  /-- inside `list(itertools.islice(flow, bufsize))` -/
  | reading
  /-- `orig_buf = list(...)` has been assigned -/
  | blockRead
  /-- yielding what the branches produce for the block just read -/
  | emitting
  /-- yielding the final pass (split.py:399-417) -/
  | finalEmit
  | finished
  deriving Repr, DecidableEq

/-- local state of `Split.run`: `active_seqs` (with their types), `orig_buf`, the block being read, the
results of the current block not yet handed downstream, `flow_was_empty` -/
structure SSt (σb α : Type) where
  act : List (Lena.C03.Branch σb α)
  /-- the list `orig_buf` is bound to: the block being processed, and — while the next
  `list(islice(...))` is being built — still the block processed last (Python rebinds the name only
  when the new list is complete) -/
  cur : List α
  /-- the list the variable `buf` of the loop over the active sequences is bound to: the block last handed to a
  branch (`buf = orig_buf` for the last active sequence); it stays bound while later blocks are read, also
  when no sequence is active any more -/
  last : List α := []
  /-- the list under construction inside `list(itertools.islice(flow, bufsize))` -/
  buf : List α
  pending : List α
  phase : SPhase
  fwe : Bool

/-- `orig_buf` is complete (or the input ended): process it.  An empty buffer ends the loop over
the flow (`break`) and starts the final pass; otherwise every active sequence gets the block
(`Lena.C03.blockLoop`) and the next read happens only after all their results were yielded. -/
def processBlock {σb : Type} (copyBuf : Bool) (s : σ) (l : SSt σb α) : Step (σ × SSt σb α) α :=
  if l.buf.isEmpty then
    .cont (s, { l with cur := l.buf, pending := Lena.C03.outputs (Lena.C03.finalPass l.fwe l.act), phase := .finalEmit })
  else
    let r := Lena.C03.blockLoop copyBuf l.buf (l.act.length + 1) 0 l.act []
    .cont (s, { act := r.2, cur := l.buf, last := if l.act.isEmpty then l.last else l.buf, buf := [],
                pending := Lena.C03.outputs r.1, phase := .emitting, fwe := false })

/-- `islice(flow, bufsize)` has delivered `bufsize` values: it does not pull again -/
def blockFull (bufsize : Option Nat) (buf : List α) : Bool :=
  match bufsize with
  | some b => decide (buf.length ≥ b)
  | none => false

def splitStep {σb : Type} (bufsize : Option Nat) (copyBuf : Bool) (up : Gen σ α) (fu : Nat) :
    σ × SSt σb α → Step (σ × SSt σb α) α
  | (s, l) =>
    match l.phase with
    | .reading =>
      if blockFull bufsize l.buf then .cont (s, { l with phase := .blockRead })
      else
        match up.next fu s with
        | .item a s' => .cont (s', { l with buf := l.buf ++ [a] })
        | .done s' => .cont (s', { l with phase := .blockRead })
        | .fuel => .fuel
        | .error e => .error e
    | .blockRead => processBlock copyBuf s l
    | .emitting =>
      match l.pending with
      | x :: r => .yield x (s, { l with pending := r })
      | [] => .cont (s, { l with phase := .reading })
    | .finalEmit =>
      match l.pending with
      | x :: r => .yield x (s, { l with pending := r })
      | [] => .stop (s, { l with phase := .finished })
    | .finished => .stop (s, l)

/-- `Split(seqs, bufsize, copy_buf).run(flow)` for a non-empty list of sequences -/
def splitG {σb : Type} (bufsize : Option Nat) (copyBuf : Bool) (up : Gen σ α) : Gen (σ × SSt σb α) α :=
  ofStep (splitStep bufsize copyBuf up)

def splitInit {σb : Type} (branches : List (Lena.C03.Branch σb α)) : SSt σb α :=
  { act := branches, cur := [], buf := [], pending := [], phase := .reading, fwe := true }

/-! ## pipelines: `Sequence.run` -/

/-- a running iterator object: a generator together with its current state; `clock` reads the
clock of the ultimate source out of the state -/
structure Pipe (α : Type) : Type 1 where
  σ : Type
  gen : Gen σ α
  st : σ
  clock : σ → Nat

/-- the clock of the source now -/
def Pipe.now (p : Pipe α) : Nat := p.clock p.st

/-- the streaming elements of the property -/
inductive Stage (α : Type) : Type 1 where
  /-- a callable / `Variable` / `Print` / `Context` / `UpdateContext` / `MakeFilename` through
  `Run._call_run` -/
  | map (f : α → α)
  | filter (p : α → Bool)
  /-- `Slice` with non-negative arguments -/
  | islice (start : Nat) (stop : Option Nat) (step : Nat)
  /-- `Slice` with a negative `start` or `stop` -/
  | negslice (start stop : Option Int) (step : Nat)
  | count (mark : Nat → α → α)
  | runIf (ι : Type) (init : ι) (sel : α → Bool) (inner : ι → α → List α × ι)
  | split (σb : Type) (branches : List (Lena.C03.Branch σb α)) (bufsize : Option Nat) (copyBuf : Bool)

/-- `el.run(flow)`: builds the iterator object, runs nothing -/
def Stage.run : Stage α → Pipe α → Pipe α
  | .map f, p => { σ := p.σ, gen := mapG f p.gen, st := p.st, clock := p.clock }
  | .filter q, p => { σ := p.σ, gen := filterG q p.gen, st := p.st, clock := p.clock }
  | .islice a b st, p =>
    { σ := p.σ × ISt, gen := isliceG b st p.gen, st := (p.st, isliceInit a), clock := fun s => p.clock s.1 }
  | .negslice a b st, p =>
    -- `if step != 1: self.run = lambda flow: islice(self._run_negative_islice(flow), None, None, step)`
    if st = 1 then
      { σ := p.σ × NSt α, gen := negG a b p.gen, st := (p.st, .init), clock := fun s => p.clock s.1 }
    else
      { σ := (p.σ × NSt α) × ISt, gen := isliceG none st (negG a b p.gen), st := ((p.st, .init), isliceInit 0),
        clock := fun s => p.clock s.1.1 }
  | .count mark, p =>
    { σ := p.σ × CSt α, gen := countG mark p.gen, st := (p.st, .start), clock := fun s => p.clock s.1 }
  | .runIf ι init sel inner, p =>
    { σ := p.σ × (List α × ι), gen := runIfG sel inner p.gen, st := (p.st, ([], init)), clock := fun s => p.clock s.1 }
  | .split σb brs bufsize copyBuf, p =>
    -- `Split([])`: `run = _empty_run`: `for val in flow: yield val`
    if brs.isEmpty then { σ := p.σ, gen := mapG id p.gen, st := p.st, clock := p.clock }
    else
      { σ := p.σ × SSt σb α, gen := splitG bufsize copyBuf p.gen, st := (p.st, splitInit brs),
        clock := fun s => p.clock s.1 }

/-- `Sequence.run`: `for el in self._data_seq: flow = el.run(flow)` -/
def seqRun (els : List (Stage α)) (p : Pipe α) : Pipe α := els.foldl (fun fl el => el.run fl) p

/-- `iter(source(xs))` -/
def Pipe.ofList (xs : List α) : Pipe α :=
  { σ := Src α, gen := listSrc, st := { rest := xs, clock := 0, ended := false }, clock := Src.clock }

/-- an infinite instrumented input -/
def Pipe.ofFn (f : Nat → α) : Pipe α := { σ := Nat, gen := fnSrc f, st := 0, clock := id }

/-! ## the consumer -/

/-- how the consumer's loop ended -/
inductive Ending where
  /-- it stopped after `k` results without asking for more -/
  | stoppedByConsumer
  /-- `StopIteration` -/
  | exhausted
  | fuel
  | error (e : Exc)
  deriving Repr, DecidableEq

/-- a consumer that takes at most `k` results: the results, each with the clock at the moment it is
received, how the loop ended, and the clock then -/
def takeG (g : Gen σ α) (clock : σ → Nat) (fu : Nat) : Nat → σ → List (α × Nat) × Ending × Nat
  | 0, s => ([], .stoppedByConsumer, clock s)
  | k + 1, s =>
    match g.next fu s with
    | .item a s' => let r := takeG g clock fu k s'; ((a, clock s') :: r.1, r.2)
    | .done s' => ([], .exhausted, clock s')
    | .fuel => ([], .fuel, clock s)
    | .error e => ([], .error e, clock s)

def Pipe.take (p : Pipe α) (fu k : Nat) : List (α × Nat) × Ending × Nat := takeG p.gen p.clock fu k p.st

/-! ## specification side: stamped flows

What an iterator will do, seen from outside: the values it yields, each with the clock at which
it is yielded, and the clock at which it reports its end.  `c0` is the clock before the first
`next`.  These functions are not transcriptions; `Props/C02.lean` proves that the machines above
realise them, and the harness checks them against the real code as well. -/

structure SF (α : Type) where
  c0 : Nat
  vals : List (α × Nat)
  cf : Nat
  deriving Repr

/-- the clock once `i` values have been obtained from the iterator, or — if it has fewer — once its
end has been seen -/
def SF.need (sf : SF α) (i : Nat) : Nat :=
  match i with
  | 0 => sf.c0
  | i + 1 =>
    match sf.vals[i]? with
    | some p => p.2
    | none => sf.cf

/-- the stamped flow of `source(xs)` started at clock `c` -/
def stamps : List α → Nat → List (α × Nat)
  | [], _ => []
  | a :: r, c => (a, c + 1) :: stamps r (c + 1)

def SF.ofList (xs : List α) : SF α := { c0 := 0, vals := stamps xs 0, cf := xs.length + 1 }

def mapSpec (f : α → β) (sf : SF α) : SF β :=
  { c0 := sf.c0, vals := sf.vals.map (fun p => (f p.1, p.2)), cf := sf.cf }

def filterSpec (p : α → Bool) (sf : SF α) : SF α :=
  { sf with vals := sf.vals.filter (fun q => p q.1) }

/-- `RunIf`: what the inner sequence yields for a selected value is handed over at that value's stamp -/
def runIfSpecGo {ι : Type} (sel : α → Bool) (inner : ι → α → List α × ι) : ι → List (α × Nat) → List (α × Nat)
  | _, [] => []
  | i, q :: r =>
    if sel q.1 then (inner i q.1).1.map (fun x => (x, q.2)) ++ runIfSpecGo sel inner (inner i q.1).2 r
    else q :: runIfSpecGo sel inner i r

def runIfSpec {ι : Type} (init : ι) (sel : α → Bool) (inner : ι → α → List α × ι) (sf : SF α) : SF α :=
  { sf with vals := runIfSpecGo sel inner init sf.vals }

/-- `islice`: a selected value is yielded the moment it is pulled; with a `stop` the iterator ends
having obtained `max start stop` values (or seen the end of a shorter input) -/
def isliceSpec (start : Nat) (stop : Option Nat) (step : Nat) (sf : SF α) : SF α :=
  { c0 := sf.c0
    vals := Lena.C17.islice sf.vals start stop step
    cf := match stop with
      | none => sf.cf
      | some st => sf.need (max start st) }

/-- `Count.run`: every value is yielded when its successor is pulled (one value of look-ahead); the
last one, marked with the count, when the end of the input is seen -/
def countSpecGo (mark : Nat → α → α) (cf : Nat) (prev : α) (n : Nat) : List (α × Nat) → List (α × Nat)
  | [] => [(mark n prev, cf)]
  | (v, c) :: r => (prev, c) :: countSpecGo mark cf v (n + 1) r

def countSpec (mark : Nat → α → α) (sf : SF α) : SF α :=
  { sf with vals := match sf.vals with
      | [] => []
      | (a, _) :: r => countSpecGo mark sf.cf a 1 r }

/-- value `i` is yielded when value `i + m` is pulled -/
def lagSpec (m : Nat) (xs : List (α × Nat)) : List (α × Nat) :=
  List.zipWith (fun a q => (a, q.2)) (xs.map Prod.fst) (xs.drop m)

/-- the values of `Lena.C17.runNegative` (list semantics), all yielded at clock `c` -/
def negValsAt (start stop : Option Int) (xs : List (α × Nat)) (c : Nat) : List (α × Nat) :=
  match Lena.C17.runNegative start stop (xs.map Prod.fst) with
  | .ok ys => ys.map (fun y => (y, c))
  | .indexError => []

/-- `_run_negative_islice`, branch by branch -/
def negSpec (start stop : Option Int) (sf : SF α) : SF α :=
  match start with
  | none =>
    -- only a negative stop: lag of `-stop` values, reads to the end
    { sf with vals := lagSpec (negLen stop) sf.vals }
  | some a =>
    if a ≥ 0 then
      let xs := sf.vals.drop a.toNat
      { sf with vals := if xs.length < negLen stop then [] else lagSpec (negLen stop) xs }
    else
      match stop with
      | none => { sf with vals := negValsAt start stop sf.vals sf.cf }
      | some b =>
        if b ≤ a then { sf with vals := [], cf := sf.c0 }              -- returns without pulling
        else if b < 0 then { sf with vals := negValsAt start stop sf.vals sf.cf }
        else if sf.vals.length > (b - a).toNat then
          { sf with vals := [], cf := sf.need ((b - a).toNat + 1) }    -- `if ind >= stop - start: return`
        else { sf with vals := negValsAt start stop sf.vals sf.cf }

def negSliceSpec (start stop : Option Int) (step : Nat) (sf : SF α) : SF α :=
  if step = 1 then negSpec start stop sf else isliceSpec 0 none step (negSpec start stop sf)

/-- how many values `list(islice(flow, bufsize))` asks for: `bufsize`, or — for `bufsize=None` — more
than there are (it reads until it sees the end) -/
def blockAsk (bufsize : Option Nat) (xs : List (α × Nat)) : Nat :=
  match bufsize with
  | some b => b
  | none => xs.length + 1

/-- `Split.run`: a block is complete at the clock at which `bufsize` values have been obtained or the
end has been seen (`need`); every result a branch produces for the block is yielded at that clock —
before the next block is pulled; the final pass is yielded at the end clock -/
def splitSpecGo {σb : Type} (bufsize : Option Nat) (copyBuf : Bool) (cf : Nat) :
    Nat → Nat → List (α × Nat) → List (Lena.C03.Branch σb α) → Bool → List (α × Nat)
  | 0, _, _, _, _ => []
  | fuel + 1, c0, xs, act, fwe =>
    let k := blockAsk bufsize xs
    let blk := (xs.take k).map Prod.fst
    let stamp := (SF.mk c0 xs cf).need k
    if blk.isEmpty then (Lena.C03.outputs (Lena.C03.finalPass fwe act)).map (fun v => (v, stamp))
    else
      let r := Lena.C03.blockLoop copyBuf blk (act.length + 1) 0 act []
      (Lena.C03.outputs r.1).map (fun v => (v, stamp))
        ++ splitSpecGo bufsize copyBuf cf fuel stamp (xs.drop k) r.2 false

def splitSpec {σb : Type} (brs : List (Lena.C03.Branch σb α)) (bufsize : Option Nat) (copyBuf : Bool)
    (sf : SF α) : SF α :=
  { sf with vals := splitSpecGo bufsize copyBuf sf.cf (sf.vals.length + 1) sf.c0 sf.vals brs true }

def Stage.spec : Stage α → SF α → SF α
  | .map f => mapSpec f
  | .filter p => filterSpec p
  | .islice a b st => isliceSpec a b st
  | .negslice a b st => negSliceSpec a b st
  | .count mark => countSpec mark
  | .runIf _ init sel inner => runIfSpec init sel inner
  | .split _ brs bufsize copyBuf => fun sf => if brs.isEmpty then mapSpec id sf else splitSpec brs bufsize copyBuf sf

def seqSpec (els : List (Stage α)) (sf : SF α) : SF α := els.foldl (fun s el => el.spec s) sf

/-! ## list semantics of the stages (what a draining consumer gets from a finite flow) -/

def countDenGo (mark : Nat → α → α) (prev : α) (n : Nat) : List α → List α
  | [] => [mark n prev]
  | v :: r => prev :: countDenGo mark v (n + 1) r

def countDen (mark : Nat → α → α) : List α → List α
  | [] => []
  | a :: r => countDenGo mark a 1 r

def runIfDenGo {ι : Type} (sel : α → Bool) (inner : ι → α → List α × ι) : ι → List α → List α
  | _, [] => []
  | i, v :: r =>
    if sel v then (inner i v).1 ++ runIfDenGo sel inner (inner i v).2 r else v :: runIfDenGo sel inner i r

def Stage.den : Stage α → List α → List α
  | .map f, xs => xs.map f
  | .filter p, xs => xs.filter p
  | .islice a b st, xs => Lena.C17.islice xs a b st
  | .negslice a b st, xs =>
    match Lena.C17.sliceRun (.negative a b st) xs with
    | some (.ok ys) => ys
    | _ => []
  | .count mark, xs => countDen mark xs
  | .runIf _ init sel inner, xs => runIfDenGo sel inner init xs
  | .split _ brs bufsize copyBuf, xs =>
    Lena.C03.Split.run { branches := brs, bufsize := bufsize, copyBuf := copyBuf } xs

def seqDen (els : List (Stage α)) (xs : List α) : List α := els.foldl (fun ys el => el.den ys) xs

/-! ## executable forms of the hypotheses of the theorems, documented buffer sizes, input prefixes

Evaluated by the driver on every generated case: `Props/C02.lean` proves `wfb ↔ WF`,
`seqFuelOKb ↔ seqFuelOK`; `Stage.cap` is what the liveness oracle of the harness allows per element. -/

def negArgsB (a b : Option Int) : Bool :=
  (match a with | some i => decide (i < 0) | none => false) ||
  (match b with | some i => decide (i < 0) | none => false)


def Stage.wfb : Stage α → Bool
  | .islice _ _ st => decide (1 ≤ st)
  | .negslice a b st => negArgsB a b && decide (1 ≤ st)
  | .split _ _ bufsize _ => decide (bufsize ≠ some 0)
  | _ => true


def Stage.fuelOKb (st : Stage α) (sf : SF α) (fu : Nat) : Bool :=
  decide (4 * sf.vals.length + 5 < fu) &&
  match st with
  | .negslice a b _ => decide ((negSpec a b sf).vals.length < fu)
  | _ => true

def seqFuelOKb : List (Stage α) → SF α → Nat → Bool
  | [], _, _ => true
  | e :: es, sf, fu => e.fuelOKb sf fu && seqFuelOKb es (e.spec sf) fu


/-- the number of input values an element documents to keep (what the liveness oracle of the harness
allows per element, apart from frame locals): `|index|` for a negative `Slice`, one value of look-ahead
for `Count`, for `Split` the blocks bound to `orig_buf` and to `buf` plus the block being read; `none`: the element
documents that it materialises the flow (`bufsize=None`) -/
def Stage.cap : Stage α → Option Nat
  | .negslice a b _ => some (max (negLen a) (negLen b))
  | .count _ => some 1
  | .split _ brs bufsize _ => if brs.isEmpty then some 0 else bufsize.map (fun b => 3 * b)
  | _ => some 0

def seqCap : List (Stage α) → Option Nat
  | [] => some 0
  | e :: es => match e.cap, seqCap es with
    | some a, some b => some (a + b)
    | _, _ => none


/-- the first `n` values of the infinite input `f 0, f 1, …` -/
def prefixOf (f : Nat → α) (n : Nat) : List α := (List.range n).map f


end generic

/-! ## `Split.__init__`: the effective `bufsize` (core/split.py:74-85, 252-260)

A sequence-type branch that contains a `Cache` must see the whole flow at once, so `Split.__init__`
replaces a finite `bufsize` by `None`.  `_contains_cache` walks the element tree: a `Cache`
(`is_cache`), the sequences of a nested `Split` (`_seqs`), the elements of a `LenaSequence` or of a
`RunIf` (`_seq`).  The `bufsize` of a nested `Split` plays no role. -/

/-- an element as `_contains_cache` sees it -/
inductive CTree where
  | cache
  | leaf
  /-- an object with `_seq`: a `LenaSequence`, a `RunIf` -/
  | seq (els : List CTree)
  /-- a `LenaSplit` with its `_seqs` -/
  | split (seqs : List CTree)

mutual
/-- `_contains_cache(seq)` -/
def containsCache : CTree → Bool
  | .cache => true
  | .leaf => false
  | .seq els => anyCache els
  | .split seqs => anyCache seqs
def anyCache : List CTree → Bool
  | [] => false
  | t :: r => containsCache t || anyCache r
end

/-- `self._bufsize` after `Split.__init__`: `brs` are the converted sequences with their types -/
def effBufsize (bufsize : Option Nat) (brs : List (Lena.C03.Kind × CTree)) : Option Nat :=
  if bufsize.isSome && brs.any (fun b => b.1 == Lena.C03.Kind.sequence && containsCache b.2) then none
  else bufsize

/-! ## the concrete vocabulary of the harness -/

/-- a flow value as the harness observes it: the integer datum and the integer-valued top-level
context entries (the counters written by `Count`), as an association list in insertion order -/
structure V where
  d : Int
  ctx : List (String × Int)
  deriving Repr, DecidableEq

/-- `context.update({name: c})` -/
def ctxSet : List (String × Int) → String → Int → List (String × Int)
  | [], k, v => [(k, v)]
  | (k', v') :: rest, k, v => if k' = k then (k, v) :: rest else (k', v') :: ctxSet rest k v

/-- the plain callables of the harness, functions of the datum that keep the context -/
inductive Fn where
  | add (b : Int)
  | mul (a : Int)
  | ident
  deriving Repr, DecidableEq

def Fn.app : Fn → V → V
  | .add b, v => { v with d := v.d + b }
  | .mul a, v => { v with d := v.d * a }
  | .ident, v => v

/-- the selectors of the harness, functions of the datum -/
inductive Pred where
  /-- `d % m == r` (Python `%`, `m > 0`) -/
  | mod (m : Nat) (r : Int)
  | lt (c : Int)
  | ge (c : Int)
  | all
  | none
  deriving Repr, DecidableEq

def Pred.eval : Pred → V → Bool
  | .mod m r, v => v.d % (m : Int) == r
  | .lt c, v => decide (v.d < c)
  | .ge c, v => decide (v.d ≥ c)
  | .all, _ => true
  | .none, _ => false

/-- `Count(name, count0)`: the last value gets `{name: count0 + count}` -/
def markCount (name : String) (count0 : Int) (n : Nat) (v : V) : V :=
  { v with ctx := ctxSet v.ctx name (count0 + n) }

/-! ### fill/compute branches of a `Split`: `FillComputeSeq(*pre, Count(name), *post)`

`FillSeq` chains `el.fill_into(next, value)` (core/fill_seq.py); a plain callable is adapted by
`FillInto.fill_into`: `element.fill(self._el(value))`. -/

/-- an element before the fill/compute element, with its mutable state -/
inductive PreEl where
  | map (f : Fn)
  /-- `Filter.fill_into` -/
  | filter (p : Pred)
  /-- `Slice.fill_into` (non-negative arguments), state from `Lena.C17` -/
  | slice (stop : Option Nat) (step : Nat) (st : Lena.C17.FillState)
  /-- `Count.fill_into`: `self.count += 1`, the value gets `{name: self.count}` -/
  | count (name : String) (c : Int)
  deriving Repr

inductive FillRes where
  /-- the value (transformed) reached the fill/compute element -/
  | reached (v : V)
  | dropped
  /-- `LenaStopFill` -/
  | stopped
  deriving Repr

/-- `fill_seq.fill(value)` through the chain of `_Fill` objects -/
def fillChain : List PreEl → V → List PreEl × FillRes
  | [], v => ([], .reached v)
  | .map f :: r, v =>
    let q := fillChain r (f.app v)
    (.map f :: q.1, q.2)
  | .filter p :: r, v =>
    if p.eval v then
      let q := fillChain r v
      (.filter p :: q.1, q.2)
    else (.filter p :: r, .dropped)
  | .slice stop step st :: r, v =>
    match Lena.C17.fillInto stop step st with
    | (st', .stopFill) => (.slice stop step st' :: r, .stopped)
    | (st', .skipped) => (.slice stop step st' :: r, .dropped)
    | (st', .filled) =>
      let q := fillChain r v
      (.slice stop step st' :: q.1, q.2)
  | .count name c :: r, v =>
    let q := fillChain r { v with ctx := ctxSet v.ctx name (c + 1) }
    (.count name (c + 1) :: q.1, q.2)

/-- state of a branch object of a `Split` (all kinds) -/
structure BrSt where
  pre : List PreEl
  /-- `Count.count` of the fill/compute element -/
  count : Int
  /-- its `_cur_context` -/
  ctx : List (String × Int)
  /-- the counters of the `Count` elements inside `RunIf` elements of a sequence-type branch (one
  element object serves every block) -/
  cnts : List Int := []
  /-- the accumulator of the fill/request element of a fill/request branch (`BlockSum` of the harness) -/
  acc : Int := 0
  deriving Repr

/-- `FillComputeSeq.fill` / `compute` with `Count(name)` as the fill/compute element and `post` as
what `self._after.run(flow)` yields -/
def fcOps (name : String) (post : List V → List V) : Lena.C03.Ops BrSt V where
  call := fun s => ([], s)
  fill := fun s v =>
    match fillChain s.pre v with
    | (pre', .reached v') => ({ s with pre := pre', count := s.count + 1, ctx := v'.ctx }, false)
    | (pre', .dropped) => ({ s with pre := pre' }, false)
    | (pre', .stopped) => ({ s with pre := pre' }, true)
  compute := fun s =>
    let ctx' := ctxSet s.ctx name s.count
    (post [{ d := s.count, ctx := ctx' }], { s with ctx := ctx' })
  request := fun s => ([], s)
  run := fun s _ => ([], s)

/-- a `Sequence` of streaming elements: `seq.run(buf)` drained; `run cnts buf` also gives the new
counters of the `Count` elements inside its `RunIf` elements -/
def seqOps (run : List Int → List V → List V × List Int) : Lena.C03.Ops BrSt V where
  call := fun s => ([], s)
  fill := fun s _ => (s, false)
  compute := fun s => ([], s)
  request := fun s => ([], s)
  run := fun s buf => let r := run s.cnts buf; (r.1, { s with cnts := r.2 })

/-- a fill/request branch `FillRequestSeq(*pre, BlockSum(stop), *post)` of the harness: `fill` goes through
the `_Fill` chain of `pre`; the element adds the datum to its accumulator and raises `LenaStopFill`
instead once `stop` values were filled; `request()` yields the accumulator (as a bare value) through
`post` and clears it.  `Split.run` calls `request()` after every block (core/split.py:393-408). -/
def frOps (stop : Option Nat) (post : List V → List V) : Lena.C03.Ops BrSt V where
  call := fun s => ([], s)
  fill := fun s v =>
    match fillChain s.pre v with
    | (pre', .reached v') =>
      if (match stop with | some m => decide (s.count ≥ (m : Int)) | none => false) then ({ s with pre := pre' }, true)
      else ({ s with pre := pre', count := s.count + 1, acc := s.acc + v'.d }, false)
    | (pre', .dropped) => ({ s with pre := pre' }, false)
    | (pre', .stopped) => ({ s with pre := pre' }, true)
  compute := fun s => ([], s)
  request := fun s => (post [{ d := s.acc, ctx := [] }], { s with acc := 0 })
  run := fun s _ => ([], s)

/-- a `Source` given to `Split`: `seq()` drained -/
def srcOps (vals : List V) : Lena.C03.Ops BrSt V where
  call := fun s => (vals, s)
  fill := fun s _ => (s, false)
  compute := fun s => ([], s)
  request := fun s => ([], s)
  run := fun s _ => ([], s)

/-! ### inner sequences (of a `RunIf`, of a branch of a `Split`) by their list semantics

`seq.run(vals)` of an inner sequence is evaluated at once (its laziness does not touch the source);
the only state its elements keep from one run to the next are the counters of `Count` elements
(`Count.run`: `self.count += count`), threaded here as a list in depth-first order. -/

/-- an element of an inner sequence -/
inductive IEl where
  | map (f : Fn)
  | filter (p : Pred)
  | slice (k : Lena.C17.SliceKind)
  | count (name : String)
  | runif (p : Pred) (inner : List IEl)
  /-- a stateless element given by its list semantics (a nested `Split` of stateless branches; a
  `Cache` without a cache file: the identity) -/
  | opaque (den : List V → List V)

mutual
/-- the number of `Count` elements, depth first -/
def IEl.counts : IEl → Nat
  | .count _ => 1
  | .runif _ inner => iCounts inner
  | _ => 0
def iCounts : List IEl → Nat
  | [] => 0
  | e :: r => e.counts + iCounts r
end

mutual
/-- nesting depth of `RunIf`s -/
def IEl.depth : IEl → Nat
  | .runif _ inner => iDepth inner + 1
  | _ => 0
def iDepth : List IEl → Nat
  | [] => 0
  | e :: r => max e.depth (iDepth r)
end

/-- one element of an inner sequence on the flow `vals`; `rec` runs the inner sequence of a `RunIf` -/
def iRunEl (rec : List IEl → List Int → List V → List V × List Int) : IEl → List Int → List V → List V × List Int
  | .map f, st, vals => (vals.map f.app, st)
  | .filter p, st, vals => (vals.filter p.eval, st)
  | .slice k, st, vals =>
    (match Lena.C17.sliceRun k vals with
     | some (.ok ys) => ys
     | _ => [], st)
  | .count name, st, vals =>
    -- `Count.run`: `self.count += count` (nothing happens on an empty flow)
    let c := st.headD 0
    (countDen (markCount name c) vals, [c + vals.length])
  | .opaque den, st, vals => (den vals, st)
  | .runif p inner, st, vals =>
    vals.foldl (fun acc v =>
      if p.eval v then
        let r := rec inner acc.2 [v]
        (acc.1 ++ r.1, r.2)
      else (acc.1 ++ [v], acc.2)) ([], st)

/-- the elements in order, each with its share of the counters -/
def iRunList (rec : List IEl → List Int → List V → List V × List Int) :
    List IEl → List Int → List V → List V × List Int
  | [], st, vals => (vals, st)
  | el :: rest, st, vals =>
    let n := el.counts
    let r := iRunEl rec el (st.take n) vals
    let q := iRunList rec rest (st.drop n) r.1
    (q.1, r.2 ++ q.2)

/-- `seq.run(vals)` drained, for sequences whose `RunIf`s are nested at most `fuel` deep -/
def iRunF : Nat → List IEl → List Int → List V → List V × List Int
  | 0, els, st, vals => iRunList (fun _ st' vals' => (vals', st')) els st vals
  | fuel + 1, els, st, vals => iRunList (iRunF fuel) els st vals

/-- `seq.run(vals)` drained, with the counters of its `Count` elements (depth first) before and after -/
def iRun (els : List IEl) (st : List Int) (vals : List V) : List V × List Int :=
  iRunF (iDepth els) els st vals

end Lena.C02
