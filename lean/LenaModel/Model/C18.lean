/-! # C18 model — `Cache` (`lena/flow/cache.py`) inside `Source` / `Sequence`
(`lena/core/source.py`, `sequence.py`) and `alter_sequence` (`cache.py:170-204`, `lena/core/meta.py`)

Transcription of the code as it is in /repo after the commits 7584b54 (`fix: Cache stores the flow under
its name only after the whole flow was saved`) and dd601f1 (`fix: Cache creates a new temporary file instead of
truncating one left by an interrupted run`): a *generator machine with crash points* over an
*abstract file system*.

* **File system.**  Every cache `c` (a natural number stands for its file name) owns two names: the
  cache file `final` (`self._filename`) and the temporary file `tmp` (`self._filename + ".tmp"`).
  A file is `none` (absent) or `some xs`: the pickle stream of the values `xs` (assumption: `pickle.load`
  returns the dumped values in order and raises `EOFError` exactly at the end).  Distinct caches have
  non-interfering names.  The model is at the level of *names*: a file object which a suspended generator
  still holds cannot change what a name denotes after a later run has removed and re-created the file
  (true since dd601f1: the later run writes to a new inode, the old object to an unlinked one).
* **Generators.**  A pipeline that is being run is a `Chain`: the stack of Python generators that
  `Sequence.run` builds (`flow = el.run(flow)` for every element), most downstream first, on top of a
  `Bottom` that takes no input (the source generator, or `_load_flow`).  Each generator is `fresh` (created,
  body not entered), `active` (suspended at its `yield`) or `dead`.  `next` resumes the chain exactly as
  Python does: the downstream generator pulls its upstream once.
* **Crash points.**  The consumer makes at most `k` pulls (`drive k`) and then either drops the chain
  (`close`: `GeneratorExit` is raised at every suspended `yield`, downstream first) or keeps it alive
  (`leak`), to be finalised by a later `finalize` or never.  The source and every map element may raise at
  their `k`-th value.
* **Histories.**  `step`/`exec` run sequences of operations (`run`, `drop_cache`, `finalize`) on a `World`
  (file system + leaked chains).

No imports: executed by `drivers/C18.lean`. -/

namespace Lena.C18

/-- flow values: integer codes (the harness renders them as picklable Python values) -/
abbrev Val := Int

/-! ## Abstract file system -/

/-- the two files of one cache: `final` = `self._filename`, `tmp` = `self._filename + ".tmp"` -/
structure CFiles where
  final : Option (List Val)
  tmp : Option (List Val)
  deriving Repr, DecidableEq

/-- file system: cache id ↦ its two files (a structure around the function, so that an update evaluates
the new entry once, when it is made) -/
structure FS where
  files : Nat → CFiles

instance : CoeFun FS (fun _ => Nat → CFiles) := ⟨FS.files⟩

def FS.empty : FS := ⟨fun _ => ⟨none, none⟩⟩

def FS.set (fs : FS) (c : Nat) (f : CFiles) : FS := ⟨fun d => if d = c then f else fs d⟩

/-- `try: os.remove(tmp_filename) except OSError: pass` followed by `open(tmp_filename, "wb")` (cache.py:218-222,
commit dd601f1): the name denotes a new, empty file afterwards -/
def FS.openTmpW (fs : FS) (c : Nat) : FS := fs.set c { fs c with tmp := some [] }

/-- `self._dump(val, f, protocol)` on the handle of the temporary file (a write to a name that was removed
is invisible) -/
def FS.writeTmp (fs : FS) (c : Nat) (v : Val) : FS :=
  fs.set c { fs c with tmp := (fs c).tmp.map (· ++ [v]) }

/-- `try: os.remove(tmp_filename) except OSError: pass` -/
def FS.removeTmp (fs : FS) (c : Nat) : FS := fs.set c { fs c with tmp := none }

/-- `os.replace(tmp_filename, self._filename)`; `none` = `FileNotFoundError` -/
def FS.replaceTmp (fs : FS) (c : Nat) : Option FS :=
  match (fs c).tmp with
  | some xs => some (fs.set c ⟨some xs, none⟩)
  | none => none

/-- `os.remove(self._filename)`; `none` = `FileNotFoundError` -/
def FS.removeFinal (fs : FS) (c : Nat) : Option FS :=
  match (fs c).final with
  | some _ => some (fs.set c { fs c with final := none })
  | none => none

/-! ## Specifications of a pipeline (what the user writes) -/

/-- elements of a pipeline.
* `map a r`: an instrumented element whose `run` is a generator: it sends value `v` to `10 v + a` and raises
  `ElBoom` when it receives its `r`-th value (counted from 0);
* `cache c rc`: `Cache(name_c, recompute=rc)`. -/
inductive ElSpec where
  | map (a : Int) (raiseAt : Option Nat)
  | cache (c : Nat) (recompute : Bool)
  deriving Repr, DecidableEq

/-- the instrumented source (a generator function): yields `vals`, raises `SrcBoom` instead of yielding its
`raiseAt`-th value (or instead of ending, when `raiseAt = vals.length`) -/
structure SrcSpec where
  vals : List Val
  raiseAt : Option Nat
  deriving Repr, DecidableEq

/-- exception classes that can leave a run -/
inductive Exc where
  | srcBoom
  | elBoom
  | fileNotFound
  deriving Repr, DecidableEq

/-- result of resuming a generator (`next(gen)`) -/
inductive Res where
  | item (v : Val)
  | done              -- StopIteration
  | raised (e : Exc)
  deriving Repr, DecidableEq

/-- observable events of the instrumented upstream: every resumption of the source body, every value
received by a map element `j` (its position in the pipeline) -/
inductive Ev where
  | srcYield (i : Nat)
  | srcRaise (i : Nat)
  | srcEnd
  | step (j i : Nat)
  | stepRaise (j i : Nat)
  deriving Repr, DecidableEq

/-! ## Generators -/

inductive GenSt where
  | fresh | active | dead
  deriving Repr, DecidableEq

/-- the generator at the bottom of a chain (takes no input flow) -/
inductive Bottom where
  /-- the source generator: `i` values were yielded so far -/
  | src (vals : List Val) (i : Nat) (raiseAt : Option Nat) (dead : Bool)
  /-- `Cache._load_flow()` (cache.py:241-249); `rest` = what remains to be read from the open file -/
  | load (c : Nat) (st : GenSt) (rest : List Val)
  deriving Repr, DecidableEq

/-- a generator that transforms the flow below it -/
inductive Upper where
  /-- the `run` generator of map element `j`; `calls` values were received so far -/
  | map (j : Nat) (a : Int) (calls : Nat) (raiseAt : Option Nat) (dead : Bool)
  /-- `Cache._dump_flow_and_yield(flow)` (cache.py:206-238) of cache `c` -/
  | dump (c : Nat) (st : GenSt)
  deriving Repr, DecidableEq

/-- the generators of one run, most downstream first -/
structure Chain where
  uppers : List Upper
  bottom : Bottom
  deriving Repr, DecidableEq

/-- `next` of the bottom generator.  The bottom never writes to the file system.
`src`: the body `for i, v in enumerate(vals): (raise if i == raise_at); yield v` followed by
`raise if raise_at == len(vals)`.
`load` (cache.py:241-249): `with open(self._filename, "rb") as f: while True: try: yield load(f) except
EOFError: break`; the file is opened when the body is entered. -/
def nextBottom (fs : FS) : Bottom → Res × List Ev × Bottom
  | .src vals i r true => (.done, [], .src vals i r true)
  | .src vals i r false =>
    if r = some i then (.raised .srcBoom, [.srcRaise i], .src vals i r true)
    else match vals[i]? with
      | some v => (.item v, [.srcYield i], .src vals (i + 1) r false)
      | none => (.done, [.srcEnd], .src vals i r true)
  | .load c .dead rest => (.done, [], .load c .dead rest)
  | .load c .fresh _ =>
    match (fs c).final with
    | none => (.raised .fileNotFound, [], .load c .dead [])
    | some [] => (.done, [], .load c .dead [])
    | some (v :: rest) => (.item v, [], .load c .active rest)
  | .load c .active [] => (.done, [], .load c .dead [])
  | .load c .active (v :: rest) => (.item v, [], .load c .active rest)

/-- what a suspended/entered map generator does with the answer of its upstream:
`for val in flow: (raise ElBoom if n == raise_at); n += 1; yield f(val)` -/
def mapAfter (j : Nat) (a : Int) (calls : Nat) (r : Option Nat) :
    Res × List Ev × FS × List Upper × Bottom → Res × List Ev × FS × List Upper × Bottom
  | (.item v, evs, fs', us', b') =>
    if r = some calls then
      (.raised .elBoom, evs ++ [.stepRaise j calls], fs', .map j a calls r true :: us', b')
    else
      (.item (10 * v + a), evs ++ [.step j calls], fs', .map j a (calls + 1) r false :: us', b')
  | (.done, evs, fs', us', b') => (.done, evs, fs', .map j a calls r true :: us', b')
  | (.raised e, evs, fs', us', b') => (.raised e, evs, fs', .map j a calls r true :: us', b')

/-- what `_dump_flow_and_yield` (cache.py:206-238) does with the answer of its upstream:
```
tmp_filename = self._filename + ".tmp"; complete = False
try:
    try: os.remove(tmp_filename) except OSError: pass      # on the first `next` (see `nextUppers`)
    with open(tmp_filename, "wb") as f:
        for val in flow:                          # pull upstream
            dump(val); yield val                  # item: write, then suspend
    complete = True                               # done: upstream is exhausted
finally:
    if complete: os.replace(tmp_filename, self._filename)
    else: try: os.remove(tmp_filename) except OSError: pass     # upstream raised (or GeneratorExit: `close`)
``` -/
def dumpAfter (c : Nat) :
    Res × List Ev × FS × List Upper × Bottom → Res × List Ev × FS × List Upper × Bottom
  | (.item v, evs, fs', us', b') => (.item v, evs, fs'.writeTmp c v, .dump c .active :: us', b')
  | (.done, evs, fs', us', b') =>
    match fs'.replaceTmp c with
    | some fs'' => (.done, evs, fs'', .dump c .dead :: us', b')
    | none => (.raised .fileNotFound, evs, fs', .dump c .dead :: us', b')
  | (.raised e, evs, fs', us', b') => (.raised e, evs, fs'.removeTmp c, .dump c .dead :: us', b')

/-- `next` of the generator on top of `us` (structural recursion = the nesting of Python generators): a dead
generator answers `StopIteration`; a map or dump generator pulls its upstream once; entering the body of
`_dump_flow_and_yield` first opens (creates or truncates) the temporary file. -/
def nextUppers (fs : FS) : List Upper → Bottom → Res × List Ev × FS × List Upper × Bottom
  | [], b =>
    let (r, evs, b') := nextBottom fs b
    (r, evs, fs, [], b')
  | .map j a calls r true :: us, b => (.done, [], fs, .map j a calls r true :: us, b)
  | .map j a calls r false :: us, b => mapAfter j a calls r (nextUppers fs us b)
  | .dump c .dead :: us, b => (.done, [], fs, .dump c .dead :: us, b)
  | .dump c .fresh :: us, b => dumpAfter c (nextUppers (fs.openTmpW c) us b)
  | .dump c .active :: us, b => dumpAfter c (nextUppers fs us b)

def next (fs : FS) (ch : Chain) : Res × List Ev × FS × Chain :=
  let (r, evs, fs', us', b') := nextUppers fs ch.uppers ch.bottom
  (r, evs, fs', ⟨us', b'⟩)

/-- how the consumption of a chain ended -/
inductive End where
  | stopped           -- the consumer made all its pulls; the chain is suspended
  | exhausted         -- StopIteration reached the consumer
  | raised (e : Exc)
  deriving Repr, DecidableEq

structure DriveResult where
  /-- the values received, each with the file system seen right after it was received -/
  outs : List (Val × FS)
  evs : List Ev
  end_ : End
  fs : FS
  chain : Chain

/-- the consumer: at most `k` pulls -/
def drive : Nat → FS → Chain → DriveResult
  | 0, fs, ch => ⟨[], [], .stopped, fs, ch⟩
  | k + 1, fs, ch =>
    match next fs ch with
    | (.item v, evs, fs', ch') =>
      let r := drive k fs' ch'
      { r with outs := (v, fs') :: r.outs, evs := evs ++ r.evs }
    | (.done, evs, fs', ch') => ⟨[], evs, .exhausted, fs', ch'⟩
    | (.raised e, evs, fs', ch') => ⟨[], evs, .raised e, fs', ch'⟩

/-- finalisation of the generators of a chain, downstream first (`gen.close()` / reference count reaches
zero): `GeneratorExit` at the `yield` of every suspended generator.  In `_dump_flow_and_yield` the `with`
closes the file and `finally` removes the temporary file (`complete` is `False`).  A fresh or dead generator
does nothing. -/
def closeUppers (fs : FS) : List Upper → FS × List Upper
  | [] => (fs, [])
  | .map j a calls r _ :: us =>
    let (fs', us') := closeUppers fs us
    (fs', .map j a calls r true :: us')
  | .dump c st :: us =>
    let fs1 := if st = .active then fs.removeTmp c else fs
    let (fs', us') := closeUppers fs1 us
    (fs', .dump c .dead :: us')

def closeBottom : Bottom → Bottom
  | .src vals i r _ => .src vals i r true
  | .load c _ rest => .load c .dead rest

def close (fs : FS) (ch : Chain) : FS × Chain :=
  let (fs', us') := closeUppers fs ch.uppers
  (fs', ⟨us', closeBottom ch.bottom⟩)

/-! ## Building a chain: `Sequence.run`, `Source.__call__`, `Cache.run`, `alter_sequence` -/

/-- `Cache.cache_exists` (cache.py:107-115) -/
def cacheExists (fs : FS) (c : Nat) (recompute : Bool) : Bool :=
  if recompute then false else (fs c).final.isSome

def freshSrc (s : SrcSpec) : Bottom := .src s.vals 0 s.raiseAt false

/-- `for el in self._data_seq: flow = el.run(flow)` (sequence.py:70-71), elements numbered from `j`.
`Cache.run` (cache.py:142-157) is an ordinary function: it tests `cache_exists()` *now* and returns
`self._load_flow()` — the incoming flow, whose generators are all fresh, is dropped — or
`self._dump_flow_and_yield(flow)`. -/
def buildEls (fs : FS) : Nat → List ElSpec → Chain → Chain
  | _, [], ch => ch
  | j, .map a r :: els, ch => buildEls fs (j + 1) els ⟨.map j a 0 r false :: ch.uppers, ch.bottom⟩
  | j, .cache c rc :: els, ch =>
    if cacheExists fs c rc then buildEls fs (j + 1) els ⟨[], .load c .fresh []⟩
    else buildEls fs (j + 1) els ⟨.dump c .fresh :: ch.uppers, ch.bottom⟩

/-- index of the last `Cache` of `els` whose cache exists (cache.py:183-189: `for ind in reversed(range(len(seq)))`),
as the pair (index, cache id) -/
def lastFilled (fs : FS) : Nat → List ElSpec → Option (Nat × Nat)
  | _, [] => none
  | j, .map _ _ :: els => lastFilled fs (j + 1) els
  | j, .cache c rc :: els =>
    match lastFilled fs (j + 1) els with
    | some p => some p
    | none => if cacheExists fs c rc then some (j, c) else none

/-- how the pipeline `src, els` is put together and called -/
inductive Mode where
  /-- `Source(src, *els)()` -/
  | source
  /-- `Sequence(*els).run(src())` -/
  | sequence
  /-- `Cache.alter_sequence(Sequence(*els))` (or of `Source(src, *els)`), then `()` if a `Source` came back,
  `.run(src())` otherwise -/
  | hoist
  /-- `lena.core.alter_sequence(Sequence(*els))`, then the same -/
  | viaMeta
  /-- `Cache.alter_sequence(el)` / `lena.core.alter_sequence(el)` for the bare element `el = els[0]` -/
  | bare
  deriving Repr, DecidableEq

/-- `Cache.alter_sequence(seq)` (cache.py:170-204): with a filled cache at index `p` the result is
`Source(SourceEl(seq[p], call="_load_flow"), *seq[p+1:])`, whose call is `tail.run(seq[p]._load_flow())`;
otherwise `seq` itself. -/
def buildHoisted (fs : FS) (s : SrcSpec) (els : List ElSpec) : Chain :=
  match lastFilled fs 0 els with
  | some (p, c) => buildEls fs (p + 1) (els.drop (p + 1)) ⟨[], .load c .fresh []⟩
  | none => buildEls fs 0 els ⟨[], freshSrc s⟩

/-- what an `alter_sequence` function returns: the sequence it was given, or a new `Source` that starts
with the filled cache -/
inductive Altered where
  | original | hoisted
  deriving Repr, DecidableEq

/-- the return value of `Cache.alter_sequence(seq)` -/
def cacheAlter (fs : FS) (els : List ElSpec) : Altered :=
  if (lastFilled fs 0 els).isSome then .hoisted else .original

/-- `lena.core.alter_sequence(seq)` (meta.py:6-28) for a sequence: the loop `for ind in reversed(range(len(seq)))`
calls `el.alter_sequence(seq)` for every element that has one (the caches) and overwrites `changed` with
"the result differs from `seq`" each time; the hoisted `new_seq` is discarded.  Then `if not changed: return
orig_seq` else `return seq` — and `seq` is the flattened argument, the same sequence. -/
def metaAlter (fs : FS) (els : List ElSpec) : Altered :=
  let changed := els.foldr (fun el changed =>
    match el with
    | .cache _ _ => cacheAlter fs els == .hoisted
    | .map _ _ => changed) false
  if !changed then .original   -- return orig_seq
  else .original               -- return seq

def build (mode : Mode) (fs : FS) (s : SrcSpec) (els : List ElSpec) : Chain :=
  match mode with
  | .source => buildEls fs 0 els ⟨[], freshSrc s⟩
  | .sequence => buildEls fs 0 els ⟨[], freshSrc s⟩
  | .hoist => buildHoisted fs s els
  | .viaMeta =>
    match metaAlter fs els with
    | .original => buildEls fs 0 els ⟨[], freshSrc s⟩
    | .hoisted => buildHoisted fs s els
  | .bare =>
    -- an element: `el.alter_sequence(el)`; `Cache.alter_sequence` of a Cache (cache.py:196-202)
    match els with
    | .cache c rc :: _ =>
      if cacheExists fs c rc then ⟨[], .load c .fresh []⟩            -- Source(SourceEl(el, "_load_flow"))()
      else buildEls fs 0 [.cache c rc] ⟨[], freshSrc s⟩              -- el.run(src())
    | _ => buildEls fs 0 els ⟨[], freshSrc s⟩

/-! ## Histories -/

structure RunSpec where
  mode : Mode
  src : SrcSpec
  els : List ElSpec
  /-- number of pulls the consumer makes at most -/
  demand : Nat
  /-- keep the suspended generators alive after the run -/
  leak : Bool
  deriving Repr, DecidableEq

inductive Op where
  | run (r : RunSpec)
  /-- `Cache(name_c, recompute=rc).drop_cache()` -/
  | drop (c : Nat) (recompute : Bool)
  /-- the generators kept alive by earlier runs are finalised, oldest first -/
  | finalize
  deriving Repr, DecidableEq

structure World where
  fs : FS
  leaked : List Chain

def World.init : World := ⟨FS.empty, []⟩

/-- one complete run operation: build, consume, then close or leak -/
def runOp (w : World) (r : RunSpec) : World × DriveResult :=
  let d := drive r.demand w.fs (build r.mode w.fs r.src r.els)   -- = `runPipe` below
  match d.end_ with
  | .exhausted => (⟨d.fs, w.leaked⟩, d)      -- every generator has finished
  | _ =>
    if r.leak then (⟨d.fs, w.leaked ++ [d.chain]⟩, d)
    else (⟨(close d.fs d.chain).1, w.leaked⟩, d)

/-- `Cache.drop_cache` (cache.py:117-130): `os.remove`; on `OSError`, `LenaEnvironmentError` if the cache
"exists" (impossible here: the only failure of the model is a missing file), otherwise the error itself. -/
def dropOp (w : World) (c : Nat) (_rc : Bool) : World × Option Exc :=
  match w.fs.removeFinal c with
  | some fs' => (⟨fs', w.leaked⟩, none)
  | none => (w, some .fileNotFound)

def finalizeAll (fs : FS) : List Chain → FS
  | [] => fs
  | ch :: chs => finalizeAll (close fs ch).1 chs

def step (w : World) : Op → World
  | .run r => (runOp w r).1
  | .drop c rc => (dropOp w c rc).1
  | .finalize => ⟨finalizeAll w.fs w.leaked, []⟩

def exec (w : World) : List Op → World
  | [] => w
  | op :: ops => exec (step w op) ops

/-! ## Reference semantics (specification level)

What a pipeline *means*, independently of generators: a flow is a list of values with the way it ends. -/

/-- a complete flow: its values and its end (`none` = normal end, `some e` = the exception raised after the
last value) -/
structure Flow where
  vals : List Val
  exc : Option Exc
  deriving Repr, DecidableEq

def srcFlow (s : SrcSpec) : Flow :=
  match s.raiseAt with
  | some r => if r ≤ s.vals.length then ⟨s.vals.take r, some .srcBoom⟩ else ⟨s.vals, none⟩
  | none => ⟨s.vals, none⟩

def mapFlow (a : Int) (raiseAt : Option Nat) (f : Flow) : Flow :=
  match raiseAt with
  | some r =>
    if r < f.vals.length then ⟨(f.vals.take r).map (fun v => 10 * v + a), some .elBoom⟩
    else ⟨f.vals.map (fun v => 10 * v + a), f.exc⟩
  | none => ⟨f.vals.map (fun v => 10 * v + a), f.exc⟩

/-- the stored flow of cache `c` as a flow (a missing file raises when it is opened) -/
def storedFlow (fs : FS) (c : Nat) : Flow :=
  match (fs c).final with
  | some xs => ⟨xs, none⟩
  | none => ⟨[], some .fileNotFound⟩

/-- the flow that leaves the elements `els` when `f` enters them: a cache that exists replays its file
(whatever enters), any other cache passes the flow on unaltered -/
def elsFlow (fs : FS) : List ElSpec → Flow → Flow
  | [], f => f
  | .map a r :: els, f => elsFlow fs els (mapFlow a r f)
  | .cache c rc :: els, f => if cacheExists fs c rc then elsFlow fs els (storedFlow fs c) else elsFlow fs els f

/-- the complete flow of the pipeline `src, els` on the file system `fs` -/
def pipeFlow (fs : FS) (s : SrcSpec) (els : List ElSpec) : Flow := elsFlow fs els (srcFlow s)

/-! ## Vocabulary of the property theorems -/

/-- the cache ids of a pipeline, in order -/
def cacheIds : List ElSpec → List Nat
  | [] => []
  | .map _ _ :: els => cacheIds els
  | .cache c _ :: els => c :: cacheIds els

/-- no cache of `els` would be replayed on `fs` -/
def NoFilled (fs : FS) (els : List ElSpec) : Prop := ∀ c rc, ElSpec.cache c rc ∈ els → cacheExists fs c rc = false

/-- the caches of a pipeline are pairwise distinct (distinct files) -/
def Distinct (els : List ElSpec) : Prop := (cacheIds els).Nodup

/-- the bare-element way of calling is only defined for a single `Cache` -/
def ModeOk (mode : Mode) (els : List ElSpec) : Prop := mode ≠ .bare ∨ ∃ c rc, els = [.cache c rc]

/-- consuming at most `k` values of the pipeline `s, els`, put together in `mode`, on the file system `fs` -/
def runPipe (mode : Mode) (fs : FS) (s : SrcSpec) (els : List ElSpec) (k : Nat) : DriveResult :=
  drive k fs (build mode fs s els)

end Lena.C18
