/-! # C19 model — the output pipeline over an abstract file system

`ToCSV → MakeFilename → Write → RenderLaTeX → Write → LaTeXToPDF → PDFToPNG`
(`lena/output/{to_csv,make_filename,write,render_latex,latex_to_pdf,pdf_to_png}.py`) and the grouping
elements `group_plots` / `MapGroup` / `_update_with_group` (`lena/flow/group_plots.py`), transcribed as
they are in /repo's working tree.

* **File system.**  `FS C := String → Option (File C)`: a path denotes a file with a *content* of an
  abstract type `C` and a modification time; a `World` adds a logical clock (every write stamps the
  file with the clock and advances it) and the log of the run (files written, converters launched).
  Directories are implicit (`os.makedirs` is not modelled).
* **Contents and converters** are uninterpreted (`Conv C`): `csvOf d` is the CSV text of data `d`,
  `texOf t deps` the LaTeX text rendered from template `t` for the CSV paths `deps`, `pdfOf tex deps`
  what the LaTeX command produces from the text of the `.tex` file and the contents of the files it
  names (`depsOf`), `pngOf pdf` what `pdftoppm` produces.  A converter is a function of the contents it
  reads at launch time (assumption; the subprocess is modelled as running at launch).
* **Contexts.**  Only `context["output"]` (and the key `name` used to format file names) is modelled:
  `OutCtx` is the slot vector of `context.output` (`none` = key absent; a missing `output` dictionary
  is the all-`none` vector).
* **Exceptions** are explicit outcomes (`Except Exc`).

The bookkeeping of `output.changed` is in the `…Core` functions (given resolved paths); the `…Val`
functions transcribe the elements' `run`/`__call__` bodies for one value and call the cores; `runPlot`,
`runSeparate`, `runGroup` compose them as `Sequence.run` does, `exec` runs histories of runs and file
deletions.  No imports: executed by `drivers/C19.lean`. -/

namespace Lena.C19

/-- exception classes raised by the modelled code (`outsideModel`: a situation the model does not cover) -/
inductive Exc where
  | lenaRuntimeError | lenaTypeError | lenaValueError | fileNotFoundError | assertionError | indexError
  | outsideModel
  deriving Repr, DecidableEq

/-- `context["output"]` as a slot vector (`pfx`/`sfx` are the keys `prefix`/`suffix`) -/
structure OutCtx where
  filename : Option String := none
  dirname : Option String := none
  fileext : Option String := none
  filetype : Option String := none
  pfx : Option String := none
  sfx : Option String := none
  filepath : Option String := none
  changed : Option Bool := none
  deriving Repr, DecidableEq

/-! ## `MakeFilename` (`lena/output/make_filename.py`) -/

/-- a piece of a format string: literal text or the replacement field `{{name}}` -/
inductive Piece where
  | lit (s : String)
  | var
  deriving Repr, DecidableEq

abbrev Tpl := List Piece

/-- `format_context(tpl)(context)` for templates over the one key `name`; `none` = `LenaKeyError` -/
def fmt : Tpl → Option String → Option String
  | [], _ => some ""
  | .lit s :: r, n => (fmt r n).map (s ++ ·)
  | .var :: r, n =>
    match n with
    | none => none
    | some v => (fmt r n).map (v ++ ·)

/-- arguments of `MakeFilename.__init__` -/
structure MFArgs where
  filename : Option Tpl := none
  dirname : Option Tpl := none
  fileext : Option Tpl := none
  pfx : Option Tpl := none
  sfx : Option Tpl := none
  overwrite : Bool := false
  deriving Repr, DecidableEq

inductive MFKey where
  | pfx | sfx | filename | dirname | fileext
  deriving Repr, DecidableEq

/-- `MakeFilename.__init__` (lines 55-95): `filename` excludes `prefix`/`suffix`, at least one argument;
the methods are stored in the order prefix, suffix, filename, dirname, fileext -/
def mfInit (a : MFArgs) : Except Exc (List (MFKey × Tpl)) :=
  if a.filename.isSome && (a.pfx.isSome || a.sfx.isSome) then .error .lenaTypeError
  else
    let ms := (a.pfx.map (MFKey.pfx, ·)).toList ++ (a.sfx.map (MFKey.sfx, ·)).toList
      ++ (a.filename.map (MFKey.filename, ·)).toList ++ (a.dirname.map (MFKey.dirname, ·)).toList
      ++ (a.fileext.map (MFKey.fileext, ·)).toList
    if ms.isEmpty then .error .lenaTypeError else .ok ms

/-- Python truthiness of `get_recursively(context, "output.<key>", None)` for a string value -/
def truthy (s : Option String) : Bool :=
  match s with
  | some v => v != ""
  | none => false

/-- one iteration of the loop `for key, meth in self._methods` of `MakeFilename.__call__`
(lines 137-183); returns the context and whether it was modified -/
def mfStep (overwrite : Bool) (name : Option String) (o : OutCtx) (m : MFKey × Tpl) : OutCtx × Bool :=
  let present := match m.1 with
    | .filename => o.filename.isSome
    | .fileext => o.fileext.isSome
    | .dirname => o.dirname.isSome
    | _ => false
  if present && !overwrite then (o, false)
  else
    match fmt m.2 name with
    | none => (o, false)                         -- LenaKeyError: continue
    | some res =>
      match m.1 with
      | .pfx =>
        let res := if truthy o.pfx && !overwrite then res ++ o.pfx.getD "" else res
        ({ o with pfx := some res }, true)
      | .sfx =>
        let res := if truthy o.sfx && !overwrite then o.sfx.getD "" ++ res else res
        ({ o with sfx := some res }, true)
      | .filename =>
        let p := o.pfx.getD ""
        let s := o.sfx.getD ""
        let o := if p != "" then { o with pfx := none } else o
        let o := if s != "" then { o with sfx := none } else o
        ({ o with filename := some (p ++ res ++ s) }, true)
      | .dirname => ({ o with dirname := some res }, true)
      | .fileext => ({ o with fileext := some res }, true)

/-- `MakeFilename.__call__`: all methods in order -/
def mfCall (overwrite : Bool) (ms : List (MFKey × Tpl)) (name : Option String) (o : OutCtx) : OutCtx × Bool :=
  ms.foldl (fun acc m => let r := mfStep overwrite name acc.1 m; (r.1, acc.2 || r.2)) (o, false)

/-! ## `Write._make_filename` (`lena/output/write.py:79-120`) -/

/-- `os.path.isabs` (posix) -/
def isAbs (p : String) : Bool := p.startsWith "/"

/-- `os.path.join(a, b)` (posix) -/
def pjoin (a b : String) : String :=
  if isAbs b then b else if a = "" || a.endsWith "/" then a ++ b else a ++ "/" ++ b

/-- `normalize_path` (lines 103-114): one leading separator is removed (with a warning); a path that
is still absolute fails the `assert` -/
def normPath (p : String) : Except Exc String :=
  if isAbs p then
    let q := (p.drop 1).toString
    if isAbs q then .error .assertionError else .ok q
  else .ok p

/-- `Write._make_filename(outputc)` as a function of the four keys it reads: `(dirname, filename, fileext,
filepath)`; an empty `output.filename` raises `LenaRuntimeError` -/
def wmfCore (outdir defName : String) (dirname filename fileext filetype : Option String) :
    Except Exc (String × String × String × String) :=
  let dirname := dirname.getD ""
  let fileext := if filetype.isSome && fileext.isNone then filetype.getD "" else fileext.getD "txt"
  match (match filename with
         | some f => if f = "" then Except.error Exc.lenaRuntimeError else Except.ok f
         | none => Except.ok defName) with
  | .error e => .error e
  | .ok filename =>
    let filepath := if fileext != "" then filename ++ "." ++ fileext else filename
    match normPath dirname with
    | .error e => .error e
    | .ok dirname =>
      match normPath filepath with
      | .error e => .error e
      | .ok filepath => .ok (dirname, filename, fileext, pjoin (pjoin outdir dirname) filepath)

def wMakeFilename (outdir defName : String) (o : OutCtx) : Except Exc (String × String × String × String) :=
  wmfCore outdir defName o.dirname o.filename o.fileext o.filetype

/-! ## File system -/

structure File (C : Type) where
  content : C
  mtime : Nat
  deriving Repr, DecidableEq

abbrev FS (C : Type) := String → Option (File C)

def FS.empty {C : Type} : FS C := fun _ => none

def FS.set {C : Type} (fs : FS C) (p : String) (f : File C) : FS C := fun q => if q = p then some f else fs q

/-- removal of a set of files between runs -/
def FS.del {C : Type} (fs : FS C) (ps : List String) : FS C := fun q => if q ∈ ps then none else fs q

/-- what a run logs: a file written by `Write`, a LaTeX command launched for a `.tex` file, `pdftoppm`
launched for a `.pdf` file -/
inductive Event where
  | write (p : String)
  | latex (tex : String)
  | topng (pdf : String)
  deriving Repr, DecidableEq

structure World (C : Type) where
  fs : FS C
  clock : Nat
  log : List Event

/-- a file is (re)written now: stamped with the clock, which advances -/
def World.put {C : Type} (w : World C) (p : String) (c : C) (e : Event) : World C :=
  { fs := w.fs.set p ⟨c, w.clock⟩, clock := w.clock + 1, log := w.log ++ [e] }

/-- a command was launched but produced nothing -/
def World.note {C : Type} (w : World C) (e : Event) : World C := { w with log := w.log ++ [e] }

/-- contents and converters (uninterpreted) -/
structure Conv (C : Type) where
  csvOf : Nat → C
  texOf : Nat → List String → C
  depsOf : C → List String
  pdfOf : C → List (Option C) → C
  pngOf : C → C
  /-- a string that is a path, written as text (only when `Write` receives a path that is not its own) -/
  pathText : String → C

/-! ## Flow values -/

/-- the data part of a value: a text to be written, the path of a written file, or the data list of a
group (paths of the members' files) -/
inductive Data (C : Type) where
  | text (c : C)
  | path (p : String)
  | many (ps : List String)
  /-- an object with a method `write(filepath)` that writes the content `c` -/
  | writer (c : C)

/-- a value `(data, context)`: `name` = `context["name"]`, `out` = `context["output"]`,
`group` = the `output` parts of `context["group"]` (`none`: not a group), `noWrite` = `context.output.write is False` -/
structure Val (C : Type) where
  data : Data C
  name : Option String
  out : OutCtx
  group : Option (List OutCtx)
  noWrite : Bool := false

/-! ## `Write.run` (`lena/output/write.py:197-284`) -/

inductive WMode where
  | normal | existingUnchanged | overwrite
  deriving Repr, DecidableEq

/-- `Write.__init__`: the two options are mutually exclusive -/
def writeInit (existingUnchanged overwrite : Bool) : Except Exc WMode :=
  if existingUnchanged && overwrite then .error .lenaValueError
  else if existingUnchanged then .ok .existingUnchanged
  else if overwrite then .ok .overwrite
  else .ok .normal

/-- lines 228-274 once the file path `p` and the text `c` are known: `chg` is the incoming
`output.changed` (`none` = key absent); returns the world and the outgoing `output.changed`.
Existing file: kept (`existing_unchanged`), rewritten (`overwrite`), or compared; in the two "kept"
cases `changed` becomes its previous value or `False`.  A file that did not exist is created and
`output.changed` is **not touched** (the behaviour pinned by `test_write_writes`). -/
def writeCore {C : Type} [DecidableEq C] (mode : WMode) (p : String) (c : C) (w : World C) (chg : Option Bool) :
    World C × Option Bool :=
  match w.fs p with
  | some f =>
    match mode with
    | .existingUnchanged => (w, some (chg.getD false))
    | .overwrite => (w.put p c (.write p), some true)
    | .normal =>
      if c ≠ f.content then (w.put p c (.write p), some true)
      else (w, some (chg.getD false))
  | none => (w.put p c (.write p), chg)

/-- the body of the loop of `Write.run` for one value.  `is_writable` (lines 182-195): not if
`context.output.write is False`, not if the data is neither a string nor an object with a `write` method; such
values pass unchanged.  An object with a `write` method writes itself and `output.changed` is always `True`
(lines 232-242). -/
def writeVal {C : Type} [DecidableEq C] (conv : Conv C) (outdir : String) (mode : WMode) (w : World C) (v : Val C) :
    Except Exc (World C × Val C) :=
  if v.noWrite then .ok (w, v)
  else
    match v.data with
    | .many _ => .ok (w, v)                -- not a string and no `write` method: passes unchanged
    | d =>
      match wMakeFilename outdir "output" v.out with
      | .error e => .error e
      | .ok (_, fname, fext, fpath) =>
        let same := match d with
          | .path p => p == fpath
          | _ => false
        if same then .ok (w, v)            -- written by another Write: skipped
        else
          let o := { v.out with filename := some fname, fileext := some fext, filepath := some fpath }
          match d with
          | .writer c =>
            .ok (w.put fpath c (.write fpath), { v with data := .path fpath, out := { o with changed := some true } })
          | _ =>
            let c := match d with
              | .text c => c
              | .path p => conv.pathText p
              | _ => conv.pathText ""
            let r := writeCore mode fpath c w o.changed
            .ok (r.1, { v with data := .path fpath, out := { o with changed := r.2 } })

/-! ## `ToCSV.run`, `MakeFilename.__call__`, `RenderLaTeX.run` on one value -/

/-- `ToCSV.run` for a histogram with data `d`: the CSV text, `output.filetype = "csv"` -/
def toCsvVal {C : Type} (conv : Conv C) (name : Option String) (d : Nat) (o : OutCtx) : Val C :=
  { data := .text (conv.csvOf d), name := name, out := { o with filetype := some "csv" }, group := none }

def mfVal {C : Type} (overwrite : Bool) (ms : List (MFKey × Tpl)) (v : Val C) : Val C :=
  { v with out := (mfCall overwrite ms v.name v.out).1 }

/-- `RenderLaTeX.run` (lines 203-230) with the default selector `_is_csv`: the text rendered from
template `tpl`; the templates of the harness print `output.filepath` (of the value, or of every item
of `context.group`) -/
def renderVal {C : Type} (conv : Conv C) (tpl : Nat) (v : Val C) : Val C :=
  if v.out.filetype = some "csv" then
    let deps := match v.group with
      | none => v.out.filepath.toList
      | some g => g.filterMap (·.filepath)
    { v with data := .text (conv.texOf tpl deps), out := { v.out with filetype := some "tex", fileext := some "tex" } }
  else v

/-! ## `LaTeXToPDF.run` (`lena/output/latex_to_pdf.py:139-175`) -/

def isPrefixL : List Char → List Char → Bool
  | [], _ => true
  | _ :: _, [] => false
  | a :: as, b :: bs => a == b && isPrefixL as bs

/-- `str.replace` on character lists for a non-empty pattern: leftmost non-overlapping occurrences (the fuel
is the length of the text) -/
def replaceL (pat rep : List Char) : Nat → List Char → List Char
  | 0, s => s
  | _, [] => []
  | fuel + 1, c :: cs =>
    if isPrefixL pat (c :: cs) then rep ++ replaceL pat rep fuel ((c :: cs).drop pat.length)
    else c :: replaceL pat rep fuel cs

/-- Python's `s.replace(pat, rep)` (non-empty `pat`) -/
def strReplace (s pat rep : String) : String :=
  if pat = "" then s else String.ofList (replaceL pat.toList rep.toList s.length s.toList)

/-- `s[:-n]` -/
def dropEnd (s : String) (n : Nat) : String := String.ofList (s.toList.take (s.toList.length - n))

/-- the pdf named for a `.tex` file (`latex_to_pdf.py:144-149`, after commit 7f5ee11): only the extension is
replaced; a name that does not end with ".tex" keeps the old `texfile_name.replace(".tex", ".pdf")` -/
def pdfPathOf (tex : String) : String :=
  if tex.endsWith ".tex" then dropEnd tex 4 ++ ".pdf" else strReplace tex ".tex" ".pdf"

/-- the image named for a pdf (`pdf_to_png.py:90-95`): the name without its extension ".pdf" (otherwise
`pdf_name.replace(".pdf", "")`), then `"." + format` -/
def pngPathOf (pdf : String) (format : String) : String :=
  (if pdf.endsWith ".pdf" then dropEnd pdf 4 else strReplace pdf ".pdf" "") ++ "." ++ format

/-- lines 152-175 for a `.tex` value: `chg` = incoming `output.changed`.  When the key is absent the
modification times are compared (`FileNotFoundError` if the `.tex` file is missing while the pdf
exists).  Result: world, outgoing `output.changed`, and whether the value is yielded (a command
that fails — here: the `.tex` file is missing — yields nothing). -/
def latexCore {C : Type} (conv : Conv C) (overwrite : Bool) (texP pdfP : String) (w : World C) (chg : Option Bool) :
    Except Exc (World C × Bool × Bool) :=
  let changed : Except Exc Bool :=
    match chg with
    | some b => .ok b
    | none =>
      match w.fs pdfP with
      | none => .ok true
      | some pf =>
        match w.fs texP with
        | none => .error .fileNotFoundError
        | some tf => .ok (decide (pf.mtime < tf.mtime))
  match changed with
  | .error e => .error e
  | .ok changed =>
    if !overwrite && (w.fs pdfP).isSome && !changed then .ok (w, false, true)
    else
      match w.fs texP with
      | none => .ok (w.note (.latex texP), true, false)
      | some tf =>
        let deps := (conv.depsOf tf.content).map fun p => (w.fs p).map (·.content)
        .ok (w.put pdfP (conv.pdfOf tf.content deps) (.latex texP), true, true)

/-- the body of the loop of `LaTeXToPDF.run` for one value -/
def latexVal {C : Type} (conv : Conv C) (overwrite : Bool) (w : World C) (v : Val C) :
    Except Exc (World C × Option (Val C)) :=
  if v.out.filetype = some "tex" then
    match v.data with
    | .path texP =>
      let pdfP := pdfPathOf texP
      match latexCore conv overwrite texP pdfP w v.out.changed with
      | .error e => .error e
      | .ok (w', chg', yielded) =>
        let v' := { v with data := .path pdfP, out := { v.out with filetype := some "pdf", changed := some chg' } }
        .ok (w', if yielded then some v' else none)
    | _ => .error .outsideModel
  else .ok (w, some v)

/-! ### the pool of `LaTeXToPDF.run`: commands that fail, commands that finish later

`LaTeXToPDF.run` launches one process per `.tex` value and keeps it in `self.processes`; before it handles the
next value it yields the processes that have terminated *with return code 0* (`pop_returned_processes`, lines
84-107: a non-zero return code drops the value — whatever `verbose` is, which only controls printing), and after
the last value it waits for the remaining ones in launch order (lines 176-206), again yielding those with return
code 0.  `Sched` is what the outside world decides for one launch: whether the command succeeds (`ok`: return
code 0 and the pdf is written) and after how many further polls the process is seen terminated (`fin`). -/

structure Sched where
  ok : Bool := true
  fin : Nat := 0
  deriving Repr, DecidableEq

/-- a process in the pool: the value to yield, its schedule -/
structure PoolEntry (C : Type) where
  val : Val C
  ok : Bool
  fin : Nat

/-- `pop_returned_processes`: every process is polled once, in launch order; a terminated one leaves the pool and
is yielded iff its return code is 0 -/
def popReturned {C : Type} : List (PoolEntry C) → List (PoolEntry C) × List (Val C)
  | [] => ([], [])
  | e :: rest =>
    let r := popReturned rest
    if e.fin = 0 then (r.1, if e.ok then e.val :: r.2 else r.2)
    else ({ e with fin := e.fin - 1 } :: r.1, r.2)

/-- the loop body for one incoming value (after the pop): not a `.tex` value: passes; otherwise `latexCore`
decides; a skipped value is yielded at once; a launched command writes the pdf now iff it succeeds, and joins
the pool -/
def latexHandle {C : Type} (conv : Conv C) (overwrite : Bool) (w : World C) (v : Val C) (s : Sched) :
    Except Exc (World C × List (PoolEntry C) × List (Val C)) :=
  if v.out.filetype = some "tex" then
    match v.data with
    | .path texP =>
      let pdfP := pdfPathOf texP
      match latexCore conv overwrite texP pdfP w v.out.changed with
      | .error e => .error e
      | .ok (w', chg', yielded) =>
        let v' := { v with data := .path pdfP, out := { v.out with filetype := some "pdf", changed := some chg' } }
        if chg' = false then .ok (w', [], [v'])                       -- pdf exists and unchanged: yielded now
        else if s.ok then .ok (w', [⟨v', yielded, s.fin⟩], [])         -- launched, succeeds (iff the .tex file is there)
        else .ok (w.note (.latex texP), [⟨v', false, s.fin⟩], [])      -- launched, fails: nothing is written
    | _ => .error .outsideModel
  else .ok (w, [], [v])

/-- `LaTeXToPDF.run` on a flow of values with their schedules, starting with the pool `pool`; `verbose` only
prints.  The values are listed in the order they are yielded. -/
def latexRun {C : Type} (conv : Conv C) (overwrite : Bool) (verbose : Nat) :
    World C → List (PoolEntry C) → List (Val C × Sched) → Except Exc (World C × List (Val C))
  | w, pool, [] => .ok (w, (pool.filter (·.ok)).map (·.val))         -- wait for the rest, in launch order
  | w, pool, (v, s) :: rest =>
    let p := popReturned pool
    match latexHandle conv overwrite w v s with
    | .error e => .error e
    | .ok (w', launched, now) =>
      match latexRun conv overwrite verbose w' (p.1 ++ launched) rest with
      | .error e => .error e
      | .ok (w'', vs) => .ok (w'', p.2 ++ now ++ vs)

/-- the reference without a pool: every value is dealt with completely before the next one -/
def latexRunSeq {C : Type} (conv : Conv C) (overwrite : Bool) :
    World C → List (Val C × Sched) → Except Exc (World C × List (Val C))
  | w, [] => .ok (w, [])
  | w, (v, s) :: rest =>
    match latexHandle conv overwrite w v s with
    | .error e => .error e
    | .ok (w', launched, now) =>
      match latexRunSeq conv overwrite w' rest with
      | .error e => .error e
      | .ok (w'', vs) => .ok (w'', now ++ (launched.filter (·.ok)).map (·.val) ++ vs)

/-! ## `PDFToPNG.run` (`lena/output/pdf_to_png.py:84-107`) -/

/-- lines 93-105: convert iff the image is missing, `overwrite`, or `output.changed` is true -/
def pngCore {C : Type} (conv : Conv C) (overwrite : Bool) (pdfP pngP : String) (w : World C) (chg : Option Bool) :
    World C × Bool :=
  if (w.fs pngP).isNone || overwrite || chg.getD false then
    (match w.fs pdfP with
     | none => w.note (.topng pdfP)
     | some pf => w.put pngP (conv.pngOf pf.content) (.topng pdfP), true)
  else (w, false)

def pngVal {C : Type} (conv : Conv C) (overwrite : Bool) (format : String) (w : World C) (v : Val C) :
    Except Exc (World C × Val C) :=
  if v.out.filetype = some "pdf" then
    match v.data with
    | .path pdfP =>
      let pngP := pngPathOf pdfP format
      let r := pngCore conv overwrite pdfP pngP w v.out.changed
      .ok (r.1, { v with data := .path pngP, out := { v.out with filetype := some "png", changed := some r.2 } })
    | _ => .error .outsideModel
  else .ok (w, v)

/-! ## `group_plots`, `_update_with_group` (`lena/flow/group_plots.py:73-105, 221-244`) -/

/-- the common value of a key in all dictionaries (`lena.context.intersection` on one slot) -/
def allEq {α : Type} [DecidableEq α] : List (Option α) → Option α
  | [] => none
  | x :: xs => if xs.all (· == x) then x else none

/-- `intersection(*contexts)["output"]`, slot by slot -/
def interOut (os : List OutCtx) : OutCtx :=
  { filename := allEq (os.map (·.filename)), dirname := allEq (os.map (·.dirname)),
    fileext := allEq (os.map (·.fileext)), filetype := allEq (os.map (·.filetype)),
    pfx := allEq (os.map (·.pfx)), sfx := allEq (os.map (·.sfx)),
    filepath := allEq (os.map (·.filepath)), changed := allEq (os.map (·.changed)) }

/-- `difference(d1, d2)` on one slot: the item of `d1` unless `d2` has the same -/
def diffSlot {α : Type} [DecidableEq α] (a b : Option α) : Option α := if a = b then none else a

def diffOut (a b : OutCtx) : OutCtx :=
  { filename := diffSlot a.filename b.filename, dirname := diffSlot a.dirname b.dirname,
    fileext := diffSlot a.fileext b.fileext, filetype := diffSlot a.filetype b.filetype,
    pfx := diffSlot a.pfx b.pfx, sfx := diffSlot a.sfx b.sfx,
    filepath := diffSlot a.filepath b.filepath, changed := diffSlot a.changed b.changed }

/-- `update_recursively(d, u)` on one slot -/
def updSlot {α : Type} (d u : Option α) : Option α :=
  match u with
  | some v => some v
  | none => d

def updOut (d u : OutCtx) : OutCtx :=
  { filename := updSlot d.filename u.filename, dirname := updSlot d.dirname u.dirname,
    fileext := updSlot d.fileext u.fileext, filetype := updSlot d.filetype u.filetype,
    pfx := updSlot d.pfx u.pfx, sfx := updSlot d.sfx u.sfx,
    filepath := updSlot d.filepath u.filepath, changed := updSlot d.changed u.changed }

/-- `group_plots` (lines 233-235): `changed = any(get_recursively(c, "output.changed", False) …)` -/
def groupPlotsChanged (ms : List (Option Bool)) : Bool := ms.any (·.getD false)

/-- `group_plots(group)["output"]` for members with `output` parts `os` -/
def groupPlotsOut (os : List OutCtx) : OutCtx :=
  { interOut os with changed := some (groupPlotsChanged (os.map (·.changed))) }

/-- `_update_with_group`, lines 75-92: three-valued combination of the value's own `output.changed`
and those of the group members: `True` if any is true, else `False` if any is known, else unknown -/
def combineChanged (ctxChanged : Option Bool) (ms : List (Option Bool)) : Option Bool :=
  let all := ctxChanged :: ms
  if all.any (· == some true) then some true
  else if all.contains (some false) then some false
  else none

/-- `_update_with_group(context, new_grp_context, old_inter_context)` on `context["output"]`: the
combination above, then the update with what became common to all members (lines 98-103) -/
def updateWithGroup (o : OutCtx) (newOuts : List OutCtx) (oldInter : OutCtx) : OutCtx :=
  let o1 := match combineChanged o.changed (newOuts.map (·.changed)) with
    | some b => { o with changed := some b }
    | none => o
  updOut o1 (diffOut (interOut newOuts) oldInter)

/-! ## Pipelines -/

/-- options of one pipeline: output directory, modes of the two `Write`s, `overwrite` of `LaTeXToPDF`
and `PDFToPNG`, arguments of the `MakeFilename` applied to every plot and of the one applied to a group -/
structure Cfg where
  outdir : String
  w1 : WMode
  w2 : WMode
  lo : Bool
  po : Bool
  mf : MFArgs
  gmf : MFArgs
  deriving Repr, DecidableEq

/-- a plot: `(histogram with data id d, {"name": name})` -/
structure Plot where
  name : Option String
  data : Nat
  deriving Repr, DecidableEq

/-- `ToCSV → MakeFilename → Write` for one plot -/
def memberStage {C : Type} [DecidableEq C] (conv : Conv C) (cfg : Cfg) (ms : List (MFKey × Tpl)) (w : World C) (pl : Plot) :
    Except Exc (World C × Val C) :=
  writeVal conv cfg.outdir cfg.w1 w (mfVal cfg.mf.overwrite ms (toCsvVal conv pl.name pl.data {}))

/-- `RenderLaTeX → Write → LaTeXToPDF → PDFToPNG` for one value -/
def tailStage {C : Type} [DecidableEq C] (conv : Conv C) (cfg : Cfg) (tpl : Nat) (w : World C) (v : Val C) :
    Except Exc (World C × Option (Val C)) :=
  match writeVal conv cfg.outdir cfg.w2 w (renderVal conv tpl v) with
  | .error e => .error e
  | .ok (w4, v4) =>
    match latexVal conv cfg.lo w4 v4 with
    | .error e => .error e
    | .ok (w5, none) => .ok (w5, none)
    | .ok (w5, some v5) =>
      match pngVal conv cfg.po "png" w5 v5 with
      | .error e => .error e
      | .ok (w6, v6) => .ok (w6, some v6)

/-- the whole pipeline for one plot -/
def runPlot {C : Type} [DecidableEq C] (conv : Conv C) (cfg : Cfg) (ms : List (MFKey × Tpl)) (tpl : Nat) (w : World C)
    (pl : Plot) : Except Exc (World C × Option (Val C)) :=
  match memberStage conv cfg ms w pl with
  | .error e => .error e
  | .ok (w2, v2) => tailStage conv cfg tpl w2 v2

/-- the plots as separate values of one flow (every value goes through the whole chain; plots with
different file names do not interfere, so they are processed one after the other) -/
def runPlots {C : Type} [DecidableEq C] (conv : Conv C) (cfg : Cfg) (ms : List (MFKey × Tpl)) (tpl : Nat) :
    World C → List Plot → Except Exc (World C × List (Val C))
  | w, [] => .ok (w, [])
  | w, pl :: rest =>
    match runPlot conv cfg ms tpl w pl with
    | .error e => .error e
    | .ok (w', ov) =>
      match runPlots conv cfg ms tpl w' rest with
      | .error e => .error e
      | .ok (w'', vs) => .ok (w'', ov.toList ++ vs)

def runSeparate {C : Type} [DecidableEq C] (conv : Conv C) (cfg : Cfg) (tpl : Nat) (w : World C) (pls : List Plot) :
    Except Exc (World C × List (Val C)) :=
  match mfInit cfg.mf with
  | .error e => .error e
  | .ok ms => runPlots conv cfg ms tpl w pls

/-- `MapGroup(ToCSV, MakeFilename, Write)` on the members, one after the other -/
def runMembers {C : Type} [DecidableEq C] (conv : Conv C) (cfg : Cfg) (ms : List (MFKey × Tpl)) :
    World C → List Plot → Except Exc (World C × List (Val C))
  | w, [] => .ok (w, [])
  | w, pl :: rest =>
    match memberStage conv cfg ms w pl with
    | .error e => .error e
    | .ok (w', v) =>
      match runMembers conv cfg ms w' rest with
      | .error e => .error e
      | .ok (w'', vs) => .ok (w'', v :: vs)

def dataPath {C : Type} (v : Val C) : String :=
  match v.data with
  | .path p => p
  | _ => ""

/-- `group_plots(plots)` through `MapGroup(ToCSV, MakeFilename, Write) → MakeFilename → RenderLaTeX →
Write → LaTeXToPDF → PDFToPNG`: one combined `.tex`/`.pdf`/`.png` for the group -/
def runGroup {C : Type} [DecidableEq C] (conv : Conv C) (cfg : Cfg) (tpl : Nat) (w : World C) (pls : List Plot) :
    Except Exc (World C × List (Val C)) :=
  match mfInit cfg.mf, mfInit cfg.gmf with
  | .error e, _ => .error e
  | _, .error e => .error e
  | .ok ms, .ok gms =>
    if pls.isEmpty then .error .indexError      -- `new_vals[0]` in `MapGroup.run`
    else
      let outs0 : List OutCtx := pls.map fun _ => {}
      let gout0 := groupPlotsOut outs0
      let oldInter := interOut outs0
      match runMembers conv cfg ms w pls with
      | .error e => .error e
      | .ok (w1, vs) =>
        let newOuts := vs.map (·.out)
        let gv : Val C := { data := .many (vs.map dataPath), name := allEq (pls.map (·.name)),
                            out := updateWithGroup gout0 newOuts oldInter, group := some newOuts }
        match tailStage conv cfg tpl w1 (mfVal cfg.gmf.overwrite gms gv) with
        | .error e => .error e
        | .ok (w2, ov) => .ok (w2, ov.toList)

/-! ## More of the elements' surface: formatted output directory, template from the context, several results per
group member, an interrupted run -/

/-- the string of a format template (`{{name}}` for the variable) -/
def tplRaw : Tpl → String
  | [] => ""
  | .lit s :: r => s ++ tplRaw r
  | .var :: r => "{{name}}" ++ tplRaw r

def tplHasVar (t : Tpl) : Bool := t.any (· == .var)

/-- `Write.__init__`, lines 61-66: `self.output_directory` is the string as given -/
def writeDirInit (t : Tpl) : String := tplRaw t

/-- `Write._set_context(context)` (lines 286-298): an output directory with `{` is formatted with the static
context; if a key is missing (`LenaKeyError`) the directory stays what it was -/
def writeDirSet (t : Tpl) (static : Option String) (cur : String) : String :=
  if tplHasVar t then
    match fmt t static with
    | some s => s
    | none => cur
  else cur

/-- `RenderLaTeX`: `_select_template_or_default` (lines 70-81): `context.output.template` if present (and
non-empty), else the element's template; neither: `LenaRuntimeError` -/
def selectTemplate (ctxTemplate default : Option Nat) : Except Exc Nat :=
  match ctxTemplate with
  | some t => .ok t
  | none =>
    match default with
    | some t => .ok t
    | none => .error .lenaRuntimeError

/-- `MapGroup.run`, lines 196-214, on `context.output`: the member sequence gave every member the same number of
results; result `j` of the group combines the `j`-th results of all members (`cols[j]`) with the group's context by
`_update_with_group` — every result starts from the group's context as it was -/
def mapGroupOuts (o : OutCtx) (cols : List (List OutCtx)) (oldInter : OutCtx) : List OutCtx :=
  cols.map fun col => updateWithGroup o col oldInter

/-- `RenderLaTeX → Write → LaTeXToPDF → PDFToPNG` for one value of a run that is interrupted (Ctrl-C) while
`LaTeXToPDF` waits: a launched command that has not terminated by then (`late`) is terminated and its value is
not yielded (lines 183-199) — the pdf it wrote at launch stays, no image is made.  Everything else as `tailStage`. -/
def tailStageI {C : Type} [DecidableEq C] (conv : Conv C) (cfg : Cfg) (tpl : Nat) (late : Bool) (w : World C) (v : Val C) :
    Except Exc (World C × Option (Val C)) :=
  match writeVal conv cfg.outdir cfg.w2 w (renderVal conv tpl v) with
  | .error e => .error e
  | .ok (w4, v4) =>
    match latexVal conv cfg.lo w4 v4 with
    | .error e => .error e
    | .ok (w5, none) => .ok (w5, none)
    | .ok (w5, some v5) =>
      if late && v5.out.changed == some true then .ok (w5, none)
      else
        match pngVal conv cfg.po "png" w5 v5 with
        | .error e => .error e
        | .ok (w6, v6) => .ok (w6, some v6)

def runPlotsI {C : Type} [DecidableEq C] (conv : Conv C) (cfg : Cfg) (ms : List (MFKey × Tpl)) (tpl : Nat) :
    World C → List (Plot × Bool) → Except Exc (World C × List (Val C))
  | w, [] => .ok (w, [])
  | w, (pl, late) :: rest =>
    match memberStage conv cfg ms w pl with
    | .error e => .error e
    | .ok (w2, v2) =>
      match tailStageI conv cfg tpl late w2 v2 with
      | .error e => .error e
      | .ok (w', ov) =>
        match runPlotsI conv cfg ms tpl w' rest with
        | .error e => .error e
        | .ok (w'', vs) => .ok (w'', ov.toList ++ vs)

/-! ## Histories -/

inductive Layout where
  | separate | group
  /-- plain (ungrouped) values sent through the group pipeline: `MapGroup` maps its sequence to them one by one
  (`map_scalars=True`), the rest of the pipeline follows -/
  | scalars
  deriving Repr, DecidableEq

structure RunSpec where
  cfg : Cfg
  layout : Layout
  tpl : Nat
  plots : List Plot
  deriving Repr, DecidableEq

/-- a step of a history: a run of a newly built pipeline, or the removal of files -/
inductive HStep where
  | run (r : RunSpec)
  | del (ps : List String)
  deriving Repr, DecidableEq

/-- `MapGroup.run`, lines 170-173: the data list and `context.group` of a group must have the same length -/
def mapGroupGuard (nData nGroup : Nat) : Except Exc Unit :=
  if nData ≠ nGroup then .error .lenaRuntimeError else .ok ()

/-- `MapGroup.run`, lines 160-168, for a value that is not a group (`map_scalars=True`): the member sequence is
applied to the value itself; then `MakeFilename` (of the group), `RenderLaTeX`, `Write`, `LaTeXToPDF`, `PDFToPNG` -/
def runScalarPlot {C : Type} [DecidableEq C] (conv : Conv C) (cfg : Cfg) (ms gms : List (MFKey × Tpl)) (tpl : Nat)
    (w : World C) (pl : Plot) : Except Exc (World C × Option (Val C)) :=
  match memberStage conv cfg ms w pl with
  | .error e => .error e
  | .ok (w2, v2) => tailStage conv cfg tpl w2 (mfVal cfg.gmf.overwrite gms v2)

def runScalarPlots {C : Type} [DecidableEq C] (conv : Conv C) (cfg : Cfg) (ms gms : List (MFKey × Tpl)) (tpl : Nat) :
    World C → List Plot → Except Exc (World C × List (Val C))
  | w, [] => .ok (w, [])
  | w, pl :: rest =>
    match runScalarPlot conv cfg ms gms tpl w pl with
    | .error e => .error e
    | .ok (w', ov) =>
      match runScalarPlots conv cfg ms gms tpl w' rest with
      | .error e => .error e
      | .ok (w'', vs) => .ok (w'', ov.toList ++ vs)

def runScalars {C : Type} [DecidableEq C] (conv : Conv C) (cfg : Cfg) (tpl : Nat) (w : World C) (pls : List Plot) :
    Except Exc (World C × List (Val C)) :=
  match mfInit cfg.mf, mfInit cfg.gmf with
  | .error e, _ => .error e
  | _, .error e => .error e
  | .ok ms, .ok gms => runScalarPlots conv cfg ms gms tpl w pls

def runSpec {C : Type} [DecidableEq C] (conv : Conv C) (w : World C) (r : RunSpec) : Except Exc (World C × List (Val C)) :=
  match r.layout with
  | .separate => runSeparate conv r.cfg r.tpl w r.plots
  | .group => runGroup conv r.cfg r.tpl w r.plots
  | .scalars => runScalars conv r.cfg r.tpl w r.plots

/-- an interrupted run: `late[i]` says that the command launched for plot `i` (for the group: `late[0]`) has not
terminated when Ctrl-C arrives.  The values listed are those yielded before the run ends with an exception. -/
def runSpecI {C : Type} [DecidableEq C] (conv : Conv C) (w : World C) (r : RunSpec) (late : List Bool) :
    Except Exc (World C × List (Val C)) :=
  match mfInit r.cfg.mf, mfInit r.cfg.gmf with
  | .error e, _ => .error e
  | _, .error e => .error e
  | .ok ms, .ok gms =>
    match r.layout with
    | .group =>
      if r.plots.isEmpty then .error .indexError
      else
        let outs0 : List OutCtx := r.plots.map fun _ => {}
        match runMembers conv r.cfg ms w r.plots with
        | .error e => .error e
        | .ok (w1, vs) =>
          let newOuts := vs.map (·.out)
          let gv : Val C := { data := .many (vs.map dataPath), name := allEq (r.plots.map (·.name)),
                              out := updateWithGroup (groupPlotsOut outs0) newOuts (interOut outs0), group := some newOuts }
          match tailStageI conv r.cfg r.tpl (late.headD false) w1 (mfVal r.cfg.gmf.overwrite gms gv) with
          | .error e => .error e
          | .ok (w2, ov) => .ok (w2, ov.toList)
    | _ => runPlotsI conv r.cfg ms r.tpl w (r.plots.zip (late ++ List.replicate r.plots.length false))

/-- one step on the world; a run that raises leaves the world as it was (the histories of the harness
stop at an exception) -/
def step {C : Type} [DecidableEq C] (conv : Conv C) (w : World C) : HStep → World C
  | .del ps => { w with fs := w.fs.del ps }
  | .run r =>
    match runSpec conv w r with
    | .ok (w', _) => w'
    | .error _ => w

def exec {C : Type} [DecidableEq C] (conv : Conv C) (w : World C) (h : List HStep) : World C :=
  h.foldl (step conv) w

def World.init {C : Type} : World C := { fs := FS.empty, clock := 0, log := [] }

/-! ## One pipeline object used for several runs

Which elements keep state from one `run` to the next (read off the code):

* `RenderLaTeX`: its jinja2 `Environment` caches the compiled template together with the modification time
  the template file had when it was loaded; `get_template` re-uses the cached template iff the file's
  modification time is still the same (`auto_reload`, `FileSystemLoader.get_source` … `uptodate`).
  Modelled: `PipeState.cache`, `getTemplate`.
* `LaTeXToPDF`: the pool `self.processes` — emptied (`clear()`) at the end of every completed `run`; the model
  runs a launched command to completion, so the pool is empty between runs (not a state component).
* `ToCSV`, `MakeFilename` (`_methods`, `_overwrite`: constants), `Write` (`output_directory`, the two options:
  constants; no static context is set in these pipelines), `PDFToPNG`, `MapGroup`: nothing that a run changes —
  in the model their functions take no state argument, so a run cannot depend on earlier runs through them. -/

/-- the template file on disk: its content (template id) and its modification time -/
structure TplFile where
  tpl : Nat
  mtime : Nat
  deriving Repr, DecidableEq

/-- what a pipeline object carries from one run to the next: the template cache of its `RenderLaTeX`
(`(template, modification time at load)`) -/
structure PipeState where
  cache : Option (Nat × Nat) := none
  deriving Repr, DecidableEq

/-- `self._environment.get_template(name)`: the cached template if the file's modification time is the one
recorded at load, otherwise the file is read (and cached) -/
def getTemplate (st : PipeState) (f : TplFile) : Nat × PipeState :=
  match st.cache with
  | some (t, m) => if m = f.mtime then (t, st) else (f.tpl, { cache := some (f.tpl, f.mtime) })
  | none => (f.tpl, { cache := some (f.tpl, f.mtime) })

/-- one run of an existing pipeline object whose state is `st`, with the template file `f` on disk (`r.tpl` is
not used: the template comes from the file through the cache).  A run without values does not look at the
template. -/
def runObject {C : Type} [DecidableEq C] (conv : Conv C) (st : PipeState) (w : World C) (r : RunSpec) (f : TplFile) :
    Except Exc (World C × List (Val C) × PipeState) :=
  let g := getTemplate st f
  match runSpec conv w { r with tpl := g.1 } with
  | .error e => .error e
  | .ok (w', vs) => .ok (w', vs, if r.plots.isEmpty then st else g.2)

/-- a step of the life of one pipeline object: a run (data and options of `r`), the removal of files, an edit
of the template file (new content; the modification time moves on, as it does for a real edit) -/
inductive OStep where
  | run (r : RunSpec)
  | del (ps : List String)
  | edit (tpl : Nat)
  deriving Repr, DecidableEq

structure OState (C : Type) where
  w : World C
  st : PipeState
  f : TplFile

def ostep {C : Type} [DecidableEq C] (conv : Conv C) (s : OState C) : OStep → OState C
  | .edit t => { s with f := ⟨t, s.f.mtime + 1⟩ }
  | .del ps => { s with w := step conv s.w (.del ps) }
  | .run r =>
    match runObject conv s.st s.w r s.f with
    | .ok (w', _, st') => { s with w := w', st := st' }
    | .error _ => s

def oexec {C : Type} [DecidableEq C] (conv : Conv C) (s : OState C) (h : List OStep) : OState C :=
  h.foldl (ostep conv) s

/-- the same history when a new pipeline object is built for every run: every run renders the template that
is on disk -/
def freshHistory : Nat → List OStep → List HStep
  | _, [] => []
  | _, .edit t' :: rest => freshHistory t' rest
  | t, .del ps :: rest => .del ps :: freshHistory t rest
  | t, .run r :: rest => .run { r with tpl := t } :: freshHistory t rest

/-! ## A concrete content type (free terms: converters that embed what they read) -/

/-- contents of the stub pipeline: CSV of data `d`, text of template `t` naming the files `deps`,
`pdf tex deps` (what the stub LaTeX command writes: the text it read and the contents of the named
files, as a `cons`/`nil` list with `missing` for an absent file), `png pdf`, raw text -/
inductive Content where
  | csv (d : Nat)
  | tex (t : Nat) (deps : List String)
  | raw (s : String)
  | missing
  | nil
  | cons (a b : Content)
  | pdf (tex deps : Content)
  | png (pdf : Content)
  deriving Repr, DecidableEq

def Content.ofList : List (Option Content) → Content
  | [] => .nil
  | none :: r => .cons .missing (Content.ofList r)
  | some c :: r => .cons c (Content.ofList r)

/-- the stub converters -/
def stubConv : Conv Content :=
  { csvOf := .csv
    texOf := .tex
    depsOf := fun c => match c with
      | .tex _ deps => deps
      | _ => []
    pdfOf := fun t deps => .pdf t (Content.ofList deps)
    pngOf := .png
    pathText := .raw }

end Lena.C19
