import LenaModel.Model.C19
/-! # C19 — specification-side definitions (executable)

The bookkeeping compositions on *resolved file names* that the theorems of `Props/C19.lean` are stated with
(`sepCore`, `grpCore`, …), the naming functions (`plotUnit`, `memberNamed`, `groupTexPath`) and Boolean versions of
the hypotheses and conclusions (`sourceClosedB`, `unitFreshB`).  They are executed by `drivers/C19.lean` on every
run of every generated history: the resolved names are compared with the files the real pipeline names, the
Boolean `SourceClosed` / `UnitFresh` with an independent Python evaluation on the real file system, and the world
of `specRun` with the world of the element-by-element pipeline `runSpec`.  No imports but the model. -/

namespace Lena.C19
variable {C : Type} [DecidableEq C]

/-- what a `Write` leaves in the file: the new text, except that `existing_unchanged` keeps an existing file -/
def effective (mode : WMode) (old : Option (File C)) (new : C) : C :=
  match mode, old with
  | .existingUnchanged, some f => f.content
  | _, _ => new

def depContents (fs : FS C) (ps : List String) : List (Option C) := ps.map fun p => (fs p).map (·.content)

/-- the files of one plot (or of one group of plots): the CSV files, the `.tex` file that names them, the pdf
rendered from them and the image converted from the pdf -/
structure FUnit where
  csvs : List String
  tex : String
  pdf : String
  png : String

/-- all files of a unit -/
def FUnit.paths (u : FUnit) : List String := u.csvs ++ [u.tex, u.pdf, u.png]

/-- `LaTeXToPDF` then `PDFToPNG` on the value of a unit whose incoming `output.changed` is `c`: the world and
the `output.changed` of the yielded value (`none`: the LaTeX command failed, nothing is yielded) -/
def convCore (conv : Conv C) (lo po : Bool) (u : FUnit) (w : World C) (c : Option Bool) :
    Except Exc (World C × Option Bool) :=
  match latexCore conv lo u.tex u.pdf w c with
  | .error e => .error e
  | .ok (w3, _, false) => .ok (w3, none)
  | .ok (w3, c3, true) =>
    let r := pngCore conv po u.pdf u.png w3 (some c3)
    .ok (r.1, some r.2)

/-- second `Write` (the `.tex` file), `LaTeXToPDF`, `PDFToPNG` -/
def downCore (conv : Conv C) (m2 : WMode) (lo po : Bool) (u : FUnit) (ntex : C) (w : World C) (c1 : Option Bool) :
    Except Exc (World C × Option Bool) :=
  let r2 := writeCore m2 u.tex ntex w c1
  convCore conv lo po u r2.1 r2.2

/-- the bookkeeping of one plot whose CSV file is `pc` -/
def sepCore (conv : Conv C) (m1 m2 : WMode) (lo po : Bool) (u : FUnit) (pc : String) (ncsv ntex : C) (w : World C) :
    Except Exc (World C × Option Bool) :=
  let r1 := writeCore m1 pc ncsv w none
  downCore conv m2 lo po u ntex r1.1 r1.2

/-- `MapGroup(ToCSV, MakeFilename, Write)` on the members, bookkeeping level: every member `(path, text)` is
written with an unset incoming `output.changed`; the outgoing flags are collected -/
def membersCore (m1 : WMode) : World C → List (String × C) → World C × List (Option Bool)
  | w, [] => (w, [])
  | w, (p, c) :: rest =>
    let r := writeCore m1 p c w none
    let rr := membersCore m1 r.1 rest
    (rr.1, r.2 :: rr.2)

/-- the bookkeeping of a group: the members' `Write`s, the combination of their flags by `group_plots` /
`_update_with_group` (`group_changed_after_mapgroup`: true iff a member was rewritten), then the second `Write`
and the converters on the combined value -/
def grpCore (conv : Conv C) (m1 m2 : WMode) (lo po : Bool) (u : FUnit) (members : List (String × C)) (ntex : C)
    (w : World C) : Except Exc (World C × Option Bool) :=
  let r := membersCore m1 w members
  downCore conv m2 lo po u ntex r.1 (some (r.2.any (· == some true)))

/-- `context.output` of a plot after `ToCSV` and `MakeFilename` -/
def plotCtx (cfg : Cfg) (ms : List (MFKey × Tpl)) (pl : Plot) : OutCtx :=
  (mfCall cfg.mf.overwrite ms pl.name { filetype := some "csv" }).1

/-- the file names that the two `Write`s and the two converters compute for a plot: its unit and its CSV path -/
def plotUnit (cfg : Cfg) (ms : List (MFKey × Tpl)) (pl : Plot) : Except Exc (FUnit × String) :=
  let o1 := plotCtx cfg ms pl
  match wmfCore cfg.outdir "output" o1.dirname o1.filename o1.fileext (some "csv") with
  | .error e => .error e
  | .ok (_, fn, _, pc) =>
    match wmfCore cfg.outdir "output" o1.dirname (some fn) (some "tex") (some "tex") with
    | .error e => .error e
    | .ok (_, _, _, pt) => .ok (⟨[pc], pt, pdfPathOf pt, pngPathOf (pdfPathOf pt) "png"⟩, pc)

/-- a context without its `changed` key (file names never depend on it) -/
def nm (o : OutCtx) : OutCtx := { o with changed := none }

/-- the names that `ToCSV → MakeFilename → Write` give to a member: its context (without `changed`) and its
CSV path -/
def memberNamed (cfg : Cfg) (ms : List (MFKey × Tpl)) (pl : Plot) : Except Exc (OutCtx × String) :=
  match wmfCore cfg.outdir "output" (plotCtx cfg ms pl).dirname (plotCtx cfg ms pl).filename
      (plotCtx cfg ms pl).fileext (some "csv") with
  | .error e => .error e
  | .ok (_, fn, fe, pc) =>
    .ok ({ plotCtx cfg ms pl with filename := some fn, fileext := some fe, filepath := some pc }, pc)

/-- the name of the combined `.tex` file: `_update_with_group` puts what is common to all members into the
group's context, `MakeFilename` completes it, `Write._make_filename` builds the path -/
def groupTexPath (cfg : Cfg) (gms : List (MFKey × Tpl)) (gname : Option String) (named : List OutCtx) :
    Except Exc String :=
  let g := (mfCall cfg.gmf.overwrite gms gname (nm (updateWithGroup { changed := some false } named {}))).1
  match wmfCore cfg.outdir "output" g.dirname g.filename (some "tex") (some "tex") with
  | .error e => .error e
  | .ok (_, _, _, pt) => .ok pt

/-- the values that `MapGroup` collects from the members -/
def memberVals : List (Plot × (OutCtx × String)) → List (Option Bool) → List (Val C)
  | x :: xs, f :: fs => ⟨.path x.2.2, x.1.name, { x.2.1 with changed := f }, none, false⟩ :: memberVals xs fs
  | _, _ => []


/-! ## Boolean versions of the hypotheses and conclusions (`Props/C19.lean` proves them equivalent) -/

/-- `SourceClosed u fs` -/
def sourceClosedB (u : FUnit) (fs : FS C) : Bool :=
  !(fs u.pdf).isSome || ((fs u.tex).isSome && u.csvs.all fun p => (fs p).isSome)

/-- a file with content `c` is at `p` -/
def hasContentB (fs : FS C) (p : String) (c : C) : Bool :=
  match fs p with
  | some f => decide (f.content = c)
  | none => false

/-- `UnitFresh conv u fs ecsvs etex` -/
def unitFreshB (conv : Conv C) (u : FUnit) (fs : FS C) (ecsvs : List C) (etex : C) : Bool :=
  decide (depContents fs u.csvs = ecsvs.map some) && hasContentB fs u.tex etex &&
  hasContentB fs u.pdf (conv.pdfOf etex (ecsvs.map some)) &&
  hasContentB fs u.png (conv.pngOf (conv.pdfOf etex (ecsvs.map some)))

/-! ## a run, specification side: names first, then the bookkeeping -/

/-- the separate layout: every plot is resolved to its unit and handed to `sepCore` -/
def specSeparate (conv : Conv C) (cfg : Cfg) (ms : List (MFKey × Tpl)) (tpl : Nat) :
    World C → List Plot → Except Exc (World C)
  | w, [] => .ok w
  | w, pl :: rest =>
    match plotUnit cfg ms pl with
    | .error e => .error e
    | .ok (u, pc) =>
      match sepCore conv cfg.w1 cfg.w2 cfg.lo cfg.po u pc (conv.csvOf pl.data) (conv.texOf tpl [pc]) w with
      | .error e => .error e
      | .ok (w', _) => specSeparate conv cfg ms tpl w' rest

/-- the names of all members of a group -/
def membersNamed (cfg : Cfg) (ms : List (MFKey × Tpl)) : List Plot → Except Exc (List (Plot × (OutCtx × String)))
  | [] => .ok []
  | pl :: rest =>
    match memberNamed cfg ms pl with
    | .error e => .error e
    | .ok x =>
      match membersNamed cfg ms rest with
      | .error e => .error e
      | .ok xs => .ok ((pl, x) :: xs)

/-- the unit of a group: the members' CSV files and the combined `.tex`, pdf, image -/
def groupUnit (cfg : Cfg) (gms : List (MFKey × Tpl)) (mems : List (Plot × (OutCtx × String))) : Except Exc FUnit :=
  match groupTexPath cfg gms (allEq (mems.map (·.1.name))) (mems.map (·.2.1)) with
  | .error e => .error e
  | .ok pt => .ok ⟨mems.map (·.2.2), pt, pdfPathOf pt, pngPathOf (pdfPathOf pt) "png"⟩

/-- the group layout: names, then `grpCore` -/
def specGroup (conv : Conv C) (cfg : Cfg) (ms gms : List (MFKey × Tpl)) (tpl : Nat) (w : World C) (pls : List Plot) :
    Except Exc (World C) :=
  match membersNamed cfg ms pls with
  | .error e => .error e
  | .ok mems =>
    match groupUnit cfg gms mems with
    | .error e => .error e
    | .ok u =>
      match grpCore conv cfg.w1 cfg.w2 cfg.lo cfg.po u (mems.map fun x => (x.2.2, conv.csvOf x.1.data))
          (conv.texOf tpl u.csvs) w with
      | .error e => .error e
      | .ok (w', _) => .ok w'

/-- the units of a run: one per plot (separate layout) or one for the group -/
def runUnits (r : RunSpec) : Except Exc (List FUnit) :=
  match mfInit r.cfg.mf, mfInit r.cfg.gmf with
  | .error e, _ => .error e
  | _, .error e => .error e
  | .ok ms, .ok gms =>
    match r.layout with
    | .separate =>
      r.plots.foldr (fun pl acc =>
        match plotUnit r.cfg ms pl, acc with
        | .ok (u, _), .ok us => .ok (u :: us)
        | .error e, _ => .error e
        | _, .error e => .error e) (.ok [])
    | .group =>
      match membersNamed r.cfg ms r.plots with
      | .error e => .error e
      | .ok mems =>
        match groupUnit r.cfg gms mems with
        | .error e => .error e
        | .ok u => .ok [u]
    | .scalars => .ok []        -- no specification-side counterpart (compared through `runSpec` only)

def specRun (conv : Conv C) (w : World C) (r : RunSpec) : Except Exc (World C) :=
  match mfInit r.cfg.mf, mfInit r.cfg.gmf with
  | .error e, _ => .error e
  | _, .error e => .error e
  | .ok ms, .ok gms =>
    match r.layout with
    | .separate => specSeparate conv r.cfg ms r.tpl w r.plots
    | .group => specGroup conv r.cfg ms gms r.tpl w r.plots
    | .scalars => (runScalars conv r.cfg r.tpl w r.plots).map (·.1)

/-- the two worlds agree on the given paths, on the clock and on the log -/
def worldAgree (paths : List String) (a b : World C) : Bool :=
  decide (a.clock = b.clock) && decide (a.log = b.log) && paths.all fun p => decide (a.fs p = b.fs p)

end Lena.C19
