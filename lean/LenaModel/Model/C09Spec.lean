import LenaModel.Model.C09
/-! # C09 — specification vocabulary (executable)

The functions in which the C09 theorems (`LenaModel/Props/C09.lean`) state what the accumulators yield: the context
of the last filled value, sums, squared deviations, first-occurrence key order, columns of filled vectors, bin
membership …  They live in a `Model` file so that `drivers/C09.lean` can execute them: the harness compares every
one of them with an independent Python reference on the generated cases (`"spec"` requests). -/

namespace Lena.C09
open Lena
variable {σ ι ο ο' δ κ : Type}

/-- the context of the last value of `vs` (`c` if there is none) -/
def ctxAfter (c : Ctx) (vs : List (Item δ)) : Ctx :=
  match vs.getLast? with
  | some v => v.context
  | none => c

def dataSum (vs : List (Item Int)) : Int := (vs.map (·.data)).sum

def dataSumSq (vs : List (Item Int)) : Int := (vs.map (fun v => v.data ^ 2)).sum

def isum (xs : List Int) : Int := xs.sum

def isumSq (xs : List Int) : Int := (xs.map (· ^ 2)).sum

/-- `Σ (x - c)²`, exact -/
def sqDev (c : Rat) (xs : List Int) : Rat := (xs.map (fun (x : Int) => ((x : Rat) - c) ^ 2)).sum

/-- the values as they are filled into an inner sum element: bare data -/
def bare (vs : List (Item Int)) : List (Item Int) := vs.map (fun v => ⟨v.data, none⟩)

def bareDy (vs : List (Item Dy)) : List (Item Dy) := vs.map (fun v => ⟨v.data, none⟩)

/-- the exact sum of the filled floats -/
def dySum (vs : List (Item Dy)) : Rat := (vs.map (fun v => v.data.toRat)).sum

/-- `groups.get(k, [])` -/
def groupLookup [DecidableEq κ] : List (κ × List ι) → κ → List ι
  | [], _ => []
  | (k', g) :: rest, k => if k' = k then g else groupLookup rest k

/-- the keys in the order of their first occurrence -/
def firstKeys [DecidableEq κ] (ks : List κ) : List κ := ks.foldl (fun acc k => if k ∈ acc then acc else acc ++ [k]) []

/-- the value falls into bin `j` -/
def inBin (es : List Int) (j : Nat) (v : Item Int) : Bool := binIndex es v.data == (j : Int)

/-- the value is outside the `n` bins -/
def outOfRange (es : List Int) (n : Nat) (v : Item Int) : Bool :=
  binIndex es v.data < 0 || (n : Int) ≤ binIndex es v.data

/-- the bins `Histogram(...)` starts from (and `reset()` returns to) -/
def HistCfg.initBins (cfg : HistCfg) : List Int :=
  match cfg.makeBins with
  | some b => b
  | none => match cfg.bins with
    | some b => b
    | none => List.replicate (cfg.edges.length - 1) cfg.initialValue

/-- component `i` of the filled vectors, as the inner accumulator is filled with them (bare values) -/
def column [Inhabited δ] (i : Nat) (vs : List (Item (List δ))) : List (Item δ) :=
  vs.map (fun v => ⟨v.data.getD i default, none⟩)

/-- the results of the started generators: all of them, or the first exception -/
def firstErr {α : Type} : List (Except Err α) → Except Err (List α)
  | [] => .ok []
  | .error e :: _ => .error e
  | .ok y :: rest => match firstErr rest with
    | .error e => .error e
    | .ok ys => .ok (y :: ys)

def Obs.map (g : ο → ο') : Obs ο → Obs ο'
  | .filled e => .filled e
  | .computed (.ok ys) => .computed (.ok (ys.map g))
  | .computed (.error e) => .computed (.error e)
  | .wasReset => .wasReset

/-- the values as C06's element model takes them: guess, coordinate, optional context -/
def toC06 (vs : List (Item (C06.Coord Int))) : List ((Nat → Nat → Nat → Int) × C06.Coord Int × Option Ctx) :=
  vs.map (fun v => (bisect, v.data, v.ctx))

/-- the exact sum of typed numbers -/
def numSum (vs : List (Item Num)) : Int := (vs.map (·.data.val)).sum

/-- is one of the filled numbers a float? -/
def anyFloat (vs : List (Item Num)) : Bool := vs.any (·.data.isFloat)

/-- forget the Python types -/
def eraseNum (vs : List (Item Num)) : List (Item Int) := vs.map (fun v => ⟨v.data.val, v.ctx⟩)

/-- the squares as they are filled into `sum_sq`: bare data -/
def bareSq (vs : List (Item Int)) : List (Item Int) := vs.map (fun v => ⟨v.data ^ 2, none⟩)

end Lena.C09
