import LenaModel.Model.C16
/-! # C16 — specification-side definitions that the driver executes

The right-hand sides of the theorems in `Props/C16.lean` (besides `specBlocks`, `chunks`, `blockOf` of
`Model/C16.lean`) and Boolean versions of the invariants, so that `drivers/C16.lean` can evaluate them on
the generated cases and the harness can compare them with the real code / a Python reference. -/

namespace Lena.C16

variable {σ α β : Type}

/-- fill the element with the values of each block in turn; after each block consume `request`
and reset iff `rst` -/
def emitAll (e : El σ α β) (rst : Bool) : σ → List (List α) → List β × σ
  | s, [] => ([], s)
  | s, b :: bs =>
    let r := e.req (b.foldl e.fill s)
    let q := emitAll e rst (if rst then e.reset r.2 else r.2) bs
    (r.1 ++ q.1, q.2)

/-- the segments of values between consecutive `request()` calls; `cur` is the segment being filled,
closed by the final request -/
def segments : List (Op α) → List α → List (List α)
  | [], cur => [cur]
  | .fill x :: r, cur => segments r (cur ++ [x])
  | .request :: r, cur => cur :: segments r []

/-- the state `request()` leaves (`Normal` of `Lemmas/C16.lean`), as a Boolean -/
def normalB (N : Nat) (s : St σ α β) : Bool := decide (s.nCount < N) && s.bufIn.isEmpty && s.bufOut.isEmpty

/-- the invariant of `fill`/`request` (`FRInv` of `Lemmas/C16.lean`), as a Boolean -/
def frInvB (N : Nat) (bi : Bool) (s : St σ α β) : Bool :=
  decide (s.nCount ≤ N) && (!bi || s.bufOut.isEmpty) && (bi || s.bufIn.isEmpty) &&
    (s.bufIn.isEmpty || decide (s.nCount = N))

/-- every state a history goes through satisfies the invariant, and every state right after a
`request()` is normal (with `yield_on_remainder`: nothing pending) -/
def invOps (e : El σ α β) (N : Nat) (rst bi yor : Bool) : List (Op α) → St σ α β → Bool
  | [], s => frInvB N bi s
  | .fill x :: r, s => frInvB N bi s && invOps e N rst bi yor r (fillR e N rst bi s x)
  | .request :: r, s =>
    let t := (requestR e N rst bi yor s).2
    frInvB N bi s && normalB N t && (!yor || t.nCount == 0) && invOps e N rst bi yor r t

/-- the documented contract of `FillRequest.__init__` (its docstring), as a Boolean: `reset=True` needs a
`reset` method; exactly one buffer mode unless `yield_on_remainder`; `reset` explicit for an element with
`fill`; `run`, or `fill` with `request`/`compute`; `bufsize ≥ 1` -/
def initContract (caps : Caps) (bufsize : Int) (reset : Option Bool) (bi bo yor : Bool) : Bool :=
  (reset != some true || caps.reset) && (yor || (bo == !bi)) && (!caps.fill || reset.isSome) &&
    (caps.run || (caps.fill && (caps.request || caps.compute))) && decide (1 ≤ bufsize)

end Lena.C16
