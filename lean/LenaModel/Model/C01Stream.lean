import LenaModel.Model.Flow
/-! # C01 — flows as lazily evaluated streams that may end in an exception

`Lena.Flow` models a `run` as a function on whole lists.  That is not what a chain of Python
generators does when some element raises: `Sequence(boom, wrap, inc).run([1, 13])` raises the
`TypeError` of `inc` on the first value and never reaches the `ValueError` of `boom` on the
second, and `Sequence(boom, Slice(2)).run([1, 2, 13])` yields `[1, 2]` and raises nothing.
Here a flow is what a draining consumer (`list(seq.run(flow))` inside `try`) can observe of it:

* `Strm.vals` — the values yielded, in order,
* `Strm.term` — how the iteration ended: `none` = `StopIteration`, `some e` = exception `e`
  raised by the `next` call that followed the last of `vals`.

An element's `run` is a `Stage`: `Strm α → Except Exc (Strm α)`.  `Except.error e` is an exception
raised by the call `el.run(flow)` itself, before anything is iterated (what the plain function
`Run._fc_run` does when a `fill` raises); it aborts the loop of `Sequence.run`.  An exception raised
while the returned generator is iterated is the `term` of the result.  The two are different for
the elements that follow: `Slice(0)` never pulls from its input and hides a lazy exception, but
is never reached after an eager one.

The stage functions below transcribe, for an input that ends after `vals` with `term`,
* `Run._call_run`                        (`mapS`),
* `Filter.run`                           (`filterS`),
* `RunIf.run`                            (`runIfS`),
* `Count.run`                            (`countS`),
* `Reverse.run`, `End.run`               (`reverseS`, `endS`),
* `Slice.run` / `_run_negative_islice`   (`sliceS`; values by `Lena.C17`, the end by `negMode`),
* `Split.run` for branches of type "sequence" (`splitS`).
Imports only `LenaModel.Model.Flow`. -/

namespace Lena.C01
open Lena.Flow

/-- a finite flow as seen by a consumer that drains it -/
structure Strm (α : Type) where
  vals : List α
  term : Option Exc
  deriving Repr

/-- a stream transformation: the call `el.run(flow)` (may raise) returning an iterator -/
abbrev Stage (α : Type) := Strm α → Except Exc (Strm α)

section generic
variable {α β : Type}

instance [DecidableEq α] : DecidableEq (Strm α) := fun a b =>
  match a, b with
  | ⟨v, t⟩, ⟨v', t'⟩ =>
    if h : v = v' ∧ t = t' then isTrue (by cases h.1; cases h.2; rfl)
    else isFalse (fun e => by cases e; exact h ⟨rfl, rfl⟩)

/-- an exhausted iterator -/
def Strm.nil : Strm α := ⟨[], none⟩

/-- `iter(xs)` -/
def Strm.ofList (xs : List α) : Strm α := ⟨xs, none⟩

/-- an iterator whose first `next` raises `e` -/
def Strm.fail (e : Exc) : Strm α := ⟨[], some e⟩

/-- `yield x`, then behave as `s` -/
def Strm.cons (x : α) (s : Strm α) : Strm α := ⟨x :: s.vals, s.term⟩

/-- `yield from s; yield from t` inside one generator: an exception of `s` ends everything -/
def Strm.andThen (s t : Strm α) : Strm α :=
  match s.term with
  | some e => ⟨s.vals, some e⟩
  | none => ⟨s.vals ++ t.vals, t.term⟩

/-- what `try: it = el.run(flow); for v in it: out.append(v)` observes: an exception raised by the call
itself is seen as an exception before the first value -/
def observe : Except Exc (Strm α) → Strm α
  | .ok s => s
  | .error e => .fail e

/-- `for val in flow: yield f(val)` over an input that ends with `t` -/
def mapGo (f : α → Except Exc β) (t : Option Exc) : List α → Strm β
  | [] => ⟨[], t⟩
  | x :: xs =>
    match f x with
    | .error e => .fail e
    | .ok y => (mapGo f t xs).cons y

/-- `Run._call_run`: `for val in flow: yield self._el(val)` -/
def mapS (f : α → Except Exc β) (s : Strm α) : Strm β := mapGo f s.term s.vals

/-- `(val for val in flow if p(val))` over an input that ends with `t` -/
def filterGo (p : α → Except Exc Bool) (t : Option Exc) : List α → Strm α
  | [] => ⟨[], t⟩
  | x :: xs =>
    match p x with
    | .error e => .fail e
    | .ok true => (filterGo p t xs).cons x
    | .ok false => filterGo p t xs

/-- `Filter.run` -/
def filterS (p : α → Except Exc Bool) (s : Strm α) : Strm α := filterGo p s.term s.vals

/-- `for val in flow: yield from g(val)` over an input that ends with `t` -/
def bindGo (g : α → Strm β) (t : Option Exc) : List α → Strm β
  | [] => ⟨[], t⟩
  | x :: xs => (g x).andThen (bindGo g t xs)

def bindS (g : α → Strm β) (s : Strm α) : Strm β := bindGo g s.term s.vals

/-- left-to-right composition of stages: `for t in ts: flow = t(flow)`; an exception raised by a call
`t(flow)` leaves the loop -/
def composeS : List (Stage α) → Stage α
  | [], s => .ok s
  | t :: ts, s =>
    match t s with
    | .error e => .error e
    | .ok s' => composeS ts s'

/-- `RunIf.run`: `for val in flow: if select(val): yield from seq.run([val]) else: yield val`.
The call `seq.run([val])` happens inside the generator, so whatever it raises is raised lazily. -/
def runIfS (select : α → Except Exc Bool) (inner : Stage α) : Strm α → Strm α :=
  bindS (fun v =>
    match select v with
    | .error e => .fail e
    | .ok true => observe (inner (.ofList [v]))
    | .ok false => .ofList [v])

/-- `Reverse.run`: `all = list(flow)` (an exception of the input is raised before anything is
yielded), then `all.pop()` until `IndexError` -/
def reverseS (s : Strm α) : Strm α :=
  match s.term with
  | some e => .fail e
  | none => .ofList (Lena.C17.reverseRun s.vals)

/-- `End.run`: `for val in flow: pass` -/
def endS (s : Strm α) : Strm α :=
  match s.term with
  | some e => .fail e
  | none => .nil

/-! ## `Slice.run` -/

/-- how `Slice._run_negative_islice` meets the end of its input -/
inductive NegMode where
  /-- values are yielded while the input is read; the input is read to its end -/
  | lazyTail
  /-- the whole input is read (`deque(flow, maxlen)` / the `for val in flow` loop) before the
  first value is yielded -/
  | drainFirst
  /-- the generator returns without reading the input to its end -/
  | early
  deriving Repr, DecidableEq

/-- `n` is the number of values the input yields before it ends -/
def negMode (start stop : Option Int) (n : Nat) : NegMode :=
  match start with
  | none => .lazyTail                            -- `start is None`: lag loop
  | some a =>
    if a ≥ 0 then .lazyTail                      -- skip `start`, lag loop
    else
      match stop with
      | none => .drainFirst                      -- `d = deque(flow, maxlen=-start)`
      | some b =>
        if b ≤ a then .early                     -- `if stop <= start: return` (nothing is read)
        else if b < 0 then .drainFirst           -- `d = deque(flow, maxlen=-start)`
        else if n > (b - a).toNat then .early    -- `if ind >= stop - start: return`
        else .drainFirst

/-- `Slice(*args).run(flow)`.
* non-negative arguments: `itertools.islice(flow, start, stop, step)` reads `max(start, stop)` values
  and no more; with `stop = None` it reads to the end;
* a negative argument: `_run_negative_islice` (through `islice(·, None, None, step)` for `step ≠ 1`).
`valueError` (rejected at construction) does not occur for a constructed element. -/
def sliceS (k : Lena.C17.SliceKind) (s : Strm α) : Strm α :=
  match k with
  | .valueError => .fail .lenaValueError
  | .islice a b st =>
    ⟨Lena.C17.islice s.vals a b st,
     match b with
     | some b => if max a b ≤ s.vals.length then none else s.term
     | none => s.term⟩
  | .negative a b st =>
    match Lena.C17.runNegative a b s.vals with
    | .indexError => .fail .indexError
    | .ok ys =>
      let out := if st = 1 then ys else Lena.C17.everyNth st ys
      match negMode a b s.vals.length with
      | .early => ⟨out, none⟩
      | .lazyTail => ⟨out, s.term⟩
      | .drainFirst =>
        match s.term with
        | some e => .fail e
        | none => ⟨out, none⟩

/-! ## `Split.run`, every branch of type "sequence" -/

/-- `for seq in seqs: for res in seq.run(buf): yield res` -/
def runBranches (branches : List (Stage α)) (buf : List α) : Strm α :=
  match branches with
  | [] => .nil
  | br :: rest => (observe (br (.ofList buf))).andThen (runBranches rest buf)

/-- the `while True: orig_buf = list(islice(flow, bufsize)) …` loop for `bufsize = b ≥ 1` on an
input with the values `xs` left and end `t`; fuel = number of values left + 1 -/
def splitGo (onBuf : List α → Strm α) (b : Nat) (t : Option Exc) : Nat → List α → Strm α
  | 0, _ => .nil
  | fuel + 1, xs =>
    if xs.length < b then
      -- this read meets the end of the input
      match t with
      | some e => .fail e
      | none => if xs.isEmpty then .nil else onBuf xs     -- the next read returns `[]`: `break`
    else (onBuf (xs.take b)).andThen (splitGo onBuf b t fuel (xs.drop b))

/-- `Split(seqs, bufsize).run(flow)` when every sequence has type "sequence"; `Split([])` is
`_empty_run`.  If the flow was empty every branch runs on `[]`. -/
def splitS (branches : List (Stage α)) (bufsize : Option Nat) (s : Strm α) : Strm α :=
  if branches.isEmpty then s                               -- `for val in flow: yield val`
  else
    match bufsize with
    | none =>
      -- `list(islice(flow, None))` reads everything
      match s.term with
      | some e => .fail e
      | none => runBranches branches s.vals                -- (for an empty flow: `seq.run([])`)
    | some b =>
      if s.vals.isEmpty && s.term.isNone then runBranches branches []   -- `flow_was_empty`
      else splitGo (runBranches branches) b s.term (s.vals.length + 1) s.vals

end generic

/-! ## `Count.run` on values with context -/

/-- `Count(name, count0).run(flow)`: `prev_val = next(flow)`; every value is yielded when its
successor has been read; the last one gets the count into its context when the input ended
normally -/
def countS (name : String) (count0 : Int) (s : Strm Value) : Strm Value :=
  match s.vals with
  | [] => ⟨[], s.term⟩
  | first :: rest =>
    let (ys, last, count) := countLoop first 1 rest
    match s.term with
    | some e => ⟨ys, some e⟩
    | none =>
      let (d, c) := getDataContext last
      ⟨ys ++ [.tup [d, .dict (dictSet c name (.int (count0 + count)))]], none⟩

end Lena.C01
