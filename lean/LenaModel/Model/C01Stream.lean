import LenaModel.Model.Flow
/-! # C01 — flows as lazily evaluated streams that may end in an exception

`Lena.Flow` models a `run` as a function on whole lists.  That is not what a chain of Python
generators does when some element raises: `Sequence(boom, wrap, inc).run([1, 13])` raises the
`TypeError` of `inc` on the first value and never reaches the `ValueError` of `boom` on the
second, and `Sequence(boom, Slice(2)).run([1, 2, 13])` yields `[1, 2]` and raises nothing.
Here a flow is what a draining consumer (`list(seq.run(flow))` inside `try`) can observe of it:

* `Strm.vals` — the values yielded, in order,
* `Strm.term` — how the iteration ended: `none` = `StopIteration`, `some e` = exception `e`
  raised by the `next` call that followed the last of `vals`.

An element's `run` is a `Stage`: `Strm α → Except Exc (Strm α)`.  `Except.error e` is an exception
raised by the call `el.run(flow)` itself, before anything is iterated (what the plain function
`Run._fc_run` does when a `fill` raises); it aborts the loop of `Sequence.run`.  An exception raised
while the returned generator is iterated is the `term` of the result.  The two are different for
the elements that follow: `Slice(0)` never pulls from its input and hides a lazy exception, but
is never reached after an eager one.

The stage functions below transcribe, for an input that ends after `vals` with `term`,
* `Run._call_run`                        (`mapS`),
* `Filter.run`                           (`filterS`),
* `RunIf.run`                            (`runIfS`),
* `Count.run`                            (`countS`),
* `Reverse.run`, `End.run`               (`reverseS`, `endS`),
* `Slice.run` / `_run_negative_islice`   (`sliceS`; values by `Lena.C17`, the end by `negMode`),
* `Split.run` for branches of type "sequence" (`splitS`).
Imports only `LenaModel.Model.Flow`. -/

namespace Lena.C01
open Lena.Flow

/-- a finite flow as seen by a consumer that drains it -/
structure Strm (α : Type) where
  vals : List α
  term : Option Exc
  deriving Repr

/-- a stream transformation: the call `el.run(flow)` (may raise) returning an iterator -/
abbrev Stage (α : Type) := Strm α → Except Exc (Strm α)

section generic
variable {α β : Type}

instance [DecidableEq α] : DecidableEq (Strm α) := fun a b =>
  match a, b with
  | ⟨v, t⟩, ⟨v', t'⟩ =>
    if h : v = v' ∧ t = t' then isTrue (by cases h.1; cases h.2; rfl)
    else isFalse (fun e => by cases e; exact h ⟨rfl, rfl⟩)

/-- an exhausted iterator -/
def Strm.nil : Strm α := ⟨[], none⟩

/-- `iter(xs)` -/
def Strm.ofList (xs : List α) : Strm α := ⟨xs, none⟩

/-- an iterator whose first `next` raises `e` -/
def Strm.fail (e : Exc) : Strm α := ⟨[], some e⟩

/-- `yield x`, then behave as `s` -/
def Strm.cons (x : α) (s : Strm α) : Strm α := ⟨x :: s.vals, s.term⟩

/-- `yield from s; yield from t` inside one generator: an exception of `s` ends everything -/
def Strm.andThen (s t : Strm α) : Strm α :=
  match s.term with
  | some e => ⟨s.vals, some e⟩
  | none => ⟨s.vals ++ t.vals, t.term⟩

/-- what `try: it = el.run(flow); for v in it: out.append(v)` observes: an exception raised by the call
itself is seen as an exception before the first value -/
def observe : Except Exc (Strm α) → Strm α
  | .ok s => s
  | .error e => .fail e

/-- `for val in flow: yield f(val)` over an input that ends with `t` -/
def mapGo (f : α → Except Exc β) (t : Option Exc) : List α → Strm β
  | [] => ⟨[], t⟩
  | x :: xs =>
    match f x with
    | .error e => .fail e
    | .ok y => (mapGo f t xs).cons y

/-- `Run._call_run`: `for val in flow: yield self._el(val)` -/
def mapS (f : α → Except Exc β) (s : Strm α) : Strm β := mapGo f s.term s.vals

/-- `(val for val in flow if p(val))` over an input that ends with `t` -/
def filterGo (p : α → Except Exc Bool) (t : Option Exc) : List α → Strm α
  | [] => ⟨[], t⟩
  | x :: xs =>
    match p x with
    | .error e => .fail e
    | .ok true => (filterGo p t xs).cons x
    | .ok false => filterGo p t xs

/-- `Filter.run` -/
def filterS (p : α → Except Exc Bool) (s : Strm α) : Strm α := filterGo p s.term s.vals

/-- `for val in flow: yield from g(val)` over an input that ends with `t` -/
def bindGo (g : α → Strm β) (t : Option Exc) : List α → Strm β
  | [] => ⟨[], t⟩
  | x :: xs => (g x).andThen (bindGo g t xs)

def bindS (g : α → Strm β) (s : Strm α) : Strm β := bindGo g s.term s.vals

/-- left-to-right composition of stages: `for t in ts: flow = t(flow)`; an exception raised by a call
`t(flow)` leaves the loop -/
def composeS : List (Stage α) → Stage α
  | [], s => .ok s
  | t :: ts, s =>
    match t s with
    | .error e => .error e
    | .ok s' => composeS ts s'

/-- `RunIf.run`: `for val in flow: if select(val): yield from seq.run([val]) else: yield val`.
The call `seq.run([val])` happens inside the generator, so whatever it raises is raised lazily. -/
def runIfS (select : α → Except Exc Bool) (inner : Stage α) : Strm α → Strm α :=
  bindS (fun v =>
    match select v with
    | .error e => .fail e
    | .ok true => observe (inner (.ofList [v]))
    | .ok false => .ofList [v])

/-- `Reverse.run`: `all = list(flow)` (an exception of the input is raised before anything is
yielded), then `all.pop()` until `IndexError` -/
def reverseS (s : Strm α) : Strm α :=
  match s.term with
  | some e => .fail e
  | none => .ofList (Lena.C17.reverseRun s.vals)

/-- `End.run`: `for val in flow: pass` -/
def endS (s : Strm α) : Strm α :=
  match s.term with
  | some e => .fail e
  | none => .nil

/-! ## `Slice.run` -/

/-- how `Slice._run_negative_islice` meets the end of its input -/
inductive NegMode where
  /-- values are yielded while the input is read; the input is read to its end -/
  | lazyTail
  /-- the whole input is read (`deque(flow, maxlen)` / the `for val in flow` loop) before the
  first value is yielded -/
  | drainFirst
  /-- the generator returns without reading the input to its end -/
  | early
  deriving Repr, DecidableEq

/-- `n` is the number of values the input yields before it ends -/
def negMode (start stop : Option Int) (n : Nat) : NegMode :=
  match start with
  | none => .lazyTail                            -- `start is None`: lag loop
  | some a =>
    if a ≥ 0 then .lazyTail                      -- skip `start`, lag loop
    else
      match stop with
      | none => .drainFirst                      -- `d = deque(flow, maxlen=-start)`
      | some b =>
        if b ≤ a then .early                     -- `if stop <= start: return` (nothing is read)
        else if b < 0 then .drainFirst           -- `d = deque(flow, maxlen=-start)`
        else if n > (b - a).toNat then .early    -- `if ind >= stop - start: return`
        else .drainFirst

/-- `Slice(*args).run(flow)`.
* non-negative arguments: `itertools.islice(flow, start, stop, step)` reads `max(start, stop)` values
  and no more; with `stop = None` it reads to the end;
* a negative argument: `_run_negative_islice` (through `islice(·, None, None, step)` for `step ≠ 1`).
`valueError` (rejected at construction) does not occur for a constructed element. -/
def sliceS (k : Lena.C17.SliceKind) (s : Strm α) : Strm α :=
  match k with
  | .valueError => .fail .lenaValueError
  | .islice a b st =>
    ⟨Lena.C17.islice s.vals a b st,
     match b with
     | some b => if max a b ≤ s.vals.length then none else s.term
     | none => s.term⟩
  | .negative a b st =>
    match Lena.C17.runNegative a b s.vals with
    | .indexError => .fail .indexError
    | .ok ys =>
      let out := if st = 1 then ys else Lena.C17.everyNth st ys
      match negMode a b s.vals.length with
      | .early => ⟨out, none⟩
      | .lazyTail => ⟨out, s.term⟩
      | .drainFirst =>
        match s.term with
        | some e => .fail e
        | none => ⟨out, none⟩

/-! ## `Split.run`, every branch of type "sequence" -/

/-- `for seq in seqs: for res in seq.run(buf): yield res` -/
def runBranches (branches : List (Stage α)) (buf : List α) : Strm α :=
  match branches with
  | [] => .nil
  | br :: rest => (observe (br (.ofList buf))).andThen (runBranches rest buf)

/-- the `while True: orig_buf = list(islice(flow, bufsize)) …` loop for `bufsize = b ≥ 1` on an
input with the values `xs` left and end `t`; fuel = number of values left + 1 -/
def splitGo (onBuf : List α → Strm α) (b : Nat) (t : Option Exc) : Nat → List α → Strm α
  | 0, _ => .nil
  | fuel + 1, xs =>
    if xs.length < b then
      -- this read meets the end of the input
      match t with
      | some e => .fail e
      | none => if xs.isEmpty then .nil else onBuf xs     -- the next read returns `[]`: `break`
    else (onBuf (xs.take b)).andThen (splitGo onBuf b t fuel (xs.drop b))

/-- `Split(seqs, bufsize).run(flow)` when every sequence has type "sequence"; `Split([])` is
`_empty_run`.  If the flow was empty every branch runs on `[]`. -/
def splitS (branches : List (Stage α)) (bufsize : Option Nat) (s : Strm α) : Strm α :=
  if branches.isEmpty then s                               -- `for val in flow: yield val`
  else
    match bufsize with
    | none =>
      -- `list(islice(flow, None))` reads everything
      match s.term with
      | some e => .fail e
      | none => runBranches branches s.vals                -- (for an empty flow: `seq.run([])`)
    | some b =>
      if s.vals.isEmpty && s.term.isNone then runBranches branches []   -- `flow_was_empty`
      else splitGo (runBranches branches) b s.term (s.vals.length + 1) s.vals

/-! ## elements that are run again: `RunIf` runs its sequence once per selected value, `Split` runs a
branch of type "sequence" once per buffer.  The element objects keep their state between these
runs.  A run that is repeated is described by the inputs of the earlier (completed) runs of the
same object, `past`: a stateful element's `run` is a function of `past` and of the current input
(`Count.run` adds the lengths, an accumulator behind `adapters.Run` has been filled with all past
values).  After an exception nothing is run again, so `past` only holds runs that completed. -/

/-- the inputs `seq.run([val])` of the selected values among `vals` -/
def selectedOf (select : α → Except Exc Bool) (vals : List α) : List (Strm α) :=
  vals.filterMap (fun v => match select v with | .ok true => some (.ofList [v]) | _ => none)

/-- the loop of `RunIf.run` with the inner sequence's earlier inputs `past` -/
def runIfGo (select : α → Except Exc Bool) (inner : List (Strm α) → Stage α) (t : Option Exc) :
    List (Strm α) → List α → Strm α
  | _, [] => ⟨[], t⟩
  | past, v :: vs =>
    match select v with
    | .error e => .fail e
    | .ok true =>
      (observe (inner past (.ofList [v]))).andThen (runIfGo select inner t (past ++ [.ofList [v]]) vs)
    | .ok false => (Strm.ofList [v]).andThen (runIfGo select inner t past vs)

/-- `RunIf.run(flow)` on an object whose `run` was called before on the flows `pastR` -/
def runIfH (select : α → Except Exc Bool) (inner : List (Strm α) → Stage α) (pastR : List (Strm α))
    (s : Strm α) : Strm α :=
  runIfGo select inner s.term (pastR.flatMap (fun p => selectedOf select p.vals)) s.vals

/-- a sequence of `Split` as `Split.run` uses it -/
inductive Branch (α : Type) where
  /-- type "sequence": `seq.run(buf)` for every buffer; `rerun past` is that run after the runs on `past` -/
  | seqB (rerun : List (Strm α) → Stage α)
  /-- type "fill_compute" (`FillComputeSeq`): `pre v` are the values that `seq.fill(v)` fills into the
  fill/compute element (through the `FillInto` chain before it), `fill h x` is that element's
  `fill(x)` after the values `h`, `compute h` is `seq.compute()` drained (the element's `compute()`
  run through the sequence after it) -/
  | fcB (pre : α → Strm α) (fill : List α → α → Except Exc Unit) (compute : List α → Strm α)

/-- `for val in …: el.fill(val)`; `h` = the values filled so far -/
def fillMany (fill : List α → α → Except Exc Unit) : List α → List α → Except Exc (List α)
  | h, [] => .ok h
  | h, x :: xs =>
    match fill h x with
    | .error e => .error e
    | .ok () => fillMany fill (h ++ [x]) xs

/-- one pass of the `while ind < n_of_active_seqs` loop of `Split.run` over the buffer `buf`.
`hists`: per branch the values filled into its fill/compute element so far (unused for sequence
branches); `past`: the earlier buffers.  Returns what is yielded and the new `hists`; after an
exception the rest does not matter. -/
def bufPass (past : List (Strm α)) (buf : List α) : List (Branch α) → List (List α) → Strm α × List (List α)
  | [], _ => (.nil, [])
  | b :: bs, hs =>
    let h := hs.headD []
    match b with
    | .seqB rerun =>
      let o := observe (rerun past (.ofList buf))
      match o.term with
      | some _ => (o, hs)
      | none =>
        let (o', hs') := bufPass past buf bs hs.tail
        (o.andThen o', h :: hs')
    | .fcB pre fill _ =>
      let reach := bindS pre (.ofList buf)
      match fillMany fill h reach.vals with
      | .error e => (.fail e, hs)
      | .ok h' =>
        match reach.term with
        | some e => (.fail e, hs)
        | none =>
          let (o', hs') := bufPass past buf bs hs.tail
          (o', h' :: hs')

/-- the `while True` loop for `bufsize = b ≥ 1`; fuel = number of values left + 1 -/
def splitLoopH (brs : List (Branch α)) (b : Nat) (t : Option Exc) :
    Nat → List (Strm α) → List (List α) → List α → Strm α × List (List α)
  | 0, _, hs, _ => (.nil, hs)
  | fuel + 1, past, hs, xs =>
    if xs.length < b then
      match t with
      | some e => (.fail e, hs)
      | none => if xs.isEmpty then (.nil, hs) else bufPass past xs brs hs
    else
      let (o, hs') := bufPass past (xs.take b) brs hs
      match o.term with
      | some _ => (o, hs')
      | none =>
        let (o', hs'') := splitLoopH brs b t fuel (past ++ [.ofList (xs.take b)]) hs' (xs.drop b)
        (o.andThen o', hs'')

/-- the loop after the flow is exhausted: `compute()` of the fill/compute sequences, `run([])` of the
sequences if the flow was empty -/
def finalPass (flowWasEmpty : Bool) (past : List (Strm α)) : List (Branch α) → List (List α) → Strm α
  | [], _ => .nil
  | b :: bs, hs =>
    match b with
    | .seqB rerun =>
      if flowWasEmpty then
        (observe (rerun past (.ofList []))).andThen (finalPass flowWasEmpty past bs hs.tail)
      else finalPass flowWasEmpty past bs hs.tail
    | .fcB _ _ compute => (compute (hs.headD [])).andThen (finalPass flowWasEmpty past bs hs.tail)

/-- `Split(seqs, bufsize).run(flow)` for sequences of type "sequence" and "fill_compute", on an
object whose branches were run before on the buffers `past0` and whose fill/compute elements hold
`hists0`.  `Split([])` is `_empty_run`. -/
def splitH (brs : List (Branch α)) (bufsize : Option Nat) (past0 : List (Strm α)) (hists0 : List (List α))
    (s : Strm α) : Strm α :=
  if brs.isEmpty then s
  else
    match bufsize with
    | none =>
      match s.term with
      | some e => .fail e
      | none =>
        if s.vals.isEmpty then finalPass true past0 brs hists0
        else
          let (o, hs) := bufPass past0 s.vals brs hists0
          match o.term with
          | some _ => o
          | none => o.andThen (finalPass false past0 brs hs)
    | some b =>
      let (o, hs) := splitLoopH brs b s.term (s.vals.length + 1) past0 hists0 s.vals
      match o.term with
      | some _ => o
      | none => o.andThen (finalPass s.vals.isEmpty past0 brs hs)

/-- the buffers an earlier `Split.run(flow)` gave to its sequence branches (`[]` once for an empty flow) -/
def bufsOf (bufsize : Option Nat) (vals : List α) : List (Strm α) :=
  if vals.isEmpty then [.ofList []]
  else (chunks bufsize vals).map Strm.ofList

/-- the values in the fill/compute elements of the branches after the values `vals` went through `Split` -/
def histsOf (brs : List (Branch α)) (vals : List α) : List (List α) :=
  brs.map fun
    | .seqB _ => []
    | .fcB pre _ _ => (bindS pre (.ofList vals)).vals

/-- `Split.run(flow)` on an object that was run before on the flows `pastS` -/
def splitRerun (brs : List (Branch α)) (bufsize : Option Nat) (pastS : List (Strm α)) (s : Strm α) : Strm α :=
  splitH brs bufsize (pastS.flatMap (fun p => bufsOf bufsize p.vals))
    (histsOf brs (pastS.flatMap (·.vals))) s

/-- `Split._fill(val)` when every sequence has type "fill_compute" (`h` = values filled so far) -/
def splitFill : List (Branch α) → List α → α → Except Exc Unit
  | [], _, _ => .ok ()
  | .seqB _ :: bs, h, v => splitFill bs h v
  | .fcB pre fill _ :: bs, h, v =>
    let reach := pre v
    match fillMany fill (bindS pre (.ofList h)).vals reach.vals with
    | .error e => .error e
    | .ok _ =>
      match reach.term with
      | some e => .error e
      | none => splitFill bs h v

/-- `Split._compute()` drained -/
def splitCompute : List (Branch α) → List α → Strm α
  | [], _ => .nil
  | .seqB _ :: bs, h => splitCompute bs h
  | .fcB pre _ compute :: bs, h => (compute (bindS pre (.ofList h)).vals).andThen (splitCompute bs h)

/-- the branches of a `Split` all of whose sequences are stateless `Sequence`s -/
def seqBranches (brs : List (Stage α)) : List (Branch α) := brs.map (fun b => .seqB (fun _ => b))


def Branch.isFc : Branch α → Bool
  | .fcB .. => true
  | .seqB _ => false

end generic

/-! ## `Count.run` on values with context -/

/-- `Count(name, count0).run(flow)`: `prev_val = next(flow)`; every value is yielded when its
successor has been read; the last one gets the count into its context when the input ended
normally -/
def countS (name : String) (count0 : Int) (s : Strm Value) : Strm Value :=
  match s.vals with
  | [] => ⟨[], s.term⟩
  | first :: rest =>
    let (ys, last, count) := countLoop first 1 rest
    match s.term with
    | some e => ⟨ys, some e⟩
    | none =>
      let (d, c) := getDataContext last
      ⟨ys ++ [.tup [d, .dict (dictSet c name (.int (count0 + count)))]], none⟩

/-! ## accumulators whose total can be a float

`Mean.compute` yields `float(sum)/float(count)` (`Value.quot`).  When such a value is filled into a
`Sum` or `Mean` that holds nothing yet, `0 + f` and `f / 1.0` are exact and the model keeps the
pair; any other arithmetic with a float gives *some* float, `quot 0 0`, whose value the model does
not compute (the check accepts any float there). -/

/-- state of `Sum`/`Mean`/`StoreFilled`/`Count` as accumulators; `fl` is the float in `_total`/`_sum`
when it is one -/
structure QState where
  base : AccState := {}
  fl : Option (Int × Int) := none
  deriving Repr

/-- some float -/
def floatUnknown : Int × Int := (0, 0)

/-- `self._total += data` -/
def addNum (s : QState) (d : Value) : Option QState :=
  match d with
  | .int i =>
    match s.fl with
    | none => some { s with base := { s.base with total := s.base.total + i } }
    | some q => some { s with fl := some (if i = 0 then q else floatUnknown) }
  | .quot n d =>
    match s.fl with
    | none => some { s with fl := some (if s.base.total = 0 then (n, d) else floatUnknown) }
    | some _ => some { s with fl := some floatUnknown }
  | _ => none

def accFillQ (k : AccKind) (s : QState) (v : Value) : Except Exc QState :=
  match k with
  | .sum =>
    let (d, c) := getDataContext v
    match addNum s d with
    | none => .error .typeError
    | some s' => .ok { s' with base := { s'.base with ctx := c } }
  | .mean =>
    let (d, c) := getDataContext v
    match addNum s d with
    | none => .error .typeError
    | some s' => .ok { s' with base := { s'.base with ctx := c, count := s'.base.count + 1 } }
  | .store _ => .ok { s with base := { s.base with group := s.base.group ++ [v] } }
  | .count _ => .ok { s with base := { s.base with count := s.base.count + 1, ctx := getContext v } }

def accComputeQ (k : AccKind) (s : QState) : Except Exc (List Value) :=
  match k with
  | .sum =>
    let total : Value := match s.fl with
      | none => .int s.base.total
      | some (n, d) => .quot n d
    .ok [maybeWithContext total s.base.ctx]
  | .mean =>
    if s.base.count = 0 then .error .lenaZeroDivisionError
    else
      let mean : Value := match s.fl with
        | none => .quot s.base.total s.base.count
        | some (n, d) => if s.base.count = 1 then .quot n d else .quot 0 0
      .ok [maybeWithContext mean s.base.ctx]
  | k => accCompute k s.base

def accOfQ (k : AccKind) : Acc QState Value :=
  { init := {}, fill := accFillQ k, compute := accComputeQ k }

/-- an element object as a value in a flow (what iterating a `Sequence` yields): only its class name
is observed -/
def objValue (cls : String) : Value := .str ("<obj:" ++ cls ++ ">")

end Lena.C01
