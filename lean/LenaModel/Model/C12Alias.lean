import LenaModel.Model.C12
/-! # C12 model, third part — list OBJECTS: what the value model of `Model/C12.lean` abstracts away

`Model/C12.lean` models `graph.coords` as a list of columns and `histogram.bins` as a nested array of *values*.
The Python objects are lists of references: two columns of a graph can be ONE list object (`graph([xs, xs])`,
symmetric errors given once for `error_y_low` and `error_y_high`), two rows of the bins can be ONE list object
(`bins=[row] * n`).  Whether the value model is adequate for such objects depends on one fact about the code: the
rescaling operations never write into an existing list, they allocate new lists and re-bind.  This file
transcribes that fact (code as it is now in /repo):

* `graph.scale(other)`, the loop `for ind, arr in enumerate(self.coords)` (graph.py:258-266):
  `mappedl = list(map(partial(mul, rescale), arr)); self.coords[ind] = mappedl` — a NEW list per rescaled
  column, `coords[ind]` is re-bound; no existing list object is written (`rescaleRefs`);
* `lena.math.md_map(f, array)` with one array (meshes.py:34-101) as used by `histogram.scale`
  (histogram.py:368-369: `self.bins = md_map(lambda binc: binc*float(other)/scale, self.bins)`) and
  `histogram.set_nevents` (histogram.py:324-326): list comprehensions at every level — a NEW list for every
  list visited, as often as it is visited (`mdMapH`).

For contrast (not code of /repo): `rescaleInPlace`, the variant `arr[:] = map(...)` that writes into the existing
column object; `Props/C12Alias.lean` shows where it differs.

A heap is a list of list objects, an address is a position in it; allocation appends.

No imports except `LenaModel.Model.*`: this file is executed by `drivers/C12.lean`. -/

namespace Lena.C12

open Lena Lena.NArr

/-! ## columns of a graph as objects -/

/-- the list objects that hold numbers (columns of graphs) -/
abbrev ColHeap := List (List Q)

/-- the values of the columns `coords[0], coords[1], …` read through their references; `none` for a dangling
reference -/
def readCols (hp : ColHeap) : List Nat → Option (List (List Q))
  | [] => some []
  | r :: rs =>
    match hp[r]?, readCols hp rs with
    | some c, some cs => some (c :: cs)
    | _, _ => none

/-- the loop of `graph.scale` (graph.py:258-266) on objects: for a column that belongs to the last coordinate a
new list object is allocated (`list(map(…))`) and `self.coords[ind]` is re-bound to it; the other entries of
`coords` keep their references.  Returns the new heap and the new `coords`. -/
def rescaleRefs (rescale : Q) (inds : List Nat) : ColHeap → List Nat → Nat → Option (ColHeap × List Nat)
  | hp, [], _ => some (hp, [])
  | hp, r :: rest, ind =>
    if inds.contains ind then
      match hp[r]? with
      | none => none
      | some arr =>
        match rescaleRefs rescale inds (hp ++ [arr.map (fun v => rescale * v)]) rest (ind + 1) with
        | none => none
        | some (hp', rest') => some (hp', hp.length :: rest')
    else
      match rescaleRefs rescale inds hp rest (ind + 1) with
      | none => none
      | some (hp', rest') => some (hp', r :: rest')

/-- NOT the code of /repo: the loop with `arr[:] = map(partial(mul, rescale), arr)` — the existing column object
is overwritten, `coords` keeps its references -/
def rescaleInPlace (rescale : Q) (inds : List Nat) : ColHeap → List Nat → Nat → Option ColHeap
  | hp, [], _ => some hp
  | hp, r :: rest, ind =>
    if inds.contains ind then
      match hp[r]? with
      | none => none
      | some arr => rescaleInPlace rescale inds (hp.set r (arr.map (fun v => rescale * v))) rest (ind + 1)
    else rescaleInPlace rescale inds hp rest (ind + 1)

/-- `graph.scale(other)` on a graph whose columns are the objects `cols` of the heap `hp`: the checks and the
index list of `graphSetScale` (which read no column), then the loop on objects.  `g` is the graph as the value
model sees it (`g.coords` = the columns read through `cols`). -/
def graphSetScaleRefs (g : Graph) (hp : ColHeap) (cols : List Nat) (other : Q) :
    Except Err (ColHeap × List Nat × Option Q) :=
  match g.scale with
  | none => .error .lenaValueError
  | some sc =>
    if sc = 0 then .error .lenaValueError
    else if g.dim = 0 then .error .unmodelled
    else
      let lastCoordInd := g.dim - 1
      match g.fieldNames[lastCoordInd]? with
      | none => .error .indexError
      | some lastCoordName =>
        let inds := lastCoordInd :: errIndices g.dim lastCoordName g.parsed 0
        match rescaleRefs (other / sc) inds hp cols 0 with
        | none => .error .unmodelled
        | some (hp', cols') => .ok (hp', cols', some other)

/-! ## nested bins of a histogram as objects -/

/-- an entry of a list object: a number, or a reference to another list object -/
inductive Cell where
  | num (v : Q)
  | ref (r : Nat)
  deriving Repr

/-- the list objects that make up nested bins -/
abbrev BinHeap := List (List Cell)

/-- the entries of a list that are references, `none` if one is a number -/
def cellRefs : List Cell → Option (List Nat)
  | [] => some []
  | .ref r :: cs => (cellRefs cs).map (r :: ·)
  | .num _ :: _ => none

/-- `[f(val) for val in array]`; `f` of a list is outside the model -/
def cellNums (f : Q → Q) : List Cell → Option (List Cell)
  | [] => some []
  | .num v :: cs => (cellNums f cs).map (.num (f v) :: ·)
  | .ref _ :: _ => none

/-- the values of the entries of one list object, `rd` reading the sub-lists -/
def readCells (rd : Nat → Option (NArr Q)) : List Cell → Option (List (NArr Q))
  | [] => some []
  | .num v :: cs => (readCells rd cs).map (.leaf v :: ·)
  | .ref r :: cs =>
    match rd r, readCells rd cs with
    | some a, some as => some (a :: as)
    | _, _ => none

/-- the nested array of values that the object at address `r` stands for (`fuel` bounds the depth: the objects
reachable from bins are finitely deep) -/
def readBins : Nat → BinHeap → Nat → Option (NArr Q)
  | 0, _, _ => none
  | fuel + 1, hp, r =>
    match hp[r]? with
    | none => none
    | some cells => (readCells (readBins fuel hp) cells).map NArr.node

/-- `[md_map(f, sub) for sub in array]` on objects: the recursive call `rec` (= `mdMapH f fuel`) on every
sub-list in turn, the heap threaded through; an entry that is a number has no `len` (outside the model) -/
def mdMapSubs (rec : BinHeap → Nat → Option (BinHeap × Nat)) : BinHeap → List Cell → Option (BinHeap × List Nat)
  | hp, [] => some (hp, [])
  | hp, .ref r :: cs =>
    match rec hp r with
    | none => none
    | some (hp1, r1) =>
      match mdMapSubs rec hp1 cs with
      | none => none
      | some (hp2, rs) => some (hp2, r1 :: rs)
  | _, .num _ :: _ => none

/-- `md_map(f, array)` (meshes.py:34-101, one array) on objects: returns the heap after the call and the address
of the NEW list it returns.
* empty list → a new `[]`;
* first element a list → `[md_map(f, sub) for sub in array]`: a new list of the new sub-lists;
* otherwise → `[f(val) for val in array]`: a new list of numbers.
No existing object is written; a sub-list that occurs twice is mapped twice, into two new lists. -/
def mdMapH (f : Q → Q) : Nat → BinHeap → Nat → Option (BinHeap × Nat)
  | 0, _, _ => none
  | fuel + 1, hp, r =>
    match hp[r]? with
    | none => none
    | some cells =>
      match cells with
      | [] => some (hp ++ [[]], hp.length)
      | .ref _ :: _ =>
        match mdMapSubs (mdMapH f fuel) hp cells with
        | none => none
        | some (hp1, rs) => some (hp1 ++ [rs.map Cell.ref], hp1.length)
      | .num _ :: _ =>
        match cellNums f cells with
        | none => none
        | some vs => some (hp ++ [vs], hp.length)

/-- the in-place variant on every sub-list in turn -/
def inPlaceSubs (rec : BinHeap → Nat → Option BinHeap) : BinHeap → List Cell → Option BinHeap
  | hp, [] => some hp
  | hp, .ref r :: cs =>
    match rec hp r with
    | none => none
    | some hp1 => inPlaceSubs rec hp1 cs
  | _, .num _ :: _ => none

/-- NOT the code of /repo: `f` applied to every cell in place (`bins[ind] = f(val)` at the innermost level), the
objects stay where they are.  A row that is reachable twice is multiplied twice. -/
def mdMapInPlace (f : Q → Q) : Nat → BinHeap → Nat → Option BinHeap
  | 0, _, _ => none
  | fuel + 1, hp, r =>
    match hp[r]? with
    | none => none
    | some cells =>
      match cells with
      | [] => some hp
      | .ref _ :: _ => inPlaceSubs (mdMapInPlace f fuel) hp cells
      | .num _ :: _ => (cellNums f cells).map (fun vs => hp.set r vs)

end Lena.C12
