import LenaModel.Model.C03
import LenaModel.Model.C03Exc
/-! # C03 model, part 2 — `Split.run` with everything it leaves behind

`Model/C03.lean` transcribes `Split.run` for branches whose methods return normally and reports
the event trace.  This file transcribes the same code (lena/core/split.py:313-417) once more
with two more observables:

* **exceptions**: a method of a branch may raise an exception other than `LenaStopFill` — from
  `fill`, or from inside the generators `seq()`, `compute()`, `request()`, `run(buf)` after some
  values were yielded.  `Split.run` catches nothing but `LenaStopFill` around `fill`, so the
  exception leaves the generator `Split.run` at once: what was yielded so far stays yielded,
  nothing else happens.  A `bufsize` that passed `Split.__init__` but is not an `int`
  (`2.0`) makes `itertools.islice` raise `ValueError` when the first buffer is read.
* **the objects afterwards**: `active_seqs = self._seqs[:]` copies the *list*; the branch objects
  are shared, so after the run `self._seqs` holds every branch — also the dropped ones — in the
  state its last call left it in.  This is what a second `run` of the same `Split`, and a `Split`
  nested as a plain-Sequence branch of another `Split` (its `run` is called once per block), see.

The loops are written once, generically in the body of the loop over active sequences
(`blockLoopG`), and instantiated for branches that cannot raise (`stepFull`, `Split.runFull`)
and for branches that can (`stepX`, `SplitX.run`).  `Props/C03.lean` proves that both agree with
`Split.runTrace` where they overlap.

Imports only `Model/C03.lean`; executed by `drivers/C03.lean`. -/

namespace Lena.C03

variable {σ α ε : Type}

/-- how the body of the loop over active sequences ends for one branch: `ind += 1`; `del
active_seqs[ind]; continue`; or an exception leaves `Split.run` -/
inductive Res (ε : Type) where
  | stay
  | drop
  | abort (e : ε)
  deriving Repr

/-- result of a pass over the active sequences: events, the active list afterwards (objects
in their new states; after an abort: the raising object and the ones not reached), the objects
deleted from the active list (in the order of deletion), and the exception if any -/
structure PassG (B E ε : Type) where
  events : List E
  act : List B
  dropped : List B
  exc : Option ε

/-- `while ind < n_of_active_seqs:` (split.py:332-396) for an arbitrary loop body
`stepOf buf b = (events, the object afterwards, how the body ended)` -/
def blockLoopG {B E : Type} (copyBuf : Bool) (orig : List α) (stepOf : List α → B → List E × B × Res ε) :
    Nat → Nat → List B → List B → List E → PassG B E ε
  | 0, _, act, dropped, acc => ⟨acc, act, dropped, none⟩
  | fuel + 1, ind, act, dropped, acc =>
    if h : ind < act.length then
      let buf := if copyBuf && decide (act.length - ind > 1) then deepcopy orig else orig
      match stepOf buf act[ind] with
      | (ev, b', .stay) => blockLoopG copyBuf orig stepOf fuel (ind + 1) (act.set ind b') dropped (acc ++ ev)
      | (ev, b', .drop) => blockLoopG copyBuf orig stepOf fuel ind (act.eraseIdx ind) (dropped ++ [b']) (acc ++ ev)
      | (ev, b', .abort e) => ⟨acc ++ ev, act.set ind b', dropped, some e⟩
    else ⟨acc, act, dropped, none⟩

/-- result of the `while True` loop: as `PassG`, plus `flow_was_empty` -/
structure LoopG (B E ε : Type) where
  events : List E
  act : List B
  dropped : List B
  exc : Option ε
  fwe : Bool

/-- `while True:` (split.py:320-397) over the generic pass -/
def outerLoopG {B E : Type} (copyBuf : Bool) (bufsize : Option Nat)
    (stepOf : List α → B → List E × B × Res ε) :
    Nat → List α → List B → List B → List E → Bool → LoopG B E ε
  | 0, _, act, dropped, acc, fwe => ⟨acc, act, dropped, none, fwe⟩
  | fuel + 1, flow, act, dropped, acc, fwe =>
    let rb := readBlock bufsize flow
    if rb.1.isEmpty then ⟨acc, act, dropped, none, fwe⟩
    else
      let r := blockLoopG copyBuf rb.1 stepOf (act.length + 1) 0 act dropped acc
      match r.exc with
      | some e => ⟨r.events, r.act, r.dropped, some e, false⟩
      | none => outerLoopG copyBuf bufsize stepOf fuel rb.2 r.act r.dropped r.events false

/-- the final pass (split.py:400-417) for an arbitrary body `finalOf fwe b = (events, the object
afterwards, exception)`: it stops at the first exception; the objects not reached are unchanged -/
def finalPassG {B E : Type} (finalOf : B → List E × B × Option ε) : List B → List E × List B × Option ε
  | [] => ([], [], none)
  | b :: rest =>
    match finalOf b with
    | (ev, b', some e) => (ev, b' :: rest, some e)
    | (ev, b', none) =>
      let r := finalPassG finalOf rest
      (ev ++ r.1, b' :: r.2.1, r.2.2)

/-! ## branches that return normally: the objects after the run -/

/-- the body of the loop over active sequences as `stepBranch`, but returning the object in the
state the calls left it in also when it is deleted from the active list -/
def stepFull (buf : List α) (b : Branch σ α) : List (Ev α) × Branch σ α × Res Empty :=
  match b.kind with
  | .source =>
    let r := b.ops.call b.st
    (.call b.id :: outs b.id r.1, { b with st := r.2 }, .drop)
  | .fillCompute =>
    let f := fillBuf b.id b.ops b.st buf
    if f.2.2 then
      let r := b.ops.compute f.2.1
      (f.1 ++ .compute b.id :: outs b.id r.1, { b with st := r.2 }, .drop)
    else (f.1, { b with st := f.2.1 }, .stay)
  | .fillRequest =>
    let f := fillBuf b.id b.ops b.st buf
    let r := b.ops.request f.2.1
    (f.1 ++ .request b.id :: outs b.id r.1, { b with st := r.2 }, if f.2.2 then .drop else .stay)
  | .sequence =>
    let r := b.ops.run b.st buf
    (.run b.id buf :: outs b.id r.1, { b with st := r.2 }, .stay)

/-- one branch in the final pass: events, the object afterwards.  (A Source that is still active
after a non-empty flow would fail `assert flow_was_empty`; `no_assert_fail` shows that this does
not happen, and `Split.runFull` is only used together with `Split.runTrace`.) -/
def finalFull (fwe : Bool) (b : Branch σ α) : List (Ev α) × Branch σ α × Option Empty :=
  match b.kind with
  | .source =>
    let r := b.ops.call b.st
    (.call b.id :: outs b.id r.1, { b with st := r.2 }, none)
  | .fillCompute =>
    let r := b.ops.compute b.st
    (.compute b.id :: outs b.id r.1, { b with st := r.2 }, none)
  | .fillRequest =>
    if fwe then
      let r := b.ops.request b.st
      (.request b.id :: outs b.id r.1, { b with st := r.2 }, none)
    else ([], b, none)
  | .sequence =>
    if fwe then
      let r := b.ops.run b.st []
      (.run b.id [] :: outs b.id r.1, { b with st := r.2 }, none)
    else ([], b, none)

/-- the object with id `i` among `objs` (the first one; ids are distinct) -/
def findObj (i : Nat) : List (Branch σ α) → Option (Branch σ α)
  | [] => none
  | b :: rest => if b.id = i then some b else findObj i rest

/-- `self._seqs` after the run: every original branch, in the original order, in the state in
which it is found among the objects the run touched -/
def seqsAfter (orig touched : List (Branch σ α)) : List (Branch σ α) :=
  orig.map (fun b => (findObj b.id touched).getD b)

/-- `Split.run(flow)` consumed to the end: the event trace and `self._seqs` afterwards -/
def Split.runFull (s : Split σ α) (flow : List α) : List (Ev α) × List (Branch σ α) :=
  let r := outerLoopG (ε := Empty) s.copyBuf s.bufsize stepFull (flow.length + 1) flow s.branches [] [] true
  let f := finalPassG (finalFull r.fwe) r.act
  (r.events ++ f.1, seqsAfter s.branches (f.2.1 ++ r.dropped))

/-- a `Split` object used through `run`: what it yields and the object afterwards.  With no
branches `run` is `_empty_run`. -/
def Split.runObj (s : Split σ α) (flow : List α) : List α × Split σ α :=
  if s.branches.isEmpty then (emptyRun flow, s)
  else
    let r := s.runFull flow
    (outputs r.1, { s with branches := r.2 })

/-- A `Split` without a common fill type, given as a branch to an enclosing `Split`, has `run`
and no `fill`: `_get_seq_with_type` wraps it into `Sequence(split)` and the enclosing `Split`
calls its `run(buf)` once per block, on the same object.  Its methods as `Ops` over the `Split`
object: `run = Split.run`, and (if it is used that way) the common-type methods of `splitOps`. -/
def splitRunOps : Ops (Split σ α) α :=
  { call := fun s => ((splitCallLoop s.branches).1, { s with branches := (splitCallLoop s.branches).2 })
    fill := fun s x => ({ s with branches := (splitFill x s.branches).1 }, (splitFill x s.branches).2)
    compute := fun s => ((splitCompute s.branches).1, { s with branches := (splitCompute s.branches).2 })
    request := fun s => ((splitRequest s.branches).1, { s with branches := (splitRequest s.branches).2 })
    run := fun s buf => s.runObj buf }

/-! ## branches that may raise -/

/-- how `fill` ends -/
inductive FillRes (ε : Type) where
  | ok
  /-- `LenaStopFill` -/
  | stop
  /-- any other exception -/
  | raised (e : ε)
  deriving Repr

/-- the methods of a branch that may raise: a generator yields some values and then either
finishes (`none`) or raises (`some e`) -/
structure OpsX (σ α ε : Type) where
  call : σ → List α × σ × Option ε
  fill : σ → α → σ × FillRes ε
  compute : σ → List α × σ × Option ε
  request : σ → List α × σ × Option ε
  run : σ → List α → List α × σ × Option ε

structure BranchX (σ α ε : Type) where
  id : Nat
  kind : Kind
  ops : OpsX σ α ε
  st : σ

/-- why `Split.run` ended -/
inductive Term (ε : Type) where
  /-- the generator was exhausted -/
  | done
  /-- an exception of branch `i` -/
  | raised (i : Nat) (e : ε)
  /-- `assert flow_was_empty` -/
  | assertFail
  /-- `ValueError` of `itertools.islice(flow, bufsize)` for a `bufsize` that is not an `int` -/
  | isliceError
  deriving Repr, DecidableEq

/-- the fill loop (split.py:350-356) when `fill` may raise something else than `LenaStopFill`:
that exception is not caught -/
def fillBufX (i : Nat) (ops : OpsX σ α ε) : σ → List α → List (Ev α) × σ × FillRes ε
  | s, [] => ([], s, .ok)
  | s, x :: xs =>
    match ops.fill s x with
    | (s', .stop) => ([.fill i x true], s', .stop)
    | (s', .raised e) => ([.fill i x false], s', .raised e)
    | (s', .ok) =>
      let r := fillBufX i ops s' xs
      (.fill i x false :: r.1, r.2)

/-- a generator consumed by `for val in gen: yield val`: its values, then `stay`/`drop` as
given, or the exception -/
def genRes (e : Option ε) (i : Nat) (normal : Res (Nat × ε)) : Res (Nat × ε) :=
  match e with
  | none => normal
  | some e => .abort (i, e)

/-- the body of the loop over active sequences (split.py:339-395) for a branch that may raise -/
def stepX (buf : List α) (b : BranchX σ α ε) : List (Ev α) × BranchX σ α ε × Res (Nat × ε) :=
  match b.kind with
  | .source =>
    let r := b.ops.call b.st
    (.call b.id :: outs b.id r.1, { b with st := r.2.1 }, genRes r.2.2 b.id .drop)
  | .fillCompute =>
    let f := fillBufX b.id b.ops b.st buf
    match f.2.2 with
    | .raised e => (f.1, { b with st := f.2.1 }, .abort (b.id, e))
    | .stop =>
      let r := b.ops.compute f.2.1
      (f.1 ++ .compute b.id :: outs b.id r.1, { b with st := r.2.1 }, genRes r.2.2 b.id .drop)
    | .ok => (f.1, { b with st := f.2.1 }, .stay)
  | .fillRequest =>
    let f := fillBufX b.id b.ops b.st buf
    match f.2.2 with
    | .raised e => (f.1, { b with st := f.2.1 }, .abort (b.id, e))
    | .stop =>
      let r := b.ops.request f.2.1
      (f.1 ++ .request b.id :: outs b.id r.1, { b with st := r.2.1 }, genRes r.2.2 b.id .drop)
    | .ok =>
      let r := b.ops.request f.2.1
      (f.1 ++ .request b.id :: outs b.id r.1, { b with st := r.2.1 }, genRes r.2.2 b.id .stay)
  | .sequence =>
    let r := b.ops.run b.st buf
    (.run b.id buf :: outs b.id r.1, { b with st := r.2.1 }, genRes r.2.2 b.id .stay)

/-- what ends the final pass: an exception of a branch, or the failed `assert` -/
inductive FinalExc (ε : Type) where
  | raised (i : Nat) (e : ε)
  | assertFail

def finalX (fwe : Bool) (b : BranchX σ α ε) : List (Ev α) × BranchX σ α ε × Option (FinalExc ε) :=
  match b.kind with
  | .source =>
    if fwe then
      let r := b.ops.call b.st
      (.call b.id :: outs b.id r.1, { b with st := r.2.1 }, r.2.2.map (FinalExc.raised b.id))
    else ([.assertFail], b, some .assertFail)
  | .fillCompute =>
    let r := b.ops.compute b.st
    (.compute b.id :: outs b.id r.1, { b with st := r.2.1 }, r.2.2.map (FinalExc.raised b.id))
  | .fillRequest =>
    if fwe then
      let r := b.ops.request b.st
      (.request b.id :: outs b.id r.1, { b with st := r.2.1 }, r.2.2.map (FinalExc.raised b.id))
    else ([], b, none)
  | .sequence =>
    if fwe then
      let r := b.ops.run b.st []
      (.run b.id [] :: outs b.id r.1, { b with st := r.2.1 }, r.2.2.map (FinalExc.raised b.id))
    else ([], b, none)

/-- a constructed `Split` whose branches may raise; `badBufsize`: `bufsize` passed the check of
`__init__` (`bufsize == int(bufsize)`, `bufsize >= 1`) without being an `int` -/
structure SplitX (σ α ε : Type) where
  branches : List (BranchX σ α ε)
  bufsize : Option Nat
  copyBuf : Bool
  badBufsize : Bool := false

def findObjX (i : Nat) : List (BranchX σ α ε) → Option (BranchX σ α ε)
  | [] => none
  | b :: rest => if b.id = i then some b else findObjX i rest

/-- result of `Split.run`: the events up to the end or the exception, why it ended, and
`self._seqs` afterwards -/
structure RunX (σ α ε : Type) where
  trace : List (Ev α)
  term : Term ε
  seqs : List (BranchX σ α ε)

/-- `Split.run(flow)` for branches that may raise -/
def SplitX.run (s : SplitX σ α ε) (flow : List α) : RunX σ α ε :=
  -- orig_buf = list(itertools.islice(flow, self._bufsize)) raises before anything else happens
  if s.badBufsize then ⟨[], .isliceError, s.branches⟩ else
  let r := outerLoopG s.copyBuf s.bufsize stepX (flow.length + 1) flow s.branches [] [] true
  let after := fun (touched : List (BranchX σ α ε)) =>
    s.branches.map (fun b => (findObjX b.id touched).getD b)
  match r.exc with
  | some (i, e) => ⟨r.events, .raised i e, after (r.act ++ r.dropped)⟩
  | none =>
    let f := finalPassG (finalX r.fwe) r.act
    ⟨r.events ++ f.1,
      (match f.2.2 with
        | none => .done
        | some (.raised i e) => .raised i e
        | some .assertFail => .assertFail),
      after (f.2.1 ++ r.dropped)⟩

/-- `split.run(flow)` as a call of the attribute `run`: with no branches `__init__` rebound it to
`_empty_run`, which reads the flow directly (no `islice`, no branch): it cannot raise -/
def SplitX.runMethod (s : SplitX σ α ε) (flow : List α) : RunX σ α ε :=
  if s.branches.isEmpty then ⟨[], .done, s.branches⟩ else s.run flow

/-- what `split.run(flow)` yields before it ends (`_empty_run` when there are no branches) -/
def SplitX.outputs (s : SplitX σ α ε) (flow : List α) : List α :=
  if s.branches.isEmpty then emptyRun flow else Lena.C03.outputs (s.run flow).trace

/-! ### the same branches with the exceptions forgotten (specification side) -/

/-- a method that raised is regarded as having returned normally at that point -/
def OpsX.forget (o : OpsX σ α ε) : Ops σ α :=
  { call := fun s => ((o.call s).1, (o.call s).2.1)
    fill := fun s x =>
      ((o.fill s x).1, match (o.fill s x).2 with
        | .stop => true
        | _ => false)
    compute := fun s => ((o.compute s).1, (o.compute s).2.1)
    request := fun s => ((o.request s).1, (o.request s).2.1)
    run := fun s buf => ((o.run s buf).1, (o.run s buf).2.1) }

def BranchX.forget (b : BranchX σ α ε) : Branch σ α :=
  { id := b.id, kind := b.kind, ops := b.ops.forget, st := b.st }

def SplitX.forget (s : SplitX σ α ε) : Split σ α :=
  { branches := s.branches.map BranchX.forget, bufsize := s.bufsize, copyBuf := s.copyBuf }

/-- methods that never raise, as methods that may -/
def Ops.lift (o : Ops σ α) : OpsX σ α ε :=
  { call := fun s => ((o.call s).1, (o.call s).2, none)
    fill := fun s x => ((o.fill s x).1, if (o.fill s x).2 then .stop else .ok)
    compute := fun s => ((o.compute s).1, (o.compute s).2, none)
    request := fun s => ((o.request s).1, (o.request s).2, none)
    run := fun s buf => ((o.run s buf).1, (o.run s buf).2, none) }

def Branch.lift (b : Branch σ α) : BranchX σ α ε :=
  { id := b.id, kind := b.kind, ops := b.ops.lift, st := b.st }

/-! ## `bufsize` arguments that are not `int` (split.py:228-234) -/

/-- the `bufsize` argument of `Split.__init__` -/
inductive BufArg where
  | none
  | int (i : Int)
  /-- a `float` equal to the integer `i` (`2.0`) -/
  | floatInt (i : Int)
  /-- a `float` with a fractional part (`1.5`) -/
  | floatFrac
  | bool (b : Bool)
  deriving Repr

/-- `if bufsize is not None: if bufsize != int(bufsize) or bufsize < 1: raise LenaValueError`;
`self._bufsize = bufsize`.  Returns the number of values per block and whether the stored
value is something `itertools.islice` rejects (a `float`; `True` is an `int`). -/
def bufArgInit : BufArg → Except Exc (Option Nat × Bool)
  | .none => .ok (none, false)
  | .int i => if i < 1 then .error .lenaValueError else .ok (some i.toNat, false)
  | .floatInt i => if i < 1 then .error .lenaValueError else .ok (some i.toNat, true)
  | .floatFrac => .error .lenaValueError
  | .bool true => .ok (some 1, false)
  | .bool false => .error .lenaValueError

/-! ## how the flow is handed over; the Cache rule of `Split.__init__` -/

/-- the argument of `Split.run`: a container that can be iterated again (list, tuple, range), or
a one-shot iterator (`iter(...)`, a generator) -/
inductive FlowArg (α : Type) where
  | container (xs : List α)
  | iterator (xs : List α)

/-- `flow = iter(flow)` (split.py:344): from here on the loop works on ONE iterator, so every
`itertools.islice(flow, bufsize)` continues where the previous one stopped — also for a container -/
def FlowArg.iter : FlowArg α → List α
  | .container xs => xs
  | .iterator xs => xs

/-- `Split.run(flow)` for a flow handed over in either way -/
def Split.runOn (s : Split σ α) (fa : FlowArg α) : List α := s.run fa.iter

/-- what `_contains_cache` (split.py:74-85) looks at: an element (with or without the attribute
`is_cache`), a `LenaSequence` (its `_seq`), a `LenaSplit` (its `_seqs`) -/
inductive CTree where
  | el (isCache : Bool)
  | seq (els : List CTree)
  | split (seqs : List CTree)

mutual
/-- `_contains_cache(seq)` -/
def containsCache : CTree → Bool
  | .el c => c                                   -- `getattr(seq, "is_cache", False)`
  | .seq els => containsCacheL els               -- `any(_contains_cache(el) for el in seq._seq)`
  | .split seqs => containsCacheL seqs           -- `any(_contains_cache(el) for el in seq._seqs)`
def containsCacheL : List CTree → Bool
  | [] => false
  | t :: r => containsCache t || containsCacheL r
end

/-- split.py:252-259: `if bufsize is not None and any(seq_type == "sequence" and
_contains_cache(seq) …): bufsize = None` — a Split with a Cache inside a plain-Sequence branch
reads the whole flow at once -/
def cacheRule (bufsize : Option Nat) (brs : List (Kind × CTree)) : Option Nat :=
  if bufsize.isSome && brs.any (fun p => p.1 == .sequence && containsCache p.2) then none else bufsize

/-- the structure `_contains_cache` sees for an argument after `_get_seq_with_type`: a tuple /
list / single element is wrapped into a sequence of its elements; `cache` says which of the
elements have `is_cache` (one flag per element) -/
def objCTree (o : Obj) (cache : List Bool) : CTree :=
  match o with
  | .tuple els => .seq ((List.range els.length).map (fun i => .el (cache.getD i false)))
  | .list els => .seq ((List.range els.length).map (fun i => .el (cache.getD i false)))
  | _ => .seq [.el (cache.getD 0 false)]

/-- `Split.__init__` with the Cache rule: `splitInit`, then `cacheRule` on the classified
arguments -/
def splitInitC (seqsIsList : Bool) (objs : List (Obj × List Bool)) (bufsize : Option Int) :
    Except Exc (List Kind × Option Nat) :=
  match splitInit seqsIsList (objs.map (·.1)) bufsize with
  | .error e => .error e
  | .ok (kinds, bs) => .ok (kinds, cacheRule bs (kinds.zip (objs.map (fun p => objCTree p.1 p.2))))

/-! ## harness vocabulary, part 2 -/

/-- `try: seq.fill(val) except exceptions.LenaStopFill: stopped = True; break` (split.py:377-382,
395-400) applied to a `fill` that raises an exception of class `c`: the clause catches
`LenaStopFill` and its subclasses (`ExcClass.isStopSignal`); every other class — the other
`LenaException` subclasses and `LenaException` itself included — is not caught -/
def catchStopFill (c : ExcClass) : FillRes ExcClass :=
  if c.isStopSignal then .stop else .raised c

/-- the same for a class given by its Python name (harness protocol) -/
def catchStopFillName (c : String) : FillRes String :=
  if isStopSignalName c then .stop else .raised c

/-- a harness element that raises: from `fill` once `boomFill` values were accepted (an exception
of class `boomFillExc`), and/or from inside its generator (`compute`/`request`/`run`/`__call__`)
after `boomGen` values were yielded (if it has that many; class `boomExc`) -/
structure XSpec where
  base : HSpec
  boomFill : Option Nat
  boomGen : Option Nat
  /-- the exception class raised from inside a generator: `ValueError`, or `LenaStopFill` (which
  `Split.run` catches around `fill` only), or a `BaseException` such as `KeyboardInterrupt` -/
  boomExc : String := "ValueError"
  /-- the exception class raised by `fill`: any class of `ExcClass` by name.  A `LenaStopFill`
  (sub)class is the stop signal; anything else leaves `Split.run` -/
  boomFillExc : String := "ValueError"

/-- a generator that raises after `j` values, if it has at least `j` -/
def boomAfter (exc : String) (boom : Option Nat) (r : List V × BState) : List V × BState × Option String :=
  match boom with
  | some j => if j ≤ r.1.length then (r.1.take j, r.2, some exc) else (r.1, r.2, none)
  | none => (r.1, r.2, none)

def XSpec.ops (tag : Nat) (x : XSpec) : OpsX BState V String :=
  let o := x.base.ops tag
  { call := fun s => boomAfter x.boomExc x.boomGen (o.call s)
    fill := fun s v =>
      match x.boomFill with
      | some k => if s.n ≥ k then (s, catchStopFillName x.boomFillExc)
                  else ((o.fill s v).1, if (o.fill s v).2 then .stop else .ok)
      | none => ((o.fill s v).1, if (o.fill s v).2 then .stop else .ok)
    compute := fun s => boomAfter x.boomExc x.boomGen (o.compute s)
    request := fun s => boomAfter x.boomExc x.boomGen (o.request s)
    run := fun s buf => boomAfter x.boomExc x.boomGen (o.run s buf) }

/-- state of a branch of the enclosing Split: a harness element, a nested common-type Split
(used through fill/compute/request), or a nested Split used through `run` -/
inductive NStateX where
  | plain (s : BState)
  | nested (brs : List (Branch BState V))
  | nestedRun (s : Split BState V)

/-- methods over `NStateX` from methods over one of its three cases -/
def plainOpsX (o : OpsX BState V String) : OpsX NStateX V String :=
  { call := fun s => match s with
      | .plain b => ((o.call b).1, .plain (o.call b).2.1, (o.call b).2.2)
      | n => ([], n, none)
    fill := fun s x => match s with
      | .plain b => (.plain (o.fill b x).1, (o.fill b x).2)
      | n => (n, .ok)
    compute := fun s => match s with
      | .plain b => ((o.compute b).1, .plain (o.compute b).2.1, (o.compute b).2.2)
      | n => ([], n, none)
    request := fun s => match s with
      | .plain b => ((o.request b).1, .plain (o.request b).2.1, (o.request b).2.2)
      | n => ([], n, none)
    run := fun s buf => match s with
      | .plain b => ((o.run b buf).1, .plain (o.run b buf).2.1, (o.run b buf).2.2)
      | n => ([], n, none) }

def nestedOpsX : OpsX NStateX V String :=
  let o : OpsX (List (Branch BState V)) V String := Ops.lift splitOps
  { call := fun s => match s with
      | .nested b => ((o.call b).1, .nested (o.call b).2.1, (o.call b).2.2)
      | n => ([], n, none)
    fill := fun s x => match s with
      | .nested b => (.nested (o.fill b x).1, (o.fill b x).2)
      | n => (n, .ok)
    compute := fun s => match s with
      | .nested b => ((o.compute b).1, .nested (o.compute b).2.1, (o.compute b).2.2)
      | n => ([], n, none)
    request := fun s => match s with
      | .nested b => ((o.request b).1, .nested (o.request b).2.1, (o.request b).2.2)
      | n => ([], n, none)
    run := fun s _ => ([], s, none) }

def nestedRunOpsX : OpsX NStateX V String :=
  let o : OpsX (Split BState V) V String := Ops.lift splitRunOps
  { call := fun s => match s with
      | .nestedRun b => ((o.call b).1, .nestedRun (o.call b).2.1, (o.call b).2.2)
      | n => ([], n, none)
    fill := fun s x => match s with
      | .nestedRun b => (.nestedRun (o.fill b x).1, (o.fill b x).2)
      | n => (n, .ok)
    compute := fun s => match s with
      | .nestedRun b => ((o.compute b).1, .nestedRun (o.compute b).2.1, (o.compute b).2.2)
      | n => ([], n, none)
    request := fun s => match s with
      | .nestedRun b => ((o.request b).1, .nestedRun (o.request b).2.1, (o.request b).2.2)
      | n => ([], n, none)
    run := fun s buf => match s with
      | .nestedRun b => ((o.run b buf).1, .nestedRun (o.run b buf).2.1, (o.run b buf).2.2)
      | n => ([], n, none) }

/-- a branch of the enclosing Split in a harness case of the driver op `runx` -/
inductive OSpecX where
  | plain (x : XSpec)
  /-- `Split([inner…], bufsize)`: with a common fill type it is used through
  fill/compute/request, otherwise (`_get_seq_with_type` finds `run` only) through `run` -/
  | nest (inner : List BSpec) (bufsize : Option Nat)

/-- what `_contains_cache` sees of a harness element given to a Split (in any of its forms it
ends up inside a `Sequence`/`FillComputeSeq`/…): only the `cache` run element has `is_cache` -/
def BSpec.ctree : BSpec → CTree
  | .sq .cache => .seq [.el true]
  | _ => .seq [.el false]

def bspecKinds (inner : List BSpec) : List (Kind × CTree) := inner.map (fun b => (b.kind, b.ctree))

/-- `_get_seq_with_type` of a nested Split: fill/compute, fill/request, or (no `fill`) sequence -/
def nestKindX (inner : List BSpec) : Kind :=
  let m := methodsOf (inner.map BSpec.kind)
  if m.compute then .fillCompute else if m.request then .fillRequest else .sequence

def mkBranchesX (start : Nat) : List OSpecX → List (BranchX NStateX V String)
  | [] => []
  | .plain x :: rest =>
    { id := start, kind := x.base.base.kind, ops := plainOpsX (x.ops start), st := .plain {} } ::
      mkBranchesX (start + 1) rest
  | .nest inner bs :: rest =>
    let brs := mkHarnessBranches (100 * (start + 1)) inner
    (match nestKindX inner with
      | .sequence =>
        -- the nested Split applies the Cache rule to its own `bufsize`
        { id := start, kind := .sequence, ops := nestedRunOpsX,
          st := .nestedRun { branches := brs, bufsize := cacheRule bs (bspecKinds inner), copyBuf := true } }
      | k => { id := start, kind := k, ops := nestedOpsX, st := .nested brs }) ::
      mkBranchesX (start + 1) rest

/-- kind and `_contains_cache` structure of the branches of a harness case -/
def ospecKinds : List OSpecX → List (Kind × CTree)
  | [] => []
  | .plain x :: rest => (x.base.base.kind, x.base.base.ctree) :: ospecKinds rest
  | .nest inner _ :: rest =>
    (nestKindX inner, .seq [.split (inner.map BSpec.ctree)]) :: ospecKinds rest

/-- consecutive runs of the same `Split` object: `for flow in flows: list(split.run(flow))`,
stopping at the first run that raises (the objects keep their states between the runs) -/
def runsX (s : SplitX NStateX V String) : List (List V) → List (RunX NStateX V String)
  | [] => []
  | flow :: rest =>
    let r := s.runMethod flow
    match r.term with
    | .done => r :: runsX { s with branches := r.seqs } rest
    | _ => [r]

/-- the same for branches that cannot raise, through `Split.runObj` -/
def runsObj (s : Split σ α) : List (List α) → List (List α)
  | [] => []
  | flow :: rest =>
    let r := s.runObj flow
    r.1 :: runsObj r.2 rest

end Lena.C03
