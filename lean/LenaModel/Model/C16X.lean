import LenaModel.Model.C16
/-! # C16 model, extended — wrapped elements that raise, generator objects, `FillRequest.reset()`

`Model/C16.lean` treats the wrapped element as three total functions and `el.request()` as the list
of its results.  This file transcribes the same Python (`lena/core/adapters.py:404-481`,
the `fill_request` branch of `Split.run` in `lena/core/split.py` — lines 361-376, 403-407 of the anchored
revision, 26 lines further down since fix 7235571 —, `adapters.py:500-543`) for a wrapped element

* whose `fill` may raise `LenaStopFill` (leaving some state behind),
* whose `request()` returns a *generator object*: creating it runs nothing, its body runs — on the
  state the element has *then* — when somebody iterates it,

and adds the method `FillRequest.reset()` (`adapters.py:479-481`: it resets the wrapped element and
nothing else) to the histories.  The adapter of /repo iterates every generator where it creates it
(`Eval.atCall`: `self._buffer_out.extend(self._el_request())`); `Eval.atRequest` is the adapter that
stores the generator object in `_buffer_out` and iterates it when `request()` is consumed — the
variant the property rules out.  The definitions of `Model/C16.lean` are unchanged; `Props/C16.lean`
proves that this model restricted to never-raising elements and `atCall` is that model. -/

set_option linter.unusedVariables false  -- hypotheses named for `decreasing_by`

namespace Lena.C16

/-- outcome of `el.fill(value)`: returned, or raised `LenaStopFill`; in both cases with the state the
element is left in -/
inductive FillOut (σ : Type) where
  | ok (s : σ)
  | stop (s : σ)

/-- the wrapped element with a raising `fill` and a generator `request` (`req`: the body of the
generator, run when it is iterated, on the state at that moment) -/
structure ElX (σ α β : Type) where
  fill : σ → α → FillOut σ
  req : σ → List β × σ
  reset : σ → σ

/-- an entry of `_buffer_out`: results already obtained, or a generator object of the element that
nobody has iterated yet -/
inductive Pend (β : Type) where
  | done (r : List β)
  | gen
  deriving Repr

/-- where the adapter iterates the generator that `self._el_request()` returns inside `fill` -/
inductive Eval where
  | atCall       -- `self._buffer_out.extend(self._el_request())`  (/repo)
  | atRequest    -- `self._buffer_out.append(self._el_request())`, chained in `request()`
  deriving Repr, DecidableEq

structure StX (σ α β : Type) where
  el : σ
  nCount : Nat
  bufIn : List α
  bufOut : List (Pend β)

variable {σ α β : Type}

def StX.init (el : σ) : StX σ α β := { el := el, nCount := 0, bufIn := [], bufOut := [] }

/-- `for val in self._el_request(): yield val; if self._reset: self._el_reset(); self._n_count = 0` -/
def emitX (e : ElX σ α β) (rst : Bool) (s : StX σ α β) : List β × StX σ α β :=
  let r := e.req s.el
  (r.1, { s with el := if rst then e.reset r.2 else r.2, nCount := 0 })

/-- `FillRequest.fill` (adapters.py:404-427); the `Bool`: `LenaStopFill` propagated to the caller.
An exception from `self._el_fill(value)` leaves `_n_count` as it is at that line. -/
def fillX (e : ElX σ α β) (ev : Eval) (N : Nat) (rst bi : Bool) (s : StX σ α β) (x : α) : StX σ α β × Bool :=
  if s.nCount = N then
    if bi then ({ s with bufIn := s.bufIn ++ [x] }, false)
    else
      -- the results of the complete block go to `_buffer_out` (as results, or as a generator object)
      let (entry, el1) := match ev with
        | .atCall => let r := e.req s.el; (Pend.done r.1, r.2)
        | .atRequest => (Pend.gen, s.el)
      let el2 := if rst then e.reset el1 else el1
      match e.fill el2 x with
      | .ok el3 => ({ s with el := el3, nCount := 1, bufOut := s.bufOut ++ [entry] }, false)
      | .stop el3 => ({ s with el := el3, nCount := 0, bufOut := s.bufOut ++ [entry] }, true)
  else
    match e.fill s.el x with
    | .ok el' => ({ s with el := el', nCount := s.nCount + 1 }, false)
    | .stop el' => ({ s with el := el' }, true)

/-- `for val in buffer_out: yield val` where an entry may be a generator object, iterated now
(`itertools.chain.from_iterable`): its body runs on the element as it is now -/
def flushX (e : ElX σ α β) : List (Pend β) → σ → List β × σ
  | [], el => ([], el)
  | .done r :: rest, el => let q := flushX e rest el; (r ++ q.1, q.2)
  | .gen :: rest, el => let r := e.req el; let q := flushX e rest r.2; (r.1 ++ q.1, q.2)

/-- the loop `for value in buffer_in:` of `request`; `LenaStopFill` from `self._el_fill(value)` ends the
generator `request()` there (the remaining buffered values are gone: `_buffer_in` was replaced by `[]`) -/
def drainX (e : ElX σ α β) (N : Nat) (rst : Bool) : List α → StX σ α β → List β × StX σ α β × Bool
  | [], s => ([], s, false)
  | x :: r, s =>
    match e.fill s.el x with
    | .stop el' => ([], { s with el := el' }, true)
    | .ok el' =>
      let s1 : StX σ α β := { s with el := el', nCount := s.nCount + 1 }
      if s1.nCount = N then
        let p := emitX e rst s1
        let q := drainX e N rst r p.2
        (p.1 ++ q.1, q.2)
      else drainX e N rst r s1

/-- `FillRequest.request` consumed to the end or to the exception (adapters.py:429-477):
results yielded, state, and whether `LenaStopFill` came out of the generator -/
def requestX (e : ElX σ α β) (N : Nat) (rst bi yor : Bool) (s : StX σ α β) : List β × StX σ α β × Bool :=
  let p1 := if bi then ([], s.el) else flushX e s.bufOut s.el
  let s1 : StX σ α β := if bi then s else { s with el := p1.2, bufOut := [] }
  let p2 := if s1.nCount = N then emitX e rst s1 else ([], s1)
  let p3 := if bi then drainX e N rst p2.2.bufIn { p2.2 with bufIn := [] } else ([], p2.2, false)
  if p3.2.2 then (p1.1 ++ p2.1 ++ p3.1, p3.2.1, true)
  else
    let p4 := if yor && p3.2.1.nCount != 0 then emitX e rst p3.2.1 else ([], p3.2.1)
    (p1.1 ++ p2.1 ++ p3.1 ++ p4.1, p4.2, false)

/-- `FillRequest.reset` (adapters.py:479-481): `self._el_reset()` — the counter and the buffers are
not touched -/
def resetX (e : ElX σ α β) (s : StX σ α β) : StX σ α β := { s with el := e.reset s.el }

/-- a call on the adapter -/
inductive OpX (α : Type) where
  | fill (x : α)
  | request
  | reset
  deriving Repr

/-- what a call showed: `request`: the results it yielded; the flag: `LenaStopFill` was raised -/
structure CallObs (β : Type) where
  out : Option (List β)
  raised : Bool
  nCount : Nat
  lenIn : Nat
  lenOut : Nat

/-- `len(self._buffer_out)`: results count one each, a generator object counts one -/
def pendLen (l : List (Pend β)) : Nat := (l.map (fun p => match p with | .done r => r.length | .gen => 1)).sum

/-- a history of calls by a caller that catches `LenaStopFill` and goes on; per call what it showed
and `(_n_count, len(_buffer_in), len(_buffer_out))` afterwards -/
def traceOpsX (e : ElX σ α β) (ev : Eval) (N : Nat) (rst bi yor : Bool) :
    List (OpX α) → StX σ α β → List (CallObs β) × StX σ α β
  | [], s => ([], s)
  | .fill x :: r, s =>
    let p := fillX e ev N rst bi s x
    let q := traceOpsX e ev N rst bi yor r p.1
    (⟨none, p.2, p.1.nCount, p.1.bufIn.length, pendLen p.1.bufOut⟩ :: q.1, q.2)
  | .request :: r, s =>
    let p := requestX e N rst bi yor s
    let q := traceOpsX e ev N rst bi yor r p.2.1
    (⟨some p.1, p.2.2, p.2.1.nCount, p.2.1.bufIn.length, pendLen p.2.1.bufOut⟩ :: q.1, q.2)
  | .reset :: r, s =>
    let s' := resetX e s
    let q := traceOpsX e ev N rst bi yor r s'
    (⟨none, false, s'.nCount, s'.bufIn.length, pendLen s'.bufOut⟩ :: q.1, q.2)

/-- everything the `request()` calls of a history yielded, in order -/
def outsX (t : List (CallObs β)) : List β := t.flatMap (fun c => c.out.getD [])

/-! ## Split around a fill/request branch whose `fill` may raise (`Split.run`, branch `seq_type == "fill_request"`) -/

/-- the loop `for val in buf: try: seq.fill(val) except LenaStopFill: stopped = True; break` -/
def fillBlockX (e : ElX σ α β) (ev : Eval) (N : Nat) (rst bi : Bool) : List α → StX σ α β → StX σ α β × Bool
  | [], s => (s, false)
  | x :: r, s =>
    let p := fillX e ev N rst bi s x
    if p.2 then (p.1, true) else fillBlockX e ev N rst bi r p.1

/-- the blocks of the flow, one after the other, while the branch is active: fill the block (until
`LenaStopFill`), consume `request()` — an exception from it ends `Split.run` —, drop the branch if it
stopped.  Result: what was yielded, the adapter, whether `LenaStopFill` left `Split.run`. -/
def splitBlocksX (e : ElX σ α β) (ev : Eval) (N : Nat) (rst bi yor : Bool) :
    List (List α) → StX σ α β → List β × StX σ α β × Bool
  | [], s => ([], s, false)
  | b :: bs, s =>
    let f := fillBlockX e ev N rst bi b s
    let q := requestX e N rst bi yor f.1
    if q.2.2 then (q.1, q.2.1, true)
    else if f.2 then (q.1, q.2.1, false)          -- `del active_seqs[ind]`: nothing more is filled or requested
    else
      let t := splitBlocksX e ev N rst bi yor bs q.2.1
      (q.1 ++ t.1, t.2)

/-- `Split([branch], bufsize=m).run(xs)`: results, and whether `LenaStopFill` escaped -/
def splitX (e : ElX σ α β) (ev : Eval) (N : Nat) (rst bi yor : Bool) (m : Option Nat) (el : σ) (xs : List α) :
    List β × Bool :=
  if xs.isEmpty then
    -- `if flow_was_empty: for val in seq.request(): yield val`
    let q := requestX e N rst bi yor (StX.init el); (q.1, q.2.2)
  else
    let t := splitBlocksX e ev N rst bi yor (splitBlocks m xs) (StX.init el); (t.1, t.2.2)

/-! ## `_run_fill_compute` with a raising `fill` (adapters.py:500-543) -/

/-- `for val in slice_: self._el_fill(val)`: the state, or the state at the exception -/
def foldFillX (e : ElX σ α β) : List α → σ → FillOut σ
  | [], s => .ok s
  | x :: r, s =>
    match e.fill s x with
    | .ok s' => foldFillX e r s'
    | .stop s' => .stop s'

/-- `LenaStopFill` is not caught by `_run_fill_compute`: it leaves the generator after what was yielded -/
def runFillComputeX (e : ElX σ α β) (N : Nat) (rst yor : Bool) (s : σ) (xs : List α) : List β × σ × Bool :=
  if hN : N = 0 then ([], s, false)
  else if hx : xs = [] then ([], s, false)
  else
    let blk := xs.take N
    match foldFillX e blk s with
    | .stop s1 => ([], s1, true)
    | .ok s1 =>
      if blk.length % N ≠ 0 then
        if yor then let r := e.req s1; (r.1, r.2, false) else ([], s1, false)
      else
        let r := e.req s1
        let s2 := if rst then e.reset r.2 else r.2
        let q := runFillComputeX e N rst yor s2 (xs.drop N)
        (r.1 ++ q.1, q.2)
termination_by xs.length
decreasing_by
  have : 0 < xs.length := List.length_pos_iff.mpr hx
  simp only [List.length_drop]; omega

/-! ## embedding of the elements of `Model/C16.lean` -/

/-- an element that never raises -/
def ElX.ofEl (e : El σ α β) : ElX σ α β where
  fill s x := .ok (e.fill s x)
  req := e.req
  reset := e.reset

/-- an element that refuses (raises `LenaStopFill` for) every value satisfying `p`; `stores`: it has
taken the value in before raising -/
def ElX.stopOn (e : El σ α β) (p : α → Bool) (stores : Bool) : ElX σ α β where
  fill s x := if p x then .stop (if stores then e.fill s x else s) else .ok (e.fill s x)
  req := e.req
  reset := e.reset

/-- the adapter state without generator objects, as a state of `Model/C16.lean` -/
def StX.erase (s : StX σ α β) : St σ α β :=
  { el := s.el, nCount := s.nCount, bufIn := s.bufIn,
    bufOut := s.bufOut.flatMap (fun p => match p with | .done r => r | .gen => []) }

/-! ## `__init__` with a `bufsize` that is not an `int` -/

/-- `FillRequest.__init__` for any number `bufsize`: `bufsize` is `int(bufsize)`, `frac` says
`bufsize != int(bufsize)` — the first half of the last test (adapters.py:395), reached only when the earlier
tests pass; `self.bufsize = int(bufsize)` -/
def mkFillRequestF (caps : Caps) (bufsize : Int) (frac : Bool) (reset : Option Bool) (bi bo yor : Bool) :
    Except InitErr Cfg :=
  -- a non-integral `bufsize` fails the last test like a `bufsize < 1` does
  mkFillRequest caps (if frac then 0 else bufsize) reset bi bo yor

/-! ## specification-side definitions (evaluated by the driver, used by `Lemmas/C16X.lean`, `Props/C16X.lean`) -/

/-- no entry of `_buffer_out` is a generator object -/
def allDone : List (Pend β) → Bool
  | [] => true
  | .done _ :: r => allDone r
  | .gen :: _ => false

/-- every entry of `_buffer_out` is a generator object -/
def allGen : List (Pend β) → Bool
  | [] => true
  | .done _ :: _ => false
  | .gen :: r => allGen r

/-- `k` generator objects of the element iterated one after the other, now -/
def iterReq (e : ElX σ α β) : Nat → σ → List β × σ
  | 0, el => ([], el)
  | k + 1, el => let r := e.req el; let q := iterReq e k r.2; (r.1 ++ q.1, q.2)

/-- what a history leaves in `_buffer_out`, by where the adapter iterates the generators: results only
(`atCall`), generator objects only (`atRequest`) -/
def bufKind (ev : Eval) (l : List (Pend β)) : Bool :=
  match ev with
  | .atCall => allDone l
  | .atRequest => allGen l

/-- the history without its `reset()` calls -/
def dropResets : List (OpX α) → List (OpX α)
  | [] => []
  | .reset :: r => dropResets r
  | o :: r => o :: dropResets r

/-- the counters `(_n_count, _buffer_in)` of an adapter -/
def StX.counters (s : StX σ α β) : Nat × List α := (s.nCount, s.bufIn)

end Lena.C16
