/-! # C20 model — names, imports and their resolution (`lena/**/*.py`, all modules)

Property C20 speaks about *every* module, function and advertised name of lena at once, so the
model is not a transcription of one function but a small **interpreter for the part of Python's
semantics the property depends on**, run on *facts* that a translator
(`harness/extract_facts.py`, Python `ast` + `symtable`) regenerates from the working tree on
every check (`LenaModel/Gen/C20Facts.lean`).  What is modelled:

* `sys.modules` and the import machinery (`importlib._bootstrap._find_and_load`): a module is
  executed at most once, parents before children; while it is being executed it is already in
  `sys.modules` (*partially initialised* — circular imports see the names bound so far); when
  the execution of `pkg.sub` ends, `setattr(pkg, "sub", module)` is performed — so
  **`lena.flow` is an attribute of the package `lena` only after somebody imported `lena.flow`**;
* `from m import n` (`IMPORT_FROM`): attribute `n` of `m`, else the submodule `m.n` (imported
  on demand), else `ImportError`; `from m import *` over `__all__` or the public names;
* name lookup of CPython's compiler (LEGB): the translator classifies every name with CPython's
  own `symtable`; locals are invisible here except locals bound by an `import` statement;
  a *load* of a global looks in the module's namespace, then in `builtins`, else `NameError`;
* attribute chains `a.b.c` are followed as long as the value is a lena module; an attribute a
  module does not have is `AttributeError` (on a lena module); any other object is *opaque*;
* a **call** of a function executes *every* load of its body (all paths at once), after the
  imports that precede it in the body; regions whose execution is not certain (`if`, loops,
  handlers) are bracketed by `enter`/`leave` and leave no trace.  (At module level the
  translator adds, after such a statement, a `bind` for the names it may have bound — see the
  docstring of the translator: *assumed* bindings.)  A local bound only by import statements
  has an identifier of its own, distinct from the global of the same spelling.

* **the environment**: a third-party module that import-time code imports (`jinja2`) may or may
  not be importable — `Facts.absent` says which are not; its import (`ext`) then raises
  `ImportError`, which unwinds the events up to the handler of the innermost enclosing
  `try … except ImportError` (`tryBegin/tryExcept/tryEnd`), through the importing modules if
  necessary (a module whose code raised is removed from `sys.modules`: status `failed`, executed
  afresh by the next import); `resolvesAllEnvs` runs the whole check in every environment of
  `Facts.envs`.

* **handlers**: a `NameError`, an `AttributeError` on a lena module or an `ImportError` for a lena
  name that happens inside a `try` whose handler catches it (mask of `tryExcept`) runs the
  handler and is not a failure (`try: unicode / except NameError:`); uncaught, it is the result
  of the code.  Only handlers of the code that raises are looked at (not the importer's).
* **aliases**: `x = name.a.b` where `x` is bound by nothing else (`flow_mod = lena.flow`) binds `x`
  to what the chain denotes, so that `flow_mod.get_data_context` is followed like `lena.flow.…`.
* **static facts about classes**: the `class` statements with their bases, the `raise` statements
  that name a class, and the reads of locals that CPython cannot prove bound (`exceptionsOk`,
  `localsOk`).
* *not* modelled: ordinary locals, values stored in attributes or containers, the behaviour of
  elements (what a call returns), functions called while their own module is being imported.

Identifiers are interned by the translator: `Name` and `ModId` are natural numbers; names below
`Facts.nBuiltins` are `dir(builtins)`.  The interpreter state (all module `__dict__`s and
`sys.modules`) is kept in two natural numbers used as arrays of fixed-width slots
(section *State*), because the instance theorem is evaluated by the Lean kernel, which computes
with numbers natively.  No imports: executed by `drivers/C20.lean`. -/

namespace Lena.C20

abbrev Name := Nat
abbrev ModId := Nat

/-- what a name is bound to: a lena module, or an object the resolver knows nothing about -/
inductive Val where
  | obj
  | mod (m : ModId)
  deriving DecidableEq, Repr, Inhabited

/-- one event of module-level code or of a function body, in source order -/
inductive Ev where
  /-- `n = <object>`: `def`, `class`, assignment, import of a module outside lena -/
  | bind (n : Name)
  /-- `import lena.flow` binds `lena` to the module `lena`; `import a.b as x` binds `x` to `a.b` -/
  | bindMod (n : Name) (m : ModId)
  /-- `del n` -/
  | unbind (n : Name)
  /-- a read of the name `n` (global, or a local bound by an import statement) -/
  | load (n : Name)
  /-- a read of `root.a.b.c` -/
  | attr (root : Name) (chain : List Name)
  /-- the import machinery makes sure module `m` is in `sys.modules` (executing it if it is not) -/
  | ensure (m : ModId)
  /-- `from m import n as asn` for one name -/
  | fromName (m : ModId) (n : Name) (asn : Name)
  /-- `from m import *` -/
  | star (m : ModId)
  /-- import of a module of the lena tree that does not exist (`n` is its dotted name) -/
  | noModule (n : Name)
  /-- start / end of a region that may not be executed: its effects are dropped at `leave` -/
  | enter
  | leave
  /-- module-level `import x` of the third-party module `x`: `ImportError` if the environment
  does not have it (`Facts.absent`), nothing otherwise (the names it binds follow as `bind`s) -/
  | ext (x : Nat)
  /-- `try:` … `tryExcept` … `tryEnd`: a `try` statement with a handler that catches
  `ImportError`; between `tryBegin` and `tryExcept` the body, between `tryExcept` and `tryEnd`
  (or `tryElse`) the handler, between `tryElse` and `tryEnd` the `else` part -/
  | tryBegin
  /-- `mask`: which of the would-be failures the handler catches (bit 0: `ImportError`,
  bit 1: `NameError`, bit 2: `AttributeError`; `except Exception` / a bare `except` catch all;
  bit 3 catches nothing: it marks a handler that *repairs* the failure by importing, the
  lazy-import idiom `try: lena.flow / except AttributeError: import lena.flow`, see `execEvsT`) -/
  | tryExcept (mask : Nat)
  | tryEnd
  /-- `else:` of a `try` statement, between the (single catching) handler and `tryEnd`: the events
  up to `tryEnd` run exactly when the body ran to its end, and a failure among them is **not**
  caught by the handler of this `try` -/
  | tryElse
  /-- in a function body: `global n; n = …` (also `globals()["n"] = …`): binds the module's global
  at call time -/
  | gbind (n : Name)
  /-- in a function body: `global n; del n`: unbinds the module's global at call time -/
  | gunbind (n : Name)
  /-- `n = root.a.b` where `n` is bound by nothing but such assignments (an alias of a module, as in
  `flow_mod = lena.flow`): the chain is read, and `n` is bound to what it denotes -/
  | alias (n : Name) (root : Name) (chain : List Name)
  deriving DecidableEq, Repr, Inhabited

/-- a function, method or lambda body (call-time code) -/
structure Func where
  name : Name
  line : Nat
  evs : List Ev
  deriving DecidableEq, Repr, Inhabited

structure Module where
  /-- dotted name (display only) -/
  name : Name
  parent : Option ModId
  /-- attribute name on the parent package -/
  short : Name
  /-- `__all__` when it is a literal list -/
  all : Option (List Name)
  /-- `__all__` is computed (`a + b`, `.extend(…)`): the advertised names are not known statically -/
  allDynamic : Bool
  /-- module-level code (import time), class bodies and `def` headers included -/
  evs : List Ev
  funcs : List Func
  deriving Repr, Inhabited

/-- a class named in a `class` statement's bases or in a `raise` statement -/
inductive ClassRef where
  /-- a class of the tree (index into `Facts.classes`) -/
  | cls (i : Nat)
  /-- a builtin (`KeyError`, `Exception`, `object`) -/
  | builtin (n : Name)
  /-- an expression the translator cannot name (`raise err`, `raise self._exc`) -/
  | unknown
  deriving DecidableEq, Repr, Inhabited

/-- a `class` statement -/
structure ClassFact where
  mod : ModId
  name : Name
  line : Nat
  bases : List ClassRef
  /-- defined in `lena/core/exceptions.py`: one of the documented lena exceptions -/
  isLenaExc : Bool
  deriving DecidableEq, Repr, Inhabited

/-- a `raise X(…)` / `raise X` statement -/
structure RaiseFact where
  mod : ModId
  fn : Name
  line : Nat
  what : ClassRef
  /-- inside `__getattr__` / `__setattr__` / `__delattr__` / `__getattribute__`, where Python's own
  protocol asks for the builtin `AttributeError` -/
  protocol : Bool
  deriving DecidableEq, Repr, Inhabited

/-- a read of a local that CPython's own definite-assignment analysis cannot prove bound
(`LOAD_FAST_CHECK`): a possible `UnboundLocalError` -/
structure UnboundFact where
  mod : ModId
  fn : Name
  var : Name
  /-- looked at by a person and found guarded (the reasons are in `harness/props/c20.py`) -/
  audited : Bool
  deriving DecidableEq, Repr, Inhabited

structure Facts where
  mods : List Module
  /-- entry points: synthetic `__main__` modules `import lena.X; from lena.X import *` -/
  entries : List ModId
  /-- names `< nBuiltins` are the names of `builtins` -/
  nBuiltins : Nat
  /-- names starting with an underscore (not taken by `import *` without `__all__`) -/
  priv : List Name
  /-- every name that is ever bound is `< nNames` (row length of the slot array) -/
  nNames : Nat
  /-- width of a slot in bits: `2 ^ slotBits ≥ mods.length + 2` -/
  slotBits : Nat
  /-- **the environment**: bit `x` is set iff the third-party module `x` cannot be imported -/
  absent : Nat
  /-- the environments the check ranges over (values for `absent`): every subset of the
  third-party modules that module-level code imports (or, when there are many: as installed,
  none absent, each one absent, all absent) -/
  envs : List Nat
  /-- every `class` statement of the tree -/
  classes : List ClassFact
  /-- the class `LenaException` (index into `classes`) -/
  excRoot : Option Nat
  /-- every `raise` statement of the tree that names a class -/
  raises : List RaiseFact
  /-- every possibly-unbound local read of the tree -/
  maybeUnbound : List UnboundFact
  deriving Repr, Inhabited

/-- the failures the property is about (plus the two ways the interpreter itself can give up) -/
inductive Err where
  /-- `NameError: name 'n' is not defined` in module `m`, function `fn` (`none`: module level) -/
  | nameError (m : ModId) (fn : Option Name) (n : Name)
  /-- `AttributeError: module 'on' has no attribute 'a'` while reading `root. … .a` -/
  | attrError (m : ModId) (fn : Option Name) (root : Name) (on : ModId) (a : Name)
  /-- `ImportError: cannot import name 'n' from 'src'` -/
  | importError (m : ModId) (fn : Option Name) (src : ModId) (n : Name)
  /-- `ModuleNotFoundError` for a module of the lena tree -/
  | noModule (m : ModId) (fn : Option Name) (n : Name)
  | outOfFuel
  | malformed
  deriving DecidableEq, Repr, Inhabited

inductive Status where
  | absent   -- never put into sys.modules
  | running  -- in sys.modules, its code is being executed (partially initialised)
  | done     -- in sys.modules, fully initialised
  | failed   -- its code raised ImportError: removed from sys.modules again (a later import retries)
  deriving DecidableEq, Repr, Inhabited

/-! ## State

`slots` is the two-dimensional array `module × name → slot`, row-major, `slotBits` bits per slot:
`0` = the name is not bound in the module's `__dict__`, `1` = bound to an opaque object,
`c + 2` = bound to the lena module `c`.  `status` holds two bits per module (`sys.modules`). -/

structure State where
  status : Nat
  slots : Nat
  deriving DecidableEq, Repr, Inhabited

def decodeVal : Nat → Option Val
  | 0 => none
  | 1 => some .obj
  | c + 2 => some (.mod c)

def encodeVal : Option Val → Nat
  | none => 0
  | some .obj => 1
  | some (.mod c) => c + 2

def decodeStatus : Nat → Status
  | 0 => .absent
  | 1 => .running
  | 2 => .done
  | _ => .failed

def encodeStatus : Status → Nat
  | .absent => 0
  | .running => 1
  | .done => 2
  | .failed => 3

/-- make the kernel evaluate a number before it is passed on (`forceNat n k = k n`) -/
def forceNat {α : Sort _} (n : Nat) (k : Nat → α) : α :=
  match n with
  | 0 => k 0
  | n' + 1 => k (n' + 1)

namespace State

def slotIx (F : Facts) (m : ModId) (n : Name) : Nat := F.slotBits * (m * F.nNames + n)

def rawGet (F : Facts) (σ : State) (m : ModId) (n : Name) : Nat :=
  (σ.slots >>> slotIx F m n) &&& (2 ^ F.slotBits - 1)

/-- `module m .__dict__.get(n)` (a name outside the row is never bound) -/
def get (F : Facts) (σ : State) (m : ModId) (n : Name) : Option Val :=
  if Nat.blt n F.nNames then decodeVal (rawGet F σ m n) else none

/-- `module m .__dict__[n] = v` (`none`: `del`); a name or value that does not fit the layout is
not stored (`Facts.layoutOk` says that everything fits) -/
def set (F : Facts) (σ : State) (m : ModId) (n : Name) (v : Option Val) : State :=
  if Nat.blt n F.nNames && Nat.blt (encodeVal v) (2 ^ F.slotBits) then
    { σ with slots := σ.slots ^^^ ((rawGet F σ m n ^^^ encodeVal v) <<< slotIx F m n) }
  else σ

def statusOf (σ : State) (m : ModId) : Status := decodeStatus ((σ.status >>> (2 * m)) &&& 3)

def setStatus (σ : State) (m : ModId) (s : Status) : State :=
  { σ with status := σ.status ^^^ ((((σ.status >>> (2 * m)) &&& 3) ^^^ encodeStatus s) <<< (2 * m)) }

/-- evaluate the state (`force σ k = k σ`): used where a state is kept for later (the set of seen
states), so that the kernel stores a number and not a pending computation; inside the
interpreter every step reads the state, which evaluates it anyway -/
def force {α : Sort _} (σ : State) (k : State → α) : α :=
  forceNat σ.status (fun a => forceNat σ.slots (fun b => k ⟨a, b⟩))

/-- forget the namespace of module `m` (a module whose import failed is executed afresh) -/
def clearRow (F : Facts) (σ : State) (m : ModId) : State :=
  { σ with slots := σ.slots ^^^
      (((σ.slots >>> slotIx F m 0) &&& (2 ^ (F.slotBits * F.nNames) - 1)) <<< slotIx F m 0) }

/-- nothing imported, nothing bound -/
def init : State := ⟨0, 0⟩

end State

/-- a small namespace: the import-bound locals of a function frame -/
abbrev Ns := List (Name × Val)

def lookup (n : Name) : Ns → Option Val
  | [] => none
  | (k, v) :: r => if Nat.beq k n then some v else lookup n r

def erase (n : Name) : Ns → Ns
  | [] => []
  | (k, v) :: r => if Nat.beq k n then r else (k, v) :: erase n r

def bindNs (n : Name) (v : Val) (ns : Ns) : Ns := (n, v) :: erase n ns

namespace Facts

def modOf (F : Facts) (m : ModId) : Option Module := F.mods[m]?

def findChild (p : ModId) (n : Name) : List Module → Nat → Option ModId
  | [], _ => none
  | M :: r, i =>
    match M.parent with
    | some q => if Nat.beq q p && Nat.beq M.short n then some i else findChild p n r (i + 1)
    | none => findChild p n r (i + 1)

/-- the module `p.n`, if the tree has one -/
def childOf (F : Facts) (p : ModId) (n : Name) : Option ModId := findChild p n F.mods 0

def isBuiltin (F : Facts) (n : Name) : Bool := Nat.blt n F.nBuiltins

def isPriv (F : Facts) (n : Name) : Bool := F.priv.any (fun k => Nat.beq k n)

/-- the third-party module `x` cannot be imported in this environment -/
def isAbsent (F : Facts) (x : Nat) : Bool := Nat.testBit F.absent x

/-- the same tree in another environment -/
def withEnv (F : Facts) (env : Nat) : Facts := { F with absent := env }

/-- bound on the nesting depth of imports (a module being executed is never executed again) -/
def depth (F : Facts) : Nat := F.mods.length + 2

/-- the layout constants fit the facts (checked once by `resolvesAll`): the slot is wide enough
for every module, and every name that is ever *bound* has a column (a name that is only read may
lie outside the row: it is never bound, and `State.get` says so) -/
def layoutOk (F : Facts) : Bool :=
  Nat.ble (F.mods.length + 2) (2 ^ F.slotBits) &&
  F.mods.all (fun M =>
    Nat.blt M.short F.nNames &&
    (M.all.getD []).all (fun n => Nat.blt n F.nNames) &&
    let evOk : Ev → Bool := fun e =>
      match e with
      | .bind n | .unbind n | .bindMod n _ | .gbind n | .gunbind n | .alias n _ _ => Nat.blt n F.nNames
      | .fromName _ n a => Nat.blt n F.nNames && Nat.blt a F.nNames
      | _ => true
    M.evs.all evOk && M.funcs.all (fun f => f.evs.all evOk))

end Facts

/-- where a piece of code runs: the module whose `__dict__` is its global namespace, and the
function it belongs to (`none`: module-level code, whose local namespace *is* the global one) -/
structure Scope where
  mod : ModId
  fn : Option Name
  deriving Repr, Inhabited

/-- the name `n` as code in scope `sc` sees it: import-bound locals (functions), the module's
globals, builtins (LEGB; enclosing function scopes are classified away by the translator) -/
def lookupScope (F : Facts) (σ : State) (sc : Scope) (loc : Ns) (n : Name) : Option Val :=
  match (if sc.fn.isSome then lookup n loc else none) with
  | some v => some v
  | none =>
    match σ.get F sc.mod n with
    | some v => some v
    | none => if F.isBuiltin n then some .obj else none

/-- follow `v.a.b.c`: `none` if every attribute is there (or the value is opaque), else the
module and the attribute it lacks -/
def walk (F : Facts) (σ : State) : Val → List Name → Option (ModId × Name)
  | _, [] => none
  | .obj, _ => none
  | .mod p, a :: r =>
    match σ.get F p a with
    | none => some (p, a)
    | some v => walk F σ v r

/-- the names bound in module `m` among `0 .. k-1`, that `import *` takes without `__all__` -/
def publicNames (F : Facts) (σ : State) (m : ModId) : Nat → List Name
  | 0 => []
  | k + 1 =>
    if (σ.get F m k).isSome && !F.isPriv k then publicNames F σ m k ++ [k] else publicNames F σ m k

/-- the names `from m import *` asks for -/
def starNames (F : Facts) (σ : State) (m : ModId) : List Name :=
  match F.modOf m with
  | some M =>
    match M.all with
    | some l => l
    | none => publicNames F σ m F.nNames
  | none => []

/-- bind `n` in the scope code of `sc` writes to -/
def bindIn (F : Facts) (sc : Scope) (loc : Ns) (σ : State) (n : Name) (v : Val) : State × Ns :=
  if sc.fn.isSome then (σ, bindNs n v loc) else (σ.set F sc.mod n (some v), loc)

/-- the result of executing code: the new global state, the import-bound locals, and the
third-party module whose absence made the code raise an `ImportError` that nothing caught -/
structure Out where
  σ : State
  loc : Ns
  exc : Option Nat
  deriving Repr, Inhabited

abbrev Res := Except Err Out

/-- the import machinery as the interpreter of events sees it: the state after the import and
the uncaught `ImportError` (absent third-party module), if any -/
abbrev Imp := ModId → State → Except Err (State × Option Nat)

def outOf (p : State × Ns) (exc : Option Nat) : Out := ⟨p.1, p.2, exc⟩

/-- `from m import n as asn`: attribute, else submodule (imported by `imp` if necessary) -/
def execFrom (F : Facts) (imp : Imp) (sc : Scope)
    (m : ModId) (n asn : Name) (loc : Ns) (σ : State) : Res :=
  match σ.get F m n with
  | some v => .ok (outOf (bindIn F sc loc σ asn v) none)
  | none =>
    match F.childOf m n with
    | none => .error (.importError sc.mod sc.fn m n)
    | some c =>
      match imp c σ with
      | .error e => .error e
      | .ok (σ', some x) => .ok ⟨σ', loc, some x⟩
      | .ok (σ', none) =>
        -- after the import the submodule is an attribute of `m` (unless it is still being
        -- executed: then `IMPORT_FROM` falls back to `sys.modules`)
        match σ'.get F m n with
        | some v => .ok (outOf (bindIn F sc loc σ' asn v) none)
        | none => .ok (outOf (bindIn F sc loc σ' asn (.mod c)) none)

/-- the `from m import n` of every name of a star import, one after the other -/
def execFroms (F : Facts) (imp : Imp) (sc : Scope) (m : ModId) :
    List Name → Ns → State → Res
  | [], loc, σ => .ok ⟨σ, loc, none⟩
  | n :: r, loc, σ =>
    match execFrom F imp sc m n n loc σ with
    | .error e => .error e
    | .ok ⟨σ', loc', some x⟩ => .ok ⟨σ', loc', some x⟩
    | .ok ⟨σ', loc', none⟩ => execFroms F imp sc m r loc' σ'

/-- an exception that unwinds the code: the `ImportError` of an absent third-party module, or one
of the would-be failures (`NameError`, `AttributeError` on a lena module, `ImportError` for a
lena name) on its way to a handler that may catch it -/
inductive Exc where
  | ext (x : Nat)
  | err (e : Err)
  deriving Repr, Inhabited

/-- bit 0: `ImportError`, bit 1: `NameError`, bit 2: `AttributeError`; `0`: nothing catches it -/
def Exc.kind : Exc → Nat
  | .ext _ => 1
  | .err (.nameError _ _ _) => 2
  | .err (.attrError _ _ _ _ _) => 4
  | .err (.importError _ _ _ _) => 1
  | .err (.noModule _ _ _) => 1
  | .err _ => 0

/-- what the interpreter is doing: executing; unwinding because of the exception `x` (looking for
the handler of the innermost enclosing `try`: `d` counts the `try` statements opened while
skipping, `r` the regions); or skipping the handler of a `try` whose body ran to its end -/
inductive Mode where
  | run
  | raising (x : Exc) (d r : Nat)
  | skipping (d r : Nat)
  deriving Repr, Inhabited

/-- follow `v.a.b.c` to the value it denotes (an opaque object ends the chain) -/
def walkVal (F : Facts) (σ : State) : Val → List Name → Except (ModId × Name) Val
  | v, [] => .ok v
  | .obj, _ => .ok .obj
  | .mod p, a :: r =>
    match σ.get F p a with
    | none => .error (p, a)
    | some v => walkVal F σ v r

/-- execute a list of events; `imp` is the import machinery (`ensure`), `saved` the snapshots
taken by `enter` -/
def execEvs (F : Facts) (imp : Imp) (sc : Scope) :
    List Ev → Mode → List (State × Ns) → Ns → State → Res
  | [], .raising (.ext x) _ _, _, loc, σ => .ok ⟨σ, loc, some x⟩   -- goes on to the importer / caller
  | [], .raising (.err e) _ _, _, _, _ => .error e                   -- nothing caught it: the failure
  | [], _, _, loc, σ => .ok ⟨σ, loc, none⟩
  | ev :: rest, .raising x d r, saved, loc, σ =>
    match ev with
    | .tryBegin => execEvs F imp sc rest (.raising x (d + 1) r) saved loc σ
    | .tryExcept mask =>
      match d with
      | 0 =>
        if Nat.land mask x.kind != 0 then execEvs F imp sc rest .run saved loc σ   -- the handler catches it
        else execEvs F imp sc rest (.raising x 1 r) saved loc σ   -- not this handler: on to its `tryEnd`
      | _ + 1 => execEvs F imp sc rest (.raising x d r) saved loc σ
    | .tryEnd => execEvs F imp sc rest (.raising x (d - 1) r) saved loc σ
    | .enter => execEvs F imp sc rest (.raising x d (r + 1)) saved loc σ
    | .leave =>
      match r with
      | r' + 1 => execEvs F imp sc rest (.raising x d r') saved loc σ
      | 0 =>
        match saved with
        | [] => .error .malformed
        | (s, l) :: more => execEvs F imp sc rest (.raising x d 0) more l s
    | _ => execEvs F imp sc rest (.raising x d r) saved loc σ
  | ev :: rest, .skipping d r, saved, loc, σ =>
    match ev with
    | .tryBegin => execEvs F imp sc rest (.skipping (d + 1) r) saved loc σ
    | .tryEnd =>
      match d with
      | 0 => execEvs F imp sc rest .run saved loc σ
      | d' + 1 => execEvs F imp sc rest (.skipping d' r) saved loc σ
    | .tryElse =>
      match d with
      | 0 => execEvs F imp sc rest .run saved loc σ      -- the body ran to its end: the `else` part runs
      | _ + 1 => execEvs F imp sc rest (.skipping d r) saved loc σ
    | .enter => execEvs F imp sc rest (.skipping d (r + 1)) saved loc σ
    | .leave =>
      match r with
      | r' + 1 => execEvs F imp sc rest (.skipping d r') saved loc σ
      | 0 =>
        match saved with
        | [] => .error .malformed
        | (s, l) :: more => execEvs F imp sc rest (.skipping d 0) more l s
    | _ => execEvs F imp sc rest (.skipping d r) saved loc σ
  | ev :: rest, .run, saved, loc, σ =>
    match ev with
    | .bind n =>
      match bindIn F sc loc σ n .obj with
      | (σ', loc') => execEvs F imp sc rest .run saved loc' σ'
    | .bindMod n m =>
      -- an import statement binds its module after the import: the module is in `sys.modules`
      match σ.statusOf m with
      | .absent => .error .malformed
      | _ =>
        match bindIn F sc loc σ n (.mod m) with
        | (σ', loc') => execEvs F imp sc rest .run saved loc' σ'
    | .unbind n =>
      if sc.fn.isSome then
        match lookup n loc with
        | some _ => execEvs F imp sc rest .run saved (erase n loc) σ
        | none => execEvs F imp sc rest (.raising (.err (.nameError sc.mod sc.fn n)) 0 0) saved loc σ
      else
        match σ.get F sc.mod n with
        | some _ => execEvs F imp sc rest .run saved loc (σ.set F sc.mod n none)
        | none => execEvs F imp sc rest (.raising (.err (.nameError sc.mod sc.fn n)) 0 0) saved loc σ
    | .load n =>
      match lookupScope F σ sc loc n with
      | some _ => execEvs F imp sc rest .run saved loc σ
      | none => execEvs F imp sc rest (.raising (.err (.nameError sc.mod sc.fn n)) 0 0) saved loc σ
    | .attr root chain =>
      match lookupScope F σ sc loc root with
      | none => execEvs F imp sc rest (.raising (.err (.nameError sc.mod sc.fn root)) 0 0) saved loc σ
      | some v =>
        match walk F σ v chain with
        | none => execEvs F imp sc rest .run saved loc σ
        | some (p, a) =>
          execEvs F imp sc rest (.raising (.err (.attrError sc.mod sc.fn root p a)) 0 0) saved loc σ
    | .alias n root chain =>
      match lookupScope F σ sc loc root with
      | none => execEvs F imp sc rest (.raising (.err (.nameError sc.mod sc.fn root)) 0 0) saved loc σ
      | some v =>
        match walkVal F σ v chain with
        | .error (p, a) =>
          execEvs F imp sc rest (.raising (.err (.attrError sc.mod sc.fn root p a)) 0 0) saved loc σ
        | .ok w =>
          match bindIn F sc loc σ n w with
          | (σ', loc') => execEvs F imp sc rest .run saved loc' σ'
    | .ensure m =>
      match imp m σ with
      | .error e => .error e
      | .ok (σ', none) => execEvs F imp sc rest .run saved loc σ'
      | .ok (σ', some x) => execEvs F imp sc rest (.raising (.ext x) 0 0) saved loc σ'
    | .fromName m n asn =>
      match execFrom F imp sc m n asn loc σ with
      | .error (.importError a b c d) =>
        -- this statement's own `ImportError: cannot import name`: a handler of this code may catch it
        execEvs F imp sc rest (.raising (.err (.importError a b c d)) 0 0) saved loc σ
      | .error e => .error e
      | .ok ⟨σ', loc', none⟩ => execEvs F imp sc rest .run saved loc' σ'
      | .ok ⟨σ', loc', some x⟩ => execEvs F imp sc rest (.raising (.ext x) 0 0) saved loc' σ'
    | .star m =>
      match execFroms F imp sc m (starNames F σ m) loc σ with
      | .error e => .error e
      | .ok ⟨σ', loc', none⟩ => execEvs F imp sc rest .run saved loc' σ'
      | .ok ⟨σ', loc', some x⟩ => execEvs F imp sc rest (.raising (.ext x) 0 0) saved loc' σ'
    | .noModule n => execEvs F imp sc rest (.raising (.err (.noModule sc.mod sc.fn n)) 0 0) saved loc σ
    | .enter => execEvs F imp sc rest .run ((σ, loc) :: saved) loc σ
    | .leave =>
      match saved with
      | [] => .error .malformed
      | (s, l) :: more => execEvs F imp sc rest .run more l s
    | .ext x =>
      if F.isAbsent x then execEvs F imp sc rest (.raising (.ext x) 0 0) saved loc σ
      else execEvs F imp sc rest .run saved loc σ
    | .tryBegin => execEvs F imp sc rest .run saved loc σ
    | .tryExcept _ => execEvs F imp sc rest (.skipping 0 0) saved loc σ
    | .tryEnd => execEvs F imp sc rest .run saved loc σ
    | .tryElse => execEvs F imp sc rest (.skipping 0 0) saved loc σ   -- the handler ran: no `else` part
    | .gbind n => execEvs F imp sc rest .run saved loc (σ.set F sc.mod n (some .obj))
    | .gunbind n =>
      match σ.get F sc.mod n with
      | some _ => execEvs F imp sc rest .run saved loc (σ.set F sc.mod n none)
      | none => execEvs F imp sc rest (.raising (.err (.nameError sc.mod sc.fn n)) 0 0) saved loc σ

/-- the import machinery: `importMod F k m σ` makes sure `m` is in `sys.modules`, executing its
code if it is not (`k` bounds the nesting depth of imports).  If the code raises an
`ImportError` that it does not catch, the module is removed from `sys.modules` again and the
error goes on to the importer. -/
def importMod (F : Facts) : Nat → Imp
  | 0, _, _ => .error .outOfFuel
  | k + 1, m, σ =>
    match F.modOf m with
    | none => .error .malformed
    | some M =>
      let go (σ₀ : State) : Except Err (State × Option Nat) :=
        match execEvs F (importMod F k) ⟨m, none⟩ M.evs .run [] [] (σ₀.setStatus m .running) with
        | .error e => .error e
        | .ok ⟨σ', _, some x⟩ => .ok (σ'.setStatus m .failed, some x)
        | .ok ⟨σ', _, none⟩ =>
          -- fully initialised; it becomes an attribute of its package
          let σ'' := σ'.setStatus m .done
          match M.parent with
          | none => .ok (σ'', none)
          | some p => .ok (σ''.set F p M.short (some (.mod m)), none)
      match σ.statusOf m with
      | .absent => go σ
      | .failed => go (σ.clearRow F m)
      | _ => .ok (σ, none)

/-- a fresh interpreter executes the entry module `e` (`import lena.X; from lena.X import *`) -/
def importEntry (F : Facts) (e : ModId) : Except Err (State × Option Nat) :=
  importMod F F.depth e State.init

/-- a call of `f` (defined in module `m`) in state `σ`: all its loads, in source order.  A call
that ends with the `ImportError` of an absent third-party module has ended in the documented
way: it returns the state it reached. -/
def callFn (F : Facts) (m : ModId) (f : Func) (σ : State) : Except Err State :=
  match execEvs F (importMod F F.depth) ⟨m, some f.name⟩ f.evs .run [] [] σ with
  | .error e => .error e
  | .ok out => .ok out.σ

/-! ## Which handlers run (the traced interpreter)

Clause 1b of the property ("behaves the same with only its own sub-package imported as after the
whole framework has been imported") has one consequence the facts can express: a would-be failure
— `NameError`, `AttributeError` on a lena module, `ImportError` for a lena name — that a handler
*catches* is not a failure of the function, but if it happens with only `lena.X` imported and does
not happen after everything has been imported (`try: … lena.structures.histogram … except
AttributeError:`), the function takes the handler in one interpreter and not in the other.
`execEvsT` is `execEvs` with one more accumulator: the failures that handlers caught, in order.
(`hasattr(lena, "x")` / `getattr(lena, "x", default)` are translated as a guarded read of
`lena.x`, so that they are covered as well.)  A handler whose mask has bit 3 set repairs the
failure by importing — both interpreters go on alike — and is not recorded. -/

/-- what a catching handler adds to the trace -/
def traceCatch (mask : Nat) (x : Exc) (tr : List Err) : List Err :=
  match x with
  | .err e => if Nat.land mask 8 != 0 then tr else tr ++ [e]
  | .ext _ => tr

/-- `execEvs` with the trace of caught failures (`imp` is not traced: what the import machinery
catches while it executes *other* modules belongs to those modules' import, not to this code) -/
def execEvsT (F : Facts) (imp : Imp) (sc : Scope) :
    List Ev → Mode → List (State × Ns) → Ns → State → List Err → Res × List Err
  | [], .raising (.ext x) _ _, _, loc, σ, tr => (.ok ⟨σ, loc, some x⟩, tr)
  | [], .raising (.err e) _ _, _, _, _, tr => (.error e, tr)
  | [], _, _, loc, σ, tr => (.ok ⟨σ, loc, none⟩, tr)
  | ev :: rest, .raising x d r, saved, loc, σ, tr =>
    match ev with
    | .tryBegin => execEvsT F imp sc rest (.raising x (d + 1) r) saved loc σ tr
    | .tryExcept mask =>
      match d with
      | 0 =>
        if Nat.land mask x.kind != 0 then execEvsT F imp sc rest .run saved loc σ (traceCatch mask x tr)
        else execEvsT F imp sc rest (.raising x 1 r) saved loc σ tr
      | _ + 1 => execEvsT F imp sc rest (.raising x d r) saved loc σ tr
    | .tryEnd => execEvsT F imp sc rest (.raising x (d - 1) r) saved loc σ tr
    | .enter => execEvsT F imp sc rest (.raising x d (r + 1)) saved loc σ tr
    | .leave =>
      match r with
      | r' + 1 => execEvsT F imp sc rest (.raising x d r') saved loc σ tr
      | 0 =>
        match saved with
        | [] => (.error .malformed, tr)
        | (s, l) :: more => execEvsT F imp sc rest (.raising x d 0) more l s tr
    | _ => execEvsT F imp sc rest (.raising x d r) saved loc σ tr
  | ev :: rest, .skipping d r, saved, loc, σ, tr =>
    match ev with
    | .tryBegin => execEvsT F imp sc rest (.skipping (d + 1) r) saved loc σ tr
    | .tryEnd =>
      match d with
      | 0 => execEvsT F imp sc rest .run saved loc σ tr
      | d' + 1 => execEvsT F imp sc rest (.skipping d' r) saved loc σ tr
    | .tryElse =>
      match d with
      | 0 => execEvsT F imp sc rest .run saved loc σ tr
      | _ + 1 => execEvsT F imp sc rest (.skipping d r) saved loc σ tr
    | .enter => execEvsT F imp sc rest (.skipping d (r + 1)) saved loc σ tr
    | .leave =>
      match r with
      | r' + 1 => execEvsT F imp sc rest (.skipping d r') saved loc σ tr
      | 0 =>
        match saved with
        | [] => (.error .malformed, tr)
        | (s, l) :: more => execEvsT F imp sc rest (.skipping d 0) more l s tr
    | _ => execEvsT F imp sc rest (.skipping d r) saved loc σ tr
  | ev :: rest, .run, saved, loc, σ, tr =>
    match ev with
    | .bind n =>
      match bindIn F sc loc σ n .obj with
      | (σ', loc') => execEvsT F imp sc rest .run saved loc' σ' tr
    | .bindMod n m =>
      match σ.statusOf m with
      | .absent => (.error .malformed, tr)
      | _ =>
        match bindIn F sc loc σ n (.mod m) with
        | (σ', loc') => execEvsT F imp sc rest .run saved loc' σ' tr
    | .unbind n =>
      if sc.fn.isSome then
        match lookup n loc with
        | some _ => execEvsT F imp sc rest .run saved (erase n loc) σ tr
        | none => execEvsT F imp sc rest (.raising (.err (.nameError sc.mod sc.fn n)) 0 0) saved loc σ tr
      else
        match σ.get F sc.mod n with
        | some _ => execEvsT F imp sc rest .run saved loc (σ.set F sc.mod n none) tr
        | none => execEvsT F imp sc rest (.raising (.err (.nameError sc.mod sc.fn n)) 0 0) saved loc σ tr
    | .load n =>
      match lookupScope F σ sc loc n with
      | some _ => execEvsT F imp sc rest .run saved loc σ tr
      | none => execEvsT F imp sc rest (.raising (.err (.nameError sc.mod sc.fn n)) 0 0) saved loc σ tr
    | .attr root chain =>
      match lookupScope F σ sc loc root with
      | none => execEvsT F imp sc rest (.raising (.err (.nameError sc.mod sc.fn root)) 0 0) saved loc σ tr
      | some v =>
        match walk F σ v chain with
        | none => execEvsT F imp sc rest .run saved loc σ tr
        | some (p, a) =>
          execEvsT F imp sc rest (.raising (.err (.attrError sc.mod sc.fn root p a)) 0 0) saved loc σ tr
    | .alias n root chain =>
      match lookupScope F σ sc loc root with
      | none => execEvsT F imp sc rest (.raising (.err (.nameError sc.mod sc.fn root)) 0 0) saved loc σ tr
      | some v =>
        match walkVal F σ v chain with
        | .error (p, a) =>
          execEvsT F imp sc rest (.raising (.err (.attrError sc.mod sc.fn root p a)) 0 0) saved loc σ tr
        | .ok w =>
          match bindIn F sc loc σ n w with
          | (σ', loc') => execEvsT F imp sc rest .run saved loc' σ' tr
    | .ensure m =>
      match imp m σ with
      | .error e => (.error e, tr)
      | .ok (σ', none) => execEvsT F imp sc rest .run saved loc σ' tr
      | .ok (σ', some x) => execEvsT F imp sc rest (.raising (.ext x) 0 0) saved loc σ' tr
    | .fromName m n asn =>
      match execFrom F imp sc m n asn loc σ with
      | .error (.importError a b c d) =>
        execEvsT F imp sc rest (.raising (.err (.importError a b c d)) 0 0) saved loc σ tr
      | .error e => (.error e, tr)
      | .ok ⟨σ', loc', none⟩ => execEvsT F imp sc rest .run saved loc' σ' tr
      | .ok ⟨σ', loc', some x⟩ => execEvsT F imp sc rest (.raising (.ext x) 0 0) saved loc' σ' tr
    | .star m =>
      match execFroms F imp sc m (starNames F σ m) loc σ with
      | .error e => (.error e, tr)
      | .ok ⟨σ', loc', none⟩ => execEvsT F imp sc rest .run saved loc' σ' tr
      | .ok ⟨σ', loc', some x⟩ => execEvsT F imp sc rest (.raising (.ext x) 0 0) saved loc' σ' tr
    | .noModule n => execEvsT F imp sc rest (.raising (.err (.noModule sc.mod sc.fn n)) 0 0) saved loc σ tr
    | .enter => execEvsT F imp sc rest .run ((σ, loc) :: saved) loc σ tr
    | .leave =>
      match saved with
      | [] => (.error .malformed, tr)
      | (s, l) :: more => execEvsT F imp sc rest .run more l s tr
    | .ext x =>
      if F.isAbsent x then execEvsT F imp sc rest (.raising (.ext x) 0 0) saved loc σ tr
      else execEvsT F imp sc rest .run saved loc σ tr
    | .tryBegin => execEvsT F imp sc rest .run saved loc σ tr
    | .tryExcept _ => execEvsT F imp sc rest (.skipping 0 0) saved loc σ tr
    | .tryEnd => execEvsT F imp sc rest .run saved loc σ tr
    | .tryElse => execEvsT F imp sc rest (.skipping 0 0) saved loc σ tr
    | .gbind n => execEvsT F imp sc rest .run saved loc (σ.set F sc.mod n (some .obj)) tr
    | .gunbind n =>
      match σ.get F sc.mod n with
      | some _ => execEvsT F imp sc rest .run saved loc (σ.set F sc.mod n none) tr
      | none => execEvsT F imp sc rest (.raising (.err (.nameError sc.mod sc.fn n)) 0 0) saved loc σ tr

/-- the failures that handlers of `f` itself catch when `f` is called in state `σ` -/
def callCaught (F : Facts) (m : ModId) (f : Func) (σ : State) : List Err :=
  (execEvsT F (importMod F F.depth) ⟨m, some f.name⟩ f.evs .run [] [] σ []).2

/-- the entry point that imports the whole framework: the last one (`__main__[all]`) -/
def wholeEntry (F : Facts) : Option ModId := F.entries.getLast?

def errBeq (a b : Err) : Bool := decide (a = b)

def errsBeq : List Err → List Err → Bool
  | [], [] => true
  | a :: r, b :: s => errBeq a b && errsBeq r s
  | _, _ => false

/-! ## The resolver (the executable check) -/

def zipIdx {α} : List α → Nat → List (Nat × α)
  | [], _ => []
  | a :: r, i => (i, a) :: zipIdx r (i + 1)

/-- all `(m, f)` with `f` a function of a fully initialised module `m`: what a program can call -/
def callables (F : Facts) (σ : State) : List (ModId × Func) :=
  (zipIdx F.mods 0).flatMap (fun (m, M) =>
    match σ.statusOf m with
    | .done => M.funcs.map (fun f => (m, f))
    | _ => [])

def isOk {ε α} : Except ε α → Bool
  | .ok _ => true
  | .error _ => false

/-- is `σ` one of `seen`? -/
def seenIn (seen : List State) (σ : State) : Bool := seen.any (fun s => decide (s = σ))

/-- a call that fails: the state it was made in, the function, the failure -/
structure Failure where
  state : State
  mod : ModId
  func : Func
  err : Err
  deriving Repr

/-- call every function of `fs` in `σ`: the first failing call, or else the states reached that
are not in `acc` yet, appended to `acc` -/
def callAll (F : Facts) (σ : State) : List (ModId × Func) → List State → Except Failure (List State)
  | [], acc => .ok acc
  | (m, f) :: r, acc =>
    match callFn F m f σ with
    | .error e => .error ⟨σ, m, f, e⟩
    | .ok σ' => σ'.force (fun s => callAll F σ r (if seenIn acc s then acc else acc ++ [s]))

/-- the outcome of the exploration -/
inductive Explored where
  /-- the set of states is closed under calls, and no call fails -/
  | closed (seen : List State)
  /-- a call fails in a reachable state -/
  | failed (w : Failure)
  /-- more states than the bound allows -/
  | bound
  deriving Repr

/-- breadth-first closure of a set of states under calls: `work` are the states still to be
looked at, `seen` all states met so far (`work ⊆ seen`) -/
def explore (F : Facts) : Nat → List State → List State → Explored
  | _, [], seen => .closed seen
  | 0, _ :: _, _ => .bound
  | k + 1, σ :: work, seen =>
    match callAll F σ (callables F σ) seen with
    | .error w => .failed w
    | .ok seen' => explore F k (work ++ seen'.drop seen.length) seen'

def Explored.isClosed : Explored → Bool
  | .closed _ => true
  | _ => false

def exploreBound : Nat := 64

/-- the advertised names of the package the entry imports exist: `__all__` of every package
mentioned by a `star` of the entry module is a literal list, and every name in it is an attribute
of the package after the entry's import.  (The star import itself is executed by the entry — in
a region, so that what it may load does not count as "imported by `import lena.X`"; that it
succeeds is part of `importEntry … = ok`.) -/
def exportedB (F : Facts) (e : ModId) (σ : State) : Bool :=
  match F.modOf e with
  | none => false
  | some M =>
    M.evs.all (fun ev =>
      match ev with
      | .star p =>
        match F.modOf p with
        | some P => !P.allDynamic && (P.all.getD []).all (fun n => (σ.get F p n).isSome)
        | none => false
      | _ => true)

/-- the check for one entry point (in the environment `F.absent`) -/
def resolvesEntry (F : Facts) (e : ModId) : Bool :=
  match importEntry F e with
  | .error _ => false
  | .ok (_, some _) => false     -- the import itself needs a third-party module unconditionally
  | .ok (σ, none) => σ.force (fun s => exportedB F e s && (explore F exploreBound [s] [s]).isClosed)

/-- **the check**: for every entry point, the import and the star import succeed, the advertised
names exist, and in every state reachable afterwards every callable function resolves -/
def resolvesAll (F : Facts) : Bool :=
  F.layoutOk && F.entries.all (resolvesEntry F)

/-- **the check over the environments**: `resolvesAll` in every environment of `F.envs`, i.e.
whichever of the optional third-party modules (jinja2, …) can or cannot be imported -/
def resolvesAllEnvs (F : Facts) : Bool :=
  F.envs.all (fun env => resolvesAll (F.withEnv env))

/-- has the function a handler at all?  (without one its trace is empty: `callCaught_nil`) -/
def hasHandler (f : Func) : Bool :=
  f.evs.any (fun e => match e with | .tryExcept _ => true | _ => false)

/-- **the check for clause 1b, as far as names go**: every function that can be called after
`import lena.X` takes the same handlers for undefined-name failures in the fresh interpreter that
imported only `lena.X` (state `so`) as in the one that imported the whole framework (`sw`) -/
def orderIndependentStates (F : Facts) (so sw : State) : Bool :=
  (callables F so).all (fun mf =>
    !hasHandler mf.2 ||
    match sw.statusOf mf.1 with
    | .done => errsBeq (callCaught F mf.1 mf.2 so) (callCaught F mf.1 mf.2 sw)
    | _ => true)

/-- … for the entry point `own`, against the state `sw` after the import of the whole framework -/
def orderIndependentEntry (F : Facts) (sw : State) (own : ModId) : Bool :=
  match importEntry F own with
  | .ok (σo, none) => σo.force (fun so => orderIndependentStates F so sw)
  | _ => true      -- a failing import is `resolvesEntry`'s business

/-- `orderIndependentEntry` for every entry point, against the state after the import of the
whole framework -/
def orderIndependent (F : Facts) : Bool :=
  match wholeEntry F with
  | some whole =>
    match importEntry F whole with
    | .ok (σw, none) => σw.force (fun sw => F.entries.all (orderIndependentEntry F sw))
    | _ => true
  | none => true

/-- in every environment -/
def orderIndependentEnvs (F : Facts) : Bool :=
  F.envs.all (fun env => orderIndependent (F.withEnv env))

/-! ## Exceptions and locals (static facts about `class` and `raise` statements)

"Invalid arguments and missing keys are reported with the documented LenaException subclasses":
what can be said over the facts is (1) every class of `lena/core/exceptions.py` has
`LenaException` among its ancestors, (2) every `raise` statement that names a class names a
class of the tree that derives from `LenaException`, or a builtin that has no lena counterpart
(`ImportError`, `StopIteration`) — a builtin such as `TypeError`, which `LenaTypeError` wraps, is
accepted only where Python's attribute protocol demands it (`__getattr__` must raise
`AttributeError`). -/

/-- class `i` has class `r` among its ancestors (through classes of the tree), `k` levels deep -/
def derivesB (F : Facts) : Nat → Nat → Nat → Bool
  | 0, i, r => Nat.beq i r
  | k + 1, i, r =>
    Nat.beq i r ||
      match F.classes[i]? with
      | some C => C.bases.any (fun b => match b with | .cls j => derivesB F k j r | _ => false)
      | none => false

/-- the builtin exceptions that a documented lena exception wraps (`TypeError`, `KeyError`, …) -/
def counterparts (F : Facts) : List Name :=
  F.classes.flatMap (fun C =>
    if C.isLenaExc then C.bases.filterMap (fun b => match b with | .builtin n => some n | _ => none) else [])

def raiseOkB (F : Facts) (r : RaiseFact) : Bool :=
  match r.what with
  | .cls i => match F.excRoot with | some root => derivesB F F.classes.length i root | none => false
  | .builtin b => r.protocol || !(counterparts F).any (Nat.beq b)
  | .unknown => true

/-- the documented exceptions derive from `LenaException`, and `raise` statements name them -/
def exceptionsOk (F : Facts) : Bool :=
  (match F.excRoot with
   | some root => (zipIdx F.classes 0).all (fun iC => !iC.2.isLenaExc || derivesB F F.classes.length iC.1 root)
   | none => false) &&
  F.raises.all (raiseOkB F)

/-- every possibly-unbound read of a local is an audited one -/
def localsOk (F : Facts) : Bool := F.maybeUnbound.all (·.audited)

/-! ## Locals that are certainly unbound where they are read

The second source of `NameError`: `UnboundLocalError` is its subclass.  The translator
(`harness/extract_facts.py`, class `DeadLoads`) runs a definite-UNassignment analysis over every
function: a local is *certainly unbound* at a point when every path from the function's entry to that
point leaves it unbound — nothing has bound it yet, a `del` has removed it, or an
`except E as name:` clause has ended (Python 3 deletes `name` there, however the clause is left).
A read of such a local raises `UnboundLocalError` whenever it is reached.  Conditionally bound
locals (bound on some path) are never listed: those stay hints (`UnboundFact`). -/

/-- a read (or `del`) of a local that is certainly unbound where it is executed -/
structure DeadLoad where
  mod : ModId
  fn : Name
  var : Name
  line : Nat
  /-- what left the name unbound: `0` the end of `except … as var`, `1` `del var`, `2` nothing has bound it yet -/
  cause : Nat
  deriving DecidableEq, Repr, Inhabited

/-- the `NameError`s (`UnboundLocalError`s) that the certainly-unbound reads stand for -/
def localNameErrors (D : List DeadLoad) : List Err :=
  D.map (fun d => Err.nameError d.mod (some d.fn) d.var)

/-- the certainly-unbound reads of one function -/
def deadLoadsOf (D : List DeadLoad) (m : ModId) (fn : Name) : List DeadLoad :=
  D.filter (fun d => d.mod == m && d.fn == fn)

/-- no function of the tree reads a local that is certainly unbound -/
def deadLoadsOk (D : List DeadLoad) : Bool := D.isEmpty

/-! ## Diagnosis (what the driver prints; mirrors `resolvesAll`, but collects the failures) -/

structure Finding where
  entry : ModId
  /-- `none`: the import of the entry itself -/
  func : Option (ModId × Name × Nat)
  /-- `none`: the import of the entry ends with the `ImportError` of an absent third-party module -/
  err : Option Err
  /-- that module -/
  ext : Option Nat := none
  deriving Repr

/-- states reachable by calls, ignoring failing calls -/
def reachStates (F : Facts) : Nat → List State → List State → List State
  | _, [], seen => seen
  | 0, _ :: _, seen => seen
  | k + 1, σ :: work, seen =>
    let succ := (callables F σ).filterMap (fun (m, f) =>
      match callFn F m f σ with
      | .ok σ' => if σ' = σ then none else some σ'
      | .error _ => none)
    let seen' := succ.foldl (fun acc s => if seenIn acc s then acc else acc ++ [s]) seen
    reachStates F k (work ++ seen'.drop seen.length) seen'

def diagnoseEntry (F : Facts) (e : ModId) : List Finding :=
  match importEntry F e with
  | .error err => [⟨e, none, some err, none⟩]
  | .ok (_, some x) => [⟨e, none, none, some x⟩]
  | .ok (σ, none) =>
    (reachStates F exploreBound [σ] [σ]).flatMap (fun s =>
      (callables F s).filterMap (fun (m, f) =>
        match callFn F m f s with
        | .ok _ => none
        | .error err => some ⟨e, some (m, f.name, f.line), some err, none⟩))

def diagnose (F : Facts) : List Finding := F.entries.flatMap (diagnoseEntry F)

/-! ## Static import closure (a second, order-free description of what `import X` loads)

A set of modules is a bit set (`Nat`).  The closure of an entry is the least set that contains
it and, with every module, the modules its module-level code can make the import machinery
load: fixpoint iteration with fuel = number of modules. -/

def childrenFrom (p : ModId) : List Module → Nat → List ModId
  | [], _ => []
  | M :: r, i =>
    match M.parent with
    | some q => if Nat.beq q p then i :: childrenFrom p r (i + 1) else childrenFrom p r (i + 1)
    | none => childrenFrom p r (i + 1)

/-- the submodules of package `p` -/
def Facts.childrenOf (F : Facts) (p : ModId) : List ModId := childrenFrom p F.mods 0

/-- the modules an event can make the import machinery load: the target of an `ensure`, the
submodule a `from m import n` may fall back to, any submodule of `m` for `from m import *` -/
def evTargets (F : Facts) : Ev → List ModId
  | .ensure m => [m]
  | .fromName m n _ => match F.childOf m n with | some c => [c] | none => []
  | .star m => F.childrenOf m
  | _ => []

def memSet (S : Nat) (m : ModId) : Bool := Nat.testBit S m
def addSet (S : Nat) (m : ModId) : Nat := S ||| (1 <<< m)

def addTargets (F : Facts) (S : Nat) (evs : List Ev) : Nat :=
  evs.foldl (fun acc e => (evTargets F e).foldl addSet acc) S

/-- one round: add the targets of the module-level code of every member -/
def closureRound (F : Facts) (S : Nat) : Nat :=
  (zipIdx F.mods 0).foldl (fun acc (iM : Nat × Module) => if memSet S iM.1 then addTargets F acc iM.2.evs else acc) S

def closureIter (F : Facts) : Nat → Nat → Nat
  | 0, S => S
  | k + 1, S => let S' := closureRound F S; if Nat.beq S' S then S else closureIter F k S'

/-- fixpoint with fuel = number of modules -/
def importClosure (F : Facts) (m : ModId) : Nat := closureIter F F.mods.length (addSet 0 m)

/-- `S` is closed: the import targets of the module-level code of every member are members -/
def closedSetB (F : Facts) (S : Nat) : Bool :=
  (zipIdx F.mods 0).all (fun (iM : Nat × Module) =>
    !memSet S iM.1 || iM.2.evs.all (fun e => (evTargets F e).all (memSet S)))

/-- the closure of every entry point is closed and contains the entry (checked by the kernel
for the current tree: the fuel sufficed) -/
def closuresOk (F : Facts) : Bool :=
  F.entries.all (fun e => forceNat (importClosure F e) (fun S => memSet S e && closedSetB F S))

def setToList (F : Facts) (S : Nat) : List ModId := (List.range F.mods.length).filter (memSet S)

/-- the modules in `sys.modules` in state `σ` -/
def loadedMods (F : Facts) (σ : State) : List ModId :=
  (List.range F.mods.length).filter (fun i =>
    match σ.statusOf i with | .running | .done => true | _ => false)

/-- the names bound in module `m` -/
def boundIn (F : Facts) (σ : State) (m : ModId) : List (Name × Val) :=
  (List.range F.nNames).filterMap (fun n => (σ.get F m n).map (fun v => (n, v)))

end Lena.C20
