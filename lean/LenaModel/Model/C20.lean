/-! # C20 model — names, imports and their resolution (`lena/**/*.py`, all modules)

Property C20 speaks about *every* module, function and advertised name of lena at once, so the
model is not a transcription of one function but a small **abstract machine for the part of
Python's semantics the property depends on**, run on *facts* that a translator
(`harness/extract_facts.py`, Python `ast` + `symtable`) regenerates from the working tree on
every check (`LenaModel/Gen/C20Facts.lean`).  What the machine models:

* `sys.modules` and the import machinery (`importlib._bootstrap._find_and_load`): a module is
  executed at most once, parents before children; while it is being executed it is already in
  `sys.modules` (*partially initialised* — circular imports see the names bound so far); when
  the execution of `pkg.sub` ends, `setattr(pkg, "sub", module)` is performed — so
  **`lena.flow` is an attribute of the package `lena` only after somebody imported `lena.flow`**;
* `from m import n` (`IMPORT_FROM`): attribute `n` of `m`, else the submodule `m.n` (imported
  on demand), else `ImportError`; `from m import *` over `__all__` or the public names;
* name lookup of CPython's compiler (LEGB): the translator classifies every name with CPython's
  own `symtable`; locals are invisible here except locals bound by an `import` statement;
  a *load* of a global looks in the module's namespace, then in `builtins`, else `NameError`;
* attribute chains `a.b.c` are followed as long as the value is a lena module; an attribute a
  module does not have is `AttributeError` (on a lena module); any other object is *opaque*;
* a **call** of a function executes *every* load of its body (all paths at once), after the
  imports that precede it in the body; regions whose execution is not certain (`if`, loops,
  handlers) are bracketed by `enter`/`leave` and leave no trace.

Identifiers are interned by the translator: `Name` and `ModId` are natural numbers (the kernel
evaluates the instance theorem, and compares numbers, not strings); names below
`Facts.nBuiltins` are `dir(builtins)`.  No imports: executed by `drivers/C20.lean`. -/

namespace Lena.C20

abbrev Name := Nat
abbrev ModId := Nat

/-- what a name is bound to: a lena module, or an object the resolver knows nothing about -/
inductive Val where
  | opaque
  | mod (m : ModId)
  deriving DecidableEq, Repr, Inhabited

/-- one event of module-level code or of a function body, in source order -/
inductive Ev where
  /-- `n = <object>`: `def`, `class`, assignment, import of a module outside lena -/
  | bind (n : Name)
  /-- `import lena.flow` binds `lena` to the module `lena`; `import a.b as x` binds `x` to `a.b` -/
  | bindMod (n : Name) (m : ModId)
  /-- `del n` -/
  | unbind (n : Name)
  /-- a read of the name `n` (global, or a local bound by an import statement) -/
  | load (n : Name)
  /-- a read of `root.a.b.c` -/
  | attr (root : Name) (chain : List Name)
  /-- the import machinery makes sure module `m` is in `sys.modules` (executing it if it is not) -/
  | ensure (m : ModId)
  /-- `from m import n as asn` for one name -/
  | fromName (m : ModId) (n : Name) (asn : Name)
  /-- `from m import *` -/
  | star (m : ModId)
  /-- import of a module of the lena tree that does not exist (`n` is its dotted name) -/
  | noModule (n : Name)
  /-- start / end of a region that may not be executed: its effects are dropped at `leave` -/
  | enter
  | leave
  deriving DecidableEq, Repr, Inhabited

/-- a function, method or lambda body (call-time code) -/
structure Func where
  name : Name
  line : Nat
  evs : List Ev
  deriving DecidableEq, Repr, Inhabited

structure Module where
  /-- dotted name (display only) -/
  name : Name
  parent : Option ModId
  /-- attribute name on the parent package -/
  short : Name
  /-- `__all__` when it is a literal list -/
  all : Option (List Name)
  /-- module-level code (import time), class bodies and `def` headers included -/
  evs : List Ev
  funcs : List Func
  deriving Repr, Inhabited

structure Facts where
  mods : List Module
  /-- entry points: synthetic `__main__` modules `import lena.X; from lena.X import *` -/
  entries : List ModId
  /-- names `< nBuiltins` are the names of `builtins` -/
  nBuiltins : Nat
  /-- names starting with an underscore (not taken by `import *` without `__all__`) -/
  priv : List Name
  deriving Repr, Inhabited

/-- the failures the property is about (plus the two ways the machine itself can give up) -/
inductive Err where
  /-- `NameError: name 'n' is not defined` in module `m`, function `fn` (`none`: module level) -/
  | nameError (m : ModId) (fn : Option Name) (n : Name)
  /-- `AttributeError: module 'on' has no attribute 'a'` while reading `root. … .a` -/
  | attrError (m : ModId) (fn : Option Name) (root : Name) (on : ModId) (a : Name)
  /-- `ImportError: cannot import name 'n' from 'src'` -/
  | importError (m : ModId) (fn : Option Name) (src : ModId) (n : Name)
  /-- `ModuleNotFoundError` for a module of the lena tree -/
  | noModule (m : ModId) (fn : Option Name) (n : Name)
  | outOfFuel
  | malformed
  deriving DecidableEq, Repr, Inhabited

inductive Status where
  | absent   -- not in sys.modules
  | running  -- in sys.modules, its code is being executed (partially initialised)
  | done
  deriving DecidableEq, Repr, Inhabited

/-- a namespace (`module.__dict__`, or the import-bound locals of a frame) -/
abbrev Ns := List (Name × Val)

structure State where
  status : List Status
  ns : List Ns
  deriving DecidableEq, Repr, Inhabited

def lookup (n : Name) : Ns → Option Val
  | [] => none
  | (k, v) :: r => if Nat.beq k n then some v else lookup n r

def erase (n : Name) : Ns → Ns
  | [] => []
  | (k, v) :: r => if Nat.beq k n then r else (k, v) :: erase n r

/-- `ns[n] = v` (at most one entry per name) -/
def bindNs (n : Name) (v : Val) (ns : Ns) : Ns := (n, v) :: erase n ns

namespace State

def statusOf (σ : State) (m : ModId) : Status := σ.status.getD m .absent
def nsOf (σ : State) (m : ModId) : Ns := σ.ns.getD m []
def setStatus (σ : State) (m : ModId) (s : Status) : State := { σ with status := σ.status.set m s }
def setNs (σ : State) (m : ModId) (ns : Ns) : State := { σ with ns := σ.ns.set m ns }
def bindGlobal (σ : State) (m : ModId) (n : Name) (v : Val) : State := σ.setNs m (bindNs n v (σ.nsOf m))

end State

/-- a frame of the machine: the rest of a module's code or of a function body -/
structure Frame where
  /-- the module whose `__dict__` is the global namespace of this code -/
  mod : ModId
  /-- `none`: module-level code (its local namespace *is* the global one) -/
  fn : Option Name
  /-- locals bound by import statements (function frames only) -/
  locals : Ns
  evs : List Ev
  /-- snapshots taken by `enter` -/
  saved : List (State × Ns)
  deriving Repr, Inhabited

inductive Step where
  | next (stack : List Frame) (σ : State)
  | halt (σ : State)
  | fail (e : Err)
  deriving Repr, Inhabited

namespace Facts

def modOf (F : Facts) (m : ModId) : Option Module := F.mods[m]?

def findChild (p : ModId) (n : Name) : List Module → Nat → Option ModId
  | [], _ => none
  | M :: r, i =>
    match M.parent with
    | some q => if Nat.beq q p && Nat.beq M.short n then some i else findChild p n r (i + 1)
    | none => findChild p n r (i + 1)

/-- the module `p.n`, if the tree has one -/
def childOf (F : Facts) (p : ModId) (n : Name) : Option ModId := findChild p n F.mods 0

def isBuiltin (F : Facts) (n : Name) : Bool := Nat.blt n F.nBuiltins

def isPriv (F : Facts) (n : Name) : Bool := F.priv.any (fun k => Nat.beq k n)

def evCount (evs : List Ev) : Nat :=
  evs.foldl (fun acc e => match e with | .star _ => acc + 2 | _ => acc + 1) 0

/-- number of events, counted generously (a `star` expands to at most `size` events) -/
def size (F : Facts) : Nat :=
  F.mods.foldl (fun acc M => acc + 4 + evCount M.evs + (M.all.getD []).length
      + M.funcs.foldl (fun a f => a + 1 + evCount f.evs) 0) 0

/-- steps granted to one run of the machine.  Every module is executed at most once between two
`leave`s; running out of fuel is reported as `Err.outOfFuel`, never as success. -/
def fuel (F : Facts) : Nat := 64 * (F.size + 16) + 1024

def initState (F : Facts) : State :=
  { status := F.mods.map (fun _ => Status.absent), ns := F.mods.map (fun _ => []) }

end Facts

/-- the name `n` as code of frame `fr` sees it: import-bound locals (functions), the module's
globals, builtins (LEGB; enclosing function scopes are classified away by the translator) -/
def lookupScope (F : Facts) (σ : State) (fr : Frame) (n : Name) : Option Val :=
  match (if fr.fn.isSome then lookup n fr.locals else none) with
  | some v => some v
  | none =>
    match lookup n (σ.nsOf fr.mod) with
    | some v => some v
    | none => if F.isBuiltin n then some .opaque else none

/-- follow `v.a.b.c`: `none` if every attribute is there (or the value is opaque), else the
module and the attribute it lacks -/
def walk (σ : State) : Val → List Name → Option (ModId × Name)
  | _, [] => none
  | .opaque, _ => none
  | .mod p, a :: r =>
    match lookup a (σ.nsOf p) with
    | none => some (p, a)
    | some v => walk σ v r

/-- the names `from m import *` asks for -/
def starNames (F : Facts) (σ : State) (m : ModId) : List Name :=
  match F.modOf m with
  | some M =>
    match M.all with
    | some l => l
    | none => ((σ.nsOf m).map (·.1)).filter (fun n => !F.isPriv n)
  | none => []

/-- bind `n` in the scope code of `fr` writes to -/
def bindIn (fr : Frame) (σ : State) (n : Name) (v : Val) : Frame × State :=
  if fr.fn.isSome then ({ fr with locals := bindNs n v fr.locals }, σ)
  else (fr, σ.bindGlobal fr.mod n v)

def moduleFrame (m : ModId) (M : Module) : Frame :=
  { mod := m, fn := none, locals := [], evs := M.evs, saved := [] }

/-- one step of the machine -/
def step (F : Facts) : List Frame → State → Step
  | [], σ => .halt σ
  | fr :: stack, σ =>
    match fr.evs with
    | [] =>
      match fr.fn with
      | some _ => .next stack σ
      | none =>
        -- end of a module's code: it is fully initialised, and becomes an attribute of its package
        match F.modOf fr.mod with
        | none => .fail .malformed
        | some M =>
          let σ := σ.setStatus fr.mod .done
          match M.parent with
          | none => .next stack σ
          | some p => .next stack (σ.bindGlobal p M.short (.mod fr.mod))
    | ev :: evs =>
      let fr' : Frame := { fr with evs := evs }
      match ev with
      | .bind n => let (f, s) := bindIn fr' σ n .opaque; .next (f :: stack) s
      | .bindMod n m => let (f, s) := bindIn fr' σ n (.mod m); .next (f :: stack) s
      | .unbind n =>
        if fr.fn.isSome then
          match lookup n fr.locals with
          | some _ => .next ({ fr' with locals := erase n fr.locals } :: stack) σ
          | none => .fail (.nameError fr.mod fr.fn n)
        else
          match lookup n (σ.nsOf fr.mod) with
          | some _ => .next (fr' :: stack) (σ.setNs fr.mod (erase n (σ.nsOf fr.mod)))
          | none => .fail (.nameError fr.mod fr.fn n)
      | .load n =>
        match lookupScope F σ fr n with
        | some _ => .next (fr' :: stack) σ
        | none => .fail (.nameError fr.mod fr.fn n)
      | .attr root chain =>
        match lookupScope F σ fr root with
        | none => .fail (.nameError fr.mod fr.fn root)
        | some v =>
          match walk σ v chain with
          | none => .next (fr' :: stack) σ
          | some (p, a) => .fail (.attrError fr.mod fr.fn root p a)
      | .ensure m =>
        match F.modOf m with
        | none => .fail .malformed
        | some M =>
          match σ.statusOf m with
          | .absent => .next (moduleFrame m M :: fr' :: stack) (σ.setStatus m .running)
          | _ => .next (fr' :: stack) σ
      | .fromName m n asn =>
        match lookup n (σ.nsOf m) with
        | some v => let (f, s) := bindIn fr' σ asn v; .next (f :: stack) s
        | none =>
          match F.childOf m n with
          | none => .fail (.importError fr.mod fr.fn m n)
          | some c =>
            match F.modOf c with
            | none => .fail .malformed
            | some C =>
              match σ.statusOf c with
              -- the submodule is imported first; this event is looked at again afterwards
              | .absent => .next (moduleFrame c C :: fr :: stack) (σ.setStatus c .running)
              -- in sys.modules (possibly partially initialised): `IMPORT_FROM` falls back to it
              | _ => let (f, s) := bindIn fr' σ asn (.mod c); .next (f :: stack) s
      | .star m =>
        .next ({ fr' with evs := (starNames F σ m).map (fun n => Ev.fromName m n n) ++ evs } :: stack) σ
      | .noModule n => .fail (.noModule fr.mod fr.fn n)
      | .enter => .next ({ fr' with saved := (σ, fr.locals) :: fr.saved } :: stack) σ
      | .leave =>
        match fr.saved with
        | [] => .fail .malformed
        | (s, l) :: rest => .next ({ fr' with locals := l, saved := rest } :: stack) s

/-- run the machine until the stack is empty -/
def run (F : Facts) : Nat → List Frame → State → Except Err State
  | 0, _, _ => .error .outOfFuel
  | k + 1, st, σ =>
    match step F st σ with
    | .halt σ' => .ok σ'
    | .fail e => .error e
    | .next st' σ' => run F k st' σ'

/-- a fresh interpreter executes the entry module `e` (`import lena.X; from lena.X import *`) -/
def importEntry (F : Facts) (e : ModId) : Except Err State :=
  match F.modOf e with
  | none => .error .malformed
  | some M => run F F.fuel [moduleFrame e M] (F.initState.setStatus e .running)

def funcFrame (m : ModId) (f : Func) : Frame :=
  { mod := m, fn := some f.name, locals := [], evs := f.evs, saved := [] }

/-- a call of `f` (defined in module `m`) in state `σ`: all its loads, in source order -/
def callFn (F : Facts) (m : ModId) (f : Func) (σ : State) : Except Err State :=
  run F F.fuel [funcFrame m f] σ

/-! ## The resolver (the executable check) -/

/-- events that can change the global state when they occur in a function body -/
def Ev.isImport : Ev → Bool
  | .ensure _ | .fromName _ _ _ | .star _ => true
  | _ => false

def Func.isPure (f : Func) : Bool := f.evs.all (fun e => !e.isImport)

def zipIdx {α} : List α → Nat → List (Nat × α)
  | [], _ => []
  | a :: r, i => (i, a) :: zipIdx r (i + 1)

/-- all `(m, f)` with `f` a function of a fully initialised module `m`: what a program can call -/
def callables (F : Facts) (σ : State) : List (ModId × Func) :=
  (zipIdx F.mods 0).flatMap (fun (m, M) =>
    match σ.statusOf m with
    | .done => M.funcs.map (fun f => (m, f))
    | _ => [])

def isOk {ε α} : Except ε α → Bool
  | .ok _ => true
  | .error _ => false

/-- is `σ` one of `seen`? -/
def seenIn (seen : List State) (σ : State) : Bool := seen.any (fun s => decide (s = σ))

/-- every callable function runs without failure in every state of `seen`, and the functions
that import something lead to states of `seen` again -/
def closedB (F : Facts) (seen : List State) : Bool :=
  seen.all (fun σ =>
    (callables F σ).all (fun (m, f) =>
      if f.isPure then isOk (callFn F m f σ)
      else match callFn F m f σ with
        | .ok σ' => seenIn seen σ'
        | .error _ => false))

/-- successor states by the functions that import something -/
def successors (F : Facts) (σ : State) : List State :=
  (callables F σ).filterMap (fun (m, f) =>
    if f.isPure then none
    else match callFn F m f σ with
      | .ok σ' => some σ'
      | .error _ => none)

def addNew (seen : List State) : List State → List State × List State
  | [] => (seen, [])
  | s :: r =>
    if seenIn seen s then addNew seen r
    else let (seen', new) := addNew (seen ++ [s]) r; (seen', s :: new)

/-- breadth-first exploration of the states reachable by calls (bounded by `k` rounds) -/
def explore (F : Facts) : Nat → List State → List State → List State
  | 0, _, seen => seen
  | _ + 1, [], seen => seen
  | k + 1, σ :: work, seen =>
    let (seen', new) := addNew seen (successors F σ)
    explore F k (work ++ new) seen'

/-- the advertised names of the package the entry imports exist: every name in `__all__` of
every package mentioned by a `star` of the entry module is bound in the entry's namespace
after the run, and is an attribute of the package -/
def exportedB (F : Facts) (e : ModId) (σ : State) : Bool :=
  match F.modOf e with
  | none => false
  | some M =>
    M.evs.all (fun ev =>
      match ev with
      | .star p =>
        match F.modOf p with
        | some P => (P.all.getD []).all (fun n => (lookup n (σ.nsOf e)).isSome && (lookup n (σ.nsOf p)).isSome)
        | none => false
      | _ => true)

def exploreBound : Nat := 64

/-- the states the check looks at for entry `e` -/
def seenOf (F : Facts) (σ : State) : List State := explore F exploreBound [σ] [σ]

/-- **the check**: for every entry point, the import and the star import succeed, the advertised
names exist, and in every state reachable afterwards every callable function resolves -/
def resolvesAll (F : Facts) : Bool :=
  F.entries.all (fun e =>
    match importEntry F e with
    | .error _ => false
    | .ok σ => exportedB F e σ && seenIn (seenOf F σ) σ && closedB F (seenOf F σ))

/-! ## Diagnosis (what the driver prints; mirrors `resolvesAll`, but collects the failures) -/

structure Finding where
  entry : ModId
  /-- `none`: the import of the entry itself -/
  func : Option (ModId × Name × Nat)
  err : Err
  deriving Repr

def diagnoseEntry (F : Facts) (e : ModId) : List Finding :=
  match importEntry F e with
  | .error err => [⟨e, none, err⟩]
  | .ok σ =>
    (seenOf F σ).flatMap (fun s =>
      (callables F s).filterMap (fun (m, f) =>
        match callFn F m f s with
        | .ok _ => none
        | .error err => some ⟨e, some (m, f.name, f.line), err⟩))

def diagnose (F : Facts) : List Finding := F.entries.flatMap (diagnoseEntry F)

/-! ## Static import closure (a second, order-free description of what `import X` loads) -/

/-- modules named by the import events of a list of events (`ensure`, and the submodule a
`from m import n` falls back to when `n` is no top-level binding of `m`) -/
def importTargets (evs : List Ev) : List ModId :=
  evs.filterMap (fun e => match e with | .ensure m => some m | _ => none)

def insertNew (xs : List ModId) (m : ModId) : List ModId := if xs.any (Nat.beq m) then xs else xs ++ [m]

/-- one round: add the module-level `ensure` targets of every module already in the set -/
def closureRound (F : Facts) (xs : List ModId) : List ModId :=
  xs.foldl (fun acc m =>
    match F.modOf m with
    | some M => (importTargets M.evs).foldl insertNew acc
    | none => acc) xs

def closureIter (F : Facts) : Nat → List ModId → List ModId
  | 0, xs => xs
  | k + 1, xs => let ys := closureRound F xs; if ys.length == xs.length then xs else closureIter F k ys

/-- fixpoint with fuel = number of modules -/
def importClosure (F : Facts) (m : ModId) : List ModId := closureIter F F.mods.length [m]

/-- the modules in `sys.modules` in state `σ` -/
def loadedMods (σ : State) : List ModId :=
  (zipIdx σ.status 0).filterMap (fun (i, s) => match s with | .absent => none | _ => some i)

end Lena.C20
