import LenaModel.Model.C08
/-! # C08 heap model — object identities, `copy.deepcopy`, in-place change

The value model of `Model/C08.lean` cannot say "a deep copy": two equal values are the same value.  Here every
object that can be changed in place carries its address (`id`): dictionaries, lists, and `cell`s — any other
mutable object that holds a value (a `set`, a `bytearray`, an object of a user class with state; `kind` names
the class and is not interpreted).  Tuples (and frozensets) are immutable containers: they have no address that
matters, but their members may be mutable.  Values are trees (no object is reachable twice).

Transcribed with identities: `copy.deepcopy` (every mutable object reachable from the argument is a new
object), `update_recursively` (functions.py:644-653: which *objects* of `other` end up in `d`),
`UpdateContext.__call__` (update_context.py:184-233: which object is copied, where new dictionaries are
created, where the copy is put).  `n : Nat` is the allocator: every address below `n` is in use, a new object
takes `n`.  No imports beyond the value model. -/
namespace Lena.C08

inductive HVal where
  | leaf (a : Leaf)
  | dict (id : Nat) (es : List (String × HVal))
  | list (id : Nat) (xs : List HVal)
  | tuple (xs : List HVal)
  | cell (kind : String) (id : Nat) (x : HVal)
  deriving Repr

abbrev HEntries := List (String × HVal)

/-! the addresses of the mutable objects reachable from a value -/
mutual
def HVal.ids : HVal → List Nat
  | .leaf _ => []
  | .dict i es => i :: idsE es
  | .list i xs => i :: idsL xs
  | .tuple xs => idsL xs
  | .cell _ i x => i :: x.ids
def idsE : HEntries → List Nat
  | [] => []
  | (_, v) :: r => v.ids ++ idsE r
def idsL : List HVal → List Nat
  | [] => []
  | v :: r => v.ids ++ idsL r
end

/-! the value without identities (every address 0): what `==` can see -/
mutual
def HVal.strip : HVal → HVal
  | .leaf a => .leaf a
  | .dict _ es => .dict 0 (stripE es)
  | .list _ xs => .list 0 (stripL xs)
  | .tuple xs => .tuple (stripL xs)
  | .cell k _ x => .cell k 0 x.strip
def stripE : HEntries → HEntries
  | [] => []
  | (k, v) :: r => (k, v.strip) :: stripE r
def stripL : List HVal → List HVal
  | [] => []
  | v :: r => v.strip :: stripL r
end

/-! `copy.deepcopy(v)` with the allocator at `n`: the copy and the new allocator.  Scalars are returned as
they are, every dictionary, list and cell is a new object, a tuple is rebuilt around the copies of its members. -/
mutual
def deepcopyH (n : Nat) : HVal → HVal × Nat
  | .leaf a => (.leaf a, n)
  | .dict _ es => let r := deepcopyE (n + 1) es; (.dict n r.1, r.2)
  | .list _ xs => let r := deepcopyL (n + 1) xs; (.list n r.1, r.2)
  | .tuple xs => let r := deepcopyL n xs; (.tuple r.1, r.2)
  | .cell k _ x => let r := deepcopyH (n + 1) x; (.cell k n r.1, r.2)
def deepcopyE (n : Nat) : HEntries → HEntries × Nat
  | [] => ([], n)
  | (k, v) :: r => let a := deepcopyH n v; let b := deepcopyE a.2 r; ((k, a.1) :: b.1, b.2)
def deepcopyL (n : Nat) : List HVal → List HVal × Nat
  | [] => ([], n)
  | v :: r => let a := deepcopyH n v; let b := deepcopyL a.2 r; (a.1 :: b.1, b.2)
end

/-- the mark an in-place change leaves -/
def skull : HVal := .leaf (.str "☠")

/-! an in-place change of the object at address `t`, seen from a value: a dictionary gets a new key, a list a new
member, a cell a new state; a value that does not reach `t` is what it was (`pokeH_fresh`) -/
mutual
def pokeH (t : Nat) : HVal → HVal
  | .leaf a => .leaf a
  | .dict i es => .dict i (if i = t then pokeE t es ++ [("☠", skull)] else pokeE t es)
  | .list i xs => .list i (if i = t then pokeL t xs ++ [skull] else pokeL t xs)
  | .tuple xs => .tuple (pokeL t xs)
  | .cell k i x => .cell k i (if i = t then .tuple [skull, pokeH t x] else pokeH t x)
def pokeE (t : Nat) : HEntries → HEntries
  | [] => []
  | (k, v) :: r => (k, pokeH t v) :: pokeE t r
def pokeL (t : Nat) : List HVal → List HVal
  | [] => []
  | v :: r => pokeH t v :: pokeL t r
end

/-! ## dictionary primitives with identities -/

def lookupH : HEntries → String → Option HVal
  | [], _ => none
  | (k, v) :: r, key => if k = key then some v else lookupH r key

def setKeyH : HEntries → String → HVal → HEntries
  | [], key, v => [(key, v)]
  | (k, w) :: r, key, v => if k = key then (k, v) :: r else (k, w) :: setKeyH r key v

/-- the object a key path names (`none`: absent, or a non-dictionary on the way) -/
def getPathH : HVal → List String → Option HVal
  | v, [] => some v
  | .dict _ es, k :: p =>
    match lookupH es k with
    | some w => getPathH w p
    | none => none
  | _, _ :: _ => none

/-! `update_recursively(d, other)` (functions.py:644-653) with identities: a non-dictionary `val` — and a
dictionary `val` under a new key — is put into `d` *as the object it is*; a dictionary `val` under a key that
holds a dictionary is merged into that object; under a key that holds something else a new `{}` is created
and `val` merged into it. -/
mutual
def updRecH (n : Nat) (d : HEntries) : HEntries → HEntries × Nat
  | [] => (d, n)
  | (k, v) :: r =>
    let a := updItemH n (lookupH d k) v
    updRecH a.2 (setKeyH d k a.1) r
def updItemH (n : Nat) (cur : Option HVal) : HVal → HVal × Nat
  | .dict i o =>
    match cur with
    | some (.dict j dk) => let a := updRecH n dk o; (.dict j a.1, a.2)
    | some _ => let a := updRecH (n + 1) [] o; (.dict n a.1, a.2)
    | none => (.dict i o, n)
  | .leaf a => (.leaf a, n)
  | .list i xs => (.list i xs, n)
  | .tuple xs => (.tuple xs, n)
  | .cell k i x => (.cell k i x, n)
end

/-- the loop over `keys[:-1]` and the final assignment (update_context.py:224-233): a missing or non-dictionary
step is replaced by a new `{}` -/
def ucSetH (recursively : Bool) : Nat → HEntries → List String → HVal → HEntries × Nat
  | n, d, [], _ => (d, n)
  | n, d, [k], u => if recursively then updRecH n d [(k, u)] else (setKeyH d k u, n)
  | n, d, k :: k' :: r, u =>
    match lookupH d k with
    | some (.dict j e) => let a := ucSetH recursively n e (k' :: r) u; (setKeyH d k (.dict j a.1), a.2)
    | _ => let a := ucSetH recursively (n + 1) [] (k' :: r) u; (setKeyH d k (.dict n a.1), a.2)

/-- where the update value of `UpdateContext.__call__` comes from: `self._update` (a non-string value), or
the context item named by `{{key}}` with `value=True` — `self._default` when it is absent -/
inductive SrcH where
  | simple (update : HVal)
  | ctxValue (key : List String) (default : Option HVal)
  deriving Repr

/-- the object that is copied (lines 186-204, 222); `none`: the key is missing and there is no default (the
value is returned as it is, or `LenaKeyError` is raised: the context is not touched) -/
def ucSourceH (s : SrcH) (ctx : HEntries) : Option HVal :=
  match s with
  | .simple u => some u
  | .ctxValue key dflt =>
    match getPathH (.dict 0 ctx) key with
    | some v => some v
    | none => dflt

/-- `UpdateContext.__call__` with identities: `update = copy.deepcopy(source)`, then the assignment -/
def ucCallH (recursively : Bool) (subctx : List String) (s : SrcH) (n : Nat) (ctx : HEntries) : Option (HEntries × Nat) :=
  match ucSourceH s ctx with
  | none => none
  | some v => let c := deepcopyH n v; some (ucSetH recursively c.2 ctx subctx c.1)

/-! ## the value model under the identities -/

/-! the `Val` a heap value is for the code of `Model/C08.lean`, which only asks "is it a dictionary": a tuple is
seen as a list, a cell as a foreign object -/
mutual
def HVal.toVal : HVal → Val
  | .leaf a => .leaf a
  | .dict _ es => .dict (toValE es)
  | .list _ xs => .list (toValL xs)
  | .tuple xs => .list (toValL xs)
  | .cell _ _ _ => .leaf (.obj none)
def toValE : HEntries → Entries
  | [] => []
  | (k, v) :: r => (k, v.toVal) :: toValE r
def toValL : List HVal → List Val
  | [] => []
  | v :: r => v.toVal :: toValL r
end

/-- every key of `eb` is a key of `ea` -/
def allKeysIn : HEntries → HEntries → Bool
  | [], _ => true
  | (k, _) :: r, ea => (lookupH ea k).isSome && allKeysIn r ea

/-! ## `to_string` and `==` on values with tuples

`json.dumps` writes a tuple as an array, exactly like a list, and cannot write a set or an object of another class:
`to_string` of a value with tuples is `to_string` of `toVal`.  Python's `==` does distinguish a tuple from a list. -/

/-- `to_string(v)` for a value that may hold tuples, sets, foreign objects -/
def toStringH (v : HVal) : Except Exc (List Tok) := toStringE v.toVal

/-! Python `==` (type-strict on scalars, as `pyEq`): dictionaries whatever their key order, lists and tuples member by
member, a tuple never equal to a list; identities play no role -/
mutual
def pyEqH : HVal → HVal → Bool
  | .leaf a, .leaf b => a == b
  | .dict _ ea, .dict _ eb => subEqH ea eb && allKeysIn eb ea
  | .list _ xa, .list _ xb => listEqH xa xb
  | .tuple xa, .tuple xb => listEqH xa xb
  | .cell k _ x, .cell k' _ y => k == k' && pyEqH x y
  | _, _ => false
def subEqH : HEntries → HEntries → Bool
  | [], _ => true
  | (k, v) :: r, eb =>
    (match lookupH eb k with
     | some w => pyEqH v w
     | none => false) && subEqH r eb
def listEqH : List HVal → List HVal → Bool
  | [], [] => true
  | x :: r, y :: r' => pyEqH x y && listEqH r r'
  | _, _ => false
end

end Lena.C08
