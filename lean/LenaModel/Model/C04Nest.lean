import LenaModel.Model.C04
/-! # C04 model — a `Split` given directly as a branch of another `Split` / `Zip`

`Split.__init__` (`lena/core/split.py:215-222`): when all sequences of a `Split` are fill/compute (fill/request)
sequences, the object gets the methods `fill = _fill` and `compute = _compute` (`request = _request`); the `Split`
(or `Zip`) around it then classifies it as a fill/compute (fill/request) element (`_get_seq_with_type`:
`ct.is_fill_compute_el(seq)`) and uses the object itself as one of its sequences.  Here such an object is a branch
object (`Ops`) whose private state is the list of its own branches:

* `fill(val)` is `Split._fill` with the object's own `copy_buf` (`splitFill`: a deep copy for every sequence but the
  last, which is filled with `val` itself);
* `compute()` / `request()` is `Split._compute` / `_request` (`splitPull`: the values of every sequence in turn).

The branches of a case are then of two sorts (`BSpecN`): the sequences of the harness (`BSpec`, state `HSt`) and
nested `Split`s of such sequences (`NSpec`, state `ZSt`); `NSt` is the sum of the two states, `mkBranchesN` the
branch list.  The inner sequences of the nested objects are numbered after the outer branches (`base`), so that
every sequence of the whole tree has its own two namespaces (`ownNs`, `copyNsOf`). -/

namespace Lena.C04

open Lena.C03 (Kind)
open Lena.Flow (Value)

/-- a `Split(inner, copy_buf=copyBuf)` given as a branch; `kind` is the common type of its sequences -/
structure NSpec where
  kind : Kind
  copyBuf : Bool
  inner : List BSpec
  deriving Repr

/-- a branch of a case: a sequence of the harness, or a nested `Split` of such sequences -/
inductive BSpecN where
  | leaf (sp : BSpec)
  | nest (n : NSpec)
  deriving Repr

/-- private state of a branch of either sort -/
inductive NSt where
  | leaf (s : HSt)
  | nest (z : ZSt)

/-- a method invocation on a `Split` object with the common-type methods (`splitAccAct` with the object's own
`copy_buf`): `_fill`, `_compute` / `_request` -/
def splitObjAct (copyBuf : Bool) (st : Store Value) (z : ZSt) (r : Req Skel) : Store Value × ZSt × Resp Skel :=
  match r with
  | .fill x =>
    -- for seq in self._seqs[:-1]: seq.fill(copy.deepcopy(val) if self._copy_buf else val); self._seqs[-1].fill(val)
    let f := splitFill copyBuf x { st := st, cc := z.cc } z.brs
    (f.w.st, { z with cc := f.w.cc, brs := f.brs }, { stopped := f.stopped })
  | .compute | .request =>
    -- for seq in self._seqs: for val in seq.compute(): yield val
    let p := splitPull r st z.brs
    match p.err with
    | some e => (p.st, { z with brs := p.brs }, { err := some e })
    | none => (p.st, { z with brs := p.brs }, { outs := p.vals })
  | _ => (st, z, {})

/-- a harness sequence as a branch with state `NSt` -/
def leafOps (ops : Ops HSt Skel Value) : Ops NSt Skel Value :=
  { act := fun st s r =>
      match s with
      | .leaf h => ((ops.act st h r).1, .leaf (ops.act st h r).2.1, (ops.act st h r).2.2)
      | .nest _ => (st, s, {})
    refs := fun s =>
      match s with
      | .leaf h => ops.refs h
      | .nest _ => [] }

/-- a nested `Split` as a branch with state `NSt` -/
def nestOps (copyBuf : Bool) : Ops NSt Skel Value :=
  { act := fun st s r =>
      match s with
      | .nest z => ((splitObjAct copyBuf st z r).1, .nest (splitObjAct copyBuf st z r).2.1, (splitObjAct copyBuf st z r).2.2)
      | .leaf _ => (st, s, {})
    refs := fun s =>
      match s with
      | .nest z => z.brs.flatMap (fun b => b.ops.refs b.st)
      | .leaf _ => [] }

/-- the branch list of a case with nested `Split`s: outer branch number `i` from `start` on; the sequences of the
nested objects are numbered from `base` on -/
def mkBranchesN (start base : Nat) : List BSpecN → List (Branch NSt Skel Value)
  | [] => []
  | .leaf sp :: rest =>
    { id := start, kind := sp.kind, ops := leafOps (hOps (ownNs start) sp), st := .leaf {} } ::
      mkBranchesN (start + 1) base rest
  | .nest n :: rest =>
    { id := start, kind := n.kind, ops := nestOps n.copyBuf, st := .nest { brs := mkBranches base n.inner } } ::
      mkBranchesN (start + 1) (base + n.inner.length) rest

end Lena.C04
