/-! # C03 model — `Split` (`lena/core/split.py`), `Zip` (`lena/flow/zip.py`) and the
classification of branches (`lena/core/check_sequence_type.py`)

Transcription of the code as it is in /repo's working tree (after `ed8a704 fix: Split with
bufsize=None accepts a fill/request branch given as a tuple`):

* `_get_seq_with_type` with the helpers of `check_sequence_type.py` and the constructors it
  calls (`FillComputeSeq`, `FillRequestSeq`, `FillSeq`, `Sequence`, `Run`, `FillInto`) as far as
  they decide *whether* the conversion succeeds (`classify`);
* `Split.__init__` (`mkSplit`: argument checks in the order of the code, which methods exist);
* `Split.run` (`Split.runTrace`: the `while True` loop over blocks, the `while ind <
  n_of_active_seqs` loop with in-place deletion, the final pass), `Split._empty_run`;
* `Split._fill`, `_compute`, `_request`, `__call__`;
* `Zip.__init__` (type checks), `Zip._fill`, `_compute`/`_request`, `_yield`.

A branch is an abstract mutable object: a state `σ` threaded through its methods (`Ops`).  A
generator that is consumed to the end is the list of what it yields together with the state it
leaves behind.  Finite flows are lists.  `run` produces an *event trace* (`Ev`): every method
invocation on a branch, and every value yielded by `Split.run`, attributed to the branch that
produced it.  The observable output of `Split.run` is `outputs trace`.

Assumptions of this model (stated in the evidence): `copy.deepcopy` of a buffer is the same
value (branches do not mutate flow values — aliasing is the subject of C04); the only exception
a branch method raises is `LenaStopFill`, from `fill`.

No imports: this file is executed by `drivers/C03.lean`. -/

namespace Lena.C03

/-- exception classes raised by the modelled constructors and methods -/
inductive Exc where
  | lenaTypeError
  | lenaValueError
  | lenaAttributeError
  | lenaNotImplementedError
  deriving Repr, DecidableEq

def Exc.name : Exc → String
  | .lenaTypeError => "LenaTypeError"
  | .lenaValueError => "LenaValueError"
  | .lenaAttributeError => "LenaAttributeError"
  | .lenaNotImplementedError => "LenaNotImplementedError"

/-- `seq_type` of `_get_seq_with_type`: "source", "fill_compute", "fill_request", "sequence" -/
inductive Kind where
  | source
  | fillCompute
  | fillRequest
  | sequence
  deriving Repr, DecidableEq

/-- The methods of a branch object as functions of its state.
* `call`    — `seq()` of a `Source`, consumed to the end;
* `fill`    — `seq.fill(val)`; the flag says that `LenaStopFill` was raised (the state may have
              changed before the exception);
* `compute`, `request` — the generators, consumed to the end;
* `run`     — `seq.run(buf)` consumed to the end. -/
structure Ops (σ α : Type) where
  call : σ → List α × σ
  fill : σ → α → σ × Bool
  compute : σ → List α × σ
  request : σ → List α × σ
  run : σ → List α → List α × σ

/-- a branch of a `Split`: `id` is its position in the list given to `Split` (used to attribute
events), `st` the current state of the object -/
structure Branch (σ α : Type) where
  id : Nat
  kind : Kind
  ops : Ops σ α
  st : σ

/-- observable events of `Split.run` -/
inductive Ev (α : Type) where
  /-- `seq()` was called on branch `i` -/
  | call (i : Nat)
  /-- `seq.fill(x)` was called on branch `i`; `stopped` = it raised `LenaStopFill` -/
  | fill (i : Nat) (x : α) (stopped : Bool)
  | compute (i : Nat)
  | request (i : Nat)
  /-- `seq.run(buf)` was called on branch `i` -/
  | run (i : Nat) (buf : List α)
  /-- `Split.run` yielded `v`, a result of branch `i` -/
  | out (i : Nat) (v : α)
  /-- `assert flow_was_empty` failed (split.py:403) — never happens, see `Props/C03.lean` -/
  | assertFail
  deriving Repr, DecidableEq

variable {σ α : Type}

/-- the branch an event belongs to -/
def Ev.branch : Ev α → Option Nat
  | .call i => some i
  | .fill i _ _ => some i
  | .compute i => some i
  | .request i => some i
  | .run i _ => some i
  | .out i _ => some i
  | .assertFail => none

/-- `for val in results: yield val` -/
def outs (i : Nat) (vals : List α) : List (Ev α) := vals.map (Ev.out i)

/-- the values yielded by `Split.run`, in order -/
def outputs : List (Ev α) → List α
  | [] => []
  | .out _ v :: r => v :: outputs r
  | _ :: r => outputs r

/-- the events of branch `i`, in order -/
def proj (i : Nat) (tr : List (Ev α)) : List (Ev α) := tr.filter (fun e => e.branch == some i)

/-- an event that is a method invocation (not a yielded value) -/
def Ev.isInvocation : Ev α → Bool
  | .out _ _ => false
  | .assertFail => false
  | _ => true

/-- the method invocations received by branch `i`, in order -/
def invocations (i : Nat) (tr : List (Ev α)) : List (Ev α) := (proj i tr).filter Ev.isInvocation

/-- the values yielded on behalf of branch `i` -/
def outputsOf (i : Nat) (tr : List (Ev α)) : List α := outputs (proj i tr)

/-! ## `Split.run` (split.py:280-417) -/

/-- `copy.deepcopy(orig_buf)`: the same value (assumption: values are not mutated) -/
@[simp] def deepcopy (buf : List α) : List α := buf

/-- split.py:350-356 and 368-374:
`stopped = False; for val in buf: try: seq.fill(val) except LenaStopFill: stopped = True; break`
Returns the events, the state of the branch afterwards, and `stopped`. -/
def fillBuf (i : Nat) (ops : Ops σ α) : σ → List α → List (Ev α) × σ × Bool
  | s, [] => ([], s, false)
  | s, x :: xs =>
    match ops.fill s x with
    | (s', true) => ([.fill i x true], s', true)
    | (s', false) =>
      let r := fillBuf i ops s' xs
      (.fill i x false :: r.1, r.2)

/-- The body of the loop over active sequences (split.py:339-395) for one branch and one buffer:
the events, and `none` if the branch was deleted from `active_seqs` (`del active_seqs[ind]; …;
continue`), `some b'` (the object in its new state) if the loop went on with `ind += 1`. -/
def stepBranch (buf : List α) (b : Branch σ α) : List (Ev α) × Option (Branch σ α) :=
  match b.kind with
  | .source =>
    -- for val in seq(): yield val; del active_seqs[ind]
    let r := b.ops.call b.st
    (.call b.id :: outs b.id r.1, none)
  | .fillCompute =>
    let f := fillBuf b.id b.ops b.st buf
    if f.2.2 then
      -- if stopped: for result in seq.compute(): yield result; del active_seqs[ind]
      let r := b.ops.compute f.2.1
      (f.1 ++ .compute b.id :: outs b.id r.1, none)
    else (f.1, some { b with st := f.2.1 })
  | .fillRequest =>
    let f := fillBuf b.id b.ops b.st buf
    -- for result in seq.request(): yield result  (each time after the buffer is filled)
    let r := b.ops.request f.2.1
    (f.1 ++ .request b.id :: outs b.id r.1,
      if f.2.2 then none else some { b with st := r.2 })
  | .sequence =>
    -- for res in seq.run(buf): yield res
    let r := b.ops.run b.st buf
    (.run b.id buf :: outs b.id r.1, some { b with st := r.2 })

/-- `while ind < n_of_active_seqs:` (split.py:332-396).  `act` is `active_seqs` (with
`active_seq_types`: the kind is a field of the branch; `n_of_active_seqs` is always
`len(active_seqs)`: both change together at the three `del` sites), `acc` what has been yielded
and invoked so far.  Objects are mutable: the new state of a branch that stays is written back
with `set`.  The loop is given fuel `len(act) - ind + 1`, which suffices
(`Props/C03.lean: blockLoop_eq_fold`). -/
def blockLoop (copyBuf : Bool) (orig : List α) :
    Nat → Nat → List (Branch σ α) → List (Ev α) → List (Ev α) × List (Branch σ α)
  | 0, _, act, acc => (acc, act)
  | fuel + 1, ind, act, acc =>
    if h : ind < act.length then
      -- if self._copy_buf and n_of_active_seqs - ind > 1: buf = copy.deepcopy(orig_buf) else: buf = orig_buf
      let buf := if copyBuf && decide (act.length - ind > 1) then deepcopy orig else orig
      match stepBranch buf act[ind] with
      | (ev, none) => blockLoop copyBuf orig fuel ind (act.eraseIdx ind) (acc ++ ev)
      | (ev, some b') => blockLoop copyBuf orig fuel (ind + 1) (act.set ind b') (acc ++ ev)
    else (acc, act)

/-- `orig_buf = list(itertools.islice(flow, self._bufsize))`: the buffer and the rest of the flow -/
def readBlock (bufsize : Option Nat) (flow : List α) : List α × List α :=
  match bufsize with
  | none => (flow, [])
  | some b => (flow.take b, flow.drop b)

/-- `while True:` (split.py:320-397): read a buffer; `break` if it is empty, else
`flow_was_empty = False` and one pass over the active sequences.  Fuel `len(flow) + 1`
suffices when `bufsize` is not 0 (`Props/C03.lean: outerLoop_eq_passes`).
Returns events, `active_seqs` and `flow_was_empty`. -/
def outerLoop (copyBuf : Bool) (bufsize : Option Nat) :
    Nat → List α → List (Branch σ α) → List (Ev α) → Bool → List (Ev α) × List (Branch σ α) × Bool
  | 0, _, act, acc, fwe => (acc, act, fwe)
  | fuel + 1, flow, act, acc, fwe =>
    let rb := readBlock bufsize flow
    if rb.1.isEmpty then (acc, act, fwe)
    else
      let r := blockLoop copyBuf rb.1 (act.length + 1) 0 act acc
      outerLoop copyBuf bufsize fuel rb.2 r.2 r.1 false

/-- the final pass `for seq, seq_type in zip(active_seqs, active_seq_types):` (split.py:400-417) -/
def finalPass (fwe : Bool) : List (Branch σ α) → List (Ev α)
  | [] => []
  | b :: rest =>
    match b.kind with
    | .source =>
      -- assert flow_was_empty
      if fwe then .call b.id :: outs b.id (b.ops.call b.st).1 ++ finalPass fwe rest
      else [.assertFail]
    | .fillCompute => .compute b.id :: outs b.id (b.ops.compute b.st).1 ++ finalPass fwe rest
    | .fillRequest =>
      if fwe then .request b.id :: outs b.id (b.ops.request b.st).1 ++ finalPass fwe rest
      else finalPass fwe rest
    | .sequence =>
      if fwe then .run b.id [] :: outs b.id (b.ops.run b.st []).1 ++ finalPass fwe rest
      else finalPass fwe rest

/-- a constructed `Split`: `_seqs` with `_seq_types`, `_bufsize`, `_copy_buf` -/
structure Split (σ α : Type) where
  branches : List (Branch σ α)
  bufsize : Option Nat
  copyBuf : Bool

/-- the event trace of `Split.run(flow)` (the method `run` of the class, split.py:313-417) -/
def Split.runTrace (s : Split σ α) (flow : List α) : List (Ev α) :=
  let r := outerLoop s.copyBuf s.bufsize (flow.length + 1) flow s.branches [] true
  r.1 ++ finalPass r.2.2 r.2.1

/-- `Split._empty_run`: `for val in flow: yield val` -/
def emptyRun : List α → List α
  | [] => []
  | v :: r => v :: emptyRun r

/-- what `split.run(flow)` yields: `__init__` rebinds `run` to `_empty_run` when there is no
sequence type at all (split.py:223-224), i.e. when `seqs` is empty -/
def Split.run (s : Split σ α) (flow : List α) : List α :=
  if s.branches.isEmpty then emptyRun flow else outputs (s.runTrace flow)

/-! ## the documented schedule (specification side of the theorems in `Props/C03.lean`)

These definitions are not transcriptions: they say what the docstring of `Split.run` and the
property promise.  `Props/C03.lean` proves that `Split.runTrace` equals them. -/

/-- the non-empty consecutive blocks of `b` values of a flow (the last one may be shorter) -/
def blocksFuel (b : Nat) : Nat → List α → List (List α)
  | 0, _ => []
  | _ + 1, [] => []
  | n + 1, x :: xs => (x :: xs).take b :: blocksFuel b n ((x :: xs).drop b)

/-- the blocks of a flow for a `bufsize`; `None`: the whole (non-empty) flow is one block -/
def blocks (bufsize : Option Nat) (flow : List α) : List (List α) :=
  match bufsize with
  | none => if flow.isEmpty then [] else [flow]
  | some b => blocksFuel b flow.length flow

/-- every element once, in order; an element whose step returns `none` is dropped -/
def foldB {β ε : Type} (step : β → List ε × Option β) : List β → List ε × List β
  | [] => ([], [])
  | b :: r =>
    let s := step b
    let t := foldB step r
    (s.1 ++ t.1, match s.2 with
      | none => t.2
      | some b' => b' :: t.2)

/-- block by block: every active branch once, in branch order -/
def passes : List (List α) → List (Branch σ α) → List (Ev α) × List (Branch σ α)
  | [], act => ([], act)
  | blk :: rest, act =>
    let p := foldB (stepBranch blk) act
    let q := passes rest p.2
    (p.1 ++ q.1, q.2)

/-- the schedule as two nested folds followed by the final pass -/
def Split.runSpec (s : Split σ α) (flow : List α) : List (Ev α) :=
  let bl := blocks s.bufsize flow
  let p := passes bl s.branches
  p.1 ++ finalPass bl.isEmpty p.2

/-- one block seen by one branch that may already have been dropped -/
def stepO (buf : List α) : Option (Branch σ α) → List (Ev α) × Option (Branch σ α)
  | none => ([], none)
  | some b => stepBranch buf b

/-- the life of ONE branch over the successive blocks, independently of all other branches:
its contribution to every block, and what is left of it (`none`: dropped) -/
def life : Option (Branch σ α) → List (List α) → List (List (Ev α)) × Option (Branch σ α)
  | o, [] => ([], o)
  | o, blk :: rest =>
    let s := stepO blk o
    let l := life s.2 rest
    (s.1 :: l.1, l.2)

/-- what a branch that is still active contributes after the last block (`fwe`: the flow was
empty): a Source its complete output (it can only be left if the flow was empty), a
fill/compute branch its `compute()`, a fill/request branch and a plain Sequence one invocation
if the flow was empty -/
def finalOne (fwe : Bool) (b : Branch σ α) : List (Ev α) :=
  match b.kind with
  | .source => .call b.id :: outs b.id (b.ops.call b.st).1
  | .fillCompute => .compute b.id :: outs b.id (b.ops.compute b.st).1
  | .fillRequest => if fwe then .request b.id :: outs b.id (b.ops.request b.st).1 else []
  | .sequence => if fwe then .run b.id [] :: outs b.id (b.ops.run b.st []).1 else []

def finalO (fwe : Bool) : Option (Branch σ α) → List (Ev α)
  | none => []
  | some b => finalOne fwe b

/-- the contribution of branch `b` to block number `k` of `bl` -/
def contribution (b : Branch σ α) (bl : List (List α)) (k : Nat) : List (Ev α) :=
  ((life (some b) bl).1)[k]?.getD []

/-- the contribution of branch `b` after the last block -/
def finalContribution (b : Branch σ α) (bl : List (List α)) : List (Ev α) :=
  finalO bl.isEmpty (life (some b) bl).2

/-- THE DOCUMENTED SCHEDULE: block by block, inside a block in branch order, the contribution of
each branch — which depends on that branch and the blocks only — then the final contributions
in branch order -/
def Split.schedule (s : Split σ α) (flow : List α) : List (Ev α) :=
  let bl := blocks s.bufsize flow
  (List.range bl.length).flatMap (fun k => s.branches.flatMap (fun b => contribution b bl k))
    ++ s.branches.flatMap (fun b => finalContribution b bl)

/-- everything that happens to one branch during `Split.run` -/
def branchTrace (b : Branch σ α) (bl : List (List α)) : List (Ev α) :=
  (life (some b) bl).1.flatten ++ finalContribution b bl

/-! ## common-type methods (split.py:239-273) -/

/-- which of the optional methods `Split.__init__` creates (split.py:210-224) -/
structure Methods where
  /-- `self.fill = self._fill` -/
  fill : Bool
  /-- `self.compute = self._compute` -/
  compute : Bool
  /-- `self.request = self._request` -/
  request : Bool
  /-- `__call__` does not raise `LenaAttributeError` -/
  callable : Bool
  /-- `self.run = self._empty_run` -/
  emptyRun : Bool
  deriving Repr, DecidableEq

/-- `different_seq_types = set(self._seq_types)` has exactly one element, `k` -/
def allKind (k : Kind) (kinds : List Kind) : Bool := !kinds.isEmpty && kinds.all (· == k)

/-- split.py:210-224 and the guard of `__call__` (split.py:247):
`self._n_seq_types != 1 or not ct.is_source(self._seqs[0])` -/
def methodsOf (kinds : List Kind) : Methods :=
  { fill := allKind .fillCompute kinds || allKind .fillRequest kinds
    compute := allKind .fillCompute kinds
    request := allKind .fillRequest kinds
    callable := allKind .source kinds
    emptyRun := kinds.isEmpty }

/-- `Split._fill(val)`: `for seq in self._seqs[:-1]: seq.fill(deepcopy(val)) …;
self._seqs[-1].fill(val)` — every branch in order; a `LenaStopFill` of a branch is not caught,
so it leaves `_fill` at once (`true`), the later branches do not receive the value. -/
def splitFill (x : α) : List (Branch σ α) → List (Branch σ α) × Bool
  | [] => ([], false)
  | b :: rest =>
    match b.ops.fill b.st x with
    | (s', true) => ({ b with st := s' } :: rest, true)
    | (s', false) =>
      let r := splitFill x rest
      ({ b with st := s' } :: r.1, r.2)

/-- `Split._compute()`: `for seq in self._seqs: for val in seq.compute(): yield val` -/
def splitCompute : List (Branch σ α) → List α × List (Branch σ α)
  | [] => ([], [])
  | b :: rest =>
    let r := b.ops.compute b.st
    let r' := splitCompute rest
    (r.1 ++ r'.1, { b with st := r.2 } :: r'.2)

/-- `Split._request()` -/
def splitRequest : List (Branch σ α) → List α × List (Branch σ α)
  | [] => ([], [])
  | b :: rest =>
    let r := b.ops.request b.st
    let r' := splitRequest rest
    (r.1 ++ r'.1, { b with st := r.2 } :: r'.2)

/-- the loop of `Split.__call__`: `for seq in self._seqs: for result in seq(): yield result` -/
def splitCallLoop : List (Branch σ α) → List α × List (Branch σ α)
  | [] => ([], [])
  | b :: rest =>
    let r := b.ops.call b.st
    let r' := splitCallLoop rest
    (r.1 ++ r'.1, { b with st := r.2 } :: r'.2)

/-- `Split.__call__()` (split.py:239-255) -/
def Split.call (s : Split σ α) : Except Exc (List α × List (Branch σ α)) :=
  if (methodsOf (s.branches.map (·.kind))).callable then .ok (splitCallLoop s.branches)
  else .error .lenaAttributeError

/-- a caller that fills a flow value by value and stops at the first `LenaStopFill`
(`for val in flow: split.fill(val)`): the branches afterwards, and whether it was stopped -/
def splitFillAll : List (Branch σ α) → List α → List (Branch σ α) × Bool
  | brs, [] => (brs, false)
  | brs, x :: xs =>
    match splitFill x brs with
    | (brs', true) => (brs', true)
    | (brs', false) => splitFillAll brs' xs

/-- a caller that uses a fill/request `Split` block by block, as `Split.run` uses a fill/request
branch: `for block in blocks: for val in block: split.fill(val)` (stopping at `LenaStopFill`),
then `yield from split.request()`; after a stop the caller drops the element.  Returns the
results of every `request()` and whether a stop occurred. -/
def splitFrBlocks : List (Branch σ α) → List (List α) → List (List α) × Bool
  | _, [] => ([], false)
  | brs, blk :: rest =>
    match splitFillAll brs blk with
    | (brs', true) => ([(splitRequest brs').1], true)
    | (brs', false) =>
      let r := splitRequest brs'
      let r' := splitFrBlocks r.2 rest
      (r.1 :: r'.1, r'.2)

/-- A `Split` whose branches share the fill/compute (fill/request) type has `fill` and `compute`
(`request`), so `_get_seq_with_type` of an enclosing `Split` classifies it as a fill/compute
(fill/request) element.  Its methods as `Ops` over the list of its branches: `fill = _fill`,
`compute = _compute`, `request = _request`, `__call__`.  The enclosing `Split` never calls `run`
of a fill/compute or fill/request branch (`stepBranch`, `finalPass`), so `run` is left out
(running a `Split` twice needs the states of the branches it dropped, which `Split.runTrace`
does not return). -/
def splitOps : Ops (List (Branch σ α)) α :=
  { call := splitCallLoop
    fill := fun brs x => splitFill x brs
    compute := splitCompute
    request := splitRequest
    run := fun brs _ => ([], brs) }

/-- `for f in fs: x = f(x)` -/
def applyAll (fs : List (α → α)) (x : α) : α := fs.foldl (fun v f => f v) x

/-- A tuple `(f₁, …, fₙ, el, g₁, …, gₘ)` of callables around one element, as
`_get_seq_with_type` converts it: `FillComputeSeq(*seq)` / `FillRequestSeq(*seq, …)` put the
callables before the element into a `FillSeq` of `FillInto` adapters
(`fill(x) = el.fill(fₙ(…f₁(x)))`, fill_seq.py:62-80, adapters.py `FillInto.fill_into`) and the
ones after it into a `Sequence` (`compute() = self._after.run(el.compute())`: each result `v`
becomes `gₘ(…g₁(v))`); `Sequence(*seq)` chains `Run` adapters
(`run(buf) = map g (el.run(map f buf))`). -/
def seqOps (pre post : List (α → α)) (el : Ops σ α) : Ops σ α :=
  { call := el.call
    fill := fun s x => el.fill s (applyAll pre x)
    compute := fun s => ((el.compute s).1.map (applyAll post), (el.compute s).2)
    request := fun s => ((el.request s).1.map (applyAll post), (el.request s).2)
    run := fun s buf =>
      ((el.run s (buf.map (applyAll pre))).1.map (applyAll post), (el.run s (buf.map (applyAll pre))).2) }

/-! ## classification of the arguments: `_get_seq_with_type` (split.py:17-71) -/

/-- the callable attributes of one element object that the constructors look at -/
structure ElCaps where
  fill : Bool
  compute : Bool
  request : Bool
  run : Bool
  /-- `callable(el)` -/
  call : Bool
  /-- a callable `fill_into` -/
  fillInto : Bool
  /-- `hasattr(el, "_can_break_flow")` -/
  canBreakFlow : Bool
  deriving Repr, DecidableEq

/-- an argument in the list given to `Split` / `Zip` -/
inductive Obj where
  /-- `isinstance(seq, Source)` -/
  | source
  /-- `isinstance(seq, FillComputeSeq)` -/
  | fcSeq
  /-- `isinstance(seq, FillRequestSeq)` -/
  | frSeq
  /-- `isinstance(seq, Sequence)` -/
  | seq
  /-- a single object that is not iterable -/
  | el (c : ElCaps)
  /-- a tuple of element objects -/
  | tuple (els : List ElCaps)
  /-- a list of element objects: iterable like a tuple (`is_fill_compute_seq` / `is_fill_request_seq`
  look into it, `FillComputeSeq(*seq)` / `FillRequestSeq(*seq)` unpack it), but not a tuple:
  `Sequence(seq)` takes the list as ONE element, which is neither a Run element nor callable -/
  | list (els : List ElCaps)
  deriving Repr

/-- `ct.is_fill_compute_el` -/
def ElCaps.isFC (c : ElCaps) : Bool := c.fill && c.compute
/-- `ct.is_fill_request_el` -/
def ElCaps.isFR (c : ElCaps) : Bool := c.fill && c.request
/-- `adapters.Run(el)` succeeds: a callable `run`, or callable, or a fill/compute element -/
def ElCaps.runnable (c : ElCaps) : Bool := c.run || c.call || c.isFC
/-- `FillSeq.__init__`: a callable `fill_into`, or `adapters.FillInto(el)` succeeds
(callable — our elements are never a `Split` — or a Run element with `_can_break_flow`) -/
def ElCaps.fillIntoable (c : ElCaps) : Bool := c.fillInto || c.call || (c.run && c.canBreakFlow)

/-- `ct.is_fill_compute_seq(seq)` called directly on an argument.  For the explicit sequence
objects of the harness: `Source(...)` → `False` (first test of the function);
`FillComputeSeq(FC)` is iterable and contains its fill/compute element; `FillRequestSeq(FR)` and
`Sequence(SQ)` contain none and have no `compute` themselves. -/
def Obj.isFillComputeSeq : Obj → Bool
  | .source => false
  | .fcSeq => true
  | .frSeq => false
  | .seq => false
  | .el c => c.isFC
  | .tuple els => els.any ElCaps.isFC
  | .list els => els.any ElCaps.isFC

/-- `ct.is_fill_request_seq(seq)` called directly (`FillRequestSeq` has `fill` and `request`) -/
def Obj.isFillRequestSeq : Obj → Bool
  | .source => false
  | .fcSeq => false
  | .frSeq => true
  | .seq => false
  | .el c => c.isFR
  | .tuple els => els.any ElCaps.isFR
  | .list els => els.any ElCaps.isFR

/-- `Sequence(*els)` succeeds -/
def sequenceOk (els : List ElCaps) : Bool := els.all ElCaps.runnable

/-- the loop `for ind, el in enumerate(seq): if not check(el): before.append(el) else: …; break`
of `FillComputeSeq.__init__` / `_init_sequence_with_el`: elements before the first one that
satisfies `check`, and the elements after it; `none` if there is none -/
def splitAtFirst (check : ElCaps → Bool) : List ElCaps → Option (List ElCaps × List ElCaps)
  | [] => none
  | c :: rest =>
    if check c then some ([], rest)
    else match splitAtFirst check rest with
      | none => none
      | some (b, a) => some (c :: b, a)

/-- `FillComputeSeq(*els)` / `FillRequestSeq(*els, …)` succeeds: a first element of the type is
found, everything before it converts to `FillInto` (`FillSeq(*before, el)`; `el` has `fill`),
everything after it forms a `Sequence` -/
def fillSeqOk (check : ElCaps → Bool) (els : List ElCaps) : Bool :=
  match splitAtFirst check els with
  | none => false
  | some (before, after) => before.all ElCaps.fillIntoable && sequenceOk after

/-- `_get_seq_with_type(seq, bufsize)`: the type, or the exception.  `bufsizeOk` says that
`bufsize` is `None` or a natural number (else `adapters.FillRequest.__init__`, reached through
`FillRequestSeq(*seq, bufsize=…)`, raises `LenaValueError`). -/
def classify (bufsizeOk : Bool) : Obj → Except Exc Kind
  | .source => .ok .source
  | .fcSeq => .ok .fillCompute
  | .frSeq => .ok .fillRequest
  | .seq => .ok .sequence
  | .el c =>
    -- is_fill_compute_seq: `any(map(…, seq))` raises TypeError (not iterable), caught
    if c.isFC then .ok .fillCompute
    -- is_fill_request_seq: no `__iter__`
    else if c.isFR then .ok .fillRequest
    -- Sequence(seq)
    else if c.runnable then .ok .sequence
    else .error .lenaTypeError
  | .tuple els =>
    if els.any ElCaps.isFC then
      -- a tuple has no fill/compute: `FillComputeSeq(*seq)`
      if fillSeqOk ElCaps.isFC els then .ok .fillCompute else .error .lenaTypeError
    else if els.any ElCaps.isFR then
      if fillSeqOk ElCaps.isFR els then
        if bufsizeOk then .ok .fillRequest else .error .lenaValueError
      else .error .lenaTypeError
    else if sequenceOk els then .ok .sequence
    else .error .lenaTypeError
  | .list els =>
    if els.any ElCaps.isFC then
      if fillSeqOk ElCaps.isFC els then .ok .fillCompute else .error .lenaTypeError
    else if els.any ElCaps.isFR then
      if fillSeqOk ElCaps.isFR els then
        if bufsizeOk then .ok .fillRequest else .error .lenaValueError
      else .error .lenaTypeError
    -- `Sequence(seq)`: the list itself is the only element
    else .error .lenaTypeError

/-- `for sequence in seqs: seq, seq_type = _get_seq_with_type(sequence, bufsize)`
(split.py:198-208; a `LenaTypeError` is re-raised as `LenaTypeError`) -/
def classifyAll (bufsizeOk : Bool) : List Obj → Except Exc (List Kind)
  | [] => .ok []
  | o :: rest =>
    match classify bufsizeOk o with
    | .error e => .error e
    | .ok k =>
      match classifyAll bufsizeOk rest with
      | .error e => .error e
      | .ok ks => .ok (k :: ks)

/-- `Split.__init__(seqs, bufsize, copy_buf)` as far as it can fail: `seqsIsList` =
`isinstance(seqs, list)`; `bufsize` is `None` or an integer.  Order of the checks as in the
code: list check, classification of every argument, then `bufsize`. -/
def splitInit (seqsIsList : Bool) (objs : List Obj) (bufsize : Option Int) :
    Except Exc (List Kind × Option Nat) :=
  if !seqsIsList then .error .lenaTypeError else
  let bufsizeOk := match bufsize with
    | none => true
    | some b => decide (1 ≤ b)
  match classifyAll bufsizeOk objs with
  | .error e => .error e
  | .ok kinds =>
    -- if bufsize is not None: if bufsize != int(bufsize) or bufsize < 1: raise LenaValueError
    match bufsize with
    | none => .ok (kinds, none)
    | some b => if b < 1 then .error .lenaValueError else .ok (kinds, some b.toNat)

/-- number the branches: `id` = position in `seqs` -/
def mkBranches (start : Nat) : List (Kind × Ops σ α × σ) → List (Branch σ α)
  | [] => []
  | (k, o, s) :: rest => { id := start, kind := k, ops := o, st := s } :: mkBranches (start + 1) rest

/-! ## `Zip` (lena/flow/zip.py) -/

/-- the methods `Zip.__init__` creates -/
inductive ZipType where
  | fillCompute
  | fillRequest
  deriving Repr, DecidableEq

/-- `Zip.__init__(sequences)` (zip.py:28-63) as far as it can fail (without `fields`):
no sequence → `LenaTypeError`; `_get_seq_with_type(sequence)` (with `bufsize=None`) for each;
more than one type → `LenaTypeError`; a type other than fill/compute and fill/request →
`LenaNotImplementedError` -/
def zipTypeOf (kinds : List Kind) : Except Exc ZipType :=
  -- if len(seq_types) != 1: raise LenaTypeError("only one sequence type is allowed")
  if allKind .fillCompute kinds then .ok .fillCompute
  else if allKind .fillRequest kinds then .ok .fillRequest
  else if allKind .source kinds || allKind .sequence kinds then .error .lenaNotImplementedError
  else .error .lenaTypeError

def zipInit (objs : List Obj) : Except Exc ZipType :=
  if objs.isEmpty then .error .lenaTypeError else
  match classifyAll true objs with
  | .error e => .error e
  | .ok kinds => zipTypeOf kinds

/-- `Zip._fill(val)`: `for seq in self._sequences: seq.fill(copy.deepcopy(val))`
(no `LenaStopFill` handling: it propagates) — the same loop as `Split._fill` -/
def zipFill (x : α) (brs : List (Branch σ α)) : List (Branch σ α) × Bool := splitFill x brs

/-- one round of `for res in results: val = next(res)` (zip.py:128-135): the heads if every
iterator has one; `none` at the first exhausted one (`break_while`).  Also returns the
iterators after the round. -/
def zipRound : List (List α) → Option (List α × List (List α))
  | [] => some ([], [])
  | [] :: _ => none
  | (v :: r) :: rest =>
    match zipRound rest with
    | none => none
    | some (vs, rs) => some (v :: vs, r :: rs)

/-- `Zip._yield(results)` on values without context: `while True:` one round, `break` on the
shortest, else yield `tuple(values)`.  Fuel: the length of the first result list + 1. -/
def zipYieldFuel : Nat → List (List α) → List (List α)
  | 0, _ => []
  | fuel + 1, results =>
    match zipRound results with
    | none => []
    | some (vs, rs) => vs :: zipYieldFuel fuel rs

/-- the results of every sequence, in order: `results.append(seq.compute())` -/
def zipCollect (get : Ops σ α → σ → List α × σ) : List (Branch σ α) → List (List α)
  | [] => []
  | b :: rest => (get b.ops b.st).1 :: zipCollect get rest

/-- `Zip._yield` for a non-empty list of results -/
def zipYield (results : List (List α)) : List (List α) :=
  match results with
  | [] => []     -- not reachable: `Zip` has at least one sequence
  | r :: _ => zipYieldFuel (r.length + 1) results

/-- `Zip._compute()` (values without context): tuples of the i-th results -/
def zipCompute (brs : List (Branch σ α)) : List (List α) := zipYield (zipCollect (·.compute) brs)
/-- `Zip._request()` -/
def zipRequest (brs : List (Branch σ α)) : List (List α) := zipYield (zipCollect (·.request) brs)

/-! ## the harness vocabulary: concrete branches (`harness/props/c03.py`) -/

/-- values in the generated flows and outputs: integers, strings, tuples -/
inductive V where
  | int (i : Int)
  | str (s : String)
  | tup (xs : List V)
  deriving Repr

/-- state of a harness branch object: values stored, number of successful fills, number of
invocations of its yielding method so far, running total -/
structure BState where
  filled : List V := []
  n : Nat := 0
  calls : Nat := 0
  total : Int := 0
  deriving Repr

/-- kinds of harness `run` elements -/
inductive SqKind where
  /-- per value `(tag, "run", x)` -/
  | map
  /-- per value, then `(tag, "end", calls)` after each run -/
  | mapEnd
  /-- only even integers, `(tag, "even", x)` -/
  | even
  /-- one value per run: `(tag, "sum", calls, sum(block))` -/
  | sumBlock
  /-- every value twice: `(tag, "dup", x)` -/
  | dup
  /-- per value with a counter that lives across runs: `(tag, "idx", n, x)` -/
  | running
  /-- a bare `lambda x: (tag, "lam", x)` -/
  | lam
  /-- like `lena.flow.Cache`: the first run stores its input and yields `(tag, "c", x)`; every
  later run ignores its input and replays the stored values -/
  | cache
  deriving Repr, DecidableEq

/-- a harness branch -/
inductive BSpec where
  /-- `Source(SrcEl(tag, k))`: yields `(tag, "src", calls, j)` for `j < k` -/
  | src (k : Nat)
  /-- fill/compute element: `fill` raises `LenaStopFill` once `stopAt` values were accepted
  (`late`: it stores the value before raising); `compute` yields
  `(tag, "compute", calls, tuple(filled))` and, if `items`, `(tag, "item", x)` for each -/
  | fc (stopAt : Option Nat) (late : Bool) (items : Bool)
  /-- fill/request element: `request` yields `(tag, "request", calls, tuple(filled))` and
  forgets the stored values -/
  | fr (stopAt : Option Nat) (late : Bool)
  | sq (v : SqKind)
  /-- `lena.math.Sum()` on bare integers: `compute` yields the total -/
  | sum
  deriving Repr

def BSpec.kind : BSpec → Kind
  | .src _ => .source
  | .fc _ _ _ => .fillCompute
  | .fr _ _ => .fillRequest
  | .sq _ => .sequence
  | .sum => .fillCompute

def tagged (tag : Nat) (what : String) (rest : List V) : V :=
  .tup (.int tag :: .str what :: rest)

def V.isEven : V → Bool
  | .int i => i % 2 == 0
  | _ => false

def V.toInt : V → Int
  | .int i => i
  | _ => 0

/-- `fill` of the harness classes `FC` / `FR` -/
def fillStop (stopAt : Option Nat) (late : Bool) (s : BState) (x : V) : BState × Bool :=
  match stopAt with
  | some m =>
    if s.n ≥ m then
      ((if late then { s with filled := s.filled ++ [x] } else s), true)
    else ({ s with filled := s.filled ++ [x], n := s.n + 1 }, false)
  | none => ({ s with filled := s.filled ++ [x], n := s.n + 1 }, false)

def noFill (s : BState) (_ : V) : BState × Bool := (s, false)
def noGen (s : BState) : List V × BState := ([], s)
def noRun (s : BState) (_ : List V) : List V × BState := ([], s)

/-- the loop of the `running` element: `for x in flow: yield (tag, "idx", self.n, x); self.n += 1` -/
def runningLoop (tag : Nat) : Nat → List V → List V × Nat
  | n, [] => ([], n)
  | n, x :: xs =>
    let r := runningLoop tag (n + 1) xs
    (tagged tag "idx" [.int n, x] :: r.1, r.2)

def sqRun (tag : Nat) (v : SqKind) (s : BState) (buf : List V) : List V × BState :=
  match v with
  | .map => (buf.map (fun x => tagged tag "run" [x]), s)
  | .lam => (buf.map (fun x => tagged tag "lam" [x]), s)
  | .mapEnd =>
    (buf.map (fun x => tagged tag "run" [x]) ++ [tagged tag "end" [.int s.calls]],
      { s with calls := s.calls + 1 })
  | .even => ((buf.filter V.isEven).map (fun x => tagged tag "even" [x]), s)
  | .sumBlock =>
    ([tagged tag "sum" [.int s.calls, .int (buf.foldl (fun a x => a + x.toInt) 0)]],
      { s with calls := s.calls + 1 })
  | .dup => (buf.flatMap (fun x => [tagged tag "dup" [x], tagged tag "dup" [x]]), s)
  | .running =>
    let r := runningLoop tag s.n buf
    (r.1, { s with n := r.2 })
  | .cache =>
    if s.calls = 0 then (buf.map (fun x => tagged tag "c" [x]), { s with filled := buf, calls := 1 })
    else (s.filled.map (fun x => tagged tag "c" [x]), { s with calls := s.calls + 1 })

/-- the methods of a harness branch with tag `tag` -/
def BSpec.ops (tag : Nat) : BSpec → Ops BState V
  | .src k =>
    { call := fun s =>
        ((List.range k).map (fun (j : Nat) => tagged tag "src" [.int s.calls, .int j]),
          { s with calls := s.calls + 1 })
      fill := noFill, compute := noGen, request := noGen, run := noRun }
  | .fc stopAt late items =>
    { call := noGen
      fill := fillStop stopAt late
      compute := fun s =>
        (tagged tag "compute" [.int s.calls, .tup s.filled] ::
            (if items then s.filled.map (fun x => tagged tag "item" [x]) else []),
          { s with calls := s.calls + 1 })
      request := noGen, run := noRun }
  | .fr stopAt late =>
    { call := noGen
      fill := fillStop stopAt late
      compute := noGen
      request := fun s =>
        ([tagged tag "request" [.int s.calls, .tup s.filled]],
          { s with calls := s.calls + 1, filled := [] })
      run := noRun }
  | .sq v =>
    { call := noGen, fill := noFill, compute := noGen, request := noGen, run := sqRun tag v }
  | .sum =>
    { call := noGen
      fill := fun s x => ({ s with total := s.total + x.toInt }, false)
      compute := fun s => ([.int s.total], s)
      request := noGen, run := noRun }

/-- the branch list of a harness case -/
def mkHarnessBranches (start : Nat) : List BSpec → List (Branch BState V)
  | [] => []
  | sp :: rest =>
    { id := start, kind := sp.kind, ops := sp.ops start, st := {} } :: mkHarnessBranches (start + 1) rest

/-! ### a common-type Split as a branch (one level of nesting) -/

/-- state of a branch of the enclosing Split: a harness element, or a nested Split -/
inductive NState where
  | plain (s : BState)
  | nested (brs : List (Branch BState V))

/-- a harness element as a branch of the enclosing Split -/
def liftOps (o : Ops BState V) : Ops NState V :=
  { call := fun s => match s with
      | .plain b => ((o.call b).1, .plain (o.call b).2)
      | n => ([], n)
    fill := fun s x => match s with
      | .plain b => (.plain (o.fill b x).1, (o.fill b x).2)
      | n => (n, false)
    compute := fun s => match s with
      | .plain b => ((o.compute b).1, .plain (o.compute b).2)
      | n => ([], n)
    request := fun s => match s with
      | .plain b => ((o.request b).1, .plain (o.request b).2)
      | n => ([], n)
    run := fun s buf => match s with
      | .plain b => ((o.run b buf).1, .plain (o.run b buf).2)
      | n => ([], n) }

/-- a nested Split as a branch of the enclosing Split: `splitOps` on its branches -/
def nestOps : Ops NState V :=
  { call := fun s => match s with
      | .nested brs => ((splitOps.call brs).1, .nested (splitOps.call brs).2)
      | n => ([], n)
    fill := fun s x => match s with
      | .nested brs => (.nested (splitOps.fill brs x).1, (splitOps.fill brs x).2)
      | n => (n, false)
    compute := fun s => match s with
      | .nested brs => ((splitOps.compute brs).1, .nested (splitOps.compute brs).2)
      | n => ([], n)
    request := fun s => match s with
      | .nested brs => ((splitOps.request brs).1, .nested (splitOps.request brs).2)
      | n => ([], n)
    run := fun s _ => ([], s) }

/-- the callable `lambda x: x + 10` of the harness (non-integers are left alone) -/
def preFn : V → V
  | .int i => .int (i + 10)
  | v => v

/-- the callable `lambda v: ("post", v)` of the harness -/
def postFn (v : V) : V := .tup [.str "post", v]

/-- a harness element presented to Split inside a tuple, with `preFn` before it and/or `postFn`
after it (forms `tuple_pre`, `tuple_post`, `tuple_pp` of `harness/props/c03.py`) -/
structure HSpec where
  base : BSpec
  pre : Bool
  post : Bool

def HSpec.ops (tag : Nat) (h : HSpec) : Ops BState V :=
  if h.pre || h.post then
    seqOps (if h.pre then [preFn] else []) (if h.post then [postFn] else []) (h.base.ops tag)
  else h.base.ops tag

/-- a branch of the enclosing Split in a harness case -/
inductive OSpec where
  | plain (h : HSpec)
  /-- `Split([inner…])` with a common type; its branches carry the tags `100*(tag+1) + j` -/
  | nest (inner : List BSpec)

/-- the kind `_get_seq_with_type` gives a nested common-type Split: it has `fill` and `compute`
(all inner branches fill/compute) or `fill` and `request` (all fill/request) -/
def nestKind (inner : List BSpec) : Kind :=
  if (methodsOf (inner.map BSpec.kind)).compute then .fillCompute else .fillRequest

def mkOuterBranches (start : Nat) : List OSpec → List (Branch NState V)
  | [] => []
  | .plain h :: rest =>
    { id := start, kind := h.base.kind, ops := liftOps (h.ops start), st := .plain {} } ::
      mkOuterBranches (start + 1) rest
  | .nest inner :: rest =>
    { id := start, kind := nestKind inner, ops := nestOps,
      st := .nested (mkHarnessBranches (100 * (start + 1)) inner) } ::
      mkOuterBranches (start + 1) rest

end Lena.C03
