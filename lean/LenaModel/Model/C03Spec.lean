import LenaModel.Model.C03
import LenaModel.Model.C03X
/-! # C03 — specification-side definitions used in the statements of `Props/C03*.lean`

Closed forms of what the property promises for one branch (`seqTrace`, `fcTrace`, `frTrace`,
`invocationOf`, `resultOf`, `finaliser`), for Zip (`colAt`), for the common `fill` (`filled`)
and for the objects after a run (`objAfter`).  They are not transcriptions of lena code.  They
live in a `Model/` file so that `drivers/C03.lean` can execute them: the check compares each of
them with the real code or with an independent Python reference on every generated case. -/

namespace Lena.C03

variable {σ α : Type}

/-- `run` on each block in turn (the object keeps its state between blocks) -/
def seqTrace (i : Nat) (ops : Ops σ α) : σ → List (List α) → List (Ev α)
  | _, [] => []
  | s, blk :: rest => .run i blk :: outs i (ops.run s blk).1 ++ seqTrace i ops (ops.run s blk).2 rest


/-- fill with every value of the flow until `LenaStopFill`, then `compute()` once -/
def fcTrace (b : Branch σ α) (xs : List α) : List (Ev α) :=
  (fillBuf b.id b.ops b.st xs).1 ++
    .compute b.id :: outs b.id (b.ops.compute (fillBuf b.id b.ops b.st xs).2.1).1


/-- block by block: fill until `LenaStopFill`, then `request()`; after a stop nothing more -/
def frTrace (i : Nat) (ops : Ops σ α) : σ → List (List α) → List (Ev α)
  | _, [] => []
  | s, blk :: rest =>
    (fillBuf i ops s blk).1 ++
      .request i :: outs i (ops.request (fillBuf i ops s blk).2.1).1 ++
        (if (fillBuf i ops s blk).2.2 then []
         else frTrace i ops (ops.request (fillBuf i ops s blk).2.1).2 rest)


/-- a `fill` that raised `LenaStopFill` -/
def Ev.isStop : Ev α → Bool
  | .fill _ _ true => true
  | _ => false


/-- the finalising call of a fill/compute or fill/request branch -/
def finaliser (b : Branch σ α) : Ev α :=
  match b.kind with
  | .fillCompute => .compute b.id
  | _ => .request b.id


/-- the one call a branch receives when the flow is empty -/
def invocationOf (b : Branch σ α) : Ev α :=
  match b.kind with
  | .source => .call b.id
  | .fillCompute => .compute b.id
  | .fillRequest => .request b.id
  | .sequence => .run b.id []

/-- … and what it yields -/
def resultOf (b : Branch σ α) : List α :=
  match b.kind with
  | .source => (b.ops.call b.st).1
  | .fillCompute => (b.ops.compute b.st).1
  | .fillRequest => (b.ops.request b.st).1
  | .sequence => (b.ops.run b.st []).1


/-- the object after it has been filled with `xs` -/
def filled (b : Branch σ α) (xs : List α) : Branch σ α :=
  { b with st := (fillBuf b.id b.ops b.st xs).2.1 }


/-- the `i`-th results of all sequences, if every one of them has an `i`-th result -/
def colAt (i : Nat) : List (List α) → Option (List α)
  | [] => some []
  | r :: rest =>
    match r[i]?, colAt i rest with
    | some v, some vs => some (v :: vs)
    | _, _ => none


/-- what becomes of one branch object over the blocks and the final pass `fin`, independently
of all other branches -/
def objAfterG (fin : Branch σ α → Branch σ α) (b : Branch σ α) : List (List α) → Branch σ α
  | [] => fin b
  | blk :: rest =>
    match (stepFull blk b).2.2 with
    | .stay => objAfterG fin (stepFull blk b).2.1 rest
    | _ => (stepFull blk b).2.1


/-- what becomes of one branch object during `Split.run`: a function of that branch and of the
blocks alone -/
def objAfter (b : Branch σ α) (bl : List (List α)) : Branch σ α :=
  objAfterG (fun c => (finalFull bl.isEmpty c).2.1) b bl


/-- the flow values a branch was given: the arguments of its `fill` calls (the one that raised
`LenaStopFill` included) and the buffers of its `run` calls, in order -/
def received : List (Ev α) → List α
  | [] => []
  | .fill _ x _ :: r => x :: received r
  | .run _ buf :: r => buf ++ received r
  | _ :: r => received r

/-- everything that happens to one branch during `Split.run`, in closed form by kind (the right
hand sides of `branchTrace_source`, `_sequence`, `_fillCompute`, `_fillRequest`) -/
def closedForm (b : Branch σ α) (bl : List (List α)) : List (Ev α) :=
  match b.kind with
  | .source => .call b.id :: outs b.id (b.ops.call b.st).1
  | .sequence =>
    if bl.isEmpty then .run b.id [] :: outs b.id (b.ops.run b.st []).1 else seqTrace b.id b.ops b.st bl
  | .fillCompute => fcTrace b bl.flatten
  | .fillRequest =>
    if bl.isEmpty then .request b.id :: outs b.id (b.ops.request b.st).1 else frTrace b.id b.ops b.st bl

/-! ## block by block: what ONE branch contributes to block number `k`, kind by kind

Independent of `stepBranch`/`life`: stated with the state in which the branch starts the block. -/

/-- the state in which a plain Sequence starts block `k`: after `k` runs -/
def seqStateAt (ops : Ops σ α) : σ → List (List α) → Nat → σ
  | s, _, 0 => s
  | s, [], _ + 1 => s
  | s, blk :: rest, k + 1 => seqStateAt ops (ops.run s blk).2 rest k

/-- the state in which a fill branch starts block `k`; `none`: it signalled `LenaStopFill` in an
earlier block (and was dropped).  `after` is what the end of a block does to the object:
`request()` for a fill/request branch, nothing for a fill/compute branch. -/
def fillStateAt (i : Nat) (ops : Ops σ α) (after : σ → σ) : σ → List (List α) → Nat → Option σ
  | s, _, 0 => some s
  | s, [], _ + 1 => some s
  | s, blk :: rest, k + 1 =>
    if (fillBuf i ops s blk).2.2 then none
    else fillStateAt i ops after (after (fillBuf i ops s blk).2.1) rest k

/-- THE SENTENCE OF THE PROPERTY FOR ONE BLOCK: in block `k` a Source yields its complete output
iff it is the first block; a plain Sequence is run on the block (in the state its earlier runs
left); a fill/request branch that has not stopped is filled with the block and yields
`request()`; a fill/compute branch that has not stopped is filled with the block and yields
`compute()` only if it signals `LenaStopFill` in this block -/
def blockForm (b : Branch σ α) (bl : List (List α)) (k : Nat) : List (Ev α) :=
  match bl[k]? with
  | none => []
  | some blk =>
    match b.kind with
    | .source => if k = 0 then .call b.id :: outs b.id (b.ops.call b.st).1 else []
    | .sequence => .run b.id blk :: outs b.id (b.ops.run (seqStateAt b.ops b.st bl k) blk).1
    | .fillRequest =>
      match fillStateAt b.id b.ops (fun s => (b.ops.request s).2) b.st bl k with
      | none => []
      | some s =>
        (fillBuf b.id b.ops s blk).1 ++
          .request b.id :: outs b.id (b.ops.request (fillBuf b.id b.ops s blk).2.1).1
    | .fillCompute =>
      match fillStateAt b.id b.ops id b.st bl k with
      | none => []
      | some s =>
        if (fillBuf b.id b.ops s blk).2.2 then
          (fillBuf b.id b.ops s blk).1 ++
            .compute b.id :: outs b.id (b.ops.compute (fillBuf b.id b.ops s blk).2.1).1
        else (fillBuf b.id b.ops s blk).1

/-- … and after the last block: `compute()` of a fill/compute branch that never stopped; one
invocation of every other branch iff there was no block at all -/
def finalForm (b : Branch σ α) (bl : List (List α)) : List (Ev α) :=
  match b.kind with
  | .source => if bl.isEmpty then .call b.id :: outs b.id (b.ops.call b.st).1 else []
  | .sequence => if bl.isEmpty then .run b.id [] :: outs b.id (b.ops.run b.st []).1 else []
  | .fillRequest => if bl.isEmpty then .request b.id :: outs b.id (b.ops.request b.st).1 else []
  | .fillCompute =>
    match fillStateAt b.id b.ops id b.st bl bl.length with
    | none => []
    | some s => .compute b.id :: outs b.id (b.ops.compute s).1

end Lena.C03
