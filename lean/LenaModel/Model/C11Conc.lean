import LenaModel.Model.C11
import LenaModel.Model.C11Spec
/-! # C11 — the concrete analyses of the correspondence check

`Model/C11.lean` is generic in the analysis that is split into bins.  To *execute* it against the real
code the driver needs concrete analyses; this file defines the little language of them that
`harness/props/c11.py` mirrors with Python elements (`_Step`, `_Acc` there; `Variable` is lena's own class):

    analysis ::= pre* acc post*          (a `FillComputeSeq(*pre, acc, *post)`)

* a **step** (`Step`) is an element that turns one value into 0, 1 or 2 values, may change the context
  of the value in place and may raise;
* the **accumulator** (`AccKind`) keeps sum, count, the stored values and the context of the last value, and
  yields one, two, or a data-dependent number of results from `compute()`, or raises there;
* data are integers or tuples of integers (`V.int`, `V.seq true`), contexts are slot vectors (`Model/C14`).

The argument variable is lena's `Variable`/`Combine` with a getter out of `Getter`.  Exceptions of this user
code are strings (the harness's `exc_name`).  Everything here is *fixture*, not lena code: the semantics are
fixed by this file and `c11.py` together, and any disagreement between them shows up as a correspondence
failure of the harness, not of lena. -/

namespace Lena.C11.Conc

open Lena
open Lena.C06 (Edges Coord)
open Lena.C14 (V Slots Value getSlot setSlot emptyD key)
open Lena.C11

abbrev Val := Value V
/-- exception class name of user code -/
abbrev IErr := String

def excName : Exc IErr → String
  | .lenaTypeError => "LenaTypeError"
  | .lenaValueError => "LenaValueError"
  | .lenaIndexError => "LenaIndexError"
  | .lenaAttributeError => "LenaAttributeError"
  | .indexError => "Other:IndexError"
  | .typeError => "Other:TypeError"
  | .keyError => "Other:KeyError"
  | .assertionError => "Other:AssertionError"
  | .unmodelled => "unmodelled"
  | .inner e => e

def varErrName : C14.Err → String
  | .lenaTypeError => "LenaTypeError"
  | .lenaAttributeError => "LenaAttributeError"
  | .typeError => "Other:TypeError"
  | .assertionError => "Other:AssertionError"
  | .unmodelled => "unmodelled"
  | .attributeError => "Other:AttributeError"
  | .indexError => "Other:IndexError"

section
variable (names : List String)

/-! ## getters -/

/-- `data[i]` for tuple data -/
def projData (i : Nat) : V → Except IErr V
  | .seq _ l =>
    match l[i]? with
    | some x => .ok x
    | none => .error "Other:IndexError"
  | .int _ => .error "Other:TypeError"          -- 'int' object is not subscriptable
  | .str _ => .error "unmodelled"
  | .dict _ => .error "unmodelled"

def asInt : V → Except IErr Int
  | .int i => .ok i
  | _ => .error "unmodelled"

/-- the getter of the argument variable -/
inductive Getter where
  | ident                       -- `lambda d: d`
  | proj (i : Nat)              -- `lambda d: d[i]`
  | comb (is : List Nat)        -- `Combine(Variable(…, lambda d: d[i]) for i in is)`: a tuple
  deriving Repr

def intsOf : List V → Except IErr (List Int)
  | [] => .ok []
  | x :: r =>
    match asInt x with
    | .error e => .error e
    | .ok i =>
      match intsOf r with
      | .error e => .error e
      | .ok is => .ok (i :: is)

def projAll (d : V) : List Nat → Except IErr (List Int)
  | [] => .ok []
  | i :: r =>
    match projData i d with
    | .error e => .error e
    | .ok x =>
      match asInt x with
      | .error e => .error e
      | .ok n =>
        match projAll d r with
        | .error e => .error e
        | .ok ns => .ok (n :: ns)

def Getter.run : Getter → V → Except IErr (Coord Int)
  | .ident, .int i => .ok (.scalar i)
  | .ident, .seq _ l =>
    match intsOf l with
    | .error e => .error e
    | .ok is => .ok (.tuple is)
  | .ident, _ => .error "unmodelled"
  | .proj i, d =>
    match projData i d with
    | .error e => .error e
    | .ok x =>
      match asInt x with
      | .error e => .error e
      | .ok n => .ok (.scalar n)
  | .comb is, d =>
    match projAll d is with
    | .error e => .error e
    | .ok ns => .ok (.tuple ns)

/-! ## steps -/

/-- an element before or after the accumulator -/
inductive Step where
  | scale (k : Int)                      -- `(data * k, context)`; `TypeError` for data that is not an int
  | proj (i : Nat)                       -- `(data[i], context)`
  | setKey (k : Nat) (v : V)             -- `context[key] = v` in place; `(data, context)`
  | var (proj : Option Nat) (vc : Slots) -- a lena `Variable` with getter `lambda d: d` / `lambda d: d[i]`
  | dup                                  -- the value, then a deep copy of it (taken before)
  | dropOdd                              -- drops values whose (integer) data is odd
  | failOn (x : Int)                     -- raises `ValueError` for data `== x`, else passes the value
  | count (k : Nat)                      -- `lena.flow.Count(name)` as a Run element (stateful, lazy); `k` = slot of `name`
  | acc (kind : Nat)                     -- an accumulator (`AccKind` number `kind`) as a Run element (stateful, eager)
  deriving Repr

/-- what the element yields for one value, and how it ends -/
def Step.run (st : Step) (v : Val) : Trace Val IErr :=
  let dc := C14.getDataContext names v
  match st with
  | .scale k =>
    match dc.1 with
    | .int i => ⟨[.pair (.int (i * k)) dc.2], none⟩
    | _ => ⟨[], some "Other:TypeError"⟩
  | .proj i =>
    match projData i dc.1 with
    | .error e => ⟨[], some e⟩
    | .ok x => ⟨[.pair x dc.2], none⟩
  | .setKey k x => ⟨[.pair dc.1 (setSlot dc.2 k (some x))], none⟩
  | .var p vc =>
    let d' : Except IErr V := match p with
      | none => .ok dc.1
      | some i => projData i dc.1
    match d' with
    | .error e => ⟨[], some e⟩
    | .ok d =>
      match C14.updateContext names true dc.2 vc with
      | .error e => ⟨[], some (varErrName e)⟩
      | .ok c => ⟨[.pair d c], none⟩
  | .dup => ⟨[v, v], none⟩
  | .dropOdd =>
    match dc.1 with
    | .int i => if i % 2 = 0 then ⟨[v], none⟩ else ⟨[], none⟩
    | _ => ⟨[], some "Other:TypeError"⟩
  | .failOn x =>
    match dc.1 with
    | .int i => if i = x then ⟨[], some "Other:ValueError"⟩ else ⟨[v], none⟩
    | _ => ⟨[v], none⟩
  -- the stateful elements act on a whole flow (`Step.apply`), not on single values
  | .count _ => ⟨[], some "unmodelled"⟩
  | .acc _ => ⟨[], some "unmodelled"⟩

/-- a generator piped through an element: `for v in t: yield from st.run(v)` (lazily) -/
def pipe (f : Val → Trace Val IErr) (t : Trace Val IErr) : Trace Val IErr :=
  (traceFlatMap f t.out).append ⟨[], t.fin⟩

/-! ## the accumulator -/

inductive AccKind where
  | sum          -- yields `(sum, context)`
  | count        -- yields the bare count
  | store        -- yields `((data, …), context)`: the tuple of the data parts in arrival order
  | sumCount     -- yields `(sum, context)`, then `(count, context)`
  | each         -- yields a copy of every stored value
  | failEmpty    -- raises `LenaValueError` when nothing was filled, else as `sum`
  | sumFail      -- yields `(sum, context)` and then raises `RuntimeError`
  deriving Repr, DecidableEq

structure AccState where
  sum : Int
  count : Nat
  stored : List Val
  lastCtx : Slots

def accInit : AccState := ⟨0, 0, [], emptyD names.length⟩

def sumInts : List V → Except IErr Int
  | [] => .ok 0
  | .int i :: r =>
    match sumInts r with
    | .error e => .error e
    | .ok s => .ok (i + s)
  | _ :: _ => .error "Other:TypeError"

/-- `acc.fill(value)`: an integer is added to the sum, a tuple of integers adds its components -/
def accFill (s : AccState) (v : Val) : Except IErr AccState :=
  let dc := C14.getDataContext names v
  let add : Except IErr Int := match dc.1 with
    | .int i => .ok i
    | .seq _ l => sumInts l
    | _ => .error "Other:TypeError"
  match add with
  | .error e => .error e
  | .ok x => .ok ⟨s.sum + x, s.count + 1, s.stored ++ [v], dc.2⟩

def accCompute (kind : AccKind) (s : AccState) : Trace Val IErr :=
  let dataOf (v : Val) : V := (C14.getDataContext names v).1
  match kind with
  | .sum => ⟨[.pair (.int s.sum) s.lastCtx], none⟩
  | .count => ⟨[.bare (.int s.count)], none⟩
  | .store => ⟨[.pair (.seq true (s.stored.map dataOf)) s.lastCtx], none⟩
  | .sumCount => ⟨[.pair (.int s.sum) s.lastCtx, .pair (.int s.count) s.lastCtx], none⟩
  | .each => ⟨s.stored, none⟩
  | .failEmpty =>
    if s.count = 0 then ⟨[], some "LenaValueError"⟩ else ⟨[.pair (.int s.sum) s.lastCtx], none⟩
  | .sumFail => ⟨[.pair (.int s.sum) s.lastCtx], some "Other:RuntimeError"⟩

/-! ## elements on whole flows: `Sequence(*steps).run(flow)` -/

def accKindOf : Nat → AccKind
  | 0 => .sum
  | 1 => .count
  | 2 => .store
  | 3 => .sumCount
  | 4 => .each
  | 5 => .failEmpty
  | _ => .sumFail

def accFillAll (s : AccState) : List Val → Except IErr AccState
  | [] => .ok s
  | v :: vs =>
    match accFill names s v with
    | .error e => .error e
    | .ok s' => accFillAll s' vs

/-- `lena.flow.Count(name).run(flow)` (flow/elements.py:74-107) for a fresh counter: every value is held
back until the next one has been pulled; the last value gets `context[name] = number of values`; an
exception of the incoming flow loses the value held back. -/
def countRun (k : Nat) (t : Trace Val IErr) : Trace Val IErr :=
  match t.fin with
  | some e => ⟨t.out.dropLast, some e⟩
  | none =>
    match t.out.getLast? with
    | none => ⟨[], none⟩
    | some last =>
      let dc := C14.getDataContext names last
      ⟨t.out.dropLast ++ [.pair dc.1 (setSlot dc.2 k (some (.int t.out.length)))], none⟩

/-- `el.run(flow)` for one element of a `Sequence`, called when the sequence's `run` is called: a
generator (`.ok`, nothing has run yet) — except for an accumulator (`Run._fc_run`, adapters.py:703-712),
which consumes the incoming flow and is filled at once (so it can raise at once), and returns the
generator `compute()`. -/
def Step.apply (st : Step) (t : Trace Val IErr) : Except IErr (Trace Val IErr) :=
  match st with
  | .count k => .ok (countRun names k t)
  | .acc kind =>
    match accFillAll names (accInit names) t.out with
    | .error e => .error e
    | .ok s =>
      match t.fin with
      | some e => .error e
      | none => .ok (accCompute names (accKindOf kind) s)
  | st => .ok (pipe (st.run names) t)

/-- `Sequence(*steps).run(flow)`: `for el in seq: flow = el.run(flow)` — evaluated immediately -/
def postRun : List Step → Trace Val IErr → Except IErr (Trace Val IErr)
  | [], t => .ok t
  | st :: rest, t =>
    match st.apply names t with
    | .error e => .error e
    | .ok t' => postRun rest t'

/-! ## the analysis `FillComputeSeq(*pre, acc, *post)` -/

mutual
/-- `FillSeq.fill`: the value goes through the pre-elements depth first (`fill_into` of an element fills
the rest of the chain once per value it yields) and then into the accumulator -/
def preFill : List Step → AccState → Val → Except IErr AccState
  | [], s, v => accFill names s v
  | st :: rest, s, v =>
    let t := st.run names v
    match preFillList rest s t.out with
    | .error e => .error e
    | .ok s' =>
      match t.fin with
      | some e => .error e
      | none => .ok s'
def preFillList : List Step → AccState → List Val → Except IErr AccState
  | _, s, [] => .ok s
  | rest, s, v :: vs =>
    match preFill rest s v with
    | .error e => .error e
    | .ok s' => preFillList rest s' vs
end

structure Spec where
  pre : List Step
  acc : AccKind
  post : List Step
  deriving Repr

/-- the analysis described by `sp` -/
def Spec.analysis (sp : Spec) : Analysis AccState V Val IErr where
  fill := fun s v => preFill names sp.pre s v
  -- (no accumulator among the post-elements here, so `run` of the post-sequence cannot raise at once)
  compute := fun s =>
    match postRun names sp.post (accCompute names sp.acc s) with
    | .ok t => t
    | .error e => ⟨[], some e⟩

/-- the analysis described by `sp`, with the call of `compute()` separated from its iteration: an accumulator
among the post-elements is filled when `compute()` is called -/
def Spec.analysisE (sp : Spec) : AnalysisE AccState V Val IErr where
  fill := fun s v => preFill names sp.pre s v
  start := fun s => postRun names sp.post (accCompute names sp.acc s)

/-- `MapBins(seq)` with `seq = Sequence(*steps)`: `copy.deepcopy(seq).run([cell])` — a fresh copy, so the
stateful elements start from their initial state for every cell -/
def seqStart (steps : List Step) (cell : Val) : Except IErr (Trace Val IErr) :=
  postRun names steps ⟨[cell], none⟩

/-! ## the argument variable, the selectors, the edge formatting -/

def argVar (g : Getter) (vc : Slots) : ArgVar Int V IErr := ⟨g.run, vc⟩

/-- `select_bins` of the harness: every bin / bins whose data is an integer / no bin -/
inductive Sel where
  | all | isInt | none
  deriving Repr

def Sel.onData : Sel → V → Bool
  | .all, _ => true
  | .isInt, .int _ => true
  | .isInt, _ => false
  | .none, _ => false

def Sel.onValue (s : Sel) (v : Val) : Bool := s.onData (C14.getDataContext names v).1

/-- the search of `get_bin_on_value_1d` with the guess `ind_min` (any guess within `[ind_min, ind_max]`
gives the same result: `C06.bin1d_guess_independent`) -/
def guessLo : Nat → Nat → Nat → Int := fun _ lo _ => (lo : Int)

def fmtInt (i : Int) : String := toString i

/-! ## a two-level split: `SplitIntoBins(FillComputeSeq(SplitIntoBins(analysis, …), IterateBins()), …)` -/

/-- the inner split of a two-level analysis, followed by `IterateBins(select_bins=sel)` -/
structure Inner where
  edges : Edges Int
  getter : Getter
  vc : Slots
  spec : Spec
  sel : Sel

def excNameWith {ε : Type} (f : ε → String) : Exc ε → String
  | .lenaTypeError => "LenaTypeError"
  | .lenaValueError => "LenaValueError"
  | .lenaIndexError => "LenaIndexError"
  | .lenaAttributeError => "LenaAttributeError"
  | .indexError => "Other:IndexError"
  | .typeError => "Other:TypeError"
  | .keyError => "Other:KeyError"
  | .assertionError => "Other:AssertionError"
  | .unmodelled => "unmodelled"
  | .inner e => f e

/-- the analysis of the outer cells: the inner `SplitIntoBins`, its histograms iterated bin by bin.
(`FillComputeSeq(innerSIB, IterateBins()).compute()` only chains generators: the inner `compute()` runs at
the first `next`, so a creation-time exception of an inner cell's analysis is part of the trace.) -/
def Inner.analysis (inn : Inner) : Analysis (SIB Int AccState) V (FVal Int V) (Exc IErr) where
  fill := fun s v => SIB.fill names (inn.spec.analysis names) (argVar inn.getter inn.vc) guessLo s v
  compute := fun s =>
    iterateAfter names inn.sel.onData (cellToString names fmtInt) (encEdges V.int)
      (SIB.computeE names (inn.spec.analysisE names) (argVar inn.getter inn.vc) s)

/-- the inner `SplitIntoBins` as constructed -/
def Inner.init (inn : Inner) : Except (Exc IErr) (SIB Int AccState) :=
  SIB.new names (some (accInit names)) true inn.edges

/-! ## cells that hold histograms (the second stage after a two-level split whose inner `IterateBins` did not
select): data are values or histograms -/

inductive DataH where
  | v (x : V)
  | h (h : Hist Int (Value V))

def valToH : Val → Value DataH
  | .bare d => .bare (.v d)
  | .pair d c => .pair (.v d) c

def fvalToH : FVal Int V → Value DataH
  | .plain v => valToH v
  | .hist h none => .bare (.h h)
  | .hist h (some c) => .pair (.h h) c

/-- `select_bins` on data that may be a histogram; `dflt` is the default `Selector(lena.structures.histogram)` -/
inductive SelH where
  | all | isInt | none | dflt

def SelH.onData : SelH → DataH → Bool
  | .all, _ => true
  | .isInt, .v (.int _) => true
  | .isInt, _ => false
  | .none, _ => false
  | .dflt, .h _ => true
  | .dflt, .v _ => false

/-! ## the classes and functions the harness makes `select_bins` from (`SelForm`, `Model/C11.lean`) -/

/-- the classes used as selectors: `int`, `str`, `tuple`, `list`, `lena.structures.histogram` -/
inductive TypeTag where
  | int | str | tuple | list | hist

/-- `isinstance(data, cls)` for data that is a value -/
def TypeTag.onV : TypeTag → V → Bool
  | .int, .int _ => true
  | .str, .str _ => true
  | .tuple, .seq true _ => true
  | .list, .seq false _ => true
  | _, _ => false

/-- `isinstance(data, cls)` for data that may be a histogram -/
def TypeTag.onH : TypeTag → DataH → Bool
  | .hist, .h _ => true
  | .hist, .v _ => false
  | _, .h _ => false
  | t, .v x => t.onV x

/-- the harness's selector functions as callables on a value whose data is a value (MapBins) … -/
def Sel.atom (s : Sel) : SelAtom V := .fn (s.onValue names)

/-- … and on data that may be a histogram (IterateBins; applied to the data part) -/
def SelH.atom (s : SelH) : SelAtom DataH := .fn (fun v => s.onData (C14.getDataContext names v).1)

end
end Lena.C11.Conc
