import LenaModel.Model.C15
import LenaModel.Model.C08
/-! # C15 ↔ C08: the group key as `to_string` sees it

`GroupBy.fill` keys its dictionary of groups by `to_string(key_dict)` (`lena/context/functions.py`, modelled
token by token in `Model/C08.lean`); C15's model keys it by the selected sub-context itself.  This file
converts a C15 slot vector into the C08 dictionary it stands for, so that C08's `to_string` can be applied to
C15's group keys (driver: compared with the real key strings; `Props/C15Key.lean`: the two keyings agree). -/
namespace Lena.C15

/-- a scalar of C15's contexts as a scalar of C08's -/
def toLeaf08 : Leaf → C08.Leaf
  | .none => .none
  | .bool b => .bool b
  | .int i => .int i
  | .str s => .str s
  | .obj s => .obj (some s)

/-! a slot vector over the key alphabet `names` as the Python dictionary it stands for (C08's association
lists): the present slots, each under its key -/
mutual
def toVal08 (names : List String) : Val → C08.Val
  | .leaf a => .leaf (toLeaf08 a)
  | .dict l => .dict (toEntries08 names 0 l)
def toEntries08 (names : List String) : Nat → Slots → C08.Entries
  | _, [] => []
  | k, none :: r => toEntries08 names (k + 1) r
  | k, some v :: r => (names.getD k "", toVal08 names v) :: toEntries08 names (k + 1) r
end

/-- the string `GroupBy.fill` uses as the key of a group: `to_string` of the selected sub-context -/
def keyString (names : List String) (key : Slots) : String := C08.toStringV (toVal08 names (.dict key))

end Lena.C15
