import LenaModel.Model.C16
/-! # C16 model, part S — `FillRequest.run` as a stream of events

`Model/C16.lean` gives `run` as a function from the flow (a list) to the list of results: enough for *what*
is yielded, blind for *when*.  A `run` that first reads the whole flow (or keeps the results of all blocks)
and only then yields has the same result list and is not "block by block" any more: nothing comes out
before the flow ends, everything is buffered, an endless flow never yields.

Here the same four loops are transcribed once more, now producing the interleaving of the two things an
observer of the generator `run(flow)` can see: a value being taken from `flow` (`Ev.read`) and a result being
yielded (`Ev.out`).

* `_run_fill_compute` (adapters.py:497-540): `islice(flow, bufsize)` is read value by value and filled; then
  the results of `request()` are yielded; then the next slice is started.
* `_run_run`, `buffer_input` (adapters.py:597-611): `list(islice(flow, bufsize))`, then `el.run` on it.
* `_run_run`, buffer-output branch (adapters.py:612-628): `results = list(el_run(slice_))`, the rest of the
  slice is skipped, then the results are yielded.
* `_run_run`, `yield_on_remainder` (adapters.py:550-573): `el.run(chain([val], islice(flow, bufsize-1)))` is
  iterated and its results are yielded as they come, then the rest of the block is skipped.  How the element
  interleaves its reading of the block with its yielding is the element's business (`El.run` is a function
  of the whole block): the model places the reads of a block before its results, i.e. it gives the LATEST
  moment each result can appear — an upper bound on what has been read when a result is yielded.

No imports except `Model.C16`: executed by `drivers/C16.lean`. -/

set_option linter.unusedVariables false  -- hypotheses named for `decreasing_by`

namespace Lena.C16

/-- what an observer of the generator `run(flow)` sees -/
inductive Ev (α β : Type) where
  /-- `next(flow)` returned `x` -/
  | read (x : α)
  /-- the generator yielded `y` -/
  | out (y : β)
  deriving Repr, DecidableEq

variable {σ α β : Type}

/-- the events of one block: its values are read, then its results are yielded -/
def evBlock (b : List α) (rs : List β) : List (Ev α β) := b.map Ev.read ++ rs.map Ev.out

/-- the values read, in order -/
def readsOf : List (Ev α β) → List α
  | [] => []
  | .read x :: r => x :: readsOf r
  | .out _ :: r => readsOf r

/-- the results yielded, in order -/
def outsOf : List (Ev α β) → List β
  | [] => []
  | .read _ :: r => outsOf r
  | .out y :: r => y :: outsOf r

/-- for every result: how many values had been read when it was yielded -/
def tagsFrom : Nat → List (Ev α β) → List Nat
  | _, [] => []
  | k, .read _ :: r => tagsFrom (k + 1) r
  | k, .out _ :: r => k :: tagsFrom k r

def tags (evs : List (Ev α β)) : List Nat := tagsFrom 0 evs

/-- `_run_fill_compute` (cf. `runFillCompute`), as events -/
def runFillComputeEv (e : El σ α β) (N : Nat) (rst yor : Bool) (s : σ) (xs : List α) : List (Ev α β) :=
  if hN : N = 0 then []
  else if hx : xs = [] then []
  else
    let blk := xs.take N
    let s1 := blk.foldl e.fill s
    if blk.length % N ≠ 0 then
      evBlock blk (if yor then (e.req s1).1 else [])
    else
      let r := e.req s1
      let s2 := if rst then e.reset r.2 else r.2
      evBlock blk r.1 ++ runFillComputeEv e N rst yor s2 (xs.drop N)
termination_by xs.length
decreasing_by
  have : 0 < xs.length := List.length_pos_iff.mpr hx
  simp only [List.length_drop]; omega

/-- `_run_run`, `yield_on_remainder` (cf. `runRunYor`), as events (reads of a block placed first: upper bound) -/
def runRunYorEv (e : El σ α β) (N : Nat) (rst : Bool) (s : σ) (xs : List α) : List (Ev α β) :=
  match xs with
  | [] => []
  | x :: rest =>
    let r := e.run s (x :: rest.take (N - 1))
    let s2 := if rst then e.reset r.2 else r.2
    evBlock (x :: rest.take (N - 1)) r.1 ++ runRunYorEv e N rst s2 (rest.drop (N - 1))
termination_by xs.length
decreasing_by simp only [List.length_drop, List.length_cons]; omega

/-- `_run_run`, `buffer_input` (cf. `runRunBI`), as events: an incomplete buffer is read and nothing is yielded -/
def runRunBIEv (e : El σ α β) (N : Nat) (rst : Bool) (s : σ) (xs : List α) : List (Ev α β) :=
  if hN : N = 0 then []
  else
    let buffer := xs.take N
    if hlen : (xs.take N).length < N then evBlock buffer []
    else
      let r := e.run s buffer
      let s2 := if rst then e.reset r.2 else r.2
      evBlock buffer r.1 ++ runRunBIEv e N rst s2 (xs.drop N)
termination_by xs.length
decreasing_by
  simp only [List.length_take] at hlen; simp only [List.length_drop]; omega

/-- `_run_run`, buffer-output branch (cf. `runRunBO`), as events: the results of a slice are kept in a list
until the slice has been read to its end; those of an incomplete slice are dropped -/
def runRunBOEv (e : El σ α β) (N : Nat) (rst : Bool) (s : σ) (xs : List α) : List (Ev α β) :=
  if hN : N = 0 then []
  else
    let slice := xs.take N
    let r := e.run s slice
    if hlen : (xs.take N).length < N then evBlock slice []
    else
      let s2 := if rst then e.reset r.2 else r.2
      evBlock slice r.1 ++ runRunBOEv e N rst s2 (xs.drop N)
termination_by xs.length
decreasing_by
  simp only [List.length_take] at hlen; simp only [List.length_drop]; omega

/-- `FillRequest.run` as bound by `__init__` (cf. `runFR`), as events -/
def runFREv (e : El σ α β) (c : Cfg) (s : σ) (xs : List α) : List (Ev α β) :=
  match c.runKind with
  | .runFillCompute => runFillComputeEv e c.bufsize c.reset c.yor s xs
  | .runRun =>
    if c.yor then runRunYorEv e c.bufsize c.reset s xs
    else if c.bufferInput then runRunBIEv e c.bufsize c.reset s xs
    else runRunBOEv e c.bufsize c.reset s xs

/-- The documented behaviour of `run`, as events: block after block — the values of a block are read, then
what the element yields for it is yielded (for a short, hence last, block only with `yor`), then the next
block is started. -/
def specEv (block : σ → List α → List β × σ) (reset : σ → σ) (N : Nat) (rst yor : Bool) :
    σ → List (List α) → List (Ev α β)
  | _, [] => []
  | s, b :: bs =>
    if b.length = N then
      let r := block s b
      evBlock b r.1 ++ specEv block reset N rst yor (if rst then reset r.2 else r.2) bs
    else evBlock b (if yor then (block s b).1 else [])

/-- the documented timing: the results of the `j`-th block (counting from `j`) carry the number of values read
when the block is complete, `(j+1)·N`; those of a final partial block `j·N + |b|` (the whole flow) -/
def specTags (block : σ → List α → List β × σ) (reset : σ → σ) (N : Nat) (rst yor : Bool) :
    Nat → σ → List (List α) → List Nat
  | _, _, [] => []
  | j, s, b :: bs =>
    if b.length = N then
      let r := block s b
      List.replicate r.1.length ((j + 1) * N) ++ specTags block reset N rst yor (j + 1) (if rst then reset r.2 else r.2) bs
    else List.replicate (if yor then (block s b).1.length else 0) (j * N + b.length)

/-- a `run` that is NOT block by block although it yields the same results: read the whole flow, then yield
(what a rewrite `values = list(flow)` / `buffer_out.extend(results)` … `for val in buffer_out: yield val` does) -/
def runAllThenYield (e : El σ α β) (c : Cfg) (s : σ) (xs : List α) : List (Ev α β) :=
  evBlock xs (runFR e c s xs).1

end Lena.C16
