import LenaModel.Model.C18
/-! # C18 model, part 5 — exception classes, and files that no run made

**Exception classes.**  The source and every element may raise an exception of *any* class: an `Exception`
subclass, `KeyboardInterrupt`, `SystemExit`, another `BaseException` subclass, even `GeneratorExit`.  The
transcribed code (`_dump_flow_and_yield`, cache.py:206-238) has no `except` clause: it tells a complete run from
an aborted one by the flag `complete`, set after the loop, and removes the temporary file in `finally` whatever is
passing through.  Hence the machine of part 1 has one outcome `Res.raised e` for every class, and `Exc.srcBoom` /
`Exc.elBoom` stand for "what the source / an element raises", of whatever class.  The class is attributed here, from
the specification of the raiser, so that the driver reports the class that leaves the run and the correspondence
check would see any dependence of the real code on the class (a `try … except Exception` in the place of `finally`).

**Foreign files.**  An empty file at the name of a cache (a valid pickle stream of no values), and the temporary
file a killed process left behind (its `finally` never ran).  No imports besides part 1. -/

namespace Lena.C18

/-- the classes of exceptions the instrumented source and elements raise -/
inductive ExcClass where
  | exception            -- a subclass of Exception
  | keyboardInterrupt
  | systemExit
  | baseException        -- a direct subclass of BaseException
  | generatorExit
  | osError              -- FileNotFoundError of the Cache itself
  deriving Repr, DecidableEq

/-- which class the source raises, and which class the map element number `j` raises -/
structure RaiseClasses where
  src : ExcClass
  el : Nat → ExcClass

/-- who raised the exception that ended a run: the last event of the run (`none`: nobody - the Cache itself) -/
def raiserOf : List Ev → Option (Option Nat)
  | [] => none
  | [.srcRaise _] => some none
  | [.stepRaise j _] => some (some j)
  | [_] => none
  | _ :: e :: evs => raiserOf (e :: evs)

/-- the class of the exception that leaves a run which ended with `Res.raised e` after the events `evs` -/
def leavingClass (rc : RaiseClasses) (evs : List Ev) : Exc → ExcClass
  | .fileNotFound => .osError
  | _ =>
    match raiserOf evs with
    | some none => rc.src
    | some (some j) => rc.el j
    | none => .exception

/-- `open(name_c, "wb").close()` by somebody else: an empty cache file -/
def FS.plantEmpty (fs : FS) (c : Nat) : FS := fs.set c { fs c with final := some [] }

/-- a temporary file left by a killed process (content irrelevant: it is removed or replaced before it is read) -/
def FS.plantTmp (fs : FS) (c : Nat) : FS := fs.set c { fs c with tmp := some [] }

end Lena.C18
