import LenaModel.Model.C16
import LenaModel.Model.C16Spec
/-! # C16 model — a `FillRequestSeq` object driven through its own `fill()` / `request()`

`lena/core/fill_request_seq.py:26-110` and `lena/core/fill_compute_seq.py:35-73`
(`_init_sequence_with_el`).  `FillRequestSeq(*before, el, *after, **kwargs)`:

* `self.fill = _FillSeq(*before, el).fill`   — a value goes through the elements before `el`, every
  result is filled into `el` (`el` is the first argument with callable `fill` and `request`: a raw
  fill/request element or a `FillRequest` adapter);
* `request()` returns `self._after.run(self._fill_request.request())` — and nothing else: the line
  `# todo: add reset here.` is a comment.  **None of `kwargs` (`bufsize`, `reset`, buffer flags,
  `yield_on_remainder`) is read by `fill`/`request`**; they configure only `fr = FillRequest(self, **kwargs)`
  whose `run` becomes `self.run`;
* `reset()` is `self._fill_request.reset()`.

So the blocks a `FillRequestSeq` works in when it is driven by `fill`/`request` (as `Split` drives it) are
those of the `FillRequest` adapter it contains, and `Model/C16.seqEl` applied to that adapter *as an
element* (`frEl`) is the object.  `Model/C16.lean` is not changed. -/

namespace Lena.C16

variable {σ α β : Type}

/-- A `FillRequest` adapter (attributes `c`) around `e`, seen as an element by the sequence that contains
it: its state is the adapter's (`St`), `fill`/`request` are `FillRequest.fill`/`request`
(adapters.py:404-485), `reset` is `FillRequest.reset` (adapters.py:487-489: the wrapped element only, the
counter and the buffers stay), `run` the bound run loop (it works on the wrapped element and does not
look at the counter or the buffers). -/
def frEl (e : El σ α β) (c : Cfg) : El (St σ α β) α β where
  fill s x := fillFR e c s x
  req s := requestFR e c s
  reset s := { s with el := e.reset s.el }
  run s xs := let r := runFR e c s.el xs; (r.1, { s with el := r.2 })

/-- a history of `fill` / `request` calls on any object with these two methods (`runOps` is the
instance for the adapter): what each `request()` yielded, and the state left -/
def runOpsEl {τ α' β' : Type} (E : El τ α' β') : List (Op α') → τ → List (List β') × τ
  | [], s => ([], s)
  | .fill x :: r, s => runOpsEl E r (E.fill s x)
  | .request :: r, s =>
    let p := E.req s
    let q := runOpsEl E r p.2
    (p.1 :: q.1, q.2)

/-- per-call observations on such an object: for a `request` what it yielded, and after every call
`size` of the state (for the contained adapter: `_n_count`, `len(_buffer_in)`, `len(_buffer_out)`) -/
def traceOpsEl {τ α' β' : Type} (E : El τ α' β') (size : τ → Nat × Nat × Nat) :
    List (Op α') → τ → List (Option (List β') × Nat × Nat × Nat) × τ
  | [], s => ([], s)
  | .fill x :: r, s =>
    let s' := E.fill s x
    let q := traceOpsEl E size r s'
    ((none, size s') :: q.1, q.2)
  | .request :: r, s =>
    let p := E.req s
    let q := traceOpsEl E size r p.2
    ((some p.1, size p.2) :: q.1, q.2)

/-- what `getattr(self, …)` finds on a `FillRequestSeq` inside its `__init__` when
`FillRequest(self, **kwargs)` is created: `fill` (instance attribute set by `_init_sequence_with_el`),
`request`, `reset` (class), no `run` (set afterwards), no `compute` -/
def seqCaps : Caps := { run := false, fill := true, request := true, compute := false, reset := true }

/-- `FillRequestSeq.__init__`, the part that can fail on the keyword arguments
(fill_request_seq.py:71): `adapters.FillRequest(self, **kwargs)` -/
def mkFillRequestSeq (bufsize : Int) (reset : Option Bool) (bi bo yor : Bool) : Except InitErr Cfg :=
  mkFillRequest seqCaps bufsize reset bi bo yor

/-- **`FillRequestSeq.fill` / `FillRequestSeq.request` along a history.**  `inner` is the element found
as `_fill_request` (`frEl e c` for an adapter), `pre` / `post` the elements before / after it.  The
attributes `outer` of `FillRequest(self, **kwargs)` are an argument that is not used — exactly as in the
code. -/
def seqOps {τ α' β' : Type} (pre : α' → List α) (post : List β → List β') (inner : El τ α β) (_outer : Cfg) :
    List (Op α') → τ → List (List β') × τ :=
  runOpsEl (seqEl pre post inner)

/-- `FillRequestSeq.run` = `FillRequest(self, **kwargs)._run_fill_compute` (fill_request_seq.py:76) from
any state of the contained element -/
def seqRun {τ α' β' : Type} (pre : α' → List α) (post : List β → List β') (inner : El τ α β) (outer : Cfg)
    (s : τ) (xs : List α') : List β' × τ :=
  runFillCompute (seqEl pre post inner) outer.bufsize outer.reset outer.yor s xs

/-- the calls that arrive at the contained element for a history on the sequence: every value filled
becomes the fills of what the preceding elements make of it; requests stay where they are -/
def preOps {α' : Type} (pre : α' → List α) : List (Op α') → List (Op α)
  | [] => []
  | .fill x :: r => (pre x).map Op.fill ++ preOps pre r
  | .request :: r => .request :: preOps pre r

/-- NOT the code of /repo: the sequence whose `request()` also resets the contained element after its
results when the sequence was created with `reset=True` (the reading of `# todo: add reset here.` that
seeded change C16-G implements).  Kept for the counterexample `Props/C16Q.reset_after_request_loses`. -/
def seqElResetting {τ α' β' : Type} (pre : α' → List α) (post : List β → List β') (inner : El τ α β)
    (outer : Cfg) : El τ α' β' :=
  { seqEl pre post inner with
    req := fun s => let r := inner.req s; (post r.1, if outer.reset then inner.reset r.2 else r.2) }

end Lena.C16
