import LenaModel.Props.C15
import LenaModel.Model.C15Pred
/-! # C15 — "SelectContext applies its predicate", for callables of every kind

The predicate of a `SelectContext` is *any* callable: a function, a builtin, a bound method, a `functools.partial`
object, an instance with `__call__` — and also a **class** (`bool`, `int`, `float`, `str`, `dict`, a user class
used as a validator), an instance of a `str` / `list` / `tuple` subclass that can be called, a lena selector.
`Selector.__init__` dispatches on the type of its argument (a class becomes an `isinstance` test, a string a
`contains` test, a list an OR …); `SelectContext` must not: the statement says it *applies* its predicate.
(Seed C15-I routed the predicate through `Selector(predicate, raise_on_error)`: `SelectContext("cut.passed", bool)`
became `isinstance(sub_context, bool)`.)

The theorems are about `selectContext` / `Callable.asSpec` of `Model/C15Pred.lean`, through which the driver
builds every `selctx` / `fn` specification of the correspondence run. -/

namespace Lena.C15

section Pred
variable (names : List String)

/-- **"SelectContext applies its predicate to the addressed sub-context and is False when that is absent"** — for a
predicate `p` of EVERY kind (a class, a callable string / list / tuple, a selector instance, a plain callable):
`SelectContext(key, p, roe)` is constructed; used as an item of a list / tuple, as the argument of `Filter`
(`mkSelector`) or inside `Selector(…, r)`, on every value it is `False` when the addressed sub-context is absent
and otherwise `p` **called on the sub-context** (an exception propagates iff `roe`) — the kind of `p` plays no
role: it is never turned into a type test, a `contains` test, an OR or an AND. -/
theorem select_context_applies_any_callable (key : KeyArg) (p : Callable Val) (roe r : Bool) (v : Item) :
    mkSelector r (selectContext key p roe) = some (.selCtx key p.apply roe) ∧
    inner r (selectContext key p roe) = some (.selCtx key p.apply roe) ∧
    sem names r (selectContext key p roe) v = selCtxSem names key p.apply roe v ∧
    (∀ ks, key.resolve = .keys ks → valAt names (.dict (v.context names.length)) ks = none →
      call names (.selCtx key p.apply roe) v = .ok false) ∧
    (∀ ks sub, key.resolve = .keys ks → valAt names (.dict (v.context names.length)) ks = some sub →
      call names (.selCtx key p.apply roe) v = absorb roe (p.apply sub)) := by
  refine ⟨by simp [mkSelector, selectContext, Spec.isInst, inner], by simp [selectContext, inner],
    by simp [selectContext, sem], ?_, ?_⟩
  · intro ks hr h
    exact (select_context_absent_false names key p.apply roe v).1 ks hr h
  · intro ks sub hr h
    exact select_context_present names key p.apply roe v ks sub hr h

/-- the kind of the predicate is irrelevant: two callables that compute the same function give the same
`SelectContext`, whatever else they are -/
theorem select_context_kind_irrelevant (key : KeyArg) (k k' : CallKind) (f : Val → Res) (roe r : Bool) (v : Item) :
    sem names r (selectContext key ⟨k, f⟩ roe) v = sem names r (selectContext key ⟨k', f⟩ roe) v := rfl

/-- `SelectContext(key, bool)` — "the flag at `key` is set": selected exactly when the addressed sub-context is
present and true in Python's sense; it never raises for a well-formed key, with either `raise_on_error`.  (It is
NOT the test `isinstance(sub-context, bool)`: see the example below.) -/
theorem select_context_bool_predicate (key : KeyArg) (roe : Bool) (v : Item) (ks : List String)
    (hr : key.resolve = .keys ks) :
    call names (.selCtx key (Callable.apply ⟨.cls .bool, pyBool⟩) roe) v
      = .ok (match valAt names (.dict (v.context names.length)) ks with
             | none => false
             | some sub => sub.truthy) := by
  cases h : valAt names (.dict (v.context names.length)) ks with
  | none => exact (select_context_absent_false names key _ roe v).1 ks hr h
  | some sub =>
    rw [select_context_present names key _ roe v ks sub hr h]
    cases roe <;> rfl

/-- **"a class tests the type of the data … a callable is applied"** — a callable object given to `Selector`
(directly, as an item, to `Filter`): a class is a type test, whatever calling it would do; every other callable —
also one that is at the same time a string, a list, a tuple or a selector instance — is applied to the value
(an exception propagates iff `raise_on_error`) -/
theorem selector_callable_dispatch (p : Callable Item) (r : Bool) (v : Item) :
    (∀ c, p.kind = .cls c → ∀ o, mkSelector r p.asSpec = some o → call names o v = .ok (isinstance v.data c)) ∧
    ((∀ c, p.kind ≠ .cls c) → ∀ o, mkSelector r p.asSpec = some o → call names o v = absorb r (p.apply v)) ∧
    (mkSelector r p.asSpec).isSome = true := by
  obtain ⟨k, f⟩ := p
  refine ⟨?_, ?_, ?_⟩
  · intro c hk o ho
    simp only at hk
    subst hk
    simp only [Callable.asSpec, mkSelector, Spec.isInst, inner, Bool.false_eq_true, if_false, Option.map_some,
      Option.some.injEq] at ho
    subst ho
    simp [call, absorb]
  · intro hk o ho
    cases k with
    | cls c => exact absurd rfl (hk c)
    | _ =>
      simp only [Callable.asSpec, mkSelector, Spec.isInst, inner, Bool.false_eq_true, if_false, Option.map_some,
        Option.some.injEq] at ho
      subst ho
      simp [call]
  · cases k <;> simp [Callable.asSpec, mkSelector, Spec.isInst, inner]

end Pred

/-! ### concrete instances (non-vacuity; the contrast with a class *selector*) -/

/-- `SelectContext("a.b", bool)` on `(1, {"a": {"b": 1}})` is True — the flag is set — although `1` is no `bool`;
on `{"a": {"b": 0}}` and on `{"a": {}}` (absent) it is False -/
example :
    let sc := selectContext (.str "a.b") ⟨.cls .bool, pyBool⟩ true
    let v1 : Item := ⟨.int 1, some [some (.dict [none, some (.leaf (.int 1))]), none]⟩
    let v0 : Item := ⟨.int 1, some [some (.dict [none, some (.leaf (.int 0))]), none]⟩
    let va : Item := ⟨.int 1, some [some (.dict [none, none]), none]⟩
    sem ["a", "b"] true sc v1 = .ok true ∧ sem ["a", "b"] true sc v0 = .ok false ∧
    sem ["a", "b"] true sc va = .ok false ∧
    -- the class as a *selector* tests the type of the data
    sem ["a", "b"] true (Callable.asSpec ⟨.cls .bool, fun _ => .ok true⟩) v1 = .ok false := by decide

/-- `SelectContext("a", int, raise_on_error=True)` raises the `ValueError` of `int("1e3")`, with
`raise_on_error=False` the value is not selected; `float` accepts the string -/
example :
    let v : Item := ⟨.none, some [some (.leaf (.str "1e3")), none]⟩
    sem ["a", "b"] true (selectContext (.str "a") ⟨.cls .int, pyInt []⟩ true) v = .raise "Other:ValueError" ∧
    sem ["a", "b"] true (selectContext (.str "a") ⟨.cls .int, pyInt []⟩ false) v = .ok false ∧
    sem ["a", "b"] true (selectContext (.str "a") ⟨.cls .float, pyInt ["1.5", "1e3"]⟩ true) v = .ok true := by
  decide

/-- a callable string as a predicate is called (it is not a `contains` test of the sub-context); given to
`Selector` it is called too (`callable` is tested before `str`) -/
example :
    let v : Item := ⟨.int 3, some [some (.leaf (.int 1)), none]⟩
    sem ["a", "b"] true (selectContext (.str "a") ⟨.strLike "b", pyAbs⟩ true) v = .ok true ∧
    sem ["a", "b"] true (Callable.asSpec ⟨.strLike "b", fun v => .ok (v.data == .int 3)⟩) v = .ok true := by decide

/-- the builtin callables on sub-contexts: `len`, `dict`, `str`, `abs` -/
example :
    pyLen (.leaf .none) = .raise "Other:TypeError" ∧ pyLen (.dict [none, none]) = .ok false ∧
    pyDict (.leaf (.str "")) = .ok false ∧ pyDict (.leaf (.str "ab")) = .raise "Other:ValueError" ∧
    pyStrT (.leaf .none) = .ok true ∧ pyStrT (.leaf (.str "")) = .ok false ∧
    pyAbs (.leaf (.int (-2))) = .ok true ∧ pyAbs (.leaf (.str "1")) = .raise "Other:TypeError" := by decide

end Lena.C15
