import LenaModel.Model.C15
import LenaModel.Model.C15Spec
import LenaModel.Lemmas.C15
/-! # C15 — property theorems

*Selectors evaluate compositionally; GroupBy partitions by the selected context.*

The theorems are about the executable model `LenaModel/Model/C15.lean` (a transcription of
`lena/flow/selectors.py`, `filter.py`, `group_by.py`, `lena/context/include_exclude_tree.py`, and of
`contains`/`get_recursively`), for ALL specifications, key sets, contexts and flows (no bound on depth
or length).  The vocabulary they are stated with (`sem`, `semB`, `valAt`, `polarity`, `keepL`, `atPath`,
`AgreeOn`, `groupsOf`, …) is defined in `LenaModel/Model/C15Spec.lean`; helper lemmas are in
`LenaModel/Lemmas/C15.lean`.  Each theorem quotes the sentence of the property it formalises and is followed
by an `example` with a concrete instance.

Judgements (also in `harness/props/c15.py`, ASSUMPTIONS): a callable is modelled by the truth value of its
result ("selected" = true; `Selector.__call__` handing back the raw object is not modelled); exceptions are
`Exception`s of any class (`BaseException`s pass `except Exception` by design), with the PEP 479 conversion of
`StopIteration` into `RuntimeError` inside the generator expressions of `And/Or.__call__`, `Filter.run` and in
`RunIf.run` transcribed (`pep479`); the string-level theorems carry the hypothesis `KeysKnown` (every listed
sub-key is in the key alphabet — otherwise the index paths of the model conflate keys); the theorems that only
relate specification-side definitions to each other are listed as auxiliary (`AUX_THEOREMS`).

Part 1: `Selector`/`And`/`Or`/`Not`/`SelectContext`/`Filter`.  Part 2: `make_include_exclude_tree` and
`IncludeExcludeTree.get` are the longest-listed-prefix rule.  Part 3: `GroupBy`. -/

namespace Lena.C15

/-! ## Part 1 — selectors, `SelectContext`, `Filter` -/

section Sem
variable (names : List String)

/-- **"Selector evaluates its specification compositionally"** — for every specification `s` (any nesting
depth, instances with their own `raise_on_error` included) and both inherited `raise_on_error` settings
`r`, the selector objects built by `Selector.__init__`/`And.__init__`/`Or.__init__` evaluate to the
reference semantics `sem`, which is defined on the specification alone:
* as an item of a list/tuple or the argument of `Filter` (`mkSelector`: wrapped unless already an instance),
* as `Selector(s, raise_on_error=r)`,
* as `Filter(s)`. -/
theorem selector_compositional (r : Bool) (s : Spec) (v : Item) :
    (∀ o, mkSelector r s = some o → call names o v = sem names r s v) ∧
    (∀ i, inner r s = some i → call names (.selector i r) v = absorb r (sem names r s v)) ∧
    (∀ o, filterInit s = some o → call names o v = sem names true s v) :=
  ⟨fun o h => mk_sem names s r o v h,
   fun i h => by rw [call]; exact inner_of_mk names (mk_sem names s) r i v h,
   fun o h => mk_sem names s true o v h⟩

/-- OR and AND of the reference semantics are the short-circuit folds of the items' outcomes (a
`StopIteration` of an item arrives as `RuntimeError`: the items are evaluated inside a generator expression) -/
theorem sem_list_tuple (r : Bool) (l : List Spec) (v : Item) :
    sem names r (.list l) v = absorb r (orRes (l.map (fun s => pep479 (sem names r s v)))) ∧
    sem names r (.tuple l) v = absorb r (andRes (l.map (fun s => pep479 (sem names r s v)))) := by
  simp [sem, semAny_eq_orRes, semAll_eq_andRes]

/-- construction fails (`LenaTypeError`) exactly when some item, at any depth, is neither a class, a
callable, a string, a list nor a tuple — for `Selector`, for items and for `Filter` -/
theorem selector_init_error (r : Bool) (s : Spec) :
    (inner r s = none ↔ s.hasBad = true) ∧ (mkSelector r s = none ↔ s.hasBad = true) ∧
    (filterInit s = none ↔ s.hasBad = true) :=
  ⟨inner_none s r, mkSelector_none s r, mkSelector_none s true⟩

example : (Spec.list [.cls .int, .tuple [.bad]]).hasBad = true := by decide

example : (mkSelector true (Spec.list [.cls .int, .tuple [.bad]])).isNone = true := by decide

/-- **"with raise_on_error=False an exception inside any leaf counts as not selected instead of
propagating"** — `Selector(s, raise_on_error=False)` never raises, whatever `s` contains; and when every
instance inside `s` was built with `raise_on_error=False` too (and every `SelectContext` key is well formed),
the result is the boolean semantics `semB` in which a raising leaf is `False`. -/
theorem selector_absorbs_errors (s : Spec) (v : Item) :
    (∀ i, inner false s = some i → ∃ b, call names (.selector i false) v = .ok b) ∧
    (s.allRoe false = true → s.keysOk = true →
      ∀ o, mkSelector false s = some o → call names o v = .ok (semB names s v)) := by
  refine ⟨fun i _ => ⟨_, by rw [call, absorb_false_ok]⟩, fun ha hk o ho => ?_⟩
  have hb : s.hasBad = false := by
    cases hb : s.hasBad with
    | false => rfl
    | true => rw [(mkSelector_none s false).2 hb] at ho; cases ho
  rw [mk_sem names s false o v ho, sem_false names s v ha hk hb]

/-- a raising callable inside a list inside a tuple, `raise_on_error=False`: the tuple is not selected
on an `int` (the list is `False`), where the class test alone would select -/
example :
    let s := Spec.tuple [.cls .int, .list [.fn (fun _ => .raise "Other:ZeroDivisionError")]]
    s.allRoe false = true ∧
      (mkSelector false s).map (fun o => call [] o ⟨.int 3, none⟩) = some (.ok false) := by decide

/-- **the compositional rule in boolean form** — when every leaf returns a boolean on `v`, the selector
returns `semB`: string ↦ `contains`, class ↦ `isinstance`, callable ↦ its value, list ↦ OR, tuple ↦ AND,
`Not` ↦ negation, `SelectContext` ↦ predicate on the sub-context — whatever the `raise_on_error`s are -/
theorem selector_total_leaves (r : Bool) (s : Spec) (v : Item) (ht : s.totalOn names v = true) :
    ∀ o, mkSelector r s = some o → call names o v = .ok (semB names s v) := by
  intro o ho
  have hb : s.hasBad = false := by
    cases hb : s.hasBad with
    | false => rfl
    | true => rw [(mkSelector_none s r).2 hb] at ho; cases ho
  rw [mk_sem names s r o v ho, sem_total names s r v ht hb]

theorem semB_list_tuple_not (l : List Spec) (s : Spec) (r : Bool) (v : Item) :
    semB names (.list l) v = l.any (semB names · v) ∧ semB names (.tuple l) v = l.all (semB names · v) ∧
    semB names (.notI s r) v = !semB names s v := by
  simp [semB, semBAny_eq_any, semBAll_eq_all]

example :
    let s := Spec.notI (.tuple [.cls .int, .list [.str "a.b", .fn (fun v => .ok (v.data == .int 3))]]) true
    let v : Item := ⟨.int 3, some [some (.dict [none, some (.leaf (.int 1))]), none]⟩
    s.totalOn ["a", "b"] v = true ∧ (mkSelector true s).map (fun o => call ["a", "b"] o v) = some (.ok false) := by
  decide

/-- `s.split('.')` is never empty: there is a last level -/
theorem splitDots_concat (s : String) : ∃ init last, splitDots s = init ++ [last] := by
  rcases List.eq_nil_or_concat (splitDots s) with h | ⟨init, last, h⟩
  · unfold splitDots at h
    rw [List.map_eq_nil_iff] at h
    exact absurd h (splitDotsC_ne_nil _)
  · exact ⟨init, last, by simpa using h⟩

/-- **"a string tests the context with contains"**, declaratively: the empty string names the context
itself; otherwise all dot-separated levels but the last address a value through nested dictionaries, and
the last level is a key of that dictionary or, if a scalar is found, equals its `str()` -/
theorem contains_spec (d : Slots) (s : String) (init : List String) (last : String) (hs : s ≠ "")
    (h : splitDots s = init ++ [last]) :
    contains names d s =
      containsLast names last (valAt names (.dict d) init) := by
  rw [contains, if_neg hs, h, containsGo_spec]

example : splitDots "a.b.1" = ["a", "b"] ++ ["1"] := by decide

example : contains ["a", "b"] [some (.dict [none, some (.leaf (.int 1))]), none] "a.b.1" = true := by decide

/-- **"SelectContext … is False when that [the addressed sub-context] is absent"** — whatever the
predicate (it is not applied) and `raise_on_error`: for a key that resolves to simple keys `ks` (a dotted
string, a list of strings, a one-key-per-level dictionary) and no sub-context at `ks`; for a key whose last
level is no string; and for a value without context and a non-empty list of keys. -/
theorem select_context_absent_false (key : KeyArg) (p : Val → Res) (roe : Bool) (v : Item) :
    (∀ ks, key.resolve = .keys ks → valAt names (.dict (v.context names.length)) ks = none →
      call names (.selCtx key p roe) v = .ok false) ∧
    (key.resolve = .never → call names (.selCtx key p roe) v = .ok false) ∧
    (∀ ks, key.resolve = .keys ks → v.ctx = none → ks ≠ [] → call names (.selCtx key p roe) v = .ok false) := by
  have h1 : ∀ ks, key.resolve = .keys ks → valAt names (.dict (v.context names.length)) ks = none →
      call names (.selCtx key p roe) v = .ok false := by
    intro ks hr h
    rw [call_selCtx, selCtxSem, hr]
    simp only [h]
  refine ⟨h1, fun hr => by rw [call_selCtx, selCtxSem, hr], fun ks hr hc hk => h1 ks hr ?_⟩
  cases ks with
  | nil => exact absurd rfl hk
  | cons k rest => simp [Item.context, hc, valAt, lookupKey_replicate]

example : (KeyArg.str "a.b").resolve = .keys ["a", "b"] ∧
    valAt ["a", "b"] (.dict [some (.leaf (.int 5)), none]) ["a", "b"] = none := by decide

/-- **"SelectContext applies its predicate to the addressed sub-context"** (with the error handling of
`Selector`) -/
theorem select_context_present (key : KeyArg) (p : Val → Res) (roe : Bool) (v : Item) (ks : List String)
    (sub : Val) (hr : key.resolve = .keys ks)
    (h : valAt names (.dict (v.context names.length)) ks = some sub) :
    call names (.selCtx key p roe) v = absorb roe (p sub) := by
  rw [call_selCtx, selCtxSem, hr]
  simp only [h]

example : (KeyArg.dict ["a"] (.key (some "b"))).resolve = .keys ["a", "b"] ∧
    valAt ["a", "b"] (.dict [some (.dict [none, some (.leaf (.int 5))]), none]) ["a", "b"]
      = some (.leaf (.int 5)) := by decide

/-- a malformed key — a dictionary with several keys at some level, a list with an item that is no string —
makes `SelectContext.__call__` raise (`LenaValueError`, `LenaTypeError`) on every value, whatever its own
`raise_on_error` is (the error arises before the predicate is tried); an enclosing selector with
`raise_on_error=False` absorbs it (`selector_absorbs_errors`) -/
theorem select_context_bad_key (key : KeyArg) (p : Val → Res) (roe : Bool) (v : Item) :
    (key.resolve = .valueError → call names (.selCtx key p roe) v = .raise "LenaValueError") ∧
    (key.resolve = .typeError → call names (.selCtx key p roe) v = .raise "LenaTypeError") :=
  ⟨fun hr => by rw [call_selCtx, selCtxSem, hr], fun hr => by rw [call_selCtx, selCtxSem, hr]⟩

example : (KeyArg.dict ["a"] .multi).resolve = .valueError ∧ KeyArg.badList.resolve = .typeError := by decide

/-- **"SelectContext applies its predicate to the addressed sub-context"**, the error branch: when the addressed
sub-context is PRESENT and the predicate raises, the exception — of whatever class, lena's own `LenaKeyError`
(which `SelectContext` catches around the *lookup of its key*) included — propagates with `raise_on_error=True`
and counts as "not selected" with `raise_on_error=False`; it is never mistaken for an absent sub-context -/
theorem select_context_pred_raises (key : KeyArg) (p : Val → Res) (roe : Bool) (v : Item) (ks : List String)
    (sub : Val) (e : String) (hr : key.resolve = .keys ks)
    (h : valAt names (.dict (v.context names.length)) ks = some sub) (he : p sub = .raise e) :
    call names (.selCtx key p roe) v = if roe then .raise e else .ok false := by
  rw [select_context_present names key p roe v ks sub hr h, he]
  cases roe <;> rfl

example :
    let p : Val → Res := fun _ => .raise "LenaKeyError"      -- the predicate looks for a key that is missing
    let v : Item := ⟨.int 1, some [some (.dict [some (.leaf (.int 1)), none]), none]⟩    -- (1, {"a": {"a": 1}})
    call ["a", "b"] (.selCtx (.str "a") p true) v = .raise "LenaKeyError" ∧
    call ["a", "b"] (.selCtx (.str "a") p false) v = .ok false ∧
    call ["a", "b"] (.selCtx (.str "b") p true) v = .ok false := by decide

/-- **"a class tests the type of the data"** — a class `c` as a specification (anywhere a selector is expected,
both `raise_on_error` settings, also as `Selector(c)` and `Filter(c)`) never raises and selects exactly the
values whose data is an instance of `c` in Python's sense: `type(data)` inherits from `c` (`inMro`) or is
recognised by the abstract base class `c` (`abcHas`) — it depends on the type of the data alone, not on its
value, and not on the context -/
theorem class_selector_tests_type (r : Bool) (c : PyClass) (v : Item) :
    (∀ o, mkSelector r (.cls c) = some o → call names o v = .ok (issubclass v.data.dtype c)) ∧
    (∀ i, inner r (.cls c) = some i → call names (.selector i r) v = .ok (issubclass v.data.dtype c)) ∧
    (∀ o, filterInit (.cls c) = some o → call names o v = .ok (issubclass v.data.dtype c)) ∧
    (mkSelector r (.cls c)).isSome = true := by
  have key : isinstance v.data c = issubclass v.data.dtype c := by
    cases v with
    | mk d ctx =>
      cases d with
      | other t => cases t <;> cases c <;> rfl
      | _ => cases c <;> rfl
  have hs : ∀ r', sem names r' (.cls c) v = .ok (issubclass v.data.dtype c) := by
    intro r'; rw [sem, key]
  obtain ⟨h1, h2, h3⟩ := selector_compositional names r (.cls c) v
  refine ⟨fun o h => by rw [h1 o h, hs], fun i h => by rw [h2 i h, hs]; rfl, fun o h => by rw [h3 o h, hs], ?_⟩
  simp [mkSelector, Spec.isInst, inner]

/-- the abstract base classes recognise classes that do not inherit from them (a `float` is a `Number`, a `dict` a
`Mapping`, a `str` a `Sequence`, `None` is `Hashable`): `isinstance` is not membership in the MRO; inheritance
still counts (a `bool` is an `int`, an instance of a user subclass of `int` is an `int` and an `Integral`) -/
example : issubclass (.other .float) .number = true ∧ inMro (.other .float) .number = false ∧
    issubclass (.other .dict) .mapping = true ∧ issubclass .str .sequence = true ∧
    issubclass .noneType .hashable = true ∧ issubclass (.other .list) .hashable = false ∧
    issubclass .bool .int = true ∧ issubclass (.other .intSub) .integral = true ∧
    issubclass (.other .userSub) .user = true ∧ issubclass (.other .user) .userSub = false ∧
    issubclass (.other .namedTuple) .tuple = true ∧ issubclass (.other .fraction) .integral = false := by decide

example :
    (mkSelector false (.cls .number)).map (fun o => call ["a"] o ⟨.other .float, none⟩) = some (.ok true) ∧
    (mkSelector false (.cls .number)).map (fun o => call ["a"] o ⟨.str "s", some [none]⟩) = some (.ok false) := by
  decide

/-- **`Filter.run` in general** — the flow is consumed up to the first value on which the selector raises;
the selected ones among the values before it are yielded, in order; the exception propagates -/
theorem filter_stops_at_first_error (o : Obj) (vs : List Item) :
    filterRun names o vs =
      ((beforeError names o vs).filter (fun v => call names o v = .ok true), firstError names o vs) := by
  induction vs with
  | nil => simp [filterRun, beforeError, firstError]
  | cons v rest ih =>
    unfold beforeError at ih ⊢
    rw [filterRun, firstError, List.takeWhile_cons]
    cases h : call names o v with
    | raise e => simp [Res.isOk]
    | ok b =>
      cases b with
      | true => simp [Res.isOk, ih, h]
      | false => simp [Res.isOk, ih, h]

/-- **"Filter keeps exactly the selected values"** — when the selector raises on no value of the flow,
`Filter.run` yields exactly the values on which it is `True`, in order; `fill_into` fills the element
exactly with those values. -/
theorem filter_keeps_selected (o : Obj) (vs : List Item) (h : ∀ v ∈ vs, ∃ b, call names o v = .ok b) :
    filterRun names o vs = (vs.filter (fun v => call names o v = .ok true), none) ∧
    ∀ v, filterFillInto names o v = call names o v := by
  refine ⟨?_, fun _ => rfl⟩
  induction vs with
  | nil => rfl
  | cons v rest ih =>
    obtain ⟨b, hb⟩ := h v (by simp)
    have ih' := ih (fun w hw => h w (by simp [hw]))
    rw [filterRun, hb]
    cases b <;> simp [ih', hb]

example :
    (mkSelector true (.cls .int)).map (fun o =>
      let r := filterRun [] o [⟨.int 3, none⟩, ⟨.str "s", none⟩, ⟨.bool true, none⟩]
      (r.1.map (·.data), r.2)) = some ([.int 3, .bool true], none) := by decide

/-! ### `Not` and exceptions, at any depth -/

/-- **"Not negates"**, with the exception cases spelled out: `Not(s, raise_on_error=r')` on a value where
`s` (as a selector with inherited `r'`) gives a boolean gives its negation; where `s` raises, the
exception is re-raised iff `r'` is `True`, otherwise the value is selected ("a full negation") — whatever
`raise_on_error` the surrounding container passes down (`r`) -/
theorem not_sem (r r' : Bool) (s : Spec) (v : Item) :
    (∀ b, sem names r' s v = .ok b → sem names r (.notI s r') v = .ok (!b)) ∧
    (∀ e, sem names r' s v = .raise e →
      sem names r (.notI s r') v = if r' then .raise e else .ok true) := by
  constructor
  · intro b h; rw [sem, h]; cases r' <;> rfl
  · intro e h; rw [sem, h]; cases r' <;> rfl

/-- "if selector is a Selector with raise_on_error=False, this raise_on_error will have no effect": around
`Selector(s, raise_on_error=False)` both settings of `Not` give the same boolean -/
theorem not_of_absorbing (r r' : Bool) (s : Spec) (v : Item) :
    sem names r (.notI (.selI s false) r') v = .ok (!decide (sem names false s v = .ok true)) := by
  rw [sem, sem, absorb_false_ok]
  cases r' <;> rfl

/-- double negation: `Not(Not(s, r1), r2)` gives back the boolean of `s`; when `s` raises, the inner `Not`
re-raises (`r1`) — and then the outer one re-raises or selects (`r2`) — or selects, and the outer rejects -/
theorem not_not_sem (r r1 r2 : Bool) (s : Spec) (v : Item) :
    (∀ b, sem names r1 s v = .ok b → sem names r (.notI (.notI s r1) r2) v = .ok b) ∧
    (∀ e, sem names r1 s v = .raise e → sem names r (.notI (.notI s r1) r2) v =
      if r1 then (if r2 then .raise e else .ok true) else .ok false) := by
  constructor
  · intro b h
    rw [(not_sem names r r2 (.notI s r1) v).1 (!b) ((not_sem names r2 r1 s v).1 b h)]
    simp
  · intro e h
    have h1 := (not_sem names r2 r1 s v).2 e h
    cases r1
    · simp only [Bool.false_eq_true, if_false] at h1 ⊢
      rw [(not_sem names r r2 _ v).1 true h1]; rfl
    · simp only [if_true] at h1 ⊢
      exact (not_sem names r r2 _ v).2 e h1

example :
    let raising := Spec.fn (fun _ => .raise "Other:ZeroDivisionError")
    let v : Item := ⟨.int 1, none⟩
    (mkSelector true (.notI raising false)).map (fun o => call [] o v) = some (.ok true) ∧
    (mkSelector true (.notI raising true)).map (fun o => call [] o v) = some (.raise "Other:ZeroDivisionError") ∧
    (mkSelector true (.notI (.notI raising true) false)).map (fun o => call [] o v) = some (.ok true) ∧
    (mkSelector true (.notI (.notI raising false) true)).map (fun o => call [] o v) = some (.ok false) ∧
    (mkSelector true (.notI (.selI raising false) true)).map (fun o => call [] o v) = some (.ok true) := by
  decide

/-- **"Filter keeps exactly the selected values", for `fill_into`** — a flow filled value by value into an
element through `Filter.fill_into`: the element receives exactly the selected ones among the values before
the first one on which the selector raises, in order, after what it held before; that exception (not
converted: there is no generator) leaves `fill_into` -/
theorem fill_into_spec (o : Obj) : ∀ (vs el : List Item),
    fillIntoAll names o el vs =
      (el ++ (beforeError names o vs).filter (fun v => call names o v = .ok true), firstRaise names o vs)
  | [], el => by simp [fillIntoAll, beforeError, firstRaise]
  | v :: rest, el => by
    have ih := fill_into_spec o rest
    unfold beforeError at ih ⊢
    rw [fillIntoAll, fillIntoEl, firstRaise, List.takeWhile_cons]
    cases h : call names o v with
    | raise e => simp [Res.isOk]
    | ok b => cases b <;> simp [Res.isOk, ih, h]

example :
    (filterInit (.cls .int)).map (fun o =>
      let r := fillIntoAll [] o [] [⟨.int 3, none⟩, ⟨.str "s", none⟩, ⟨.bool true, none⟩]
      (r.1.map (·.data), r.2)) = some ([.int 3, .bool true], none) := by decide

/-! ### filters and `RunIf` inside a sequence -/

/-- **two `Filter`s in a `Sequence` are one `Filter` with the AND of the selectors** — including which
exception stops the flow and when -/
theorem filter_seq_eq_and (a b : Obj) (r : Bool) (vs : List Item) :
    filterSeqRun names a b vs = filterRun names (.andO [a, b] r) vs := by
  induction vs with
  | nil => rfl
  | cons v rest ih =>
    rw [filterSeqRun, filterRun, call, callAll, callAll, callAll]
    cases ha : call names a v with
    | raise e => simp [pep479, pep479e_idem]
    | ok ba =>
      cases ba with
      | false => simp [pep479, ih]
      | true =>
        cases hb : call names b v with
        | raise e => simp [pep479, pep479e_idem]
        | ok bb => cases bb <;> simp [pep479, ih]

/-- … and the second filter may as well be run on what the first one yields: an exception of the second
precedes the one that stopped the first -/
theorem filter_seq_eq_stages (a b : Obj) (vs : List Item) :
    filterSeqRun names a b vs =
      ((filterRun names b (filterRun names a vs).1).1,
        ((filterRun names b (filterRun names a vs).1).2).orElse (fun _ => (filterRun names a vs).2)) := by
  induction vs with
  | nil => rfl
  | cons v rest ih =>
    rw [filterSeqRun, filterRun]
    cases ha : call names a v with
    | raise e => rfl
    | ok ba =>
      cases ba with
      | false => simp only [ih]
      | true =>
        simp only []
        rw [filterRun]
        cases hb : call names b v with
        | raise e => rfl
        | ok bb => cases bb <;> simp only [ih]

/-- **`RunIf`**: up to the first value on which the selector raises, selected values are replaced by what
the sequence makes of them, the others pass unchanged, in order -/
theorem runif_spec (o : Obj) (seq : Item → List Item) (vs : List Item) :
    runIfRun names o seq vs =
      ((beforeError names o vs).flatMap (fun v => if call names o v = .ok true then seq v else [v]),
        firstError names o vs) := by
  induction vs with
  | nil => simp [runIfRun, beforeError, firstError]
  | cons v rest ih =>
    unfold beforeError at ih ⊢
    rw [runIfRun, firstError, List.takeWhile_cons]
    cases h : call names o v with
    | raise e => simp [Res.isOk]
    | ok b => cases b <;> simp [Res.isOk, ih, h]

example :
    (runIfInit (.cls .int)).map (fun o =>
      let r := runIfRun [] o (fun v => [v, v]) [⟨.int 3, none⟩, ⟨.str "s", none⟩]
      (r.1.map (·.data), r.2)) = some ([.int 3, .int 3, .str "s"], none) := by decide

end Sem

/-! ## Part 2 — include/exclude trees -/

/-- the recursion fuel of the model always suffices: `make_include_exclude_tree` and `GroupBy.__init__`
return a tree or raise `LenaValueError` (the outcome `fuel` does not occur) -/
theorem make_fuel_suffices :
    (∀ (I E : List Path) (d : Bool), (make (makeFuel I E) I E d).isFuel = false) ∧
    (∀ (names includes excludes : List String), (makeIncludeExcludeTree names includes excludes).isFuel = false) ∧
    (∀ (names : List String) (g m : StrOrTuple), (groupByInit names g m).isFuel = false) := by
  have h1 : ∀ (I E : List Path) (d : Bool), (make (makeFuel I E) I E d).isFuel = false :=
    fun I E d => make_not_fuel _ I E d (by unfold makeFuel; omega)
  have h2 : ∀ (names includes excludes : List String),
      (makeIncludeExcludeTree names includes excludes).isFuel = false := by
    intro names inc exc
    unfold makeIncludeExcludeTree
    simp only []
    split
    · rfl
    · split
      · exact h1 _ _ _
      · rfl
  refine ⟨h1, h2, ?_⟩
  intro names g m
  unfold groupByInit
  split <;> exact h2 _ _ _

/-- the recursive form of the rule is the rule: `sel` computes the polarity of the longest listed prefix -/
theorem sel_eq_polarity (I E : List Path) (d : Bool) : sel I E d = polarity I E d :=
  funext fun p => sel_eq_polarity' p I E d

theorem find?_prefixesDesc (f : Path → Bool) : ∀ (p q : Path), q ≠ [] → q <+: p → f q = true →
    (∀ q', q' ≠ [] → q' <+: p → f q' = true → q'.length ≤ q.length) → (prefixesDesc p).find? f = some q
  | [], q, hne, hp, _, _ => by
    rw [List.prefix_nil] at hp
    exact absurd hp hne
  | k :: p, q, hne, hp, hf, hmax => by
    cases q with
    | nil => exact absurd rfl hne
    | cons k' q0 =>
      rw [List.cons_prefix_cons] at hp
      obtain ⟨rfl, hp0⟩ := hp
      rw [prefixesDesc_cons, List.find?_append, List.find?_map]
      by_cases h0 : q0 = []
      · subst h0
        have hnone : (prefixesDesc p).find? (f ∘ fun x => k' :: x) = none := by
          rw [List.find?_eq_none]
          intro x hx
          rw [mem_prefixesDesc] at hx
          intro hfx
          have := hmax (k' :: x) (by simp) (by rw [List.cons_prefix_cons]; exact ⟨rfl, hx.2⟩) hfx
          have hx0 : 0 < x.length := List.length_pos_iff.2 hx.1
          simp only [List.length_cons, List.length_nil] at this
          omega
        simp [hnone, hf]
      · have ih := find?_prefixesDesc (f ∘ fun x => k' :: x) p q0 h0 hp0 hf (by
          intro q' hq' hpq' hfq'
          have := hmax (k' :: q') (by simp) (by rw [List.cons_prefix_cons]; exact ⟨rfl, hpq'⟩) hfq'
          simpa using this)
        simp [ih]

/-- **the rule, declaratively**: if `q` is the longest listed non-root prefix of `p`, the polarity of `p`
says whether `q` is an include entry; if no non-root prefix of `p` is listed, it is the polarity of the
root. -/
theorem polarity_spec (I E : List Path) (d : Bool) (p : Path) :
    (∀ q, IsLongestListed I E p q → polarity I E d p = decide (q ∈ I)) ∧
    ((∀ q, q ≠ [] → q <+: p → q ∉ I ∧ q ∉ E) → polarity I E d p = d) := by
  constructor
  · rintro q ⟨hne, hpre, hl, hmax⟩
    unfold polarity
    rw [find?_prefixesDesc _ p q hne hpre (by simpa using hl)
      (fun q' h1 h2 h3 => hmax q' h1 h2 (by simpa using h3))]
  · intro h
    unfold polarity
    have : (prefixesDesc p).find? (fun q => decide (q ∈ I ∨ q ∈ E)) = none := by
      rw [List.find?_eq_none]
      intro x hx
      rw [mem_prefixesDesc] at hx
      have := h x hx.1 hx.2
      simp [this.1, this.2]
    rw [this]

example : IsLongestListed [[0, 1]] [[0], [0, 1, 2]] [0, 1, 5] [0, 1] := by
  refine ⟨by simp, by simp, by simp, ?_⟩
  intro q' _ hp hl
  simp only [List.mem_cons, List.not_mem_nil, or_false] at hl
  rcases hl with rfl | rfl | rfl
  · simp
  · simp
  · simp at hp

/-- **"every key path whose longest prefix listed in group_by or merge is a group_by entry"** — for every
tree accepted by `_make_include_exclude_tree` (of any depth) from key sets that list no path twice,
`IncludeExcludeTree.get(context)` is the part of the context selected by the longest-prefix rule:
a scalar is kept iff the longest listed prefix of its path is an include entry, a dictionary iff
something below it is kept or that holds for its own path. -/
theorem iet_get_is_longest_prefix (f : Nat) (I E : List Path) (d : Bool) (T : Tree)
    (hd : Disjoint I E) (h : make f I E d = .ok T) (ctx : Slots) :
    getL T 0 ctx = keepL (polarity I E d) 0 ctx := by
  rw [← sel_eq_polarity]
  exact (make_spec f I E d T hd h).2.1 0 ctx

/-- the same for `make_include_exclude_tree(includes, excludes)` on tuples of dotted strings: the root `""`
is in exactly one of them and says what the default is -/
theorem make_include_exclude_tree_get (names includes excludes : List String) (T : Tree)
    (h : makeIncludeExcludeTree names includes excludes = .ok T)
    (_hk : KeysKnown names (includes ++ excludes)) :
    ∃ I E, splitKeys names includes = some I ∧ splitKeys names excludes = some E ∧
      (includes.contains "" ≠ excludes.contains "") ∧
      (Disjoint I E → ∀ ctx, getL T 0 ctx = keepL (polarity I E (includes.contains "")) 0 ctx) := by
  unfold makeIncludeExcludeTree at h
  simp only [] at h
  split at h
  · cases h
  · rename_i hroot
    split at h
    · rename_i I E hI hE
      refine ⟨I, E, hI, hE, ?_, fun hd ctx => iet_get_is_longest_prefix _ I E _ T hd h ctx⟩
      intro e; exact hroot (by rw [e]; simp)
    · cases h

/-- why the hypothesis `KeysKnown`: sub-keys missing from the alphabet all become one index, so the model
would accept `includes = ("", "x.b")`, `excludes = ("y",)` (the code raises `LenaValueError`: `x` is not within
an excluded key) — over an alphabet that lacks `x` and `y` the model is not a model of the code -/
example : (makeIncludeExcludeTree ["b"] ["", "x.b"] ["y"]).tree?.isSome = true ∧
    (makeIncludeExcludeTree ["b", "x", "y"] ["", "x.b"] ["y"]).isValueError = true := by decide

example : KeysKnown ["a", "b"] (["", "a.b"] ++ ["a"]) := by unfold KeysKnown; decide

/-- `GroupBy("a.b", "")`-like nesting: root and `a.b` included, `a` excluded; keys `a`=0, `b`=1 -/
example :
    (makeIncludeExcludeTree ["a", "b"] ["", "a.b"] ["a"]).tree?.map (fun T =>
        getL T 0 [some (.dict [some (.leaf (.int 1)), some (.leaf (.int 2))]), some (.leaf (.int 3))])
      = some [some (.dict [none, some (.leaf (.int 2))]), some (.leaf (.int 3))] := by decide

example : splitKeys ["a", "b"] ["", "a.b"] = some [[0, 1]] ∧ splitKeys ["a", "b"] ["a"] = some [[0]] := by decide

example : Disjoint [[0, 1]] [[0]] := by intro p h1 h2; simp at h1 h2; rw [h1] at h2; cases h2

example : keepL (polarity [[0, 1]] [[0]] true) 0 [some (.dict [some (.leaf (.int 1)), some (.leaf (.int 2))]),
    some (.leaf (.int 3))] = [some (.dict [none, some (.leaf (.int 2))]), some (.leaf (.int 3))] := by decide

/-- the hypothesis `Disjoint` is needed: with `a` listed in both sets the tree is accepted, and the code
lets the polarity opposite to the default win (here: excluded), whereas the rule as written reads a tie
as an include entry -/
example :
    (makeIncludeExcludeTree ["a"] ["", "a"] ["a"]).tree?.map (fun T => getL T 0 [some (.leaf (.int 1))])
      = some [none] ∧
    keepL (polarity [[0]] [[0]] true) 0 [some (.leaf (.int 1))] = [some (.leaf (.int 1))] := by decide

/-- **the selected part, path by path** — below the root, a scalar is found in `get(context)` at a path iff
it is found there in the context and the path is selected; and a path is present in `get(context)` iff it,
or some path below it that is present in the context, is selected. -/
theorem keep_leaf_paths (pol : Path → Bool) (ctx : Slots) (k : Nat) (p : Path) :
    (∀ a, atPath (.dict (keepL pol 0 ctx)) (k :: p) = some (.leaf a) ↔
      atPath (.dict ctx) (k :: p) = some (.leaf a) ∧ pol (k :: p) = true) ∧
    ((atPath (.dict (keepL pol 0 ctx)) (k :: p)).isSome = true ↔
      ∃ q, (atPath (.dict ctx) (k :: p ++ q)).isSome = true ∧ pol (k :: p ++ q) = true) := by
  rw [atPath_keepL]
  constructor
  · intro a
    cases hx : atPath (.dict ctx) (k :: p) with
    | none => simp
    | some x =>
      cases x with
      | leaf b =>
        simp only [Option.bind_some, keepV, List.append_nil]
        by_cases hp : pol (k :: p) = true <;> simp [hp]
      | dict l =>
        simp only [Option.bind_some, keepV]
        split <;> simp
  · cases hx : atPath (.dict ctx) (k :: p) with
    | none =>
      simp only [Option.bind_none, Option.isSome_none, Bool.false_eq_true, false_iff, not_exists, not_and]
      intro q hq
      rw [atPath_append, hx] at hq
      simp at hq
    | some x =>
      simp only [Option.bind_some]
      have hA := keepV_none_iff x (fun q => pol (k :: p ++ q))
      constructor
      · intro hs
        have hne : keepV (fun q => pol (k :: p ++ q)) x ≠ none := by
          intro e; rw [e] at hs; cases hs
        rw [Ne, hA] at hne
        simp only [Classical.not_forall, Bool.not_eq_false] at hne
        obtain ⟨q, hq, hpq⟩ := hne
        exact ⟨q, by rw [atPath_append, hx]; simpa using hq, hpq⟩
      · rintro ⟨q, hq, hpq⟩
        cases hk : keepV (fun q => pol (k :: p ++ q)) x with
        | some _ => rfl
        | none =>
          rw [atPath_append, hx] at hq
          have : pol (k :: p ++ q) = false := hA.1 hk q (by simpa using hq)
          rw [hpq] at this
          cases this

/-- **"two values share a group exactly when their contexts agree on every [selected] key path"**, at the
level of keys: two contexts (over the same key alphabet: every dictionary has `n` slots) have the same
selected part iff on every selected path the same thing is seen in both — nothing, the same scalar, or a
dictionary. -/
theorem same_key_iff_agree (n : Nat) (pol : Path → Bool) (c1 c2 : Slots)
    (h1 : WFV n (.dict c1)) (h2 : WFV n (.dict c2)) :
    keepL pol 0 c1 = keepL pol 0 c2 ↔ AgreeOn pol (.dict c1) (.dict c2) := by
  constructor
  · exact agree_of_keepL_eq
  · intro h
    rw [WFV_dict] at h1 h2
    apply keepL_congr n c1 c2 0 pol (by rw [h1.1, h2.1]) h1.2 h2.2
    intro j p hp
    simp only [Nat.zero_add] at hp
    simpa [seen, atPath_dict_cons] using h _ hp

/-- `{a: {b: 1, c: 5}}` and `{a: {b: 1, c: 6}}` under "`a.b` selected only": same key -/
example :
    let pol := polarity [[0, 1]] [] false
    keepL pol 0 [some (.dict [none, some (.leaf (.int 1)), some (.leaf (.int 5))]), none, none] =
      keepL pol 0 [some (.dict [none, some (.leaf (.int 1)), some (.leaf (.int 6))]), none, none] := by decide

example : WFV 3 (.dict [some (.dict [none, some (.leaf (.int 1)), some (.leaf (.int 5))]), none, none]) := by
  simp [WFV, WFL]

/-! ### all accepted key sets (overlaps included), rejected key sets, decided forms -/

theorem selC_eq_flipWalk : ∀ (p : Path) (I E : List Path) (d : Bool), selC I E d p = flipWalk I E d p
  | [], _, _, _ => rfl
  | k :: p, I, E, d => by
    rw [selC, selC_eq_flipWalk p]
    unfold flipWalk
    rw [prefixesAsc_cons, List.foldl_cons, foldl_flip_map I E k _ _ (fun q hq => ne_nil_of_mem_prefixesAsc hq)]

theorem selC_snoc : ∀ (pre : Path) (k : Nat) (I E : List Path) (d : Bool),
    selC I E d (pre ++ [k]) =
      if pre ++ [k] ∈ oppOf I E (selC I E d pre) then !selC I E d pre else selC I E d pre
  | [], k, I, E, d => rfl
  | a :: pre, k, I, E, d => by
    rw [List.cons_append, selC, selC, selC_snoc pre k]
    have : (pre ++ [k] ∈ oppOf (tailsNE a I) (tailsNE a E)
        (selC (tailsNE a I) (tailsNE a E) (if [a] ∈ oppOf I E d then !d else d) pre)) ↔
        (a :: (pre ++ [k]) ∈ oppOf I E
          (selC (tailsNE a I) (tailsNE a E) (if [a] ∈ oppOf I E d then !d else d) pre)) := by
      rw [oppOf_tails, mem_tailsNE]; simp
    by_cases h : pre ++ [k] ∈ oppOf (tailsNE a I) (tailsNE a E)
        (selC (tailsNE a I) (tailsNE a E) (if [a] ∈ oppOf I E d then !d else d) pre)
    · rw [if_pos h, if_pos (this.1 h)]
    · rw [if_neg h, if_neg (fun h' => h (this.2 h'))]

/-- with no path listed twice the code's rule is the longest-prefix rule -/
theorem selC_eq_sel_of_disjoint : ∀ (p : Path) (I E : List Path) (d : Bool), Disjoint I E →
    selC I E d p = sel I E d p
  | [], _, _, _, _ => rfl
  | k :: p, I, E, d, h => by
    rw [selC, sel, selC_eq_sel_of_disjoint p _ _ _ (disjoint_tails k I E h)]
    congr 1
    cases d
    · by_cases h1 : [k] ∈ I <;> simp [oppOf, h1]
    · by_cases h2 : [k] ∈ E
      · have h1 : [k] ∉ I := fun h1 => h [k] h1 h2
        simp [oppOf, h1, h2]
      · by_cases h1 : [k] ∈ I <;> simp [oppOf, h1, h2]

/-- **`make_include_exclude_tree` rejects exactly the improperly nested key sets** (`LenaValueError`), with or
without overlaps -/
theorem make_rejects_iff : ∀ (f : Nat) (I E : List Path) (d : Bool), max (depthOf I) (depthOf E) < f →
    (make f I E d = .valueError ↔ ∃ pre k, ExtraAt I E d pre k)
  | 0, _, _, _, h => by omega
  | f + 1, I, E, d, hf => by
    have hfuel : ∀ k ∈ heads (oppOf I E d), max (depthOf (tailsNE k I)) (depthOf (tailsNE k E)) < f := by
      intro k hk
      have h1 := depthOf_tailsNE k I
      have h2 := depthOf_tailsNE k E
      cases d
      · have hpos := depth_pos_of_head (show k ∈ heads I from hk); omega
      · have hpos := depth_pos_of_head (show k ∈ heads E from hk); omega
    have hopp : (if d = true then E else I) = oppOf I E d := rfl
    have hsame : (if d = true then I else E) = sameOf I E d := rfl
    rw [make_succ, hopp, hsame,
      makeStep_valueError_iff (g := fun k => make f (tailsNE k I) (tailsNE k E) (newIncl k (oppOf I E d) d))
        (fun k hk => make_not_fuel f _ _ _ (hfuel k hk))]
    constructor
    · rintro (⟨k, hks, hko⟩ | ⟨k, hk, hp, hg⟩)
      · refine ⟨[], k, ?_, ?_⟩
        · obtain ⟨t, ht⟩ := (mem_heads k _).1 hks
          exact ⟨t, by simpa [selC] using ht⟩
        · intro t ht
          exact hko ((mem_heads k _).2 ⟨t, by simpa [selC] using ht⟩)
      · rw [make_rejects_iff f _ _ _ (hfuel k hk)] at hg
        obtain ⟨pre, k', ⟨t, ht⟩, hno⟩ := hg
        refine ⟨k :: pre, k', ⟨t, ?_⟩, ?_⟩
        · rw [selC, ← newIncl_eq]
          rw [sameOf_tails, mem_tailsNE] at ht
          simpa using ht.2
        · intro t' ht'
          rw [selC, ← newIncl_eq] at ht'
          apply hno t'
          rw [oppOf_tails, mem_tailsNE]
          exact ⟨by simp, by simpa using ht'⟩
    · rintro ⟨pre, k', ⟨t, ht⟩, hno⟩
      cases pre with
      | nil =>
        left
        refine ⟨k', (mem_heads k' _).2 ⟨t, by simpa [selC] using ht⟩, ?_⟩
        intro hk
        obtain ⟨t', ht'⟩ := (mem_heads k' _).1 hk
        exact hno t' (by simpa [selC] using ht')
      | cons k pre =>
        by_cases hex : ∃ k, k ∈ heads (sameOf I E d) ∧ k ∉ heads (oppOf I E d)
        · exact Or.inl hex
        · right
          have hnex : ∀ x, x ∈ heads (sameOf I E d) → x ∈ heads (oppOf I E d) := by
            intro x hx
            cases Classical.em (x ∈ heads (oppOf I E d)) with
            | inl h => exact h
            | inr h => exact absurd ⟨x, hx, h⟩ hex
          rw [selC, ← newIncl_eq] at ht hno
          have hk_np : k ∈ heads (oppOf I E d) ∧ isProper k (oppOf I E d) (sameOf I E d) = false := by
            rcases mem_sameOf_or ht d with h | h
            · have hks : k ∈ heads (sameOf I E d) := (mem_heads k _).2 ⟨_, by simpa using h⟩
              refine ⟨hnex k hks, ?_⟩
              simp [isProper, hks]
            · refine ⟨(mem_heads k _).2 ⟨_, by simpa using h⟩, ?_⟩
              have hmt : (pre ++ k' :: t) ∈ tailsOf k (oppOf I E d) := (mem_tailsOf k _ _).2 (by simpa using h)
              have : tailsOf k (oppOf I E d) ≠ [[]] := by
                intro e
                rw [e] at hmt
                simp at hmt
              simp [isProper, this]
          refine ⟨k, hk_np.1, hk_np.2, ?_⟩
          rw [make_rejects_iff f _ _ _ (hfuel k hk_np.1)]
          refine ⟨pre, k', ⟨t, ?_⟩, ?_⟩
          · rw [sameOf_tails, mem_tailsNE]
            exact ⟨by simp, by simpa using ht⟩
          · intro t' ht'
            rw [oppOf_tails, mem_tailsNE] at ht'
            exact hno t' (by simpa using ht'.2)

theorem rejectsB_iff (I E : List Path) (d : Bool) : rejectsB I E d = true ↔ ∃ pre k, ExtraAt I E d pre k := by
  unfold rejectsB ExtraAt
  simp only [List.any_eq_true, List.mem_flatMap, List.mem_append, Bool.and_eq_true, Bool.not_eq_true',
    List.any_eq_false, List.isPrefixOf_iff_prefix]
  constructor
  · rintro ⟨q, ⟨p, _, hq⟩, ⟨p1, hp1, hpre1⟩, hno⟩
    rw [mem_prefixesAsc] at hq
    obtain ⟨pre, k, rfl⟩ : ∃ pre k, q = pre ++ [k] := by
      rcases List.eq_nil_or_concat q with h | ⟨l, a, h⟩
      · exact absurd h hq.1
      · exact ⟨l, a, by simpa using h⟩
    rw [List.dropLast_concat] at hp1 hno
    refine ⟨pre, k, ?_, ?_⟩
    · obtain ⟨t, rfl⟩ := (prefix_snoc_iff pre k p1).1 hpre1
      exact ⟨t, hp1⟩
    · intro t ht
      exact hno _ ht ((prefix_snoc_iff pre k _).2 ⟨t, rfl⟩)
  · rintro ⟨pre, k, ⟨t, ht⟩, hno⟩
    refine ⟨pre ++ [k], ⟨pre ++ k :: t, ?_, ?_⟩, ?_, ?_⟩
    · cases hc : selC I E d pre <;> simp [sameOf, hc] at ht <;> simp [ht]
    · rw [mem_prefixesAsc]
      exact ⟨by simp, (prefix_snoc_iff pre k _).2 ⟨t, rfl⟩⟩
    · rw [List.dropLast_concat]
      exact ⟨_, ht, (prefix_snoc_iff pre k _).2 ⟨t, rfl⟩⟩
    · rw [List.dropLast_concat]
      intro p hp hpre
      obtain ⟨t', rfl⟩ := (prefix_snoc_iff pre k p).1 hpre
      exact hno t' hp

theorem disjointB_iff (I E : List Path) : disjointB I E = true ↔ Disjoint I E := by
  unfold disjointB Disjoint
  simp only [List.all_eq_true, Bool.not_eq_true', List.contains_eq_mem, decide_eq_false_iff_not]

theorem agreeOnB_iff (pol : Path → Bool) (c1 c2 : Val) : agreeOnB pol c1 c2 = true ↔ AgreeOn pol c1 c2 := by
  unfold agreeOnB AgreeOn
  simp only [List.all_eq_true, List.mem_append, Bool.or_eq_true, Bool.not_eq_true', decide_eq_true_eq]
  constructor
  · intro h p hp
    by_cases h1 : p ∈ allPathsV c1
    · rcases h p (Or.inl h1) with h' | h'
      · rw [hp] at h'; cases h'
      · exact h'
    · by_cases h2 : p ∈ allPathsV c2
      · rcases h p (Or.inr h2) with h' | h'
        · rw [hp] at h'; cases h'
        · exact h'
      · rw [mem_allPathsV] at h1 h2
        have e1 : atPath c1 p = none := by cases h : atPath c1 p <;> simp_all
        have e2 : atPath c2 p = none := by cases h : atPath c2 p <;> simp_all
        simp [seen, e1, e2]
  · intro h p _
    cases hp : pol p with
    | false => exact Or.inl rfl
    | true => exact Or.inr (h p hp)

mutual
theorem wfV_iff (n : Nat) : ∀ v : Val, wfV n v = true ↔ WFV n v
  | .leaf _ => by simp [wfV, WFV]
  | .dict l => by simp [wfV, WFV_dict, wfL_iff n l]
theorem wfL_iff (n : Nat) : ∀ l : Slots, wfL n l = true ↔ WFL n l
  | [] => by simp [wfL, WFL]
  | none :: r => by rw [wfL, WFL_cons_none]; exact wfL_iff n r
  | some v :: r => by simp [wfL, WFL_cons_some, wfV_iff n v, wfL_iff n r]
end
/-- **`IncludeExcludeTree.get` for every accepted key set — no hypothesis** (paths listed in both
`group_by` and `merge` allowed): `get(context)` is the part of the context selected by the rule `selC`:
the polarity of a path is that of its parent (the root: where `""` is listed), flipped exactly when the
path is listed in the set opposite to the parent's polarity (`selC_snoc`).  With no path listed twice this
is the longest-prefix rule (`selC_eq_polarity_of_disjoint`). -/
theorem iet_get_general (f : Nat) (I E : List Path) (d : Bool) (T : Tree) (h : make f I E d = .ok T)
    (ctx : Slots) : getL T 0 ctx = keepL (selC I E d) 0 ctx :=
  (make_specC f I E d T h).2.1 0 ctx

theorem selC_eq_polarity_of_disjoint (I E : List Path) (d : Bool) (h : Disjoint I E) :
    selC I E d = polarity I E d := by
  funext p
  rw [selC_eq_sel_of_disjoint p I E d h, sel_eq_polarity]

/-- **the exact rule for an overlap**: a path listed in both sets takes the polarity opposite to its
parent's — the entry of the set opposite to the enclosing default wins — whereas a path listed in one set
only takes that set's polarity -/
theorem overlap_rule (I E : List Path) (d : Bool) (pre : Path) (k : Nat) :
    (pre ++ [k] ∈ I → pre ++ [k] ∈ E → selC I E d (pre ++ [k]) = !selC I E d pre) ∧
    (pre ++ [k] ∈ I → pre ++ [k] ∉ E → selC I E d (pre ++ [k]) = true) ∧
    (pre ++ [k] ∉ I → pre ++ [k] ∈ E → selC I E d (pre ++ [k]) = false) ∧
    (pre ++ [k] ∉ I → pre ++ [k] ∉ E → selC I E d (pre ++ [k]) = selC I E d pre) := by
  rw [selC_snoc]
  cases selC I E d pre <;> simp [oppOf] <;> intros <;> simp_all

/-- accepted = properly nested: with enough fuel `make` returns a tree iff no key path is improperly
nested -/
theorem make_accepts_iff (f : Nat) (I E : List Path) (d : Bool) (hf : max (depthOf I) (depthOf E) < f) :
    (∃ T, make f I E d = .ok T) ↔ ¬ ∃ pre k, ExtraAt I E d pre k := by
  rw [← make_rejects_iff f I E d hf]
  have hnf := make_not_fuel f I E d hf
  cases h : make f I E d with
  | ok T => simp
  | valueError => simp
  | fuel => simp [h, Made.isFuel] at hnf

/-- `make_include_exclude_tree(includes, excludes)` raises `LenaValueError` exactly when the root `""` is
not in exactly one of the two, or some key has an empty sub-key, or the key sets are improperly nested -/
theorem make_include_exclude_tree_rejects_iff (names includes excludes : List String)
    (_hk : KeysKnown names (includes ++ excludes)) :
    makeIncludeExcludeTree names includes excludes = .valueError ↔
      (includes.contains "" = excludes.contains "") ∨
      splitKeys names includes = none ∨ splitKeys names excludes = none ∨
      ∃ I E, splitKeys names includes = some I ∧ splitKeys names excludes = some E ∧
        rejectsB I E (includes.contains "") = true := by
  unfold makeIncludeExcludeTree
  simp only []
  by_cases hroot : (includes.contains "" == excludes.contains "") = true
  · rw [if_pos hroot]
    simp only [true_iff]
    exact Or.inl (by simpa using hroot)
  · rw [if_neg hroot]
    have hroot' : ¬ (includes.contains "" = excludes.contains "") := by simpa using hroot
    cases hI : splitKeys names includes with
    | none => simp
    | some I =>
      cases hE : splitKeys names excludes with
      | none => simp
      | some E =>
        simp only [rejectsB_iff, hroot', false_or, reduceCtorEq, Option.some.injEq, exists_and_left,
          exists_eq_left']
        exact make_rejects_iff _ I E _ (by unfold makeFuel; omega)

/-- `a.b` in `group_by` with the root in `group_by` too: `a.b` is within nothing of `merge` — rejected -/
example : rejectsB [[0, 1]] [] true = true := by decide
example : ExtraAt [[0, 1]] [] true [] 0 := ⟨⟨[1], by simp [selC, sameOf]⟩, by simp [selC, oppOf]⟩
/-- … whereas within `a` of `merge` it is accepted -/
example : rejectsB [[0, 1]] [[0]] true = false := by decide
/-- an accepted overlap: `a` in both sets, root in `group_by`: `a` is excluded -/
example : rejectsB [[0]] [[0]] true = false ∧ selC [[0]] [[0]] true [0] = false ∧
    polarity [[0]] [[0]] true [0] = true := by decide

/-- `_startswith(s1, s2)` is "`s1` is a prefix of `s2`" -/
theorem startsWith_iff : ∀ (s1 s2 : List String), startsWith s1 s2 = true ↔ s1 <+: s2
  | [], s2 => by simp [startsWith]
  | a :: r, [] => by simp [startsWith]
  | a :: r1, b :: r2 => by
    rw [startsWith, List.cons_prefix_cons]
    by_cases h : b = a
    · subst h; simp [startsWith_iff r1 r2]
    · have : ¬ a = b := fun e => h e.symm
      simp [h, this]

/-! ## Part 3 — `GroupBy` -/

/-- a value without context has the empty context, which is well formed -/
theorem Item.wf_bare (n : Nat) (d : Data) : Item.WF n ⟨d, none⟩ := by
  simp [Item.WF, Item.context, WFV_dict, wfl_replicate]

/-- **"GroupBy partitions the filled values, preserving arrival order inside a group"** — after filling
`vs` into a fresh `GroupBy`, `compute()` yields, for every distinct group key in the order of first
arrival, the values with that key in arrival order.  Hence: every group is a non-empty sub-sequence of
the flow, every value is in the group of its key, two values are in the same group iff they have the same
key, and `reset()` empties the element. -/
theorem groupby_partition (w : Nat) (t : Tree) (vs : List Item) :
    let key := groupKey w t
    let groups := gbCompute (vs.foldl (gbFill w t) [])
    groups = ((vs.map key).eraseDups).map (fun k => vs.filter (fun v => key v = k)) ∧
    (∀ g ∈ groups, g ≠ [] ∧ g.Sublist vs) ∧
    (∀ v ∈ vs, vs.filter (fun v' => key v' = key v) ∈ groups) ∧
    (∀ g ∈ groups, ∀ v1 ∈ g, ∀ v2 ∈ vs, (v2 ∈ g ↔ key v2 = key v1)) ∧
    gbCompute (gbReset (vs.foldl (gbFill w t) [])) = [] := by
  intro key groups
  have hfold : vs.foldl (gbFill w t) [] = groupsOf key vs := by
    have h0 : vs.foldl (gbFill w t) (groupsOf key []) = groupsOf key ([] ++ vs) := foldl_groupsOf key vs []
    simpa [groupsOf] using h0
  have hg : groups = ((vs.map key).eraseDups).map (fun k => vs.filter (fun v => key v = k)) := by
    simp only [groups, hfold, gbCompute, groupsOf, List.map_map]
    rfl
  have hmem : ∀ g, g ∈ groups ↔ ∃ v ∈ vs, g = vs.filter (fun v' => key v' = key v) := by
    intro g
    rw [hg]
    simp only [List.mem_map, List.mem_eraseDups]
    constructor
    · rintro ⟨k, ⟨v, hv, rfl⟩, rfl⟩; exact ⟨v, hv, rfl⟩
    · rintro ⟨v, hv, rfl⟩; exact ⟨key v, ⟨v, hv, rfl⟩, rfl⟩
  refine ⟨hg, ?_, ?_, ?_, rfl⟩
  · intro g hgm
    obtain ⟨v, hv, rfl⟩ := (hmem g).1 hgm
    refine ⟨?_, List.filter_sublist⟩
    intro e
    have : v ∈ vs.filter (fun v' => key v' = key v) := by simp [hv]
    rw [e] at this; cases this
  · intro v hv
    exact (hmem _).2 ⟨v, hv, rfl⟩
  · intro g hgm v1 h1 v2 h2
    obtain ⟨v, hv, rfl⟩ := (hmem g).1 hgm
    simp only [List.mem_filter, decide_eq_true_eq] at h1 ⊢
    rw [h1.2]
    exact ⟨fun h => h.2, fun h => ⟨h2, h⟩⟩

/-- **"GroupBy partitions the filled values"**: the groups, concatenated, are a permutation of the flow —
every filled value is in exactly one group, as many times as it was filled -/
theorem groupby_groups_perm (w : Nat) (t : Tree) (vs : List Item) :
    ((gbCompute (vs.foldl (gbFill w t) [])).flatten).Perm vs := by
  rw [(groupby_partition w t vs).1]
  refine (flatten_filters_perm (groupKey w t) vs _ (nodup_eraseDups _)).trans ?_
  apply List.Perm.of_eq
  rw [List.filter_eq_self]
  intro v hv
  simp only [List.mem_eraseDups, decide_eq_true_eq]
  exact List.mem_map.2 ⟨v, hv, rfl⟩

/-- equal values are different values of the flow (each is kept, in its place), and no order of the data matters:
a flow with data `3, 1, 3, 2, 3` and contexts `near, far, near, near, far` gives `[3, 3, 2]` and `[1, 3]` -/
example :
    let t : Tree := .node false [0] []          -- GroupBy("a", "")
    let near : Option Slots := some [some (.leaf (.str "near"))]
    let far : Option Slots := some [some (.leaf (.str "far"))]
    (gbCompute ([⟨.int 3, near⟩, ⟨.int 1, far⟩, ⟨.int 3, near⟩, ⟨.int 2, near⟩, ⟨.int 3, far⟩].foldl (gbFill 1 t) [])).map
      (List.map (fun v => v.data)) = [[.int 3, .int 3, .int 2], [.int 1, .int 3]] := by decide

/-- another value with the same context -/
def Item.withData (f : Data → Data) (v : Item) : Item := { v with data := f v.data }

/-- **"GroupBy partitions … by the selected context"** — the data of the values plays no role: the group key of a
value is computed from its context alone (a value without context has the empty context, whatever its data is —
a number, a string, a pair), and replacing the data of every value of a flow (by any function) yields the same
groups, of the replaced values -/
theorem groupby_ignores_data (w : Nat) (t : Tree) (f : Data → Data) (vs : List Item) :
    (∀ v, groupKey w t (v.withData f) = groupKey w t v) ∧
    (∀ d d' : Data, groupKey w t ⟨d, none⟩ = groupKey w t ⟨d', none⟩) ∧
    gbCompute ((vs.map (Item.withData f)).foldl (gbFill w t) []) =
      (gbCompute (vs.foldl (gbFill w t) [])).map (List.map (Item.withData f)) := by
  have hk : ∀ v, groupKey w t (v.withData f) = groupKey w t v := fun _ => rfl
  refine ⟨hk, fun _ _ => rfl, ?_⟩
  rw [(groupby_partition w t (vs.map (Item.withData f))).1, (groupby_partition w t vs).1]
  have hm : (vs.map (Item.withData f)).map (groupKey w t) = vs.map (groupKey w t) := by
    rw [List.map_map]; exact List.map_congr_left (fun v _ => hk v)
  rw [hm, List.map_map]
  apply List.map_congr_left
  intro k _
  simp only [Function.comp, List.filter_map]
  congr 1

example :
    let t : Tree := .node false [0] []          -- GroupBy("a", "")
    gbCompute ([⟨.tuple, none⟩, ⟨.tuple, some [some (.leaf (.int 1))]⟩, ⟨.str "s", none⟩].foldl (gbFill 1 t) [])
      = [[⟨.tuple, none⟩, ⟨.str "s", none⟩], [⟨.tuple, some [some (.leaf (.int 1))]⟩]] := by decide

/-- **the documented default**: `GroupBy()` (`group_by=""`, `merge=""`) is accepted and puts all filled values
(with contexts over the key alphabet) into one group, in arrival order -/
theorem groupby_default_one_group (names : List String) (vs : List Item) (hne : vs ≠ [])
    (hw : ∀ v ∈ vs, v.WF names.length) :
    ∃ T, groupByInit names (.str "") (.str "") = .ok T ∧
      gbCompute (vs.foldl (gbFill names.length T) []) = [vs] := by
  refine ⟨.node false [] [], by rfl, ?_⟩
  rw [(groupby_partition names.length _ vs).1]
  have hkey : ∀ v ∈ vs, groupKey names.length (.node false [] []) v = List.replicate names.length none := by
    intro v hv
    have := hw v hv
    rw [Item.WF, WFV_dict] at this
    rw [groupKey, getL_exclude_all, this.1]
  have hmap : vs.map (groupKey names.length (.node false [] [])) = List.replicate vs.length (List.replicate names.length none) := by
    rw [List.eq_replicate_iff]
    refine ⟨by simp, ?_⟩
    intro k hk
    obtain ⟨v, hv, rfl⟩ := List.mem_map.1 hk
    exact hkey v hv
  obtain ⟨n, hn⟩ : ∃ n, vs.length = n + 1 := by
    cases vs with
    | nil => exact absurd rfl hne
    | cons a t => exact ⟨t.length, rfl⟩
  rw [hmap, hn, eraseDups_replicate]
  simp only [List.map_cons, List.map_nil, List.cons.injEq, and_true]
  rw [List.filter_eq_self]
  intro v hv
  simp [hkey v hv]

example : Item.WF 2 ⟨.int 0, none⟩ ∧ Item.WF 2 ⟨.int 1, some [some (.leaf (.int 5)), none]⟩ :=
  ⟨Item.wf_bare 2 _, by simp [Item.WF, Item.context, WFV, WFL]⟩

theorem groupByInit_eq (names : List String) (g m : StrOrTuple) :
    groupByInit names g m = makeIncludeExcludeTree names (gbArgs g m).1 (gbArgs g m).2 := by
  unfold groupByInit gbArgs
  split <;> rfl

/-- **the property's last sentence, end to end** — for `GroupBy(group_by, merge)` accepted at construction,
`I`, `E` the key paths listed in `group_by`, `merge` (the root `""` apart), no key path listed in both: two
values (with contexts over the key alphabet `names`) have the same group key — i.e., by
`groupby_partition`, share a group — exactly when their contexts agree on every key path whose longest
prefix listed in `group_by` or `merge` is a `group_by` entry. -/
theorem groupby_share_iff_agree (names : List String) (g m : StrOrTuple) (T : Tree) (I E : List Path)
    (h : groupByInit names g m = .ok T)
    (hI : splitKeys names (gbArgs g m).1 = some I) (hE : splitKeys names (gbArgs g m).2 = some E)
    (hk : KeysKnown names ((gbArgs g m).1 ++ (gbArgs g m).2))
    (hd : Disjoint I E) (v1 v2 : Item) (w1 : v1.WF names.length) (w2 : v2.WF names.length) :
    groupKey names.length T v1 = groupKey names.length T v2 ↔
      AgreeOn (polarity I E ((gbArgs g m).1.contains "")) (.dict (v1.context names.length))
        (.dict (v2.context names.length)) := by
  rw [groupByInit_eq] at h
  obtain ⟨I', E', hI', hE', _, hget⟩ := make_include_exclude_tree_get names _ _ T h hk
  rw [hI] at hI'; rw [hE] at hE'
  cases hI'; cases hE'
  unfold groupKey
  rw [hget hd, hget hd]
  exact same_key_iff_agree names.length _ _ _ w1 w2

/-- **the property's GroupBy sentence in one statement about what `compute()` yields**: for
`GroupBy(group_by, merge)` accepted at construction, `I`, `E` the key paths listed in `group_by`, `merge`, no
path listed in both, and a flow of values with contexts over the key alphabet: a value of the flow is in the
same yielded group as another one exactly when their contexts agree on every key path whose longest prefix
listed in `group_by` or `merge` is a `group_by` entry -/
theorem groupby_groups_iff_agree (names : List String) (g m : StrOrTuple) (T : Tree) (I E : List Path)
    (h : groupByInit names g m = .ok T)
    (hI : splitKeys names (gbArgs g m).1 = some I) (hE : splitKeys names (gbArgs g m).2 = some E)
    (hk : KeysKnown names ((gbArgs g m).1 ++ (gbArgs g m).2))
    (hd : Disjoint I E) (vs : List Item) (hw : ∀ v ∈ vs, v.WF names.length) :
    ∀ grp ∈ gbCompute (vs.foldl (gbFill names.length T) []), ∀ v1 ∈ grp, ∀ v2 ∈ vs,
      (v2 ∈ grp ↔ AgreeOn (polarity I E ((gbArgs g m).1.contains "")) (.dict (v1.context names.length))
        (.dict (v2.context names.length))) := by
  intro grp hg v1 h1 v2 h2
  have hsub : grp.Sublist vs := ((groupby_partition names.length T vs).2.1 grp hg).2
  have h1' : v1 ∈ vs := hsub.subset h1
  rw [(groupby_partition names.length T vs).2.2.2.1 grp hg v1 h1 v2 h2,
    groupby_share_iff_agree names g m T I E h hI hE hk hd v2 v1 (hw v2 h2) (hw v1 h1')]
  constructor
  · intro ha p hp; exact (ha p hp).symm
  · intro ha p hp; exact (ha p hp).symm

/-- `GroupBy("a.b", "")` over the keys `a`, `b`: accepted; `I = [a.b]`, `E = []`, root in `merge` -/
example : groupByInit ["a", "b"] (.str "a.b") (.str "") = .ok (.node false [] [(0, .node false [1] [])]) := by rfl

example : splitKeys ["a", "b"] (gbArgs (.str "a.b") (.str "")).1 = some [[0, 1]] ∧
    splitKeys ["a", "b"] (gbArgs (.str "a.b") (.str "")).2 = some [] ∧
    (gbArgs (.str "a.b") (.str "")).1.contains "" = false := by decide

/-- `GroupBy("a.b", "")`-like: five values; keys 1, 2, 1, none, 2 -/
example :
    let t : Tree := .node false [] [(0, .node false [1] [])]
    let c (i : Int) : Option Slots := some [some (.dict [none, some (.leaf (.int i))]), none]
    (gbCompute ([⟨.int 0, c 1⟩, ⟨.int 1, c 2⟩, ⟨.int 2, c 1⟩, ⟨.int 3, none⟩, ⟨.int 4, c 2⟩].foldl
      (gbFill 2 t) [])).map (·.map (·.data)) = [[.int 0, .int 2], [.int 1, .int 4], [.int 3]] := by decide

/-! ### `fill` errors, argument types, the deprecated `_GroupBy` -/

/-- **`GroupBy.fill` raises `LenaValueError` ("could not format context") exactly when an object that
`json.dumps` cannot encode sits at a *selected* key path** — such objects under merged keys do no harm
("consider ignoring some keys in merge"); the groups are then unchanged, otherwise `fill` does what
`groupby_partition` describes -/
theorem groupby_fill_raises_iff (f : Nat) (I E : List Path) (d : Bool) (T : Tree) (h : make f I E d = .ok T)
    (w : Nat) (gs : Groups) (v : Item) :
    (gbFillR w T gs v = .error "LenaValueError" ↔
      ∃ k p s, atPath (.dict (v.context w)) (k :: p) = some (.leaf (.obj s)) ∧ selC I E d (k :: p) = true) ∧
    (gbFillR w T gs v ≠ .error "LenaValueError" → gbFillR w T gs v = .ok (gbFill w T gs v)) := by
  have hkey : groupKey w T v = keepL (selC I E d) 0 (v.context w) := iet_get_general f I E d T h _
  have hiff : hasObjL (groupKey w T v) = true ↔
      ∃ k p s, atPath (.dict (v.context w)) (k :: p) = some (.leaf (.obj s)) ∧ selC I E d (k :: p) = true := by
    rw [hkey, hasObjL_iff]
    constructor
    · rintro ⟨j, x, hx, p, s, hp⟩
      refine ⟨j, p, s, ?_⟩
      rw [← (keep_leaf_paths (selC I E d) (v.context w) j p).1 (.obj s)]
      simp [atPath_dict_cons, hx, hp]
    · rintro ⟨k, p, s, hp⟩
      have := ((keep_leaf_paths (selC I E d) (v.context w) k p).1 (.obj s)).2 hp
      rw [atPath_dict_cons] at this
      cases hx : slotGet (keepL (selC I E d) 0 (v.context w)) k with
      | none => simp [hx] at this
      | some x => exact ⟨k, x, hx, p, s, by simpa [hx] using this⟩
  unfold gbFillR
  by_cases hh : hasObjL (groupKey w T v) = true
  · rw [if_pos hh]
    exact ⟨⟨fun _ => hiff.1 hh, fun _ => rfl⟩, fun hne => absurd rfl hne⟩
  · rw [if_neg hh]
    exact ⟨⟨fun he => (by cases he), fun hx => absurd (hiff.2 hx) hh⟩, fun _ => rfl⟩

/-- an object under a merged key does not disturb; under a grouped key `fill` raises -/
example :
    let t : Tree := .node false [0] []          -- GroupBy("a", "")
    (gbFillR 2 t [] ⟨.int 0, some [some (.leaf (.int 1)), some (.leaf (.obj "U"))]⟩).toOption.isSome = true ∧
    (gbFillR 2 t [] ⟨.int 0, some [some (.leaf (.obj "U")), none]⟩).toOption.isSome = false := by decide

/-- `GroupBy.fill` over a whole flow, the caller going on after a `LenaValueError`: the groups are the
reference partition of the values whose selected part `to_string` can encode -/
theorem groupby_skip_partition (w : Nat) (t : Tree) : ∀ (vs pre : List Item),
    gbFillSkip w t (groupsOf (groupKey w t) pre) vs =
      groupsOf (groupKey w t) (pre ++ vs.filter (fun v => !hasObjL (groupKey w t v)))
  | [], pre => by simp [gbFillSkip]
  | v :: vs, pre => by
    rw [gbFillSkip, gbFillR]
    by_cases h : hasObjL (groupKey w t v) = true
    · simp only [h, if_true]
      rw [groupby_skip_partition w t vs pre]
      simp [h]
    · simp only [h, if_false, Bool.false_eq_true]
      rw [gbFill, groupsAdd_groupsOf, groupby_skip_partition w t vs (pre ++ [v])]
      simp [h]

/-- `GroupBy.__init__` raises `LenaTypeError` exactly when `group_by` or `merge` is not a string or a
container (a callable, a number, `None`): `group_by` "is no longer a function" -/
theorem groupby_init_type_error (names : List String) (g m : GbArg) :
    groupByInitAny names g m = .typeError ↔ g = .notIterable ∨ m = .notIterable := by
  cases g <;> cases m <;> simp [groupByInitAny]

/-- **the deprecated `_GroupBy` partitions by the value of its callable(s)**: when the key function succeeds
on every value of the flow, the groups are the reference partition by that key (distinct keys in the order of
first arrival, arrival order inside a group); otherwise the exception of the first failing value leaves
`fill` (`LenaValueError` for a `LenaKeyError` of a single callable, or when every component of a tuple
gives a false key) -/
theorem old_groupby_partition (g : OldGb) (key : Item → List Leaf) : ∀ (vs pre : List Item),
    (∀ v ∈ vs, oldKey g v = .ok (key v)) →
    oldFillAll g (groupsOfG key pre) vs = .ok (groupsOfG key (pre ++ vs))
  | [], pre, _ => by simp [oldFillAll]
  | v :: vs, pre, h => by
    rw [oldFillAll, oldFill, h v (by simp)]
    simp only []
    rw [groupsAddG_groupsOfG, old_groupby_partition g key vs (pre ++ [v]) (fun w hw => h w (by simp [hw]))]
    simp

theorem old_groupby_first_error (g : OldGb) (key : Item → List Leaf) (e : String) :
    ∀ (vs : List Item) (v : Item) (rest : List Item) (gs : OldGroups),
      (∀ w ∈ vs, oldKey g w = .ok (key w)) → oldKey g v = .error e →
      oldFillAll g gs (vs ++ v :: rest) = .error e
  | [], v, rest, gs, _, hv => by simp [oldFillAll, oldFill, hv]
  | w :: vs, v, rest, gs, h, hv => by
    rw [List.cons_append, oldFillAll, oldFill, h w (by simp)]
    simp only []
    exact old_groupby_first_error g key e vs v rest _ (fun x hx => h x (by simp [hx])) hv

/-- a tuple of two callables: `(name or LenaKeyError, parity)`; `0` fails (both keys false) -/
example :
    let g := OldGb.tuple [(fun v => match v.data with | .int 1 => .ok (.str "one") | _ => .keyError),
                          (fun v => match v.data with | .int i => .ok (.int (i % 2)) | _ => .raise "Other:TypeError")]
    (oldFillAll g [] [⟨.int 1, none⟩, ⟨.int 3, none⟩, ⟨.int 5, none⟩]).toOption.map (·.map (fun kv => (kv.1, kv.2.map (·.data))))
      = some [([.str "one", .int 1], [.int 1]), ([.str "", .int 1], [.int 3, .int 5])] ∧
    (oldFillAll g [] [⟨.int 1, none⟩, ⟨.int 2, none⟩]).toOption.isSome = false := by decide

end Lena.C15
