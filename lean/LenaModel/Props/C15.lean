import LenaModel.Model.C15
